// C06 driver: drives ONE real muduo::net::EventLoop + its real TimerQueue op by op on the
// thread that owns the loop; loop() is never run.  Time is virtual (--wrap=gettimeofday),
// the timerfd is simulated on top of the real descriptor (--wrap=timerfd_settime records
// every (re)arm and keeps the kernel's verdict, --wrap=read answers reads of the timerfd
// from the simulated arm state), so a case is a deterministic function of its op list.
//
// Case format (whitespace separated tokens, one op per line):
//   case <id> <clk0>          new case, virtual clock = clk0 (us)
//   addr <tag> <n>            ignored here (model side only)
//   T <d>                     clock += d (d < 0: rejected)
//   A <tag> <when> <iv>       add on the loop thread (when = absolute deadline us, iv = interval us, 0 = one-shot;
//                             iv = "<n>ns": the interval is the double n/1e9 seconds -- not a whole number of
//                             microseconds, or below one: what Timer::restart/addTime make of it is under test)
//   C <tag>                   cancel on the loop thread (unknown tag: cancel(TimerId()))
//   FA <tag> <when> <iv>      add from a foreign (helper) thread, joined before the op returns
//   FC <tag>                  cancel from a foreign thread, joined
//   FN <tag> <when> <iv>      foreign add, first micro-steps only: a helper thread calls the add and is parked
//                             at the pthread_mutex_lock of EventLoop::queueInLoop, i.e. after `new Timer` and
//                             the read of its sequence, before the hand-off (--wrap=pthread_mutex_lock)
//   FQ <tag>                  lets that helper go on: queueInLoop(addTimerInLoop) + wakeup, returns the id
//                             (event badid(ret,own) if the returned id does not carry the timer's sequence)
//   Q { cbop | cbop ... }     the loop thread queues a user functor (EventLoop::queueInLoop) that performs the
//                             cbops (T/A/C/FA/FC/FN/FQ) when doPendingFunctors runs it; a cancel inside names the id
//                             the tag had when the functor was queued
//   P                         EventLoop::doPendingFunctors()
//   F [ cbop , cbop ; cbop ; ... ]   TimerQueue::handleRead(); i-th group = what the i-th callback
//                             of this batch executes (cbop = T/A/C/FA/FC as above)
//   end                       "destroy n=<timers_.size()>", delete the loop, "end"
// One result line per top-level op:
//   ok|rejected <events|-> | n=<timers_> a=<activeTimers_> c=<cancelingTimers_> p=<pendingFunctors_> arm=<abs|->
// events: add(seq) arm(at,rel) run(seq,dl,now,t) rejected; side channel lines "@addr <tag> <ptr>".
#include <errno.h>
#include <pthread.h>
#include <stdint.h>
#include <semaphore.h>
#include <sys/time.h>
#include <sys/timerfd.h>
#include <sys/types.h>
#include <unistd.h>
#include <assert.h>

#include <algorithm>
#include <atomic>
#include <functional>
#include <iosfwd>
#include <iostream>
#include <map>
#include <memory>
#include <set>
#include <string>
#include <thread>
#include <vector>

#include <boost/any.hpp>
#include <boost/operators.hpp>

#include "common.h"

#define private public
#define protected public
#include "muduo/net/EventLoop.h"
#include "muduo/net/TimerQueue.h"
#include "muduo/net/Timer.h"
#include "muduo/net/TimerId.h"
#include "muduo/base/Logging.h"
#include "muduo/base/Timestamp.h"
#undef private
#undef protected

using namespace muduo;
using namespace muduo::net;
using std::string;

// ------------------------------------------------------------------ state of the current case
static int64_t g_clk = 0;              // virtual wall clock, microseconds
static EventLoop* g_loop = NULL;
static int g_tfd = -1;                 // timerfd_ of the current case's TimerQueue (-1: none)
static bool g_armed = false;           // simulated timerfd
static int64_t g_armedAbs = 0;
static int64_t g_armAt = 0;
static int64_t g_base = 0;             // Timer::numCreated() at case start
static std::vector<string> g_events;   // events of the current top-level op

static std::map<int, TimerId> g_ids;   // tag -> id of the latest timer created under that tag
static std::map<int, bool> g_created;
static std::vector<TimerId> g_slots;   // one slot per add; a callback is bound to its slot

typedef std::vector<string> CbOp;
static std::vector<std::vector<CbOp> > g_script;   // per batch position: the cbops of that callback
static size_t g_batchPos = 0;
static int64_t g_fnow = 0;             // clock when the current F op started

static void ev(const string& s) { g_events.push_back(s); }
static string i64(int64_t v) { return std::to_string(static_cast<long long>(v)); }
static int64_t num(const string& s) { return static_cast<int64_t>(strtoll(s.c_str(), NULL, 10)); }

// ------------------------------------------------------------------ interposition
// a foreign add parked between its two micro-steps
struct Parked
{
  std::thread th;
  sem_t reached, go;
  TimerId id;
  int slot;
  int64_t ownSeq;      // sequence of the Timer it constructed (relative to g_base)
};
static std::map<int, Parked*> g_parked;            // tag -> helper
static thread_local Parked* t_park = NULL;         // set in a helper that has to park at the hand-off
static pthread_mutex_t* g_loopMutex = NULL;        // &g_loop->mutex_.mutex_

extern "C" {
int __real_pthread_mutex_lock(pthread_mutex_t* m);
int __wrap_pthread_mutex_lock(pthread_mutex_t* m)
{
  if (t_park != NULL && m == g_loopMutex)
  {
    Parked* p = t_park;
    t_park = NULL;                 // park once
    sem_post(&p->reached);
    while (sem_wait(&p->go) != 0 && errno == EINTR) {}
  }
  return __real_pthread_mutex_lock(m);
}
int __real_timerfd_settime(int fd, int flags, const struct itimerspec* nv, struct itimerspec* ov);
ssize_t __real_read(int fd, void* buf, size_t n);

int __wrap_gettimeofday(struct timeval* tv, void* tz)
{
  (void)tz;
  if (tv != NULL)
  {
    tv->tv_sec = static_cast<time_t>(g_clk / 1000000);
    tv->tv_usec = static_cast<suseconds_t>(g_clk % 1000000);
  }
  return 0;
}

int __wrap_timerfd_settime(int fd, int flags, const struct itimerspec* nv, struct itimerspec* ov)
{
  int ret = __real_timerfd_settime(fd, flags, nv, ov);
  int saved = errno;
  if (g_tfd >= 0 && fd == g_tfd && nv != NULL)
  {
    int64_t rel = static_cast<int64_t>(nv->it_value.tv_sec) * 1000000
                  + static_cast<int64_t>(nv->it_value.tv_nsec) / 1000;
    ev("arm(" + i64(g_clk) + "," + i64(rel) + ")");
    if (ret == 0)
    {
      if (rel == 0) g_armed = false;
      else { g_armed = true; g_armedAbs = g_clk + rel; g_armAt = g_clk; }
    }
  }
  errno = saved;
  return ret;
}

ssize_t __wrap_read(int fd, void* buf, size_t n)
{
  if (g_tfd >= 0 && fd == g_tfd)
  {
    if (g_armed && g_armedAbs <= g_clk && n >= sizeof(uint64_t))
    {
      g_armed = false;
      uint64_t one = 1;
      memcpy(buf, &one, sizeof one);
      return static_cast<ssize_t>(sizeof one);
    }
    errno = EAGAIN;
    return -1;
  }
  return __real_read(fd, buf, n);
}
}  // extern "C"

static void noOutput(const char*, int) {}
static void noFlush() {}

// ------------------------------------------------------------------ ops
static void onTimer(int slot);

static void onHelper(const std::function<void()>& f)
{
  std::thread t(f);
  t.join();
}

// largest magnitude for which the double -> int64 conversions below are defined
static bool convertible(double x) { return x > -9.0e18 && x < 9.0e18; }

// interval token: microseconds, or "<n>ns" = n/1e9 seconds as a double
struct Iv { int64_t us; double sec; bool ns; };
static Iv parseIv(const string& t)
{
  Iv r; r.us = 0; r.sec = 0.0; r.ns = false;
  if (t.size() > 2 && t.compare(t.size() - 2, 2, "ns") == 0)
  {
    r.ns = true;
    r.sec = strtod(t.substr(0, t.size() - 2).c_str(), NULL) / 1e9;
  }
  else r.us = num(t);
  return r;
}

// The real API call of one add; runs on the calling thread.
static TimerId callAddIv(int64_t when, Iv ivx, int slot)
{
  TimerCallback cb = std::bind(&onTimer, slot);
  if (ivx.ns) return g_loop->timerQueue_->addTimer(cb, Timestamp(when), ivx.sec);
  int64_t iv = ivx.us;
  int64_t now = g_clk;
  double d = static_cast<double>(iv) / 1e6;
  double after = static_cast<double>(when - now) / 1e6;
  if (iv > 0 && when == now + iv && convertible(d * 1000000.0)
      && static_cast<int64_t>(d * 1000000.0) == iv)
  {
    return g_loop->runEvery(d, cb);
  }
  else if (iv == 0 && convertible(after * 1000000.0)
           && static_cast<int64_t>(after * 1000000.0) == when - now)
  {
    return g_loop->runAfter(after, cb);
  }
  else if (iv == 0)
  {
    return g_loop->runAt(Timestamp(when), cb);
  }
  return g_loop->timerQueue_->addTimer(cb, Timestamp(when), d);
}

// A / FA, top level or nested. false = rejected by the guard.
static bool doAdd(int tag, int64_t when, Iv iv, bool foreign)
{
  if (when <= 0) return false;
  int slot = static_cast<int>(g_slots.size());
  g_slots.push_back(TimerId());
  TimerId id;
  if (foreign) onHelper([&id, when, iv, slot] { id = callAddIv(when, iv, slot); });
  else id = callAddIv(when, iv, slot);
  g_slots[slot] = id;
  g_ids[tag] = id;
  g_created[tag] = true;
  ev("add(" + i64(id.sequence_ - g_base) + ")");
  printf("@addr %d %llu\n", tag,
         static_cast<unsigned long long>(reinterpret_cast<uintptr_t>(id.timer_)));
  fflush(stdout);
  return true;
}

// FN: the first micro-steps of a foreign add
static bool doForeignNew(int tag, int64_t when, Iv iv)
{
  if (when <= 0) return false;
  int slot = static_cast<int>(g_slots.size());
  g_slots.push_back(TimerId());
  Parked* p = new Parked;
  sem_init(&p->reached, 0, 0);
  sem_init(&p->go, 0, 0);
  p->slot = slot;
  int64_t before = Timer::numCreated();
  p->th = std::thread([p, when, iv, slot] {
    t_park = p;
    p->id = callAddIv(when, iv, slot);
  });
  while (sem_wait(&p->reached) != 0 && errno == EINTR) {}
  // the helper is parked inside queueInLoop: its Timer exists, nothing has been handed off
  p->ownSeq = Timer::numCreated() - g_base;
  if (Timer::numCreated() != before + 1) ev("badnew(" + i64(Timer::numCreated() - before) + ")");
  ev("add(" + i64(p->ownSeq) + ")");
  std::map<int, Parked*>::iterator it = g_parked.find(tag);
  if (it != g_parked.end()) { sem_post(&it->second->go); it->second->th.join(); delete it->second; }
  g_parked[tag] = p;
  return true;
}

// FQ: the hand-off and the return of the id
static bool doForeignEnq(int tag)
{
  std::map<int, Parked*>::iterator it = g_parked.find(tag);
  if (it == g_parked.end()) return false;
  Parked* p = it->second;
  g_parked.erase(it);
  sem_post(&p->go);
  p->th.join();
  TimerId id = p->id;
  g_slots[static_cast<size_t>(p->slot)] = id;
  g_ids[tag] = id;
  g_created[tag] = true;
  if (id.sequence_ - g_base != p->ownSeq) ev("badid(" + i64(id.sequence_ - g_base) + "," + i64(p->ownSeq) + ")");
  printf("@addr %d %llu\n", tag,
         static_cast<unsigned long long>(reinterpret_cast<uintptr_t>(id.timer_)));
  fflush(stdout);
  sem_destroy(&p->reached);
  sem_destroy(&p->go);
  delete p;
  return true;
}

static void releaseParked()
{
  for (std::map<int, Parked*>::iterator it = g_parked.begin(); it != g_parked.end(); ++it)
  {
    sem_post(&it->second->go);
    it->second->th.join();
    // the address is needed by the model side (the allocation happened at FN)
    printf("@addr %d %llu\n", it->first,
           static_cast<unsigned long long>(reinterpret_cast<uintptr_t>(it->second->id.timer_)));
    delete it->second;
  }
  fflush(stdout);
  g_parked.clear();
}

static void doCancelId(TimerId id, bool foreign)
{
  if (foreign) onHelper([id] { g_loop->cancel(id); });
  else g_loop->cancel(id);
}

static TimerId idOfTag(int tag)
{
  TimerId id;
  std::map<int, bool>::const_iterator it = g_created.find(tag);
  if (it != g_created.end() && it->second) id = g_ids[tag];
  return id;
}

static void doCancel(int tag, bool foreign)
{
  TimerId id;
  std::map<int, bool>::const_iterator it = g_created.find(tag);
  if (it != g_created.end() && it->second) id = g_ids[tag];
  if (foreign) onHelper([id] { g_loop->cancel(id); });
  else g_loop->cancel(id);
}

// one op of a user functor, resolved when the functor was queued
struct UOp { CbOp w; TimerId id; };
static bool execOp(const CbOp& w);
static void runUser(const std::vector<UOp>& ops)
{
  for (size_t i = 0; i < ops.size(); ++i)
  {
    const CbOp& w = ops[i].w;
    if (w[0] == "C" || w[0] == "FC") doCancelId(ops[i].id, w[0] == "FC");
    else if (!execOp(w)) ev("rejected");
  }
}
// Q { cbop | cbop ... }
static bool doQueue(const CbOp& w)
{
  std::vector<UOp> ops;
  UOp cur;
  for (size_t i = 1; i < w.size(); ++i)
  {
    const string& t = w[i];
    if (t == "{") continue;
    if (t == "|" || t == "}")
    {
      if (!cur.w.empty())
      {
        const string& k = cur.w[0];
        if (k != "T" && k != "A" && k != "C" && k != "FA" && k != "FC" && k != "FN" && k != "FQ")
        { fprintf(stderr, "C06_driver: op '%s' not allowed in a Q body\n", k.c_str()); exit(2); }
        if ((k == "C" || k == "FC") && cur.w.size() >= 2) cur.id = idOfTag(atoi(cur.w[1].c_str()));
        ops.push_back(cur);
        cur = UOp();
      }
      if (t == "}") break;
      continue;
    }
    cur.w.push_back(t);
  }
  g_loop->queueInLoop(std::bind(&runUser, ops));
  return true;
}

// executes one T/A/C/FA/FC/FN/FQ/Q; false = rejected (nothing done)
static bool execOp(const CbOp& w)
{
  const string& k = w[0];
  if (k == "FN" && w.size() >= 4) return doForeignNew(atoi(w[1].c_str()), num(w[2]), parseIv(w[3]));
  if (k == "FQ" && w.size() >= 2) return doForeignEnq(atoi(w[1].c_str()));
  if (k == "Q") return doQueue(w);
  if (k == "T" && w.size() >= 2)
  {
    int64_t d = num(w[1]);
    if (d < 0) return false;
    g_clk += d;
    return true;
  }
  if ((k == "A" || k == "FA") && w.size() >= 4)
    return doAdd(atoi(w[1].c_str()), num(w[2]), parseIv(w[3]), k == "FA");
  if ((k == "C" || k == "FC") && w.size() >= 2)
  {
    doCancel(atoi(w[1].c_str()), k == "FC");
    return true;
  }
  fprintf(stderr, "C06_driver: bad op '%s'\n", k.c_str());
  exit(2);
}

static void onTimer(int slot)
{
  size_t pos = g_batchPos++;
  const TimerId& id = g_slots[static_cast<size_t>(slot)];
  int64_t dl = id.timer_->expiration_.microSecondsSinceEpoch();   // alive during its own callback
  ev("run(" + i64(id.sequence_ - g_base) + "," + i64(dl) + "," + i64(g_fnow) + "," + i64(g_clk) + ")");
  if (pos < g_script.size())
  {
    const std::vector<CbOp> ops = g_script[pos];
    for (size_t i = 0; i < ops.size(); ++i)
      if (!execOp(ops[i])) ev("rejected");
  }
}

// tokens after "F": [ cbop , cbop ; cbop ; ... ]
static std::vector<std::vector<CbOp> > parseScript(const std::vector<string>& w)
{
  std::vector<std::vector<CbOp> > groups;
  std::vector<CbOp> group;
  CbOp cur;
  bool any = false;
  for (size_t i = 1; i < w.size(); ++i)
  {
    const string& t = w[i];
    if (t == "[") continue;
    if (t == "," || t == ";" || t == "]")
    {
      if (!cur.empty()) { group.push_back(cur); cur.clear(); }
      if (t == ";") { groups.push_back(group); group.clear(); any = true; }
      if (t == "]") break;
      continue;
    }
    cur.push_back(t);
  }
  if (!cur.empty()) group.push_back(cur);
  if (!group.empty() || any) groups.push_back(group);
  return groups;
}

static void destroyLoop()
{
  releaseParked();
  g_loopMutex = NULL;
  g_tfd = -1;
  g_armed = false;
  delete g_loop;
  g_loop = NULL;
}

static void show(const char* status)
{
  string e;
  for (size_t i = 0; i < g_events.size(); ++i)
  {
    if (i) e += ' ';
    e += g_events[i];
  }
  if (e.empty()) e = "-";
  size_t pend;
  {
    MutexLockGuard lock(g_loop->mutex_);
    pend = g_loop->pendingFunctors_.size();
  }
  TimerQueue* q = g_loop->timerQueue_.get();
  printf("%s %s | n=%zu a=%zu c=%zu p=%zu arm=%s\n", status, e.c_str(), q->timers_.size(),
         q->activeTimers_.size(), q->cancelingTimers_.size(), pend,
         g_armed ? i64(g_armedAbs).c_str() : "-");
  fflush(stdout);
  g_events.clear();
}

int main()
{
  Logger::setOutput(noOutput);
  Logger::setFlush(noFlush);
  // muduo's Logger caches the formatted second per thread and starts with "last second = 0"
  // and an empty buffer: a first log line (handleRead's LOG_ERROR on a failed timerfd read)
  // at a virtual time inside epoch second 0 would trip its strlen assert.  Format one line
  // at a non-zero second first.
  g_clk = 1000000000;
  LOG_INFO << "C06_driver";
  g_clk = 0;
  string line;
  while (std::getline(std::cin, line))
  {
    std::vector<string> w = vh::splitWs(line);
    if (w.empty()) continue;
    const string& k = w[0];
    if (k == "case")
    {
      if (g_loop) destroyLoop();
      g_clk = w.size() > 2 ? num(w[2]) : 0;
      g_events.clear();
      g_ids.clear();
      g_created.clear();
      g_slots.clear();
      g_script.clear();
      g_batchPos = 0;
      g_armed = false;
      g_armedAbs = g_armAt = 0;
      g_loop = new EventLoop();
      g_base = Timer::numCreated();
      g_tfd = g_loop->timerQueue_->timerfd_;
      g_loopMutex = g_loop->mutex_.getPthreadMutex();
      printf("case %s\n", w.size() > 1 ? w[1].c_str() : "?");
      fflush(stdout);
      continue;
    }
    if (k == "addr") continue;
    if (g_loop == NULL) { fprintf(stderr, "C06_driver: op '%s' outside a case\n", k.c_str()); return 2; }
    if (k == "end")
    {
      printf("destroy n=%zu\n", g_loop->timerQueue_->timers_.size());
      destroyLoop();
      printf("end\n");
      fflush(stdout);
      continue;
    }
    if (k == "P")
    {
      g_loop->doPendingFunctors();
      show("ok");
    }
    else if (k == "F")
    {
      g_script = parseScript(w);
      g_batchPos = 0;
      g_fnow = g_clk;
      g_loop->timerQueue_->handleRead();
      g_script.clear();
      show("ok");
    }
    else
    {
      show(execOp(w) ? "ok" : "rejected");
    }
  }
  if (g_loop) destroyLoop();
  return 0;
}
