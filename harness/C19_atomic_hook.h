// C19: muduo/base/Atomic.h compiled with its two GCC builtins routed through a hook, so that the
// driver can park a helper thread BETWEEN two atomic accesses to RpcChannel::id_ (forced schedule
// for an id that is not obtained by a single atomic read-modify-write).  Must be included before
// anything that includes muduo/base/Atomic.h; harness/C19_rpcchannel.cc compiles the tree's
// RpcChannel.cc with it, harness/C19_driver.cc includes it as well so that both translation units
// agree on the inline bodies of AtomicIntegerT.  The hook does nothing for other addresses.
#ifndef VERIF_C19_ATOMIC_HOOK_H
#define VERIF_C19_ATOMIC_HOOK_H
#include <stdint.h>

extern "C" void c19_atomic_access(const volatile void* addr);

template <typename T, typename V>
inline T c19_fetch_add(volatile T* p, V v)
{
  c19_atomic_access(p);
  return __atomic_fetch_add(p, static_cast<T>(v), __ATOMIC_SEQ_CST);
}

template <typename T, typename A, typename B>
inline T c19_val_cas(volatile T* p, A a, B b)
{
  c19_atomic_access(p);
  T expected = static_cast<T>(a);
  __atomic_compare_exchange_n(p, &expected, static_cast<T>(b), false, __ATOMIC_SEQ_CST, __ATOMIC_SEQ_CST);
  return expected;
}

#include "muduo/base/noncopyable.h"
#define __sync_fetch_and_add(p, v) c19_fetch_add((p), (v))
#define __sync_val_compare_and_swap(p, a, b) c19_val_cas((p), (a), (b))
#include "muduo/base/Atomic.h"
#undef __sync_fetch_and_add
#undef __sync_val_compare_and_swap

#endif
