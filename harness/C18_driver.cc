// C18 driver: the real ProtobufCodecLite (instance "raw": a subclass overriding the virtual
// parseFromBuffer/serializeToBuffer hooks with a trivial payload format; instance "pb": the
// class itself with RpcMessage and an arbitrary tag; instance "rpc": the real RpcCodec), the
// real HttpContext, and zlib's adler32 as ProtobufCodecLite::checksum calls it -- fed from a
// real muduo::net::Buffer in the segmentation given by the case.  Same case and output format
// as extract/C18_driver.ml:
//   case <id> <kind> <tag-spec>        kind = raw | pb | rpc | http | adler
//   F <chunk-spec>                     buf.append(chunk); then the decoder (unless abandoned)
//   E <msg-spec>                       (raw) fillEmptyBuffer
//   E <type> <id> <svc> <meth> <req> <resp> <err>   (pb, rpc) fillEmptyBuffer; "~" = absent
//   PT <payload-hex> [x]               (pb, rpc) RpcMessage::ParseFromArray on the payload
//   AD <spec>                          ProtobufCodecLite::checksum
//   end
// The error callback records the code and marks the stream abandoned (what the default
// callback's conn->shutdown() means for the stream); after that chunks are still appended to
// the Buffer, as TcpConnection would, but onMessage is not called any more.
#include <stdint.h>
#include <stdio.h>
#include <stdlib.h>
#include <string.h>
#include <iostream>
#include <map>
#include <memory>
#include <string>
#include <vector>
#include <algorithm>
#include <functional>
#include <zlib.h>

#include "muduo/net/Buffer.h"
#include "muduo/net/protobuf/ProtobufCodecLite.h"
#include "muduo/net/protorpc/RpcCodec.h"
#include "muduo/net/protorpc/rpc.pb.h"
#define private public
#include "muduo/net/http/HttpContext.h"
#undef private
#include "common.h"

using namespace muduo;
using namespace muduo::net;
using std::string;

static string spec2(const string& s)
{
  if (!s.empty() && s[0] == '#')
  {
    size_t star = s.find('*');
    char b = static_cast<char>(vh::hv(s[1]) * 16 + vh::hv(s[2]));
    return string(static_cast<size_t>(atol(s.substr(star + 1).c_str())), b);
  }
  return vh::bytesOfSpec(s);
}

static string hexOrDash(const string& s) { return s.empty() ? "-" : vh::hexOf(s); }

// instance A: payload = '*' + bytes; the message travels in RpcMessage::request
class RawCodec : public ProtobufCodecLite
{
 public:
  RawCodec(const string& tagArg, const ProtobufMessageCallback& cb, const ErrorCallback& ecb)
    : ProtobufCodecLite(&RpcMessage::default_instance(), tagArg, cb, RawMessageCallback(), ecb)
  {
  }
  bool parseFromBuffer(StringPiece buf, google::protobuf::Message* message) override
  {
    if (buf.size() < 1 || buf.data()[0] != '*') return false;
    static_cast<RpcMessage*>(message)->set_request(buf.data() + 1, static_cast<size_t>(buf.size() - 1));
    return true;
  }
  int serializeToBuffer(const google::protobuf::Message& message, Buffer* buf) override
  {
    const string& d = static_cast<const RpcMessage&>(message).request();
    buf->append("*", 1);
    buf->append(d.data(), d.size());
    return static_cast<int>(1 + d.size());
  }
};

static std::vector<string> g_events;
static bool g_abandoned = false;
static string g_kind;

static void onRawMessage(const TcpConnectionPtr&, const MessagePtr& m, Timestamp)
{
  g_events.push_back("msg:" + hexOrDash(static_cast<const RpcMessage&>(*m).request()));
}
static void onPbMessage(const TcpConnectionPtr&, const MessagePtr& m, Timestamp)
{
  g_events.push_back("msg:" + hexOrDash(m->SerializeAsString()));
}
static void onRpcMessage(const TcpConnectionPtr&, const RpcMessagePtr& m, Timestamp)
{
  g_events.push_back("msg:" + hexOrDash(m->SerializeAsString()));
}
static void onError(const TcpConnectionPtr&, Buffer*, Timestamp, ProtobufCodecLite::ErrorCode e)
{
  g_events.push_back("err:" + ProtobufCodecLite::errorCodeToString(e));
  g_abandoned = true;
}

static string joinEvents()
{
  if (g_events.empty()) return "-";
  string o;
  for (size_t i = 0; i < g_events.size(); ++i)
  {
    if (i) o += ";";
    o += g_events[i];
  }
  return o;
}

static void fillRpc(RpcMessage* m, const std::vector<string>& w)
{
  m->set_type(static_cast<MessageType>(atoi(w[1].c_str())));
  m->set_id(strtoull(w[2].c_str(), NULL, 10));
  if (w[3] != "~") m->set_service(spec2(w[3]));
  if (w[4] != "~") m->set_method(spec2(w[4]));
  if (w[5] != "~") m->set_request(spec2(w[5]));
  if (w[6] != "~") m->set_response(spec2(w[6]));
  if (w[7] != "~") m->set_error(static_cast<ErrorCode>(atoi(w[7].c_str())));
}

int main()
{
  std::unique_ptr<Buffer> buf(new Buffer);
  std::unique_ptr<ProtobufCodecLite> lite;
  std::unique_ptr<RpcCodec> rpc;
  std::unique_ptr<HttpContext> http;
  string line;
  while (std::getline(std::cin, line))
  {
    std::vector<string> w = vh::splitWs(line);
    if (w.empty()) continue;
    const string& k = w[0];
    if (k == "case")
    {
      g_kind = w[2];
      string tag = w.size() > 3 ? spec2(w[3]) : string();
      buf.reset(new Buffer);
      lite.reset();
      rpc.reset();
      http.reset();
      g_abandoned = false;
      g_events.clear();
      if (g_kind == "raw") lite.reset(new RawCodec(tag, onRawMessage, onError));
      else if (g_kind == "pb")
        lite.reset(new ProtobufCodecLite(&RpcMessage::default_instance(), tag, onPbMessage,
                                         ProtobufCodecLite::RawMessageCallback(), onError));
      else if (g_kind == "rpc") rpc.reset(new RpcCodec(onRpcMessage, ProtobufCodecLite::RawMessageCallback(), onError));
      else if (g_kind == "http") http.reset(new HttpContext);
      printf("case %s %s\n", w[1].c_str(), g_kind.c_str());
    }
    else if (k == "end") { printf("end\n"); }
    else if (k == "F" && g_kind == "http")
    {
      string d = spec2(w[1]);
      buf->append(d.data(), d.size());
      g_events.clear();
      long guard = 0;
      while (!g_abandoned)
      {
        if (++guard > 10000000) { g_events.push_back("LOOP"); break; }
        bool ok = http->parseRequest(buf.get(), Timestamp());
        if (!ok) { g_events.push_back("bad"); g_abandoned = true; break; }
        if (!http->gotAll()) break;
        const HttpRequest& r = http->request();
        string hs;
        for (std::map<string, string>::const_iterator it = r.headers().begin(); it != r.headers().end(); ++it)
        {
          if (!hs.empty()) hs += ",";
          hs += hexOrDash(it->first) + "=" + hexOrDash(it->second);
        }
        if (hs.empty()) hs = "-";
        char vb[16];
        snprintf(vb, sizeof vb, "%d", static_cast<int>(r.getVersion()));
        g_events.push_back(string("req:") + r.methodString() + ":" + vb + ":" + hexOrDash(r.path()) + ":" +
                           hexOrDash(r.query()) + ":" + hs);
        http->reset();
      }
      printf("F %s r=%zu ab=%d st=%d\n", joinEvents().c_str(), buf->readableBytes(), g_abandoned ? 1 : 0,
             static_cast<int>(http->state_));
    }
    else if (k == "F")
    {
      string d = spec2(w[1]);
      buf->append(d.data(), d.size());
      g_events.clear();
      if (!g_abandoned)
      {
        if (rpc) rpc->onMessage(TcpConnectionPtr(), buf.get(), Timestamp());
        else lite->onMessage(TcpConnectionPtr(), buf.get(), Timestamp());
      }
      printf("F %s r=%zu ab=%d\n", joinEvents().c_str(), buf->readableBytes(), g_abandoned ? 1 : 0);
    }
    else if (k == "E")
    {
      Buffer out;
      RpcMessage m;
      if (g_kind == "raw")
      {
        m.set_type(REQUEST);
        m.set_id(0);
        m.set_request(spec2(w[1]));
        lite->fillEmptyBuffer(&out, m);
      }
      else
      {
        fillRpc(&m, w);
        if (rpc) rpc->fillEmptyBuffer(&out, m);
        else lite->fillEmptyBuffer(&out, m);
      }
      printf("E %s\n", vh::hexOf(string(out.peek(), out.readableBytes())).c_str());
    }
    else if (k == "PT")
    {
      string p = spec2(w[1]);
      RpcMessage m;
      if (m.ParseFromArray(p.data(), static_cast<int>(p.size())))
        printf("PT ok:%s\n", hexOrDash(m.SerializeAsString()).c_str());
      else
        printf("PT fail\n");
    }
    else if (k == "AD")
    {
      string d = spec2(w[1]);
      uint32_t a = static_cast<uint32_t>(ProtobufCodecLite::checksum(d.data(), static_cast<int>(d.size())));
      uint32_t z = static_cast<uint32_t>(::adler32(1, reinterpret_cast<const Bytef*>(d.data()), static_cast<uInt>(d.size())));
      if (a == z) printf("AD %u\n", a);
      else printf("AD %u zlib=%u\n", a, z);
    }
    else { fprintf(stderr, "bad op: %s\n", line.c_str()); return 2; }
    fflush(stdout);
  }
  return 0;
}
