// C18 driver: the real ProtobufCodecLite (instance "raw": a subclass overriding the virtual
// parseFromBuffer/serializeToBuffer hooks with a trivial payload format; instance "pb": the
// class itself with RpcMessage and an arbitrary tag; instance "rpc": the real RpcCodec), the
// real HttpContext, and zlib's adler32 as ProtobufCodecLite::checksum calls it -- fed from a
// real muduo::net::Buffer in the segmentation given by the case.  Same case and output format
// as extract/C18_driver.ml:
//   case <id> <kind> <tag-spec>        kind = raw | pb | rpc | old | http | adler | conn | hsrv
//                                      old = the OLD codec examples/protobuf/codec/codec.cc (class ProtobufCodec,
//                                      frames carry a type name; harness/C18_oldcodec.cc compiles it from the tree)
//   F <chunk-spec>                     buf.append(chunk); then the decoder (unless abandoned)
//   E <msg-spec>                       (raw) fillEmptyBuffer
//   E <type> <id> <svc> <meth> <req> <resp> <err>   (pb, rpc) fillEmptyBuffer; "~" = absent
//   PT <payload-hex> [x]               (pb, rpc) RpcMessage::ParseFromArray on the payload
//   AD <spec>                          ProtobufCodecLite::checksum
//   D <chunk-spec>                     kinds conn / hsrv: the chunk is written to the peer end of a socketpair and
//                                      the REAL TcpConnection::handleRead is called: Buffer::readFd into inputBuffer_,
//                                      then the message callback = RawCodec::onMessage with the DEFAULT error
//                                      callback (conn) / HttpServer::onMessage with demoCallback (hsrv)
//   RESP <code> <msg> <close> <body> <k=v,...|->   HttpResponse::appendToBuffer into a real Buffer
//   end
// The error callback records the code and marks the stream abandoned (what the default
// callback's conn->shutdown() means for the stream); after that chunks are still appended to
// the Buffer, as TcpConnection would, but onMessage is not called any more.
#include <stdint.h>
#include <stdio.h>
#include <stdlib.h>
#include <string.h>
#include <iostream>
#include <map>
#include <memory>
#include <string>
#include <vector>
#include <algorithm>
#include <functional>
#include <zlib.h>

#include <setjmp.h>
#include <sys/socket.h>
#include <unistd.h>
#include <fcntl.h>
#include <errno.h>
#include <boost/any.hpp>

#include "muduo/base/Logging.h"
#include "muduo/net/Buffer.h"
#include "muduo/net/protobuf/ProtobufCodecLite.h"
#include "muduo/net/protorpc/RpcCodec.h"
#include "muduo/net/protorpc/rpc.pb.h"
#define private public
#include "muduo/net/http/HttpContext.h"
#include "muduo/net/http/HttpServer.h"
#include "muduo/net/TcpConnection.h"
#undef private
#include "muduo/net/http/HttpRequest.h"
#include "muduo/net/http/HttpResponse.h"
#include "muduo/net/EventLoop.h"
#include "muduo/net/InetAddress.h"
#include "common.h"
#include "C18_oldcodec.h"

using namespace muduo;
using namespace muduo::net;
using std::string;

static string spec2(const string& s)
{
  if (!s.empty() && s[0] == '#')
  {
    size_t star = s.find('*');
    char b = static_cast<char>(vh::hv(s[1]) * 16 + vh::hv(s[2]));
    return string(static_cast<size_t>(atol(s.substr(star + 1).c_str())), b);
  }
  return vh::bytesOfSpec(s);
}

static string hexOrDash(const string& s) { return s.empty() ? "-" : vh::hexOf(s); }

// instance A: payload = '*' + bytes; the message travels in RpcMessage::request
class RawCodec : public ProtobufCodecLite
{
 public:
  RawCodec(const string& tagArg, const ProtobufMessageCallback& cb, const ErrorCallback& ecb)
    : ProtobufCodecLite(&RpcMessage::default_instance(), tagArg, cb, RawMessageCallback(), ecb)
  {
  }
  bool parseFromBuffer(StringPiece buf, google::protobuf::Message* message) override
  {
    if (buf.size() < 1 || buf.data()[0] != '*') return false;
    static_cast<RpcMessage*>(message)->set_request(buf.data() + 1, static_cast<size_t>(buf.size() - 1));
    return true;
  }
  int serializeToBuffer(const google::protobuf::Message& message, Buffer* buf) override
  {
    const string& d = static_cast<const RpcMessage&>(message).request();
    buf->append("*", 1);
    buf->append(d.data(), d.size());
    return static_cast<int>(1 + d.size());
  }
};

static std::vector<string> g_events;
static bool g_abandoned = false;
static bool g_caseAborted = false;
static string g_kind;

static void onRawMessage(const TcpConnectionPtr&, const MessagePtr& m, Timestamp)
{
  g_events.push_back("msg:" + hexOrDash(static_cast<const RpcMessage&>(*m).request()));
}
// the known fields of an RpcMessage, re-serialised (unknown fields that protobuf keeps are left out:
// the model's message type has the seven fields of rpc.proto only)
static string canon(const RpcMessage& m)
{
  RpcMessage c;
  if (m.has_type()) c.set_type(m.type());
  if (m.has_id()) c.set_id(m.id());
  if (m.has_service()) c.set_service(m.service());
  if (m.has_method()) c.set_method(m.method());
  if (m.has_request()) c.set_request(m.request());
  if (m.has_response()) c.set_response(m.response());
  if (m.has_error()) c.set_error(m.error());
  return c.SerializeAsString();
}
static void onPbMessage(const TcpConnectionPtr&, const MessagePtr& m, Timestamp)
{
  g_events.push_back("msg:" + hexOrDash(canon(static_cast<const RpcMessage&>(*m))));
}
static void onRpcMessage(const TcpConnectionPtr&, const RpcMessagePtr& m, Timestamp)
{
  g_events.push_back("msg:" + hexOrDash(canon(*m)));
}
static void onError(const TcpConnectionPtr&, Buffer*, Timestamp, ProtobufCodecLite::ErrorCode e)
{
  g_events.push_back("err:" + ProtobufCodecLite::errorCodeToString(e));
  g_abandoned = true;
}

// the OLD codec's callbacks: the only message type linked into this driver is muduo.net.RpcMessage
static void onOldMessage(const google::protobuf::Message& m)
{
  if (m.GetDescriptor() == RpcMessage::descriptor())
    g_events.push_back("msg:" + hexOrDash(canon(static_cast<const RpcMessage&>(m))));
  else
    g_events.push_back("msg-of-type:" + m.GetTypeName());
}
static void onOldError(const string& name)
{
  g_events.push_back("err:" + name);
  g_abandoned = true;
}

static string joinEvents()
{
  if (g_events.empty()) return "-";
  string o;
  for (size_t i = 0; i < g_events.size(); ++i)
  {
    if (i) o += ";";
    o += g_events[i];
  }
  return o;
}

static void fillRpc(RpcMessage* m, const std::vector<string>& w)
{
  m->set_type(static_cast<MessageType>(atoi(w[1].c_str())));
  m->set_id(strtoull(w[2].c_str(), NULL, 10));
  if (w[3] != "~") m->set_service(spec2(w[3]));
  if (w[4] != "~") m->set_method(spec2(w[4]));
  if (w[5] != "~") m->set_request(spec2(w[5]));
  if (w[6] != "~") m->set_response(spec2(w[6]));
  if (w[7] != "~") m->set_error(static_cast<ErrorCode>(atoi(w[7].c_str())));
}

// ---- assertions inside muduo during a delivery are caught (-Wl,--wrap=__assert_fail) and reported as a line
// "D ASSERT <function> <expression>" instead of killing the batch: the case is over (later ops: "D skipped (aborted)"),
// its objects are leaked on purpose (they are in the middle of a call).
static sigjmp_buf g_jmp;
static bool g_armed = false;
static string g_assertText;
extern "C" void __real___assert_fail(const char* expr, const char* file, unsigned int line, const char* func);
extern "C" void __wrap___assert_fail(const char* expr, const char* file, unsigned int line, const char* func)
{
  if (g_armed)
  {
    string f(func ? func : "?");
    string name = f.find("HttpRequest::setMethod") != string::npos ? "HttpRequest::setMethod" : f;
    for (size_t i = 0; i < name.size(); ++i) if (name[i] == ' ') name[i] = '_';
    g_assertText = name + " " + (expr ? expr : "?");
    g_armed = false;
    siglongjmp(g_jmp, 1);
  }
  __real___assert_fail(expr, file, line, func);
}

// ---- a real TcpConnection on a socketpair, driven from this thread ------------------------------
static EventLoop* g_loop = NULL;
static void noClose(const TcpConnectionPtr&) {}
struct RealConn
{
  TcpConnectionPtr conn;
  int peer;
  RealConn() : peer(-1) {}
  void open()
  {
    int fds[2];
    if (::socketpair(AF_UNIX, SOCK_STREAM | SOCK_NONBLOCK | SOCK_CLOEXEC, 0, fds) != 0) { perror("socketpair"); exit(3); }
    peer = fds[1];
    conn.reset(new TcpConnection(g_loop, "c18", fds[0], InetAddress(1), InetAddress(2)));
    conn->setConnectionCallback(defaultConnectionCallback);
    conn->setMessageCallback(defaultMessageCallback);
    conn->setCloseCallback(noClose);
    conn->connectEstablished();
  }
  void leak()          // after a caught assertion: never touch the objects again
  {
    if (conn) { new TcpConnectionPtr(conn); conn.reset(); }
    if (peer >= 0) { ::close(peer); peer = -1; }
  }
  void close()
  {
    if (conn)
    {
      conn->connectDestroyed();
      conn.reset();
    }
    if (peer >= 0) { ::close(peer); peer = -1; }
  }
  // what the peer can read now; eof = the write side of the connection was shut down
  string drainPeer(bool* eof)
  {
    string out;
    char tmp[65536];
    *eof = false;
    for (;;)
    {
      ssize_t n = ::read(peer, tmp, sizeof tmp);
      if (n > 0) out.append(tmp, static_cast<size_t>(n));
      else { if (n == 0) *eof = true; break; }
    }
    return out;
  }
  void deliver(const string& d)
  {
    size_t off = 0;
    while (off < d.size())
    {
      ssize_t n = ::write(peer, d.data() + off, d.size() - off);
      if (n <= 0) { perror("socketpair write"); exit(3); }
      off += static_cast<size_t>(n);
    }
    conn->handleRead(Timestamp::now());      // readFd into inputBuffer_, then messageCallback_
  }
};

static void logSink(const char* msg, int len)
{
  string l(msg, static_cast<size_t>(len));
  size_t p = l.find("defaultErrorCallback - ");
  if (p != string::npos)
  {
    size_t a = p + strlen("defaultErrorCallback - ");
    size_t b = l.find_first_of(" \n", a);
    g_events.push_back("err:" + l.substr(a, b == string::npos ? string::npos : b - a));
  }
}
static void logFlush() {}

// the HTTP callback of the harness = C18_HttpSrvModel.demo_callback
static void demoCallback(const HttpRequest& req, HttpResponse* resp)
{
  const string& path = req.path();
  char vb[16];
  snprintf(vb, sizeof vb, "%d", static_cast<int>(req.getVersion()));
  string hs;
  for (std::map<string, string>::const_iterator it = req.headers().begin(); it != req.headers().end(); ++it)
  {
    if (!hs.empty()) hs += ",";
    hs += hexOrDash(it->first) + "=" + hexOrDash(it->second);
  }
  if (hs.empty()) hs = "-";
  g_events.push_back(string("req:") + req.methodString() + ":" + vb + ":" + hexOrDash(path) + ":" + hexOrDash(req.query()) + ":" + hs);
  if (path.compare(0, 3, "/nf") == 0 && path.size() >= 3)
  {
    resp->setStatusCode(HttpResponse::k404NotFound);
    resp->setStatusMessage("Not Found");
    resp->setCloseConnection(true);
    return;
  }
  resp->setStatusCode(HttpResponse::k200Ok);
  resp->setStatusMessage("OK");
  if (path == "/close") resp->setCloseConnection(true);
  if (!req.query().empty()) resp->addHeader("A-Query", req.query());
  resp->addHeader("X-Method", req.methodString());
  resp->setBody(path);
}

int main()
{
  g_loop = new EventLoop;
  muduo::Logger::setOutput(logSink);
  muduo::Logger::setFlush(logFlush);
  std::unique_ptr<HttpServer> hsrv;
  RealConn rc;
  std::unique_ptr<Buffer> buf(new Buffer);
  std::unique_ptr<ProtobufCodecLite> lite;
  std::unique_ptr<RpcCodec> rpc;
  std::unique_ptr<HttpContext> http;
  OldCodec* old = NULL;
  string line;
  while (std::getline(std::cin, line))
  {
    std::vector<string> w = vh::splitWs(line);
    if (w.empty()) continue;
    const string& k = w[0];
    if (k == "case")
    {
      g_kind = w[2];
      string tag = w.size() > 3 ? spec2(w[3]) : string();
      if (g_caseAborted) { rc.leak(); g_caseAborted = false; }
      rc.close();
      buf.reset(new Buffer);
      lite.reset();
      rpc.reset();
      http.reset();
      if (old) { oldcodec_delete(old); old = NULL; }
      g_abandoned = false;
      g_events.clear();
      if (g_kind == "raw") lite.reset(new RawCodec(tag, onRawMessage, onError));
      else if (g_kind == "pb")
        lite.reset(new ProtobufCodecLite(&RpcMessage::default_instance(), tag, onPbMessage,
                                         ProtobufCodecLite::RawMessageCallback(), onError));
      else if (g_kind == "rpc") rpc.reset(new RpcCodec(onRpcMessage, ProtobufCodecLite::RawMessageCallback(), onError));
      else if (g_kind == "old") old = oldcodec_new(onOldMessage, onOldError);
      else if (g_kind == "http") http.reset(new HttpContext);
      else if (g_kind == "conn")
      {
        lite.reset(new RawCodec(tag, onRawMessage, ProtobufCodecLite::defaultErrorCallback));
        rc.open();
        rc.conn->setMessageCallback(std::bind(&ProtobufCodecLite::onMessage, lite.get(),
                                              std::placeholders::_1, std::placeholders::_2, std::placeholders::_3));
      }
      else if (g_kind == "hsrv")
      {
        if (!hsrv)
        {
          hsrv.reset(new HttpServer(g_loop, InetAddress(static_cast<uint16_t>(0)), "c18http"));
          hsrv->setHttpCallback(demoCallback);
        }
        rc.open();
        hsrv->onConnection(rc.conn);          // conn->setContext(HttpContext())
        rc.conn->setMessageCallback(std::bind(&HttpServer::onMessage, hsrv.get(),
                                              std::placeholders::_1, std::placeholders::_2, std::placeholders::_3));
      }
      printf("case %s %s\n", w[1].c_str(), g_kind.c_str());
    }
    else if (k == "end") { printf("end\n"); }
    else if (k == "F" && g_kind == "http")
    {
      string d = spec2(w[1]);
      buf->append(d.data(), d.size());
      g_events.clear();
      long guard = 0;
      while (!g_abandoned)
      {
        if (++guard > 10000000) { g_events.push_back("LOOP"); break; }
        bool ok = http->parseRequest(buf.get(), Timestamp());
        if (!ok) { g_events.push_back("bad"); g_abandoned = true; break; }
        if (!http->gotAll()) break;
        const HttpRequest& r = http->request();
        string hs;
        for (std::map<string, string>::const_iterator it = r.headers().begin(); it != r.headers().end(); ++it)
        {
          if (!hs.empty()) hs += ",";
          hs += hexOrDash(it->first) + "=" + hexOrDash(it->second);
        }
        if (hs.empty()) hs = "-";
        char vb[16];
        snprintf(vb, sizeof vb, "%d", static_cast<int>(r.getVersion()));
        g_events.push_back(string("req:") + r.methodString() + ":" + vb + ":" + hexOrDash(r.path()) + ":" +
                           hexOrDash(r.query()) + ":" + hs);
        http->reset();
      }
      printf("F %s r=%zu ab=%d st=%d\n", joinEvents().c_str(), buf->readableBytes(), g_abandoned ? 1 : 0,
             static_cast<int>(http->state_));
    }
    else if (k == "F")
    {
      string d = spec2(w[1]);
      buf->append(d.data(), d.size());
      g_events.clear();
      if (!g_abandoned)
      {
        if (old) oldcodec_onMessage(old, buf.get());
        else if (rpc) rpc->onMessage(TcpConnectionPtr(), buf.get(), Timestamp());
        else lite->onMessage(TcpConnectionPtr(), buf.get(), Timestamp());
      }
      printf("F %s r=%zu ab=%d\n", joinEvents().c_str(), buf->readableBytes(), g_abandoned ? 1 : 0);
    }
    else if (k == "D")
    {
      string d = spec2(w[1]);
      g_events.clear();
      if (g_caseAborted) { printf("D skipped (aborted)\n"); fflush(stdout); continue; }
      if (d.empty()) { printf("D skipped\n"); fflush(stdout); continue; }
      g_armed = true;
      if (sigsetjmp(g_jmp, 1) != 0)
      {
        g_caseAborted = true;
        rc.leak();
        printf("D ASSERT %s\n", g_assertText.c_str());
        fflush(stdout);
        continue;
      }
      rc.deliver(d);
      g_armed = false;
      bool eof = false;
      string sent = rc.drainPeer(&eof);
      if (g_kind == "conn")
        printf("D %s r=%zu conn=%d sh=%d\n", joinEvents().c_str(), rc.conn->inputBuffer()->readableBytes(),
               rc.conn->connected() ? 1 : 0, eof ? 1 : 0);
      else
      {
        HttpContext* ctx = boost::any_cast<HttpContext>(rc.conn->getMutableContext());
        string ss = hexOrDash(sent);
        printf("D %s sent=%s r=%zu conn=%d sh=%d st=%d\n", joinEvents().c_str(), ss.c_str(),
               rc.conn->inputBuffer()->readableBytes(), rc.conn->connected() ? 1 : 0, eof ? 1 : 0,
               static_cast<int>(ctx->state_));
      }
    }
    else if (k == "RESP")
    {
      HttpResponse resp(w[3] == "1");
      resp.setStatusCode(static_cast<HttpResponse::HttpStatusCode>(atoi(w[1].c_str())));
      resp.setStatusMessage(spec2(w[2]));
      resp.setBody(spec2(w[4]));
      if (w[5] != "-")
      {
        size_t pos = 0;
        while (pos <= w[5].size())
        {
          size_t c = w[5].find(',', pos);
          string kv = w[5].substr(pos, c == string::npos ? string::npos : c - pos);
          size_t e = kv.find('=');
          resp.addHeader(spec2(kv.substr(0, e)), spec2(kv.substr(e + 1)));
          if (c == string::npos) break;
          pos = c + 1;
        }
      }
      Buffer out;
      resp.appendToBuffer(&out);
      printf("RESP %s\n", vh::hexOf(string(out.peek(), out.readableBytes())).c_str());
    }
    else if (k == "E")
    {
      Buffer out;
      RpcMessage m;
      if (g_kind == "raw")
      {
        m.set_type(REQUEST);
        m.set_id(0);
        m.set_request(spec2(w[1]));
        lite->fillEmptyBuffer(&out, m);
      }
      else if (old)
      {
        fillRpc(&m, w);
        oldcodec_fillEmptyBuffer(&out, m);
        printf("E %s\n", vh::hexOf(string(out.peek(), out.readableBytes())).c_str());
        fflush(stdout);
        continue;
      }
      else
      {
        fillRpc(&m, w);
        if (rpc) rpc->fillEmptyBuffer(&out, m);
        else lite->fillEmptyBuffer(&out, m);
      }
      printf("E %s p=%zu w=%zu\n", vh::hexOf(string(out.peek(), out.readableBytes())).c_str(),
             out.prependableBytes(), out.writableBytes());
    }
    else if (k == "PT")
    {
      string p = spec2(w[1]);
      RpcMessage m;
      if (m.ParseFromArray(p.data(), static_cast<int>(p.size())))
        printf("PT ok:%s\n", hexOrDash(canon(m)).c_str());
      else
        printf("PT fail\n");
    }
    else if (k == "AD")
    {
      string d = spec2(w[1]);
      uint32_t a = static_cast<uint32_t>(ProtobufCodecLite::checksum(d.data(), static_cast<int>(d.size())));
      uint32_t z = static_cast<uint32_t>(::adler32(1, reinterpret_cast<const Bytef*>(d.data()), static_cast<uInt>(d.size())));
      if (a == z) printf("AD %u\n", a);
      else printf("AD %u zlib=%u\n", a, z);
    }
    else { fprintf(stderr, "bad op: %s\n", line.c_str()); return 2; }
    fflush(stdout);
  }
  if (old) oldcodec_delete(old);
  rc.close();
  return 0;
}
