// Conn driver (style A, DESIGN 4.2): drives ONE real muduo::net::TcpConnection op by op on the
// thread that owns its EventLoop, with no loop() running.  The kernel's answers to write() on
// the connection's descriptor are scripted through -Wl,--wrap=write (bytes the script accepts
// are really written to a socketpair whose other end is a raw peer, so the wire stream is
// observed, not assumed), readv errors through --wrap=readv, time through --wrap=gettimeofday,
// and a foreign thread's send() is cut between its state test and its enqueue by stalling it
// at its first pthread_mutex_lock (--wrap=pthread_mutex_lock).
//
// case <id> <highWaterMark> <wc 0|1> <hw 0|1>
//   EST | SEND <payload> <kres> [ovl] | FSC <t> <payload> [ovl] | FSE <t> <payload> | RUN <kres>* | EVW <kres>
//   (ovl: which send() overload: p = (const void*, int) [default], s = StringPiece, b = Buffer*; a loop-thread
//    send(Buffer*) additionally reports what is left in the caller's buffer as event BufLeft:<n>; a foreign
//    thread overwrites its own copy of the payload as soon as send() has returned)
//   RD <payload> | EOF | RERR | HUP | ERR | RET <n> | SHUT | XSHUT | FC | FCD | DFIRE
//   SR | SP | XSR | XSP | ODESTROY
//   XRC <t> shut|fc|fcd | XRS <t> | XRE <t>     a shutdown() / forceClose() / forceCloseWithDelay(1.0) issued on a foreign thread, cut at its
//       plain load of state_ (XRC runs the REAL member function on a real foreign thread up to its setState),
//       its plain store (XRS lets it execute setState and run on to the first pthread_mutex_lock of queueInLoop)
//       and its hand-off (XRE lets it enqueue and return; for fcd the functor it enqueues is TimerQueue::addTimerInLoop,
//       the timer exists only once the loop has run it).  TcpConnection.cc is compiled INTO this translation
//       unit with `setState(s)` rewritten to `setState((verif_stall_store(), (s)))`: no change to the source; only
//       a thread armed by XRC ever stalls there (technique shared with harness/C02_sys.cc).
// end
// kres ::= all | a<k> | eagain | eintr | epipe | econnreset | eother
// One output line per op:  ok|rejected ev=<e1,e2,..> st=<n> out=<len>:<crc> in=<len>:<crc> wr= rd= reg= pend= wire=<len>:<crc> fin=
#include <errno.h>
#include <fcntl.h>
#include <poll.h>
#include <pthread.h>
#include <semaphore.h>
#include <signal.h>
#include <sys/socket.h>
#include <sys/time.h>
#include <sys/uio.h>
#include <unistd.h>

#include <algorithm>
#include <deque>
#include <functional>
#include <iostream>
#include <map>
#include <memory>
#include <thread>

#define private public
#define protected public
#include "muduo/net/TcpConnection.h"
#include "muduo/net/Buffer.h"
#include "muduo/net/EventLoop.h"
#include "muduo/net/Channel.h"
#include "muduo/net/TimerQueue.h"
#include "muduo/net/InetAddress.h"
#include "muduo/base/Logging.h"
#include "muduo/base/WeakCallback.h"
#include "muduo/net/Socket.h"
#include "muduo/net/SocketsOps.h"

static void verif_stall_store();
// TcpConnection.cc of the tree under test, compiled here with one schedule point in front of every store to
// state_; only a foreign thread armed by XRC stalls at it
#define setState(s) setState((verif_stall_store(), (s)))
#include "muduo/net/TcpConnection.cc"
#undef setState
#undef private
#undef protected

#include "common.h"

using namespace muduo;
using namespace muduo::net;
using std::string;

// ------------------------------------------------------------------ interposition
extern "C" {
ssize_t __real_write(int fd, const void* buf, size_t n);
ssize_t __real_readv(int fd, const struct iovec* iov, int cnt);
int __real_gettimeofday(struct timeval* tv, void* tz);
int __real_pthread_mutex_lock(pthread_mutex_t* m);
int __real_shutdown(int fd, int how);
}

struct KRes { int kind; size_t k; int err; };   // kind 0 = accept all, 1 = accept k, 2 = error
static int g_connfd = -1;
static std::deque<KRes> g_script;
static bool g_readv_fail = false;
static bool g_wr_shut = false;
static int64_t g_now_us = 1700000000LL * 1000000LL;
static thread_local bool t_stall = false;
static thread_local bool t_stalled_once = false;
static sem_t g_reached;
static thread_local sem_t* t_release = NULL;

extern "C" ssize_t __wrap_write(int fd, const void* buf, size_t n)
{
  if (fd != g_connfd || g_connfd < 0) return __real_write(fd, buf, n);
  KRes r = {0, 0, 0};
  if (!g_script.empty()) { r = g_script.front(); g_script.pop_front(); }
  // environment contract: once the write side is shut down the kernel answers EPIPE, whatever the script says
  if (g_wr_shut) return __real_write(fd, buf, n);
  if (r.kind == 2) { errno = r.err; return -1; }
  size_t m = (r.kind == 1 && r.k < n) ? r.k : n;
  if (m == 0) return 0;
  ssize_t w = __real_write(fd, buf, m);
  if (w >= 0 && static_cast<size_t>(w) != m)
  {
    fprintf(stderr, "harness: socketpair took %zd of %zu scripted bytes\n", w, m);
    abort();
  }
  return w;   // after a real shutdown(SHUT_WR) this is -1/EPIPE, as the contract says
}

extern "C" int __wrap_shutdown(int fd, int how)
{
  if (fd == g_connfd && (how == SHUT_WR || how == SHUT_RDWR)) g_wr_shut = true;
  return __real_shutdown(fd, how);
}

extern "C" ssize_t __wrap_readv(int fd, const struct iovec* iov, int cnt)
{
  if (fd == g_connfd && g_readv_fail) { g_readv_fail = false; errno = ECONNRESET; return -1; }
  return __real_readv(fd, iov, cnt);
}

extern "C" int __wrap_gettimeofday(struct timeval* tv, void* tz)
{
  (void)tz;
  tv->tv_sec = g_now_us / 1000000;
  tv->tv_usec = g_now_us % 1000000;
  return 0;
}

extern "C" int __wrap_pthread_mutex_lock(pthread_mutex_t* m)
{
  if (t_stall && !t_stalled_once)
  {
    t_stalled_once = true;
    sem_post(&g_reached);
    sem_wait(t_release);
  }
  return __real_pthread_mutex_lock(m);
}

static thread_local bool t_stall_store = false;
static thread_local sem_t* t_release_store = NULL;
static void verif_stall_store()
{
  if (t_stall_store)
  {
    t_stall_store = false;
    sem_post(&g_reached);
    sem_wait(t_release_store);
  }
}

// ------------------------------------------------------------------ driver state
static std::vector<string> g_events;
static string g_wire;
static bool g_eof = false;
static int g_peer = -1;

static void onConnection(const TcpConnectionPtr& c) { g_events.push_back(c->connected() ? "Up" : "Down"); }
static void onMessage(const TcpConnectionPtr&, Buffer* b, Timestamp)
{ g_events.push_back("Msg:" + std::to_string(b->readableBytes())); }
static void onWriteComplete(const TcpConnectionPtr&) { g_events.push_back("WC"); }
static void onHighWater(const TcpConnectionPtr&, size_t n) { g_events.push_back("HWM:" + std::to_string(n)); }

static void drainPeer()
{
  char buf[65536];
  for (;;)
  {
    ssize_t n = ::read(g_peer, buf, sizeof buf);
    if (n > 0) g_wire.append(buf, static_cast<size_t>(n));
    else if (n == 0) { g_eof = true; break; }
    else break;
  }
}

static KRes parseK(const string& s)
{
  KRes r = {0, 0, 0};
  if (s == "all") return r;
  if (s[0] == 'a') { r.kind = 1; r.k = static_cast<size_t>(atol(s.c_str() + 1)); return r; }
  r.kind = 2;
  if (s == "eagain") r.err = EAGAIN;
  else if (s == "eintr") r.err = EINTR;
  else if (s == "epipe") r.err = EPIPE;
  else if (s == "econnreset") r.err = ECONNRESET;
  else r.err = ENOBUFS;
  return r;
}

struct Foreign
{
  std::thread th;
  bool parked;
  sem_t* release;
};

// a shutdown()/forceClose() in flight on a foreign thread
struct Request
{
  std::thread th;
  sem_t* rel_store;   // released by XRS
  sem_t* rel_enq;     // released by XRE
  bool passed;        // the thread reached its setState (its state test passed)
  bool stored;
  bool finished;      // the member function has returned (test failed, or after XRE)
};

static void nullOutput(const char*, int) {}
// added for C11 (REVIEW_C item 6), only with VERIF_LOG_CLOBBER=1 in the environment: the logger's output function
// does what a sink on a broken pipe does - a write(2) that fails with EPIPE - so errno is no longer what the caller
// of LOG_* left.  A test of errno placed after a log statement then sees EPIPE.  Unset: behaviour unchanged.
static int g_brokenPipe = -1;
static void clobberOutput(const char*, int) { char c = 'x'; if (__real_write(g_brokenPipe, &c, 1) >= 0) abort(); }

int main()
{
  Logger::setOutput(nullOutput);
  if (::getenv("VERIF_LOG_CLOBBER"))
  {
    int pfd[2];
    if (::pipe2(pfd, O_CLOEXEC) != 0) { perror("pipe2"); return 3; }
    ::close(pfd[0]);
    g_brokenPipe = pfd[1];
    Logger::setOutput(clobberOutput);
  }
  sem_init(&g_reached, 0, 0);
  EventLoop loop;
  TcpConnectionPtr conn;
  std::map<int, Foreign> foreign;
  std::map<int, Request> requests;
  auto finishRequest = [](Request& r) {
    if (!r.finished)
    {
      // let the parked call run to its end: its store (if still pending), then its hand-off
      if (r.passed && !r.stored) { sem_post(r.rel_store); sem_wait(&g_reached); }
      if (r.passed) sem_post(r.rel_enq);
      r.finished = true;
    }
    if (r.th.joinable()) r.th.join();
    delete r.rel_store;
    delete r.rel_enq;
  };
  bool peerShut = false;
  string line;
  size_t delayed = 0;
  while (std::getline(std::cin, line))
  {
    std::vector<string> w = vh::splitWs(line);
    if (w.empty()) continue;
    const string& k = w[0];
    bool rejected = false;
    string steps;
    g_events.clear();
    if (k == "case")
    {
      int sv[2];
      if (::socketpair(AF_UNIX, SOCK_STREAM | SOCK_NONBLOCK | SOCK_CLOEXEC, 0, sv) != 0) { perror("socketpair"); return 3; }
      int big = 16 * 1024 * 1024;
      ::setsockopt(sv[0], SOL_SOCKET, SO_SNDBUFFORCE, &big, sizeof big);
      ::setsockopt(sv[1], SOL_SOCKET, SO_SNDBUFFORCE, &big, sizeof big);
      g_connfd = sv[0];
      g_peer = sv[1];
      g_wire.clear();
      g_eof = false;
      peerShut = false;
      g_script.clear();
      g_wr_shut = false;
      delayed = 0;
      InetAddress a(1), b(2);
      conn.reset(new TcpConnection(&loop, "c" + w[1], sv[0], a, b));
      conn->setConnectionCallback(onConnection);
      conn->setMessageCallback(onMessage);
      conn->setHighWaterMarkCallback(HighWaterMarkCallback(), static_cast<size_t>(atol(w[2].c_str())));
      if (w[3] == "1") conn->setWriteCompleteCallback(onWriteComplete);
      if (w[4] == "1") conn->setHighWaterMarkCallback(onHighWater, static_cast<size_t>(atol(w[2].c_str())));
      // what TcpServer::removeConnectionInLoop does in a single-loop server
      conn->setCloseCallback([&loop](const TcpConnectionPtr& c) {
        loop.queueInLoop(std::bind(&TcpConnection::connectDestroyed, c));
      });
      printf("case %s\n", w[1].c_str());
      continue;
    }
    if (k == "end")
    {
      {
        string stream = g_wire + string(conn->outputBuffer_.peek(), conn->outputBuffer_.readableBytes());
        string inbuf(conn->inputBuffer_.peek(), conn->inputBuffer_.readableBytes());
        printf("stream=%s inbuf=%s\n", stream.size() <= 16384 ? vh::hexOf(stream).c_str() : ("crc:" + vh::fnv(stream)).c_str(),
               inbuf.size() <= 16384 ? vh::hexOf(inbuf).c_str() : ("crc:" + vh::fnv(inbuf)).c_str());
      }
      // tear down like an owner would, then let outstanding delayed closes fire on the dead object
      for (auto& f : foreign) { if (f.second.parked) sem_post(f.second.release); f.second.th.join(); delete f.second.release; }
      foreign.clear();
      for (auto& r : requests) finishRequest(r.second);
      requests.clear();
      g_script.clear();
      // (a racy foreign store may have left an unregistered connection in kDisconnecting: close it all the same)
      if (conn->state_ == TcpConnection::kConnected || conn->state_ == TcpConnection::kDisconnecting)
        conn->forceCloseInLoop();
      else if (conn->channel_->addedToLoop_ && !conn->channel_->isNoneEvent())
        conn->channel_->disableAll();
      loop.doPendingFunctors();
      loop.doPendingFunctors();
      if (conn->channel_->addedToLoop_) conn->channel_->remove();
      if (conn->state_ == TcpConnection::kConnecting) conn->setState(TcpConnection::kDisconnected);
      conn.reset();
      loop.doPendingFunctors();
      g_now_us += 3600LL * 1000000LL;
      loop.timerQueue_->handleRead();
      loop.doPendingFunctors();
      ::close(g_peer);
      g_connfd = -1;
      printf("end\n");
      fflush(stdout);
      continue;
    }
    Channel* ch = conn->channel_.get();
    bool reg = ch->addedToLoop_;
    static const char* kUserOps[] = {"SEND", "FSC", "FSE", "RET", "SHUT", "XSHUT", "FC", "FCD", "SR", "SP", "XSR", "XSP", "XRC"};
    bool userOp = false;
    for (size_t u = 0; u < sizeof kUserOps / sizeof kUserOps[0]; ++u) userOp = userOp || k == kUserOps[u];
    if (userOp && conn->state_ == TcpConnection::kConnecting)
    {
      rejected = true;   // a user only gets hold of the connection in the UP callback
    }
    else if (k == "EST")
    {
      if (conn->state_ == TcpConnection::kConnecting) conn->connectEstablished(); else rejected = true;
    }
    else if (k == "SEND")
    {
      string d = vh::bytesOfSpec(w[1]);
      string ovl = w.size() > 3 ? w[3] : "p";
      g_script.clear();
      g_script.push_back(parseK(w[2]));
      if (ovl == "s") conn->send(StringPiece(d));
      else if (ovl == "b")
      {
        Buffer buf;
        buf.append(d);
        conn->send(&buf);
        g_events.push_back("BufLeft:" + std::to_string(buf.readableBytes()));
      }
      else conn->send(d.data(), static_cast<int>(d.size()));
      // the caller may reuse its memory as soon as send() has returned
      std::fill(d.begin(), d.end(), '\xEE');
      g_script.clear();
    }
    else if (k == "FSC")
    {
      int t = atoi(w[1].c_str());
      string d = vh::bytesOfSpec(w[2]);
      auto it = foreign.find(t);
      if (it != foreign.end())
      {   // an earlier send() of this thread whose enqueue never came: let it finish first
        if (it->second.parked) sem_post(it->second.release);
        it->second.th.join();
        delete it->second.release;
        foreign.erase(it);
      }
      TcpConnectionPtr c = conn;
      bool* done = new bool(false);
      Foreign f;
      f.parked = false;
      f.release = new sem_t;
      sem_init(f.release, 0, 0);
      sem_t* rel = f.release;
      string ovl = w.size() > 3 ? w[3] : "p";
      f.th = std::thread([c, d, done, rel, ovl]() mutable {
        t_release = rel;
        t_stall = true;
        t_stalled_once = false;
        if (ovl == "s") c->send(StringPiece(d));
        else if (ovl == "b") { Buffer buf; buf.append(d); c->send(&buf); }
        else c->send(d.data(), static_cast<int>(d.size()));
        // the caller may reuse its memory as soon as send() has returned
        std::fill(d.begin(), d.end(), '\xEE');
        t_stall = false;
        if (!t_stalled_once) { *done = true; sem_post(&g_reached); }
      });
      sem_wait(&g_reached);
      f.parked = !*done;
      if (*done) { f.th.join(); delete f.release; }
      else foreign[t] = std::move(f);
      delete done;
    }
    else if (k == "FSE")
    {
      int t = atoi(w[1].c_str());
      auto it = foreign.find(t);
      if (it != foreign.end())
      {
        sem_post(it->second.release);
        it->second.th.join();
        delete it->second.release;
        foreign.erase(it);
      }
    }
    else if (k == "RUN")
    {
      // exactly what EventLoop::doPendingFunctors does (swap the batch out under the lock, run it
      // unlocked with callingPendingFunctors_ set), but with an observation after every functor
      g_script.clear();
      for (size_t i = 1; i < w.size(); ++i) g_script.push_back(parseK(w[i]));
      std::vector<EventLoop::Functor> functors;
      loop.callingPendingFunctors_ = true;
      {
        MutexLockGuard lock(loop.mutex_);
        functors.swap(loop.pendingFunctors_);
      }
      size_t mark = 0;
      for (size_t i = 0; i < functors.size(); ++i)
      {
        functors[i]();
        functors[i] = EventLoop::Functor();   // drop the functor's references as the real loop would at batch end
        drainPeer();
        string e;
        for (size_t j = mark; j < g_events.size(); ++j) { if (j > mark) e += ","; e += g_events[j]; }
        mark = g_events.size();
        char rec[256];
        snprintf(rec, sizeof rec, "%s/%zu/%d/%d/%zu/%d", e.empty() ? "-" : e.c_str(), conn->outputBuffer_.readableBytes(),
                 conn->channel_->isWriting() ? 1 : 0, static_cast<int>(conn->state_), g_wire.size(), g_eof ? 1 : 0);
        if (!steps.empty()) steps += ";";
        steps += rec;
      }
      loop.callingPendingFunctors_ = false;
      g_script.clear();
    }
    else if (k == "EVW")
    {
      if (!reg) rejected = true;
      else
      {
        g_script.clear();
        g_script.push_back(parseK(w[1]));
        ch->set_revents(POLLOUT);
        ch->handleEvent(Timestamp::now());
        g_script.clear();
      }
    }
    else if (k == "RD")
    {
      string d = vh::bytesOfSpec(w[1]);
      if (!reg || !ch->isReading() || d.empty() || peerShut) rejected = true;
      else
      {
        if (__real_write(g_peer, d.data(), d.size()) != static_cast<ssize_t>(d.size())) { perror("peer write"); return 3; }
        ch->set_revents(POLLIN);
        ch->handleEvent(Timestamp::now());
      }
    }
    else if (k == "EOF")
    {
      if (!reg || !ch->isReading()) rejected = true;
      else
      {
        ::shutdown(g_peer, SHUT_WR);
        peerShut = true;
        ch->set_revents(POLLIN);
        ch->handleEvent(Timestamp::now());
      }
    }
    else if (k == "RERR")
    {
      if (!reg || !ch->isReading()) rejected = true;
      else { g_readv_fail = true; ch->set_revents(POLLIN); ch->handleEvent(Timestamp::now()); g_readv_fail = false; }
    }
    else if (k == "HUP")
    {
      if (!reg || ch->isNoneEvent()) rejected = true;
      else { ch->set_revents(POLLHUP); ch->handleEvent(Timestamp::now()); }
    }
    else if (k == "ERR")
    {
      if (!reg || ch->isNoneEvent()) rejected = true;
      else { ch->set_revents(POLLERR); ch->handleEvent(Timestamp::now()); }
    }
    else if (k == "RET")
    {
      size_t n = static_cast<size_t>(atol(w[1].c_str()));
      if (n <= conn->inputBuffer_.readableBytes()) conn->inputBuffer_.retrieve(n); else rejected = true;
    }
    else if (k == "SHUT") conn->shutdown();
    else if (k == "XSHUT") { TcpConnectionPtr c = conn; std::thread([c]() { c->shutdown(); }).join(); }
    else if (k == "FC") { TcpConnectionPtr c = conn; std::thread([c]() { c->forceClose(); }).join(); }
    else if (k == "FCD") { conn->forceCloseWithDelay(1.0); if (true) ++delayed; }
    else if (k == "DFIRE")
    {
      if (loop.timerQueue_->timers_.empty()) rejected = true;
      else
      {
        // fire exactly the earliest outstanding delayed close
        Timestamp first = loop.timerQueue_->timers_.begin()->first;
        int64_t save = g_now_us;
        if (first.microSecondsSinceEpoch() > g_now_us) g_now_us = first.microSecondsSinceEpoch();
        // only one timer must expire: nudge the clock to the first deadline exactly
        loop.timerQueue_->handleRead();
        g_now_us = (save > g_now_us ? save : g_now_us) + 1000;
      }
    }
    else if (k == "XRC")
    {
      int t = atoi(w[1].c_str());
      if (requests.count(t)) rejected = true;   // one call at a time per thread
      else
      {
        int fc = (w[2] == "fc") ? 1 : (w[2] == "fcd") ? 2 : 0;
        Request& r = requests[t];
        r.rel_store = new sem_t; r.rel_enq = new sem_t;
        sem_init(r.rel_store, 0, 0); sem_init(r.rel_enq, 0, 0);
        r.passed = r.stored = r.finished = false;
        TcpConnectionPtr c = conn;
        bool* atStore = new bool(false);
        sem_t* rs = r.rel_store; sem_t* re = r.rel_enq;
        r.th = std::thread([c, fc, atStore, rs, re]() {
          // stall in front of the store (if the state test passes), then at the first mutex of queueInLoop
          t_release_store = rs;
          t_stall_store = true;
          t_release = re;
          t_stall = true;
          t_stalled_once = false;
          *atStore = true;             // cleared below if the call returns without reaching its store
          if (fc == 1) c->forceClose(); else if (fc == 2) c->forceCloseWithDelay(1.0); else c->shutdown();
          if (t_stall_store) { *atStore = false; t_stall_store = false; sem_post(&g_reached); }   // test failed: no store, no hand-off
          t_stall = false;
        });
        sem_wait(&g_reached);
        r.passed = *atStore;
        delete atStore;
        if (!r.passed) { r.finished = true; r.th.join(); }
      }
    }
    else if (k == "XRS")
    {
      int t = atoi(w[1].c_str());
      auto it = requests.find(t);
      if (it == requests.end() || it->second.stored) rejected = true;
      else
      {
        it->second.stored = true;
        if (it->second.passed) { sem_post(it->second.rel_store); sem_wait(&g_reached); }   // runs on to the mutex of queueInLoop
      }
    }
    else if (k == "XRE")
    {
      int t = atoi(w[1].c_str());
      auto it = requests.find(t);
      if (it == requests.end() || !it->second.stored) rejected = true;
      else
      {
        if (it->second.passed) { sem_post(it->second.rel_enq); it->second.finished = true; it->second.th.join(); }
        delete it->second.rel_store;
        delete it->second.rel_enq;
        requests.erase(it);
      }
    }
    else if (k == "SR") { if (reg) conn->startRead(); else rejected = true; }
    else if (k == "SP") { if (reg) conn->stopRead(); else rejected = true; }
    else if (k == "XSR") { TcpConnectionPtr c = conn; std::thread([c]() { c->startRead(); }).join(); }
    else if (k == "XSP") { TcpConnectionPtr c = conn; std::thread([c]() { c->stopRead(); }).join(); }
    else if (k == "ODESTROY")
    {
      // single-loop owner: a connection whose close has been processed (state kDisconnected while
      // still registered) is no longer in the owner's map
      if (!reg || conn->state_ == TcpConnection::kDisconnected) rejected = true;
      else conn->connectDestroyed();
    }
    else { fprintf(stderr, "bad op %s\n", k.c_str()); return 2; }
    g_now_us += 1000;   // every op takes a millisecond of virtual time (distinct timer deadlines)
    drainPeer();
    string ev;
    for (size_t i = 0; i < g_events.size(); ++i) { if (i) ev += ","; ev += g_events[i]; }
    if (ev.empty()) ev = "-";
    if (k == "RUN") printf("steps=%s ", steps.empty() ? "-" : steps.c_str());
    printf("%s ev=%s st=%d out=%zu:%s in=%zu:%s wr=%d rd=%d reg=%d pend=%zu wire=%zu:%s fin=%d\n",
           rejected ? "rejected" : "ok", ev.c_str(), static_cast<int>(conn->state_),
           conn->outputBuffer_.readableBytes(), vh::fnv(conn->outputBuffer_.peek(), conn->outputBuffer_.readableBytes()).c_str(),
           conn->inputBuffer_.readableBytes(), vh::fnv(conn->inputBuffer_.peek(), conn->inputBuffer_.readableBytes()).c_str(),
           ch->isWriting() ? 1 : 0, ch->isReading() ? 1 : 0, ch->addedToLoop_ ? 1 : 0, loop.queueSize(),
           g_wire.size(), vh::fnv(g_wire).c_str(), g_eof ? 1 : 0);
    fflush(stdout);
  }
  return 0;
}
