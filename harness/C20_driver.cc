// C20 driver: the real muduo Date / TimeZone / Timestamp / InetAddress / sockets:: functions on the
// same cases as the extracted model (extract/C20_driver.ml), one canonical line per result.
// After " # " a line carries what the PLATFORM says for the same input (gmtime_r, timegm,
// localtime_r under TZ=:<file>, strftime, inet_pton/inet_ntop, htobe/betoh): that part is not
// compared with the model, it is what the property oracle (lib/props/C20.py) reads.
//
//   case <id> <kind> [<zonefile>]     kind: cal | utc | tzfile | tzsyn | text | inet | dump
//   D lo hi                 every Julian day number lo..hi: yearMonthDay, weekDay, and back
//   U t                     TimeZone::toUtcTime(t) and fromUtcTime of the result
//   V y m d h mi s          TimeZone::fromUtcTime
//   TAB offs trans          tzfile: compare with the table the real reader produced from <zonefile>;
//                           tzsyn: build the Data through addLocalTime/addTransition
//   L t                     toLocalTime(t, &off)
//   F y m d h mi s post     fromLocalTime
//   R t                     toLocalTime(t) then fromLocalTime(.., false) and (.., true)
//   DI lo hi                Date(j).toIsoString() for every day number lo..hi (# strftime %Y-%m-%d)
//   TA us t m secs delta hi lo   secondsSinceEpoch(us), fromUnixTime(t, m), addTime(us, secs), timeDifference(hi, lo)*1e6 (# the double)
//   TS us                   Timestamp::toString | toFormattedString(true) | toFormattedString(false)
//   BE k x                  hostToNetwork{16,32,64} as memory bytes, and back
//   IP texthex port flag p6hex n6hex     InetAddress(ip, port, ipv6)
//   IPS texthex port flag scope p6hex n6hex   the same, then setScopeId(scope); sin6_scope_id printed as scope=
//   IPP port lo v6 n6hex    InetAddress(port, loopbackOnly, ipv6)
//   N6 addrhex              inet_ntop(AF_INET6) of 16 bytes (platform function vs C20_Ip6Model.ntop6)
//   P6 texthex              inet_pton(AF_INET6) (platform function vs C20_Ip6Model.pton6)
//   P4 texthex              sockets::fromIpPort(AF_INET) + toIp
//   TZB hex                 the bytes as a file through detail::readTimeZoneFile: "tzif ok <offs> <trans>" | "tzif fail"
//   DUMP                    (kind dump) print the table the real reader produced: "dump <offs> <trans> <isdst>"
//   end
#include <algorithm>
#include <iostream>
#include <memory>
#include <stdexcept>
#include <string>
#include <vector>
#include <time.h>
#include <arpa/inet.h>
#include <endian.h>
#include <stdlib.h>
#include <math.h>
#include <unistd.h>

#define private public
#include "muduo/base/TimeZone.h"
// the definition of TimeZone::Data is private to TimeZone.cc: include the translation unit
// (the archive member TimeZone.o is then not pulled in by the linker)
#include "muduo/base/TimeZone.cc"
#include "muduo/base/Timestamp.h"
#include "muduo/base/Logging.h"
#include "muduo/net/InetAddress.h"
#include "muduo/net/SocketsOps.h"
#include "muduo/net/Endian.h"
#undef private

#include "common.h"

using namespace muduo;
using namespace muduo::net;
using std::string;
typedef long long ll;

static const int kJ1970 = 2440588;

static string dtStr(const DateTime& d)
{
  char b[128];
  snprintf(b, sizeof b, "%d %d %d %d %d %d", d.year, d.month, d.day, d.hour, d.minute, d.second);
  return b;
}

static string tmStr(const struct tm& t)
{
  char b[128];
  snprintf(b, sizeof b, "%d %d %d %d %d %d", t.tm_year + 1900, t.tm_mon + 1, t.tm_mday, t.tm_hour, t.tm_min, t.tm_sec);
  return b;
}

static std::vector<string> splitOn(const string& s, char c)
{
  std::vector<string> r;
  if (s == "-" || s.empty()) return r;
  size_t i = 0;
  while (true)
  {
    size_t j = s.find(c, i);
    if (j == string::npos) { r.push_back(s.substr(i)); break; }
    r.push_back(s.substr(i, j - i));
    i = j + 1;
  }
  return r;
}

static string showAddr(const InetAddress& a)
{
  const struct sockaddr* sa = a.getSockAddr();
  string addr, port;
  if (sa->sa_family == AF_INET6)
  {
    const struct sockaddr_in6* s6 = reinterpret_cast<const struct sockaddr_in6*>(sa);
    addr.assign(reinterpret_cast<const char*>(&s6->sin6_addr), 16);
    port.assign(reinterpret_cast<const char*>(&s6->sin6_port), 2);
  }
  else
  {
    const struct sockaddr_in* s4 = reinterpret_cast<const struct sockaddr_in*>(sa);
    addr.assign(reinterpret_cast<const char*>(&s4->sin_addr), 4);
    port.assign(reinterpret_cast<const char*>(&s4->sin_port), 2);
  }
  char b[512];
  snprintf(b, sizeof b, "fam=%s addr=%s port=%s toIp=%s toIpPort=%s port()=%u", sa->sa_family == AF_INET6 ? "6" : "4",
           vh::hexOf(addr).c_str(), vh::hexOf(port).c_str(), a.toIp().c_str(), a.toIpPort().c_str(), a.port());
  return b;
}

static string platformAddr(const string& text)
{
  // what inet_pton / inet_ntop say about the same text, both families
  unsigned char b4[4], b6[16];
  char t[64];
  string r;
  if (::inet_pton(AF_INET, text.c_str(), b4) == 1)
  {
    ::inet_ntop(AF_INET, b4, t, sizeof t);
    r += "p4=" + vh::hexOf(string(reinterpret_cast<char*>(b4), 4)) + " n4=" + t;
  }
  else r += "p4=- n4=-";
  if (::inet_pton(AF_INET6, text.c_str(), b6) == 1)
  {
    ::inet_ntop(AF_INET6, b6, t, sizeof t);
    r += " p6=" + vh::hexOf(string(reinterpret_cast<char*>(b6), 16)) + " n6=" + t;
  }
  else r += " p6=- n6=-";
  return r;
}

static void nullOutput(const char*, int) {}

int main()
{
  muduo::Logger::setOutput(nullOutput);   // LOG_SYSERR of a failed inet_pton must not reach stdout
  string line, kind, zonefile;
  TimeZone tz;
  while (std::getline(std::cin, line))
  {
    std::vector<string> w = vh::splitWs(line);
    if (w.empty()) continue;
    const string& k = w[0];
    if (k == "case")
    {
      kind = w.size() > 2 ? w[2] : "";
      zonefile = w.size() > 3 ? w[3] : "";
      tz = TimeZone();
      if (kind == "tzfile" || kind == "dump")
      {
        tz = TimeZone::loadZoneFile(zonefile.c_str());
        ::setenv("TZ", (":" + zonefile).c_str(), 1);
        ::tzset();
      }
      printf("case %s\n", w[1].c_str());
    }
    else if (k == "end") { printf("end\n"); fflush(stdout); }
    else if (k == "D")
    {
      int lo = atoi(w[1].c_str()), hi = atoi(w[2].c_str());
      for (int j = lo; j <= hi; ++j)
      {
        Date date(j);
        Date::YearMonthDay ymd = date.yearMonthDay();
        Date back(ymd.year, ymd.month, ymd.day);
        time_t t = static_cast<time_t>(j - kJ1970) * 86400;
        struct tm g;
        ::gmtime_r(&t, &g);
        struct tm h = g;
        time_t tg = ::timegm(&h);
        Date fromTm(g);
        printf("D %d %d %d %d %d %d # %d %d %d %d %lld %d\n", j, ymd.year, ymd.month, ymd.day, date.weekDay(),
               back.julianDayNumber(), g.tm_year + 1900, g.tm_mon + 1, g.tm_mday, g.tm_wday,
               static_cast<ll>(tg / 86400 + kJ1970), fromTm.julianDayNumber());
      }
    }
    else if (k == "U")
    {
      int64_t t = atoll(w[1].c_str());
      DateTime d = TimeZone::toUtcTime(t);
      int64_t back = TimeZone::fromUtcTime(d);
      time_t tt = static_cast<time_t>(t);
      struct tm g;
      ::gmtime_r(&tt, &g);
      struct tm h = g;
      printf("U %lld %s %lld # %s %lld\n", static_cast<ll>(t), dtStr(d).c_str(), static_cast<ll>(back), tmStr(g).c_str(),
             static_cast<ll>(::timegm(&h)));
    }
    else if (k == "V")
    {
      DateTime d(atoi(w[1].c_str()), atoi(w[2].c_str()), atoi(w[3].c_str()), atoi(w[4].c_str()), atoi(w[5].c_str()), atoi(w[6].c_str()));
      struct tm h;
      memset(&h, 0, sizeof h);
      h.tm_year = d.year - 1900; h.tm_mon = d.month - 1; h.tm_mday = d.day; h.tm_hour = d.hour; h.tm_min = d.minute; h.tm_sec = d.second;
      printf("V %lld # %lld\n", static_cast<ll>(TimeZone::fromUtcTime(d)), static_cast<ll>(::timegm(&h)));
    }
    else if (k == "TAB")
    {
      std::vector<string> offs = splitOn(w[1], ','), trs = splitOn(w[2], ',');
      if (kind == "tzsyn")
      {
        std::unique_ptr<TimeZone::Data> data(new TimeZone::Data);
        for (size_t i = 0; i < offs.size(); ++i) data->addLocalTime(atoi(offs[i].c_str()), false, 0);
        for (size_t i = 0; i < trs.size(); ++i)
        {
          size_t c = trs[i].find(':');
          data->addTransition(atoll(trs[i].substr(0, c).c_str()), atoi(trs[i].substr(c + 1).c_str()));
        }
        tz = TimeZone(std::move(data));
        printf("tab n=%zu k=%zu\n", trs.size(), offs.size());
      }
      else
      {
        bool same = tz.valid() && tz.data_->transitions.size() == trs.size() && tz.data_->localtimes.size() == offs.size();
        for (size_t i = 0; same && i < offs.size(); ++i) same = tz.data_->localtimes[i].utcOffset == atoi(offs[i].c_str());
        for (size_t i = 0; same && i < trs.size(); ++i)
        {
          size_t c = trs[i].find(':');
          const TimeZone::Data::Transition& tr = tz.data_->transitions[i];
          same = tr.utctime == atoll(trs[i].substr(0, c).c_str()) && tr.localtimeIdx == atoi(trs[i].substr(c + 1).c_str()) &&
                 tr.localtime == tr.utctime + tz.data_->localtimes[tr.localtimeIdx].utcOffset;
        }
        if (same) printf("tab n=%zu k=%zu\n", trs.size(), offs.size());
        else printf("tab MISMATCH with the table loaded from %s\n", zonefile.c_str());
      }
    }
    else if (k == "DUMP")
    {
      if (!tz.valid()) { printf("dump invalid\n"); continue; }
      string o, t, dst;
      char b[64];
      for (size_t i = 0; i < tz.data_->localtimes.size(); ++i)
      {
        snprintf(b, sizeof b, "%s%d", i ? "," : "", tz.data_->localtimes[i].utcOffset); o += b;
        dst += tz.data_->localtimes[i].isDst ? "1" : "0";
      }
      for (size_t i = 0; i < tz.data_->transitions.size(); ++i)
      {
        snprintf(b, sizeof b, "%s%lld:%d", i ? "," : "", static_cast<ll>(tz.data_->transitions[i].utctime), tz.data_->transitions[i].localtimeIdx);
        t += b;
      }
      printf("dump %s %s %s\n", o.empty() ? "-" : o.c_str(), t.empty() ? "-" : t.c_str(), dst.empty() ? "-" : dst.c_str());
    }
    else if (k == "TZB")
    {
      // the real reader on exactly these bytes (a scratch file, removed at once)
      string bytes = vh::bytesOfSpec(w[1]);
      char path[] = "/tmp/c20_tzif_XXXXXX";
      int fd = ::mkstemp(path);
      if (fd < 0) { printf("tzif scratch-file-error\n"); continue; }
      size_t off = 0;
      while (off < bytes.size())
      {
        ssize_t nw = ::write(fd, bytes.data() + off, bytes.size() - off);
        if (nw <= 0) break;
        off += static_cast<size_t>(nw);
      }
      ::close(fd);
      TimeZone::Data data;
      bool ok = muduo::detail::readTimeZoneFile(path, &data);   // its diagnostics go to stderr
      ::unlink(path);
      if (!ok) { printf("tzif fail\n"); continue; }
      string o, t;
      char b[64];
      for (size_t i = 0; i < data.localtimes.size(); ++i) { snprintf(b, sizeof b, "%s%d", i ? "," : "", data.localtimes[i].utcOffset); o += b; }
      for (size_t i = 0; i < data.transitions.size(); ++i)
      {
        const TimeZone::Data::Transition& tr = data.transitions[i];
        if (tr.localtime != tr.utctime + data.localtimes[tr.localtimeIdx].utcOffset) { t = "LOCALTIME-COLUMN-INCONSISTENT"; break; }
        snprintf(b, sizeof b, "%s%lld:%d", i ? "," : "", static_cast<ll>(tr.utctime), tr.localtimeIdx);
        t += b;
      }
      printf("tzif ok %s %s\n", o.empty() ? "-" : o.c_str(), t.empty() ? "-" : t.c_str());
    }
    else if (k == "L" || k == "R")
    {
      int64_t t = atoll(w[1].c_str());
      int off = 0;
      DateTime d = tz.toLocalTime(t, &off);
      string plat;
      if (kind == "tzfile")
      {
        time_t tt = static_cast<time_t>(t);
        struct tm g;
        ::localtime_r(&tt, &g);
        char b[64];
        snprintf(b, sizeof b, " %ld %d", g.tm_gmtoff, g.tm_isdst);
        plat = " # " + tmStr(g) + b;
      }
      if (k == "L") printf("L %lld %s %d%s\n", static_cast<ll>(t), dtStr(d).c_str(), off, plat.c_str());
      else printf("R %lld %s %d %lld %lld%s\n", static_cast<ll>(t), dtStr(d).c_str(), off, static_cast<ll>(tz.fromLocalTime(d, false)),
                  static_cast<ll>(tz.fromLocalTime(d, true)), plat.c_str());
    }
    else if (k == "F")
    {
      DateTime d(atoi(w[1].c_str()), atoi(w[2].c_str()), atoi(w[3].c_str()), atoi(w[4].c_str()), atoi(w[5].c_str()), atoi(w[6].c_str()));
      printf("F %lld\n", static_cast<ll>(tz.fromLocalTime(d, w[7] == "1")));
    }
    else if (k == "TS")
    {
      int64_t us = atoll(w[1].c_str());
      Timestamp ts(us);
      // platform: strftime over gmtime_r of the floor seconds, microseconds appended (only meaningful for us >= 0)
      time_t s = static_cast<time_t>(us / 1000000);
      struct tm g;
      ::gmtime_r(&s, &g);
      char b[64], c[96];
      ::strftime(b, sizeof b, "%Y%m%d %H:%M:%S", &g);
      snprintf(c, sizeof c, "%s.%06lld", b, static_cast<ll>(us % 1000000));
      printf("TS %s|%s|%s # %s|%s\n", ts.toString().c_str(), ts.toFormattedString(true).c_str(), ts.toFormattedString(false).c_str(), c, b);
    }
    else if (k == "DI")
    {
      int lo = atoi(w[1].c_str()), hi = atoi(w[2].c_str());
      for (int j = lo; j <= hi; ++j)
      {
        time_t t = static_cast<time_t>(j - kJ1970) * 86400;
        struct tm g;
        ::gmtime_r(&t, &g);
        char b[64];
        ::strftime(b, sizeof b, "%Y-%m-%d", &g);
        printf("DI %d %s # %s\n", j, Date(j).toIsoString().c_str(), b);
      }
    }
    else if (k == "TA")
    {
      // TA us t m seconds delta hi lo: secondsSinceEpoch, fromUnixTime(t, m), addTime(us, seconds), timeDifference(hi, lo)
      Timestamp a(atoll(w[1].c_str()));
      Timestamp f = Timestamp::fromUnixTime(static_cast<time_t>(atoll(w[2].c_str())), atoi(w[3].c_str()));
      Timestamp ad = addTime(a, strtod(w[4].c_str(), NULL));
      double td = timeDifference(Timestamp(atoll(w[6].c_str())), Timestamp(atoll(w[7].c_str())));
      printf("TA %lld %lld %lld %lld # %.17g\n", static_cast<ll>(a.secondsSinceEpoch()), static_cast<ll>(f.microSecondsSinceEpoch()),
             static_cast<ll>(ad.microSecondsSinceEpoch()), static_cast<ll>(llround(td * 1e6)), td);
    }
    else if (k == "BE")
    {
      int n = atoi(w[1].c_str());
      ll x = atoll(w[2].c_str());
      string mem, plat;
      ll dec = 0, sdec = 0;
      if (n == 2) { uint16_t v = sockets::hostToNetwork16(static_cast<uint16_t>(x)); mem.assign(reinterpret_cast<char*>(&v), 2); dec = sockets::networkToHost16(v); sdec = static_cast<int16_t>(dec);
                    uint16_t p = htons(static_cast<uint16_t>(x)); plat.assign(reinterpret_cast<char*>(&p), 2); }
      else if (n == 4) { uint32_t v = sockets::hostToNetwork32(static_cast<uint32_t>(x)); mem.assign(reinterpret_cast<char*>(&v), 4); dec = sockets::networkToHost32(v); sdec = static_cast<int32_t>(dec);
                         uint32_t p = htonl(static_cast<uint32_t>(x)); plat.assign(reinterpret_cast<char*>(&p), 4); }
      else { uint64_t v = sockets::hostToNetwork64(static_cast<uint64_t>(x)); mem.assign(reinterpret_cast<char*>(&v), 8); uint64_t d = sockets::networkToHost64(v);
             sdec = static_cast<int64_t>(d);
             char b[64]; snprintf(b, sizeof b, "%llu", static_cast<unsigned long long>(d));
             uint64_t p = htobe64(static_cast<uint64_t>(x)); plat.assign(reinterpret_cast<char*>(&p), 8);
             printf("BE %s %s %lld # %s\n", vh::hexOf(mem).c_str(), b, sdec, vh::hexOf(plat).c_str()); continue; }
      printf("BE %s %lld %lld # %s\n", vh::hexOf(mem).c_str(), dec, sdec, vh::hexOf(plat).c_str());
    }
    else if (k == "IP")
    {
      string text = vh::bytesOfSpec(w[1]);
      InetAddress a(text, static_cast<uint16_t>(atoi(w[2].c_str())), w[3] == "1");
      printf("IP %s # %s\n", showAddr(a).c_str(), platformAddr(text).c_str());
    }
    else if (k == "IPS")
    {
      string text = vh::bytesOfSpec(w[1]);
      InetAddress a(text, static_cast<uint16_t>(atoi(w[2].c_str())), w[3] == "1");
      a.setScopeId(static_cast<uint32_t>(strtoul(w[4].c_str(), NULL, 10)));
      const struct sockaddr* sa = a.getSockAddr();
      char sc[32] = "-";
      if (sa->sa_family == AF_INET6)
        snprintf(sc, sizeof sc, "%u", reinterpret_cast<const struct sockaddr_in6*>(sa)->sin6_scope_id);
      printf("IPS %s scope=%s # %s\n", showAddr(a).c_str(), sc, platformAddr(text).c_str());
    }
    else if (k == "IPP")
    {
      InetAddress a(static_cast<uint16_t>(atoi(w[1].c_str())), w[2] == "1", w[3] == "1");
      printf("IPP %s # %s\n", showAddr(a).c_str(), platformAddr(a.toIp()).c_str());
    }
    else if (k == "N6")
    {
      string a = vh::bytesOfSpec(w[1]);
      char t[64] = "";
      if (a.size() == 16 && ::inet_ntop(AF_INET6, a.data(), t, sizeof t)) printf("N6 %s\n", t);
      else printf("N6 error\n");
    }
    else if (k == "P6")
    {
      string text = vh::bytesOfSpec(w[1]);
      unsigned char b6[16];
      bool nul = text.find('\0') != string::npos;
      if (!nul && ::inet_pton(AF_INET6, text.c_str(), b6) == 1) printf("P6 %s\n", vh::hexOf(string(reinterpret_cast<char*>(b6), 16)).c_str());
      else printf("P6 none\n");
    }
    else if (k == "P4")
    {
      string text = vh::bytesOfSpec(w[1]);
      struct sockaddr_in sa;
      memset(&sa, 0, sizeof sa);
      unsigned char probe[4];
      bool ok = ::inet_pton(AF_INET, text.c_str(), probe) == 1;
      sockets::fromIpPort(text.c_str(), 0, &sa);
      char b[64] = "";
      sockets::toIp(b, sizeof b, reinterpret_cast<struct sockaddr*>(&sa));
      if (ok) printf("P4 %s %s\n", vh::hexOf(string(reinterpret_cast<char*>(&sa.sin_addr), 4)).c_str(), b);
      else printf("P4 none\n");
    }
    else { printf("bad op %s\n", k.c_str()); }
  }
  return 0;
}
