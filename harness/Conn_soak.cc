// Conn_soak: free-running loopback soak of the REAL TcpServer / TcpConnection / EventLoop(ThreadPool) under the
// poller selected by MUDUO_USE_POLL, with 0..N io threads, real kernel sockets, real scheduling (thorough tier of
// C01 / C03 / C11 / C13).  Nothing is scripted; the property texts are checked on what the raw peers receive and on
// the callbacks the server sees.
//
//   Conn_soak <ioThreads> <connections> <seed> <eintrSignals 0|1> [c13]
//
// With `c13` every connection is an echo connection (all sends on the loop thread) and the write-complete /
// high-water callbacks are checked EXACTLY: write() on the connection descriptors is interposed (pass-through,
// -Wl,--wrap=write) and logged together with the size of every send(); replaying that log through the property
// text (backlog arithmetic only) gives the number of write-completes and the list of high-water values that must
// have been delivered; the kernel send buffer is pinned to 4 KiB so that crossings of the 64 KiB mark happen.
//
// Connection kinds (round-robin over the connections):
//   E  echo: the raw client writes U pseudo-random bytes in random chunks, then reads them back (slowly at first, so
//      that the server's backlog crosses the high-water mark); the server echoes on its loop thread with alternating
//      send overloads.  Checked: echoed stream == sent stream (C01 both directions, any kernel split).
//   F  framed foreign senders: at UP the server starts 2 foreign threads per connection, each sending M framed blocks
//      (thread id, sequence number, length, patterned payload) with all three send overloads, overwriting its buffer
//      after send(); the last one to finish asks the loop to shutdown().  The client reads to EOF.  Checked: every
//      frame intact and contiguous, per thread sequence 0,1,2,.. without gap or repeat (C01 per-thread order), all
//      frames before the EOF (C03 flush before FIN), the server still receives afterwards and gets DOWN once.
//   C  forced close from a foreign thread after a little traffic: the client reads until EOF/RST.  Checked: DOWN once.
//   D  forceCloseWithDelay(0.25) at UP (loop thread), the client closes at once: the connection is down and destroyed
//      long before the timer fires (ASan watches the late timer).
// All connections: exactly one UP and one DOWN, every callback on the connection's own loop thread, high-water
// arguments >= the mark, write-complete seen where bytes were sent, no descriptor left open after the server is gone.
// With eintrSignals=1 a helper thread showers the process with SIGUSR1 (handler without SA_RESTART; only the loop
// threads have it unblocked), so epoll_wait/poll/read/write of the loops return EINTR at random points (C11).
// Output: `FAIL <Cxx>: ...` lines, one `soak ...` summary line, `result=ok|fail`.
#include <errno.h>
#include <fcntl.h>
#include <dirent.h>
#include <poll.h>
#include <pthread.h>
#include <signal.h>
#include <sys/socket.h>
#include <netinet/in.h>
#include <arpa/inet.h>
#include <unistd.h>

#include <atomic>
#include <map>
#include <memory>
#include <mutex>
#include <string>
#include <thread>
#include <vector>

#define private public
#include "muduo/net/TcpServer.h"
#include "muduo/net/TcpConnection.h"
#include "muduo/net/Socket.h"
#undef private
#include "muduo/net/EventLoop.h"
#include "muduo/net/InetAddress.h"
#include "muduo/net/Buffer.h"
#include "muduo/base/Logging.h"

using namespace muduo;
using namespace muduo::net;
using std::string;

static const size_t kMark = 64 * 1024;
static std::mutex g_mu;
static std::vector<string> g_fail;
static std::atomic<int> g_ups(0), g_downs(0), g_wc(0), g_hwm(0), g_signals(0);
static std::atomic<unsigned long long> g_up_bytes(0), g_down_bytes(0), g_frames(0);

// ---- exact C13 bookkeeping (mode c13): per connection, in loop-thread order: S len | W offered result; and what was delivered
struct ConnLog
{
  std::vector<std::pair<char, std::pair<long, long> > > ev;
  int wc;
  std::vector<size_t> hw;
  ConnLog() : wc(0) {}
};
static bool g_c13 = false;
static std::mutex g_logmu;
static std::map<int, std::shared_ptr<ConnLog> > g_byfd;
static std::map<string, std::shared_ptr<ConnLog> > g_logs;

extern "C" ssize_t __real_write(int fd, const void* buf, size_t n);
extern "C" ssize_t __wrap_write(int fd, const void* buf, size_t n)
{
  ssize_t r = __real_write(fd, buf, n);
  if (g_c13)
  {
    int saved = errno;
    std::shared_ptr<ConnLog> lg;
    {
      std::lock_guard<std::mutex> l(g_logmu);
      auto it = g_byfd.find(fd);
      if (it != g_byfd.end()) lg = it->second;
    }
    if (lg) lg->ev.push_back(std::make_pair('W', std::make_pair(static_cast<long>(n), static_cast<long>(r))));
    errno = saved;
  }
  return r;
}

static void fail(const char* prop, const string& msg)
{
  std::lock_guard<std::mutex> l(g_mu);
  if (g_fail.size() < 20) g_fail.push_back(string("FAIL ") + prop + ": " + msg);
}

struct Rng
{
  uint32_t x;
  explicit Rng(uint32_t s) : x(s | 1u) {}
  uint32_t next() { x ^= x << 13; x ^= x >> 17; x ^= x << 5; return x; }
  uint32_t below(uint32_t n) { return next() % n; }
};

struct ConnInfo
{
  int ups, downs;
  char kind;
  bool sawWrongThread;
  std::vector<std::thread> senders;
  std::atomic<int> sendersLeft;
  ConnInfo() : ups(0), downs(0), kind('?'), sawWrongThread(false), sendersLeft(0) {}
};
static std::map<string, std::shared_ptr<ConnInfo> > g_conns;
static std::vector<std::weak_ptr<TcpConnection> > g_weak;

static const int kFrames = 60;
static void fillFrame(string* out, int tid, uint32_t seq, uint32_t len)
{
  out->resize(16 + len);
  char* p = &(*out)[0];
  memcpy(p, "MDUO", 4);
  p[4] = static_cast<char>(tid); p[5] = 0; p[6] = 0; p[7] = 0;
  memcpy(p + 8, &seq, 4);
  memcpy(p + 12, &len, 4);
  for (uint32_t j = 0; j < len; ++j) p[16 + j] = static_cast<char>((tid * 131 + seq * 31 + j * 7) & 255);
}

static void senderThread(TcpConnectionPtr conn, std::shared_ptr<ConnInfo> info, int tid, uint32_t seed)
{
  sigset_t ss; sigemptyset(&ss); sigaddset(&ss, SIGUSR1); pthread_sigmask(SIG_BLOCK, &ss, NULL);
  Rng r(seed);
  string frame;
  for (int seq = 0; seq < kFrames; ++seq)
  {
    uint32_t len = (r.below(10) == 0) ? r.below(60000) : r.below(3000);
    fillFrame(&frame, tid, static_cast<uint32_t>(seq), len);
    switch (seq % 3)
    {
      case 0: conn->send(frame.data(), static_cast<int>(frame.size())); break;
      case 1: conn->send(StringPiece(frame)); break;
      default: { Buffer b; b.append(frame); conn->send(&b); if (b.readableBytes() != 0) fail("C01", "send(Buffer*) left bytes in the caller's buffer of an up connection"); }
    }
    std::fill(frame.begin(), frame.end(), '\xEE');   // the caller may reuse its memory as soon as send() has returned
    if (r.below(4) == 0) ::usleep(r.below(300));
  }
  if (--info->sendersLeft == 0)
  {
    // queued behind every sendInLoop of both senders: the half-close must come after all frames
    conn->getLoop()->runInLoop([conn]() { conn->shutdown(); });
  }
}

static void onConnection(const TcpConnectionPtr& conn)
{
  std::shared_ptr<ConnInfo> info;
  {
    std::lock_guard<std::mutex> l(g_mu);
    std::shared_ptr<ConnInfo>& slot = g_conns[conn->name()];
    if (!slot) slot.reset(new ConnInfo);
    info = slot;
  }
  if (!conn->getLoop()->isInLoopThread()) { info->sawWrongThread = true; fail("C02", "connection callback off the connection's loop thread"); }
  if (conn->connected())
  {
    ++g_ups;
    if (++info->ups != 1) fail("C03", "UP twice for " + conn->name());
    {
      std::lock_guard<std::mutex> l(g_mu);
      g_weak.push_back(conn);
    }
    // a small kernel send buffer, so that short writes, EAGAIN and a real backlog happen on loopback too
    int small = 4096;
    ::setsockopt(conn->socket_->fd(), SOL_SOCKET, SO_SNDBUF, &small, sizeof small);
    if (g_c13)
    {
      std::lock_guard<std::mutex> l(g_logmu);
      std::shared_ptr<ConnLog> lg(new ConnLog);
      g_byfd[conn->socket_->fd()] = lg;
      g_logs[conn->name()] = lg;
    }
    conn->setHighWaterMarkCallback([](const TcpConnectionPtr& c, size_t n) {
      ++g_hwm;
      if (g_c13) { std::lock_guard<std::mutex> l(g_logmu); g_logs[c->name()]->hw.push_back(n); }
      if (!c->getLoop()->isInLoopThread()) fail("C13", "high-water callback off the loop thread");
      if (n < kMark) fail("C13", "high-water callback with " + std::to_string(n) + " < mark");
    }, kMark);
  }
  else
  {
    ++g_downs;
    if (g_c13) { std::lock_guard<std::mutex> l(g_logmu); g_byfd.erase(conn->socket_->fd()); }
    if (++info->downs != 1) fail("C03", "DOWN " + std::to_string(info->downs) + " times for " + conn->name());
    if (info->ups != 1) fail("C03", "DOWN without UP for " + conn->name());
  }
}

static void onMessage(const TcpConnectionPtr& conn, Buffer* buf, Timestamp)
{
  if (!conn->getLoop()->isInLoopThread()) fail("C01", "message callback off the loop thread");
  std::shared_ptr<ConnInfo> info;
  {
    std::lock_guard<std::mutex> l(g_mu);
    info = g_conns[conn->name()];
  }
  if (info->downs > 0) fail("C03", "message callback after DOWN");
  if (info->kind == '?')
  {
    // first byte of the stream selects the kind
    info->kind = *buf->peek();
    buf->retrieve(1);
    if (info->kind == 'F')
    {
      info->sendersLeft = 2;
      uint32_t s = static_cast<uint32_t>(std::hash<string>()(conn->name()));
      info->senders.emplace_back(senderThread, conn, info, 1, s * 2 + 1);
      info->senders.emplace_back(senderThread, conn, info, 2, s * 2 + 7);
    }
    else if (info->kind == 'C')
    {
      TcpConnectionPtr c = conn;
      info->senders.emplace_back([c]() {
        sigset_t ss; sigemptyset(&ss); sigaddset(&ss, SIGUSR1); pthread_sigmask(SIG_BLOCK, &ss, NULL);
        ::usleep(15 * 1000);
        c->forceClose();
      });
    }
    else if (info->kind == 'D')
    {
      conn->forceCloseWithDelay(0.25);   // on the loop thread; the peer closes long before
    }
  }
  g_up_bytes += buf->readableBytes();
  if (info->kind == 'E')
  {
    // echo with alternating overloads
    static std::atomic<int> n(0);
    if (g_c13 && conn->connected())
    {
      std::lock_guard<std::mutex> l(g_logmu);
      g_logs[conn->name()]->ev.push_back(std::make_pair('S', std::make_pair(static_cast<long>(buf->readableBytes()), 0L)));
    }
    if ((n++ & 1) == 0) conn->send(buf);
    else { string s = buf->retrieveAllAsString(); conn->send(s); }
  }
  else buf->retrieveAll();
}

static void onWriteComplete(const TcpConnectionPtr& conn)
{
  ++g_wc;
  if (g_c13) { std::lock_guard<std::mutex> l(g_logmu); ++g_logs[conn->name()]->wc; }
  if (!conn->getLoop()->isInLoopThread()) fail("C13", "write-complete callback off the loop thread");
}

// ------------------------------------------------------------------ raw clients
static bool writeAll(int fd, const char* p, size_t n)
{
  while (n > 0)
  {
    ssize_t w = ::write(fd, p, n);
    if (w < 0) { if (errno == EINTR) continue; return false; }
    p += w; n -= static_cast<size_t>(w);
  }
  return true;
}

static void clientThread(uint16_t port, int idx, uint32_t seed)
{
  sigset_t ss; sigemptyset(&ss); sigaddset(&ss, SIGUSR1); pthread_sigmask(SIG_BLOCK, &ss, NULL);
  Rng r(seed);
  static const char kinds[] = {'E', 'F', 'E', 'C', 'F', 'D'};
  char kind = g_c13 ? 'E' : kinds[idx % 6];
  int fd = ::socket(AF_INET, SOCK_STREAM | SOCK_CLOEXEC, 0);
  struct timeval tmo = {8, 0};     // a peer that hears nothing for 8 s reports it instead of hanging
  ::setsockopt(fd, SOL_SOCKET, SO_RCVTIMEO, &tmo, sizeof tmo);
  int small = 8192;
  if (kind == 'E' || kind == 'F') ::setsockopt(fd, SOL_SOCKET, SO_RCVBUF, &small, sizeof small);
  struct sockaddr_in sa; memset(&sa, 0, sizeof sa);
  sa.sin_family = AF_INET; sa.sin_port = htons(port); sa.sin_addr.s_addr = htonl(INADDR_LOOPBACK);
  if (::connect(fd, reinterpret_cast<struct sockaddr*>(&sa), sizeof sa) != 0) { fail("C11", string("client connect: ") + strerror(errno)); ::close(fd); return; }
  writeAll(fd, &kind, 1);
  string tag = "conn#" + std::to_string(idx) + "(" + kind + ")";
  if (kind == 'E')
  {
    size_t total = 150000 + r.below(600000);
    string data(total, 0);
    for (size_t i = 0; i < total; ++i) data[i] = static_cast<char>(r.next() >> 9);
    size_t off = 0;
    while (off < total)
    {
      size_t n = std::min(total - off, static_cast<size_t>(1 + r.below(32768)));
      if (!writeAll(fd, data.data() + off, n)) { fail("C01", tag + " client write failed: " + strerror(errno)); break; }
      off += n;
      if (r.below(8) == 0) ::usleep(r.below(500));
    }
    ::usleep(30 * 1000);      // let the echo pile up in the server's output buffer
    string back;
    back.reserve(total);
    char buf[65536];
    while (back.size() < total)
    {
      size_t want = (back.size() < 100000) ? 1 + r.below(4096) : sizeof buf;
      ssize_t n = ::read(fd, buf, want);
      if (n < 0 && errno == EINTR) continue;
      if (n <= 0) { fail("C01", tag + " echo ended after " + std::to_string(back.size()) + " of " + std::to_string(total) + " bytes"); break; }
      back.append(buf, static_cast<size_t>(n));
    }
    g_down_bytes += back.size();
    if (back.size() == total && back != data)
    {
      size_t i = 0; while (i < total && back[i] == data[i]) ++i;
      fail("C01", tag + " echoed stream differs from the sent one at offset " + std::to_string(i));
    }
  }
  else if (kind == 'F')
  {
    string all;
    char buf[65536];
    int slow = 40;
    for (;;)
    {
      ssize_t n = ::read(fd, buf, slow > 0 ? 1 + r.below(2048) : sizeof buf);
      if (n < 0 && errno == EINTR) continue;
      if (n < 0 && (errno == EAGAIN || errno == EWOULDBLOCK)) { fail("C03", tag + " no end-of-stream within 8 s after " + std::to_string(all.size()) + " bytes: the half-close never came"); break; }
      if (n < 0) { fail("C03", tag + " stream ended with " + strerror(errno) + " instead of end-of-stream"); break; }
      if (n == 0) break;
      all.append(buf, static_cast<size_t>(n));
      if (slow-- > 0) ::usleep(300);
    }
    g_down_bytes += all.size();
    // still able to send after the server's half-close: the server must receive it (checked through g_up_bytes only)
    writeAll(fd, "tail", 4);
    uint32_t next[3] = {0, 0, 0};
    size_t off = 0;
    while (off < all.size())
    {
      if (all.size() - off < 16 && memcmp(all.data() + off, "MDUO", std::min<size_t>(4, all.size() - off)) == 0)
      {
        fail("C03", tag + " end-of-stream in the middle of a frame header (queued bytes cut off by the FIN)");
        fail("C01", tag + " frame header truncated at offset " + std::to_string(off));
        break;
      }
      if (all.size() - off < 16 || memcmp(all.data() + off, "MDUO", 4) != 0) { fail("C01", tag + " frame boundary lost at offset " + std::to_string(off) + " of " + std::to_string(all.size())); break; }
      int tid = all[off + 4];
      uint32_t seq, len;
      memcpy(&seq, all.data() + off + 8, 4); memcpy(&len, all.data() + off + 12, 4);
      if (tid < 1 || tid > 2) { fail("C01", tag + " corrupt frame header at offset " + std::to_string(off)); break; }
      if (all.size() - off - 16 < len)
      {
        fail("C03", tag + " end-of-stream in the middle of frame " + std::to_string(tid) + "/" + std::to_string(seq) + " (queued bytes cut off by the FIN)");
        fail("C01", tag + " frame " + std::to_string(tid) + "/" + std::to_string(seq) + " truncated at offset " + std::to_string(off));
        break;
      }
      if (seq != next[tid]) { fail("C01", tag + " thread " + std::to_string(tid) + ": frame " + std::to_string(seq) + " arrived where " + std::to_string(next[tid]) + " was due (lost, repeated or reordered)"); break; }
      bool ok = true;
      for (uint32_t j = 0; j < len && ok; ++j) ok = all[off + 16 + j] == static_cast<char>((tid * 131 + seq * 31 + j * 7) & 255);
      if (!ok) { fail("C01", tag + " payload of frame " + std::to_string(tid) + "/" + std::to_string(seq) + " modified"); break; }
      ++next[tid]; ++g_frames;
      off += 16 + len;
    }
    if (off == all.size() && (next[1] != static_cast<uint32_t>(kFrames) || next[2] != static_cast<uint32_t>(kFrames)))
      fail("C03", tag + " end-of-stream after " + std::to_string(next[1]) + "+" + std::to_string(next[2]) + " of 2x" + std::to_string(kFrames) + " frames accepted before shutdown()");
  }
  else if (kind == 'C')
  {
    string junk(3000 + r.below(20000), 'c');
    writeAll(fd, junk.data(), junk.size());
    char buf[4096];
    struct pollfd p = {fd, POLLIN, 0};
    int rc;
    do { rc = ::poll(&p, 1, 5000); } while (rc < 0 && errno == EINTR);
    if (rc <= 0) fail("C03", tag + " forced close did not reach the peer within 5 s");
    else { ssize_t n; do { n = ::read(fd, buf, sizeof buf); } while (n > 0 || (n < 0 && errno == EINTR)); }
  }
  else   // D: close at once; the delayed forced close fires on a connection that is down and destroyed
  {
    ::usleep(2000);
  }
  ::close(fd);
}

static int countFds()
{
  int n = 0;
  DIR* d = opendir("/proc/self/fd");
  while (readdir(d)) ++n;
  closedir(d);
  return n;
}

static void onSig(int) {}
static void nullOutput(const char*, int) {}
static void nullFlush() {}

int main(int argc, char** argv)
{
  if (argc < 5) { fprintf(stderr, "usage: Conn_soak ioThreads connections seed eintr\n"); return 2; }
  int ioThreads = atoi(argv[1]), nconn = atoi(argv[2]);
  uint32_t seed = static_cast<uint32_t>(atol(argv[3]));
  bool eintr = atoi(argv[4]) != 0;
  g_c13 = argc > 5 && string(argv[5]) == "c13";
  Logger::setOutput(nullOutput);
  Logger::setFlush(nullFlush);
  signal(SIGPIPE, SIG_IGN);
  struct sigaction sa; memset(&sa, 0, sizeof sa); sa.sa_handler = onSig; sigaction(SIGUSR1, &sa, NULL);   // no SA_RESTART
  alarm(120);   // watchdog: a wedged loop is a failure (C11), reported by the caller as a crash
  int fds0 = countFds();
  bool timedOut = false;
  {
    EventLoop loop;
    InetAddress addr(static_cast<uint16_t>(0), true);
    std::unique_ptr<TcpServer> server(new TcpServer(&loop, addr, "soak"));
    server->setThreadNum(ioThreads);
    server->setConnectionCallback(onConnection);
    server->setMessageCallback(onMessage);
    server->setWriteCompleteCallback(onWriteComplete);
    server->start();
    uint16_t port = 0;
    {
      // the listening descriptor is the only listening socket of the process: find its port
      for (int fd = 3; fd < 64 && port == 0; ++fd)
      {
        struct sockaddr_in a; socklen_t l = sizeof a; int v = 0; socklen_t vl = sizeof v;
        if (::getsockopt(fd, SOL_SOCKET, SO_ACCEPTCONN, &v, &vl) == 0 && v == 1 &&
            ::getsockname(fd, reinterpret_cast<struct sockaddr*>(&a), &l) == 0) port = ntohs(a.sin_port);
      }
    }
    if (port == 0) { printf("FAIL harness: no listening port\nresult=fail\n"); return 1; }
    std::atomic<bool> stopSig(false);
    std::thread controller([&]() {
      sigset_t ss; sigemptyset(&ss); sigaddset(&ss, SIGUSR1); pthread_sigmask(SIG_BLOCK, &ss, NULL);
      std::thread sig;
      if (eintr) sig = std::thread([&]() {
        sigset_t s2; sigemptyset(&s2); sigaddset(&s2, SIGUSR1); pthread_sigmask(SIG_BLOCK, &s2, NULL);
        while (!stopSig) { ::kill(::getpid(), SIGUSR1); ++g_signals; ::usleep(700); }
      });
      std::vector<std::thread> clients;
      Rng r(seed);
      for (int i = 0; i < nconn; ++i) clients.emplace_back(clientThread, port, i, r.next());
      for (auto& c : clients) c.join();
      // every connection must come down by itself now (kind D after its timer at the latest)
      for (int w = 0; w < 400 && g_downs.load() < nconn; ++w) ::usleep(10 * 1000);
      if (g_downs.load() < nconn) timedOut = true;
      ::usleep(300 * 1000);     // outlive the 0.25 s timers of kind D
      stopSig = true;
      if (sig.joinable()) sig.join();
      std::vector<std::thread> helpers;
      {
        std::lock_guard<std::mutex> l(g_mu);
        for (auto& kv : g_conns) for (auto& t : kv.second->senders) helpers.push_back(std::move(t));
      }
      for (auto& t : helpers) if (t.joinable()) t.join();
      loop.runInLoop([&loop]() { loop.quit(); });
    });
    loop.loop();
    controller.join();
    server.reset();
  }
  if (timedOut) fail("C03", "only " + std::to_string(g_downs.load()) + " of the connections came DOWN after their peers were done");
  int alive = 0;
  for (auto& w : g_weak) if (!w.expired()) ++alive;
  if (alive) fail("C02", std::to_string(alive) + " connection object(s) still alive after the server is gone");
  for (auto& kv : g_conns)
  {
    if (kv.second->ups != 1 || kv.second->downs != 1)
      fail("C03", kv.first + ": UP " + std::to_string(kv.second->ups) + " DOWN " + std::to_string(kv.second->downs));
  }
  g_conns.clear();
  int leaked = countFds() - fds0;
  if (leaked != 0) fail("C11", std::to_string(leaked) + " descriptor(s) left open after the server and all connections are gone");
  if (g_wc.load() == 0) fail("C13", "no write-complete callback although bytes were sent");
  long exact_wc = 0, exact_hw = 0;
  if (g_c13)
  {
    for (auto& kv : g_logs)
    {
      ConnLog& lg = *kv.second;
      size_t b = 0;            // the backlog, from the log alone
      int wc = 0;
      std::vector<size_t> hw;
      bool bad = false;
      for (size_t i = 0; i < lg.ev.size() && !bad; ++i)
      {
        char t = lg.ev[i].first;
        long a = lg.ev[i].second.first, r = lg.ev[i].second.second;
        if (t == 'S')
        {
          size_t len = static_cast<size_t>(a), rem = len, old = b;
          if (b == 0)
          {
            // nothing queued: sendInLoop writes directly; the next entry is that write
            if (i + 1 >= lg.ev.size() || lg.ev[i + 1].first != 'W' || lg.ev[i + 1].second.first != a) { bad = true; break; }
            long w = lg.ev[++i].second.second;
            rem = len - static_cast<size_t>(w > 0 ? w : 0);
            if (w >= 0 && rem == 0) ++wc;
          }
          if (rem > 0)
          {
            b = old + rem;
            if (old < kMark && b >= kMark) hw.push_back(b);
          }
        }
        else
        {
          // a drain: the whole backlog is offered
          if (static_cast<size_t>(a) != b || b == 0) { bad = true; break; }
          if (r > 0) { b -= static_cast<size_t>(r); if (b == 0) ++wc; }
        }
      }
      if (bad) { fail("C01", kv.first + ": the log of send()/write() calls does not fit sendInLoop/handleWrite (a write without a backlog, or not of the whole backlog)"); continue; }
      exact_wc += wc; exact_hw += static_cast<long>(hw.size());
      if (lg.wc != wc) fail("C13", kv.first + ": write-complete ran " + std::to_string(lg.wc) + " times, the backlog became empty " + std::to_string(wc) + " times");
      if (lg.hw != hw)
      {
        string got, want;
        for (size_t v : lg.hw) got += std::to_string(v) + " ";
        for (size_t v : hw) want += std::to_string(v) + " ";
        fail("C13", kv.first + ": high-water callbacks [" + got + "], upward crossings of the mark [" + want + "]");
      }
    }
  }
  for (size_t i = 0; i < g_fail.size(); ++i) printf("%s\n", g_fail[i].c_str());
  if (g_c13) printf("exact wc_expected=%ld hw_expected=%ld\n", exact_wc, exact_hw);
  printf("soak poller=%s threads=%d conns=%d up_bytes=%llu down_bytes=%llu frames=%llu wc=%d hwm=%d signals=%d ups=%d downs=%d leaked=%d\n",
         ::getenv("MUDUO_USE_POLL") ? "poll" : "epoll", ioThreads, nconn, g_up_bytes.load(), g_down_bytes.load(), g_frames.load(),
         g_wc.load(), g_hwm.load(), g_signals.load(), g_ups.load(), g_downs.load(), leaked);
  printf("result=%s\n", g_fail.empty() ? "ok" : "fail");
  return g_fail.empty() ? 0 : 1;
}
