// C04/C05 driver: the real muduo::net::EventLoop / EventLoopThread / EventLoopThreadPool under the
// controlled scheduler (harness/sched.cc: pthread mutex/cond/create/join + read/write/poll/
// epoll_wait interposed at link time).  One forked child per case.  No hook in /repo: the extra
// schedule points INSIDE EventLoop::quit / queueInLoop / loop and EventLoopThread::threadFunc come
// from compiling the unchanged EventLoop.cc / EventLoopThread.cc with -finstrument-functions
// (__cyg_profile_func_enter/exit below): the entry of the inline isInLoopThread() is the point
// between the store of quit_ and the wake-up in quit(), and between the append and the wake-up
// test in queueInLoop(); the entry of loop() is the point before `quit_ = false`; the exit of
// threadFunc() is the point after the stack EventLoop has been destroyed.
//
// Case format:
//   case <id> kind=loop|elt|pool poller=epoll|poll pts=0|1 sched=<source> steps=<n> [n=<N> calls=<k>]
//   P <acts>          kind=loop: code of the loop thread before loop(); kind=elt: the owner's program
//   L <acts>          kind=loop: code of the loop thread after loop() returned, followed by another
//                     call of loop() (one line per further call)
//   T <acts>          one line per foreign thread
//   S <id> <acts>     script of task / callback <id>
//   H <h1> <h2> ...   kind=pool: hash codes (after the `calls` getNextLoop calls)
//   O <ops>           kind=pool: a mixed call sequence instead: n = getNextLoop(), h<code> = getLoopForHash(code)
//   header big=<K> tail=<m>  kind=pool: after everything else K further getNextLoop() calls (not recorded),
//                     then m recorded ones: "tail <total calls before the first recorded one> r1 r2 ..."
//   end
// acts (separated by ';'):  q <t> | r <t> | quit | ev <k> | ta <k> | pt | wx | start | destroy | -
//   ta <k> = loop->runAfter(0, callback k): the timerfd is emulated by an eventfd that becomes readable when it is
//            armed (timerfd_create / timerfd_settime interposed): a timer that is due fires without any real time passing;
//   wx     = (kind=elt) wait until the loop thread's thread function has returned (sched::wait_exit: a blocking
//            schedulable action, no pthread_join)
// Output: "case <id>", scheduler lines (t/c/e/d, DEADLOCK, STEPLIMIT, schedule), "STUCK ..." when the
// only way on is a poll time-out, "final ...", "end".  Every trace line carries the observers
// q=<pendingFunctors_.size()> ev=<eventfd counter> quit= call= loop= it=<iteration_> (or "dead").
#include <errno.h>
#include <fcntl.h>
#include <stdint.h>
#include <stdio.h>
#include <sys/eventfd.h>
#include <sys/timerfd.h>
#include <sys/wait.h>
#include <unistd.h>
#include <iostream>
#include <map>
#include <memory>
#include <sstream>
#include <functional>

#define private public
#include "muduo/net/EventLoop.h"
#include "muduo/net/EventLoopThread.h"
#include "muduo/net/EventLoopThreadPool.h"
#undef private
#include "muduo/net/Channel.h"
#include "muduo/base/Logging.h"
#include "muduo/base/CurrentThread.h"

#include "common.h"
#include "sched.h"

using std::string;
using muduo::net::EventLoop;
using muduo::net::EventLoopThread;
using muduo::net::EventLoopThreadPool;

#define NOINSTR __attribute__((no_instrument_function))

struct Act { string op; int arg; };
typedef std::vector<Act> Prog;

struct CaseDesc
{
  string id, kind, poller;
  int pts, n, calls, tail;
  unsigned long long big;
  sched::Config cfg;
  Prog prefix;
  std::vector<Prog> later;
  std::vector<Prog> threads;
  std::map<int, Prog> scripts;
  std::vector<unsigned long> hashes;
  std::vector<string> pops;
};

static CaseDesc* g_case;
static EventLoop* volatile g_loop;      // the loop under test (NULL once destroyed)
static bool g_loop_dead;                // ~EventLoop has run for it
static int g_wakefd = -1, g_ev;
static int g_pipe[2] = {-1, -1};
static int g_pts;
static int g_foreign_total, g_foreign_done;
static int g_joining;                   // the owner is inside ~EventLoopThread
static int g_quit_calls, g_loop_returned;
static EventLoopThread* g_elt;
static EventLoopThreadPool* g_pool;             // kind=pool: observers per pool thread
static std::vector<EventLoop*> g_pool_loops;    // loop of pool thread i (registered by its init callback)
static std::vector<int> g_pool_wake, g_pool_ev, g_pool_alive;
static bool g_pool_dtor;                        // ~EventLoopThreadPool has begun: threads_ must not be read any more
static int g_child_idx = -1;
static pid_t g_child_tid;

// ------------------------------------------------------------------ instrumentation points
enum Api { A_NONE, A_QUIT, A_QUEUE, A_RUN, A_LOOP };
static __thread int t_api[16];
static __thread int t_depth;
static __thread int t_inhook;
static void* F_quit; static void* F_queue; static void* F_run; static void* F_loop; static void* F_inloop;
static void* F_tf; static void* F_dtor;

extern "C" {
void __cyg_profile_func_enter(void* fn, void* site) NOINSTR;
void __cyg_profile_func_exit(void* fn, void* site) NOINSTR;

void __cyg_profile_func_enter(void* fn, void*)
{
  if (!F_quit || t_inhook) return;
  int a = fn == F_quit ? A_QUIT : fn == F_queue ? A_QUEUE : fn == F_run ? A_RUN : fn == F_loop ? A_LOOP : A_NONE;
  if (a != A_NONE)
  {
    if (g_loop_dead && g_case && g_case->kind == "elt" && a != A_LOOP && sched::self() >= 0 && !t_inhook)
    {
      // the object was destroyed BEFORE the call (not between two halves of it): a stale pointer
      t_inhook = 1;
      sched::log("UAF %s called on a destroyed EventLoop", a == A_QUIT ? "quit()" : a == A_QUEUE ? "queueInLoop()" : "runInLoop()");
      fflush(stdout);
      t_inhook = 0;
    }
    if (t_depth < 16) t_api[t_depth] = a;
    ++t_depth;
    if (a == A_LOOP && g_pts && sched::self() >= 0) { t_inhook = 1; sched::point("loop_entry"); t_inhook = 0; }
    return;
  }
  if (fn == F_inloop && g_pts && sched::self() >= 0 && t_depth > 0 && t_depth <= 16)
  {
    int top = t_api[t_depth - 1];
    if (top == A_QUIT || top == A_QUEUE)
    {
      t_inhook = 1;
      sched::point(top == A_QUIT ? "quit_mid" : "queue_mid");
      if (g_loop_dead && g_case->kind == "elt")
      {
        // the object whose member is about to be read has been destroyed (F-4); ASan reports the
        // read itself as stack-use-after-scope right after this line
        sched::log("UAF %s continues on a destroyed EventLoop", top == A_QUIT ? "quit()" : "queueInLoop()");
        fflush(stdout);
      }
      t_inhook = 0;
    }
  }
}

void __cyg_profile_func_exit(void* fn, void*)
{
  if (!F_quit || t_inhook) return;
  if (fn == F_quit || fn == F_queue || fn == F_run || fn == F_loop) { if (t_depth > 0) --t_depth; return; }
  if (fn == F_dtor)
  {
    g_loop_dead = true; g_loop = NULL;
    int me = sched::self();     // a pool loop is destroyed by its own thread T(i+1)
    if (g_pool && me >= 1 && static_cast<size_t>(me - 1) < g_pool_alive.size()) g_pool_alive[static_cast<size_t>(me - 1)] = 0;
    return;
  }
  if (fn == F_tf && g_pts && sched::self() >= 0) { t_inhook = 1; sched::point("tf_exit"); t_inhook = 0; }
}
}

static void initHooks()
{
  F_quit = reinterpret_cast<void*>(&EventLoop::quit);
  F_queue = reinterpret_cast<void*>(&EventLoop::queueInLoop);
  F_run = reinterpret_cast<void*>(&EventLoop::runInLoop);
  F_loop = reinterpret_cast<void*>(&EventLoop::loop);
  F_inloop = reinterpret_cast<void*>(&EventLoop::isInLoopThread);
  F_tf = reinterpret_cast<void*>(&EventLoopThread::threadFunc);
  typedef void (EventLoop::*D)();
  // the complete-object destructor: found by name (a destructor's address cannot be taken)
  extern void eventloop_dtor_marker() __asm__("_ZN5muduo3net9EventLoopD1Ev");
  F_dtor = reinterpret_cast<void*>(&eventloop_dtor_marker);
}

// ------------------------------------------------------------------ observers
static void printFinal()
{
  EventLoop* l = g_loop;
  if (l && !g_loop_dead)
    printf("final q=%zu quit=%d loop=%d it=%ld quitcalls=%d returned=%d done=%d/%d\n", l->pendingFunctors_.size(),
           static_cast<int>(l->quit_), static_cast<int>(l->looping_), static_cast<long>(l->iteration_), g_quit_calls,
           g_loop_returned, g_foreign_done, g_foreign_total);
  else
    printf("final dead quitcalls=%d returned=%d done=%d/%d\n", g_quit_calls, g_loop_returned, g_foreign_done, g_foreign_total);
}

static void observe(string& line)
{
  char kind[16] = "", obj[32] = "", res[64] = "";
  long step; int ti;
  if (sscanf(line.c_str(), "t %ld T%d %15s %31s %63s", &step, &ti, kind, obj, res) == 5 && g_wakefd >= 0)
  {
    char fdn[16]; snprintf(fdn, sizeof fdn, "f%d", g_wakefd);
    if (!strcmp(obj, fdn) && !strcmp(kind, "write") && !strcmp(res, "8")) ++g_ev;
    if (!strcmp(obj, fdn) && !strcmp(kind, "read") && !strcmp(res, "8")) g_ev = 0;
  }
  EventLoop* l = g_loop;
  char buf[128];
  if (l && !g_loop_dead)
    snprintf(buf, sizeof buf, " q=%zu ev=%d quit=%d call=%d loop=%d it=%ld", l->pendingFunctors_.size(), g_ev,
             static_cast<int>(l->quit_), static_cast<int>(l->callingPendingFunctors_), static_cast<int>(l->looping_),
             static_cast<long>(l->iteration_));
  else
    snprintf(buf, sizeof buf, " dead");
  line += buf;
  if (g_elt) line += g_elt->loop_ != NULL ? " lp=1" : " lp=0";
#ifdef C04_INSTRUMENTED   // the end of a pool loop's life is seen through the instrumented ~EventLoop only
  if (g_pool)
  {
    // P<i>=q:ev:quit:call:loop:lp  or  P<i>=dead:lp  for every pool thread whose loop has been constructed
    int fdnum = -1;
    if (sscanf(obj, "f%d", &fdnum) == 1 && !strcmp(res, "8"))
      for (size_t i = 0; i < g_pool_wake.size(); ++i)
        if (g_pool_wake[i] == fdnum && g_pool_alive[i])
        {
          if (!strcmp(kind, "write")) ++g_pool_ev[i];
          if (!strcmp(kind, "read")) g_pool_ev[i] = 0;
        }
    for (size_t i = 0; i < g_pool_loops.size(); ++i)
    {
      int lp = g_pool_dtor ? 9 : (i < g_pool->threads_.size() && g_pool->threads_[i]->loop_ != NULL);   // 9 = not observed
      char pb[96];
      if (g_pool_alive[i])
      {
        EventLoop* pl = g_pool_loops[i];
        snprintf(pb, sizeof pb, " P%zu=%zu:%d:%d:%d:%d:%d", i, pl->pendingFunctors_.size(), g_pool_ev[i], static_cast<int>(pl->quit_),
                 static_cast<int>(pl->callingPendingFunctors_), static_cast<int>(pl->looping_), lp);
      }
      else snprintf(pb, sizeof pb, " P%zu=dead:%d", i, lp);
      line += pb;
    }
  }
#endif
  if (!strcmp(kind, "tmo") && !strcmp(obj, "poll"))
  {
    // nothing can run and the only way on is the poll time-out: report instead of "sleeping"
    fputs(line.c_str(), stdout);
    fputs("\n", stdout);
    printf("STUCK q=%zu quit=%d loop=%d quitcalls=%d done=%d/%d joining=%d\n", l ? l->pendingFunctors_.size() : 0,
           l ? static_cast<int>(l->quit_) : -1, l ? static_cast<int>(l->looping_) : -1, g_quit_calls, g_foreign_done,
           g_foreign_total, g_joining);
    printFinal();
    printf("end\n");
    fflush(stdout);
    _exit(0);
  }
}

// ------------------------------------------------------------------ timerfd emulation (no wall-clock dependence)
extern "C" {
int __real_timerfd_create(int, int);
int __real_timerfd_settime(int, int, const struct itimerspec*, struct itimerspec*);
ssize_t __real_write(int, const void*, size_t);
ssize_t __real_read(int, void*, size_t);
int __wrap_timerfd_create(int, int) NOINSTR;
int __wrap_timerfd_settime(int, int, const struct itimerspec*, struct itimerspec*) NOINSTR;

int __wrap_timerfd_create(int, int)
{
  return ::eventfd(0, EFD_NONBLOCK | EFD_CLOEXEC);   // read() returns 8 bytes like a timerfd
}

int __wrap_timerfd_settime(int fd, int, const struct itimerspec* nv, struct itimerspec* ov)
{
  if (ov) memset(ov, 0, sizeof *ov);
  uint64_t v = 0;
  ssize_t n = __real_read(fd, &v, sizeof v);   // disarm: forget an expiry that was not consumed
  (void)n;
  if (nv && (nv->it_value.tv_sec != 0 || nv->it_value.tv_nsec != 0))
  {
    v = 1;
    n = __real_write(fd, &v, sizeof v);        // armed = due: the loop sees it at its next poll
    if (sched::self() >= 0) sched::log("timer-armed");
  }
  return 0;
}
}

// ------------------------------------------------------------------ user code
static void runActs(const Prog& p);

static void timerCallback(int k)
{
  sched::log("cb %d", k);
  std::map<int, Prog>::const_iterator it = g_case->scripts.find(k);
  if (it != g_case->scripts.end()) runActs(it->second);
  sched::log("cbe %d", k);
}

static void taskBody(int t)
{
  sched::log("x %d", t);
  std::map<int, Prog>::const_iterator it = g_case->scripts.find(t);
  if (it != g_case->scripts.end()) runActs(it->second);
  sched::log("xe %d", t);
}

static void pipeCallback()
{
  char b = 0;
  ssize_t n = ::read(g_pipe[0], &b, 1);
  if (n != 1) { sched::log("cb-spurious"); return; }
  int k = static_cast<unsigned char>(b);
  sched::log("cb %d", k);
  std::map<int, Prog>::const_iterator it = g_case->scripts.find(k);
  if (it != g_case->scripts.end()) runActs(it->second);
  sched::log("cbe %d", k);
}

static void initCallback(EventLoop* loop)
{
  // runs in EventLoopThread::threadFunc before the loop is published
  g_loop = loop;
  g_loop_dead = false;
  g_wakefd = loop->wakeupFd_;
  g_child_idx = sched::self();
  g_child_tid = muduo::CurrentThread::tid();
  sched::log("loop created wake=f%d qm=m%d", g_wakefd, sched::name_mutex(loop->mutex_.getPthreadMutex()));
}

static void runActs(const Prog& p)
{
  for (size_t i = 0; i < p.size(); ++i)
  {
    const Act& a = p[i];
    EventLoop* l = g_loop;
    if (a.op == "q") { sched::log("call q %d", a.arg); l->queueInLoop(std::bind(taskBody, a.arg)); sched::log("ret q %d", a.arg); }
    else if (a.op == "r") { sched::log("call r %d", a.arg); l->runInLoop(std::bind(taskBody, a.arg)); sched::log("ret r %d", a.arg); }
    else if (a.op == "quit") { sched::log("call quit"); ++g_quit_calls; l->quit(); sched::log("ret quit"); }
    else if (a.op == "ev") { char b = static_cast<char>(a.arg); ssize_t n = ::write(g_pipe[1], &b, 1); (void)n; }
    else if (a.op == "pt") { sched::point("user"); }
    else if (a.op == "ta") { sched::log("call ta %d", a.arg); l->runAfter(0.0, std::bind(timerCallback, a.arg)); sched::log("ret ta %d", a.arg); }
    else if (a.op == "wx") { sched::wait_exit(g_child_idx); }
    else if (a.op == "start")
    {
      g_elt = new EventLoopThread(initCallback, "elt");
      sched::log("elt created latch=m%d,c%d elt=m%d,c%d", sched::name_mutex(g_elt->thread_.latch_.mutex_.getPthreadMutex()),
                 sched::name_cond(&g_elt->thread_.latch_.condition_.pcond_),
                 sched::name_mutex(g_elt->mutex_.getPthreadMutex()), sched::name_cond(&g_elt->cond_.pcond_));
      EventLoop* got = g_elt->startLoop();
      sched::log("started nonnull=%d same=%d owner=%s", got != NULL, got == g_loop,
                 got && got->threadId_ == g_child_tid && g_child_tid != muduo::CurrentThread::tid() ? "child" : "WRONG");
    }
    else if (a.op == "destroy")
    {
      sched::log("call destroy");
      g_joining = 1;
      delete g_elt;
      g_elt = NULL;
      g_joining = 0;
      sched::log("ret destroy");
    }
    else sched::log("BADOP %s", a.op.c_str());
  }
}

static void logToStderr(const char* msg, int len) { size_t n = fwrite(msg, 1, static_cast<size_t>(len), stderr); (void)n; }

// ------------------------------------------------------------------ the three kinds of case
static void runLoopCase(const CaseDesc& c)
{
  sched::run(c.cfg, [&c]() {
    EventLoop loop;
    g_loop = &loop;
    g_wakefd = loop.wakeupFd_;
    sched::name_mutex(loop.mutex_.getPthreadMutex());
    if (::pipe2(g_pipe, O_NONBLOCK | O_CLOEXEC) != 0) abort();
    muduo::net::Channel ch(&loop, g_pipe[0]);
    ch.setReadCallback(std::bind(pipeCallback));
    ch.enableReading();
    sched::log("loop created wake=f%d pipe=f%d,f%d", g_wakefd, g_pipe[0], g_pipe[1]);
    std::vector<sched::handle> hs;
    g_foreign_total = static_cast<int>(c.threads.size());
    for (size_t i = 0; i < c.threads.size(); ++i)
    {
      const Prog* p = &c.threads[i];
      hs.push_back(sched::spawn([p]() { runActs(*p); ++g_foreign_done; sched::log("thread-done"); }));
    }
    sched::log("go");
    runActs(c.prefix);
    sched::log("enter");
    loop.loop();
    ++g_loop_returned;
    sched::log("loop-returned");
    for (size_t k = 0; k < c.later.size(); ++k)
    {
      runActs(c.later[k]);
      sched::log("enter");
      loop.loop();
      ++g_loop_returned;
      sched::log("loop-returned");
    }
    for (size_t i = 0; i < hs.size(); ++i) sched::join(hs[i]);
    printFinal();
    ch.disableAll();
    ch.remove();
    g_loop = NULL;
  });
}

static void runEltCase(const CaseDesc& c)
{
  sched::run(c.cfg, [&c]() {
    std::vector<sched::handle> hs;
    sched::log("go");
    runActs(c.prefix);
    if (g_elt) { Prog p; Act a; a.op = "destroy"; a.arg = 0; p.push_back(a); runActs(p); }
    printFinal();
  });
}

static void poolTask(int i) { sched::log("x %d", i); sched::log("pooltask %d on T%d", i, sched::self()); sched::log("xe %d", i); }

static void poolInit(EventLoop* loop)
{
  // runs in every pool thread before its loop is published
  g_pool_loops.push_back(loop);
  g_pool_wake.push_back(loop->wakeupFd_);
  g_pool_ev.push_back(0);
  g_pool_alive.push_back(1);
  sched::log("loop created wake=f%d qm=m%d", loop->wakeupFd_, sched::name_mutex(loop->mutex_.getPthreadMutex()));
}

static void runPoolCase(const CaseDesc& c)
{
  sched::run(c.cfg, [&c]() {
    EventLoop base;
    {
      EventLoopThreadPool pool(&base, "p");
      g_pool = &pool;
      pool.setThreadNum(c.n);
      pool.start(poolInit);
      for (size_t i = 0; i < pool.threads_.size(); ++i)
      {
        EventLoopThread* t = pool.threads_[i].get();
        sched::log("pool thread %zu latch=m%d,c%d elt=m%d,c%d", i, sched::name_mutex(t->thread_.latch_.mutex_.getPthreadMutex()),
                   sched::name_cond(&t->thread_.latch_.condition_.pcond_), sched::name_mutex(t->mutex_.getPthreadMutex()),
                   sched::name_cond(&t->cond_.pcond_));
      }
      sched::log("pool started");
      std::vector<EventLoop*> all = pool.getAllLoops();
      std::map<EventLoop*, int> idx;
      if (c.n == 0) idx[&base] = -1;
      else for (size_t i = 0; i < all.size(); ++i) idx[all[i]] = static_cast<int>(i);
      std::map<pid_t, int> owners;
      for (size_t i = 0; i < all.size(); ++i) owners[all[i]->threadId_]++;
      printf("pool n=%d loops=%zu distinct_owner_threads=%zu base_in_all=%d\n", c.n, all.size(), owners.size(),
             all.size() == 1 && all[0] == &base);
      string s = "next";
      char b[24];
      for (int k = 0; k < c.calls; ++k)
      {
        EventLoop* l = pool.getNextLoop();
        snprintf(b, sizeof b, " %d", idx.count(l) ? idx[l] : -2);
        s += b;
      }
      printf("%s\n", s.c_str());
      s = "hash";
      for (size_t k = 0; k < c.hashes.size(); ++k)
      {
        EventLoop* l = pool.getLoopForHash(c.hashes[k]);
        EventLoop* l2 = pool.getLoopForHash(c.hashes[k]);
        snprintf(b, sizeof b, " %d", l != l2 ? -3 : idx.count(l) ? idx[l] : -2);
        s += b;
      }
      printf("%s\n", s.c_str());
      if (!c.pops.empty())
      {
        s = "ops";
        for (size_t k = 0; k < c.pops.size(); ++k)
        {
          EventLoop* l = c.pops[k] == "n" ? pool.getNextLoop() : pool.getLoopForHash(strtoul(c.pops[k].c_str() + 1, NULL, 10));
          snprintf(b, sizeof b, " %d", idx.count(l) ? idx[l] : -2);
          s += b;
        }
        printf("%s\n", s.c_str());
      }
      if (c.big > 0)
      {
        unsigned long long before = static_cast<unsigned long long>(c.calls);
        for (size_t k = 0; k < c.pops.size(); ++k) if (c.pops[k] == "n") ++before;
        for (unsigned long long k = 0; k < c.big; ++k) pool.getNextLoop();
        printf("tail %llu", before + c.big);
        for (int k = 0; k < c.tail; ++k)
        {
          EventLoop* l = pool.getNextLoop();
          printf(" %d", idx.count(l) ? idx[l] : -2);
        }
        printf("\n");
      }
      // every loop accepts a task and runs it on its own thread
      if (c.n > 0)
        for (size_t i = 0; i < all.size(); ++i) all[i]->runInLoop(std::bind(poolTask, static_cast<int>(i)));
      sched::point("before_pool_destroy");
      sched::log("pool destroying");
      g_pool_dtor = true;
    }
    g_pool = NULL;
    printf("pool destroyed\n");
  });
}

static void runCase(CaseDesc& c)
{
  muduo::Logger::setOutput(logToStderr);
  if (c.poller == "poll") ::setenv("MUDUO_USE_POLL", "1", 1); else ::unsetenv("MUDUO_USE_POLL");
  g_case = &c;
  g_pts = c.pts;
  initHooks();
  sched::set_observer(observe);
  sched::set_deadlock_handler(printFinal);
  if (c.kind == "loop") runLoopCase(c);
  else if (c.kind == "elt") runEltCase(c);
  else runPoolCase(c);
  printf("end\n");
  fflush(stdout);
  _exit(0);
}

static Prog parseActs(const std::vector<string>& w, size_t from)
{
  Prog p;
  size_t i = from;
  while (i < w.size())
  {
    if (w[i] == ";" || w[i] == "-") { ++i; continue; }
    Act a;
    a.op = w[i++];
    a.arg = 0;
    if ((a.op == "q" || a.op == "r" || a.op == "ev" || a.op == "ta") && i < w.size()) a.arg = atoi(w[i++].c_str());
    p.push_back(a);
  }
  return p;
}

int main()
{
  string line;
  CaseDesc c;
  bool in = false;
  while (std::getline(std::cin, line))
  {
    std::vector<string> w = vh::splitWs(line);
    if (w.empty()) continue;
    if (w[0] == "case")
    {
      c = CaseDesc();
      c.id = w[1];
      c.kind = "loop";
      c.poller = "epoll";
      c.pts = 1;
      c.n = 0;
      c.calls = 0;
      c.tail = 0;
      c.big = 0;
      c.cfg.max_steps = 4000;
      for (size_t i = 2; i < w.size(); ++i)
      {
        if (sched::parse_token(c.cfg, w[i])) continue;
        size_t eq = w[i].find('=');
        if (eq == string::npos) continue;
        string k = w[i].substr(0, eq), v = w[i].substr(eq + 1);
        if (k == "kind") c.kind = v;
        else if (k == "poller") c.poller = v;
        else if (k == "pts") c.pts = atoi(v.c_str());
        else if (k == "n") c.n = atoi(v.c_str());
        else if (k == "calls") c.calls = atoi(v.c_str());
        else if (k == "tail") c.tail = atoi(v.c_str());
        else if (k == "big") c.big = strtoull(v.c_str(), NULL, 10);
      }
      in = true;
      continue;
    }
    if (!in) continue;
    if (w[0] == "end")
    {
      in = false;
      printf("case %s\n", c.id.c_str());
      fflush(stdout);
      char errfile[64];
      snprintf(errfile, sizeof errfile, "/tmp/c04drv.%d.err", static_cast<int>(getpid()));
      pid_t pid = fork();
      if (pid == 0)
      {
        int fd = ::open(errfile, O_WRONLY | O_CREAT | O_TRUNC, 0600);
        if (fd >= 0) { ::dup2(fd, 2); ::close(fd); }
        runCase(c);
      }
      int st = 0;
      waitpid(pid, &st, 0);
      if (!(WIFEXITED(st) && WEXITSTATUS(st) == 0))
      {
        // summarise the sanitizer / assert report without addresses
        string why;
        FILE* f = fopen(errfile, "r");
        if (f)
        {
          char buf[512];
          while (fgets(buf, sizeof buf, f))
          {
            string s(buf);
            size_t p;
            if ((p = s.find("SUMMARY: ")) != string::npos || (p = s.find("Assertion")) != string::npos ||
                (p = s.find("runtime error")) != string::npos)
            {
              string t = s.substr(p);
              while (!t.empty() && (t[t.size() - 1] == '\n' || t[t.size() - 1] == '\r')) t.erase(t.size() - 1);
              for (size_t i = 0; i < t.size(); ++i) if (t[i] == ' ') t[i] = '_';
              if (why.size() < 300) why += " " + t;
            }
            else if (s.find("    #1 ") != string::npos || s.find("    #0 ") != string::npos)
            {
              size_t q = s.find(" in ");
              if (q != string::npos && why.size() < 300)
              {
                string t = s.substr(q + 4);
                size_t sp = t.find(' ');
                if (sp != string::npos) t = t.substr(0, sp);
                why += " @" + t;
              }
            }
          }
          fclose(f);
        }
        printf("CRASH status=%d%s\nend\n", st, why.c_str());
      }
      ::unlink(errfile);
      fflush(stdout);
      continue;
    }
    if (w[0] == "P") c.prefix = parseActs(w, 1);
    else if (w[0] == "L") c.later.push_back(parseActs(w, 1));
    else if (w[0] == "T") c.threads.push_back(parseActs(w, 1));
    else if (w[0] == "S" && w.size() >= 2) c.scripts[atoi(w[1].c_str())] = parseActs(w, 2);
    else if (w[0] == "H") for (size_t i = 1; i < w.size(); ++i) c.hashes.push_back(strtoul(w[i].c_str(), NULL, 10));
    else if (w[0] == "O") for (size_t i = 1; i < w.size(); ++i) c.pops.push_back(w[i]);
  }
  return 0;
}
