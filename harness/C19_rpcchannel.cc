// C19: the tree's RpcChannel.cc (VERIF_REPO, current sources) compiled as a translation unit of the
// driver with the atomic hook of C19_atomic_hook.h in place.  The archive member RpcChannel.o of the
// muduo static library is then not pulled in by the linker (every symbol it defines is defined here).
#include "C19_atomic_hook.h"
#include "muduo/net/protorpc/RpcChannel.cc"
