// C08 fail-fast suite: each loop-confined operation is invoked from a thread that is NOT the owner of the
// loop; the process (the forked child of the check) must die with SIGABRT from
// EventLoop::abortNotInLoopThread (LOG_FATAL -> abort) instead of proceeding.
//   C08_failfast <op>      prints "REACHED-AFTER <op>" and exits 0 if the operation returned.
// The owner thread constructs the EventLoop and then only sleeps (no loop() is running, so debug asserts such
// as assert(!looping_) cannot be what kills the process).
#include <stdio.h>
#include <stdlib.h>
#include <string.h>
#include <unistd.h>
#include <sys/socket.h>
#include <sys/eventfd.h>
#include <string>

#include "muduo/base/Logging.h"
#include "muduo/base/Thread.h"
#include "muduo/base/CountDownLatch.h"
#include "muduo/net/EventLoop.h"
#include "muduo/net/Channel.h"
#include "muduo/net/EventLoopThreadPool.h"
#include "muduo/net/TcpConnection.h"
#include "muduo/net/TcpServer.h"
#include "muduo/net/InetAddress.h"

using namespace muduo;
using namespace muduo::net;

static EventLoop* g_loop = NULL;
static CountDownLatch* g_latch = NULL;

static void ownerThread()
{
  EventLoop loop;              // owned by this thread
  g_loop = &loop;
  g_latch->countDown();
  ::sleep(5);                  // never loops; the foreign call below must have aborted the process long before
}

int main(int argc, char** argv)
{
  if (argc < 2)
  {
    printf("loop updateChannel removeChannel hasChannel pool_start pool_getNextLoop pool_getLoopForHash pool_getAllLoops "
           "conn_connectEstablished conn_connectDestroyed server_start server_dtor connector_restart\n");
    return 0;
  }
  std::string op(argv[1]);
  Logger::setLogLevel(Logger::WARN);
  CountDownLatch latch(1);
  g_latch = &latch;
  Thread owner(ownerThread, "owner");
  owner.start();
  latch.wait();
  EventLoop* loop = g_loop;    // we are a foreign thread for this loop

  if (op == "control_owner_ok")
  {
    // control: a foreign-thread call of a thread-safe operation does not abort
    loop->queueInLoop([] {});
    (void)loop->queueSize();
  }
  else if (op == "loop")
  {
    loop->loop();
  }
  else if (op == "updateChannel")
  {
    int fd = ::eventfd(0, EFD_NONBLOCK | EFD_CLOEXEC);
    Channel* ch = new Channel(loop, fd);
    ch->enableReading();       // Channel::update -> EventLoop::updateChannel
  }
  else if (op == "removeChannel")
  {
    int fd = ::eventfd(0, EFD_NONBLOCK | EFD_CLOEXEC);
    Channel* ch = new Channel(loop, fd);
    ch->remove();              // EventLoop::removeChannel
  }
  else if (op == "hasChannel")
  {
    int fd = ::eventfd(0, EFD_NONBLOCK | EFD_CLOEXEC);
    Channel* ch = new Channel(loop, fd);
    (void)loop->hasChannel(ch);
  }
  else if (op.compare(0, 5, "pool_") == 0)
  {
    EventLoopThreadPool* pool = new EventLoopThreadPool(loop, "c08pool");
    pool->setThreadNum(1);
    if (op == "pool_start") pool->start();
    else if (op == "pool_getNextLoop") (void)pool->getNextLoop();
    else if (op == "pool_getLoopForHash") (void)pool->getLoopForHash(7);
    else if (op == "pool_getAllLoops") (void)pool->getAllLoops();
  }
  else if (op == "conn_connectEstablished" || op == "conn_connectDestroyed")
  {
    int sv[2];
    if (::socketpair(AF_UNIX, SOCK_STREAM | SOCK_NONBLOCK, 0, sv) != 0) return 3;
    InetAddress a("127.0.0.1", 1), b("127.0.0.1", 2);
    TcpConnectionPtr* conn = new TcpConnectionPtr(new TcpConnection(loop, "c08conn", sv[0], a, b));
    if (op == "conn_connectEstablished") (*conn)->connectEstablished();
    else (*conn)->connectDestroyed();
  }
  else if (op == "server_start" || op == "server_dtor")
  {
    TcpServer* server = new TcpServer(loop, InetAddress("127.0.0.1", 0), "c08srv");
    server->setThreadNum(1);
    if (op == "server_start") server->start();     // F-12: the pool start asserts the loop thread
    else delete server;
  }
  else
  {
    fprintf(stderr, "unknown op %s\n", op.c_str());
    return 2;
  }
  printf("REACHED-AFTER %s\n", op.c_str());
  fflush(stdout);
  _exit(0);
}
