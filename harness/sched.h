// sched.h: controlled cooperative scheduler ("driver style B"), see docs/sched.md.
// Control is obtained by link-time interposition (-Wl,--wrap=pthread_mutex_lock,... see
// lib/schedlib.py WRAP); no hook is placed in /repo.
//
// NOTE: this file is called sched.h and lives on the -I path of every driver, so <pthread.h>'s
// `#include <sched.h>` finds it first.  It therefore forwards to the system header before
// anything else; the POSIX declarations stay available exactly as without this file.
#include_next <sched.h>
#ifndef VERIF_HARNESS_SCHED_H
#define VERIF_HARNESS_SCHED_H
#include <stdio.h>
#include <functional>
#include <string>

namespace sched
{
// kinds of wrapped calls / trace actions (bit positions of pre_mask / post_mask)
enum Kind
{
  K_BEGIN = 0, K_EXIT, K_CREATE, K_JOIN, K_LOCK, K_UNLOCK, K_WAIT, K_WAKE, K_SIGNAL, K_BCAST,
  K_POINT, K_SPUR, K_TMO, K_AFTER, K_IOWRITE, K_IOREAD, K_POLL, K_NKINDS
};
inline unsigned bit(Kind k) { return 1u << static_cast<unsigned>(k); }

struct Config
{
  // "" (default policy only) | "list:3,0,1" (explicit choices, then default policy)
  // | "rand:SEED[:PSWITCH[:PSPUR]]" (seeded PRNG; probabilities in percent)
  std::string source;
  int max_spurious;     // budget of injected spurious wake-ups (0 = never offered)
  bool timeouts;        // offer time-outs of timed waits as choices while other threads are enabled
  unsigned pre_mask;    // extra park BEFORE these calls (lock, wake, join, begin, point always park)
  unsigned post_mask;   // park AFTER these calls returned (K_UNLOCK, K_SIGNAL, K_IOWRITE, ...)
  int max_steps;        // livelock guard
  FILE* out;            // where trace / choice / event lines go (default stdout)
  Config() : max_spurious(0), timeouts(false), pre_mask(0), post_mask(0), max_steps(200000), out(NULL) {}
};

// Parses "key=value" tokens understood by every driver: sched=<source> spur=<n> tmo=<0|1>
// pre=<mask> post=<mask> steps=<n>.  Returns false if the token is not one of these.
bool parse_token(Config& cfg, const std::string& tok);

// Runs body() as managed thread T0 on the calling thread; threads created (pthread_create from
// linked code, e.g. muduo::Thread, or sched::spawn) by managed threads are managed.  Returns 0
// when every managed thread has finished.  On DEADLOCK / step limit it prints the report, calls
// the deadlock handler, prints the realised schedule, flushes and _exit(0)s: it never blocks.
int run(const Config& cfg, const std::function<void()>& body);

// named schedule point inside DRIVER code (always enabled, always parks)
void point(const char* name);
// event log (linearisation order: call it while still holding the turn, i.e. before the next
// wrapped call of this thread); printed as "e T<i> <text>"
void log(const char* fmt, ...) __attribute__((format(printf, 1, 2)));
// canonical index of the calling managed thread (0 = the thread that called run), -1 if unmanaged
int self();
bool active();
// canonical names: objects are numbered m0,m1,... / c0,c1,... in order of first appearance in
// the run; a driver may pre-register objects before/inside run() to fix their numbers.
int name_mutex(const void* pthread_mutex_addr);
int name_cond(const void* pthread_cond_addr);
// scheduler's own view (for driver oracles): owner thread of mutex index, -1 if free
int owner_of(int mutex_index);
// appended to every trace line (called by the thread holding the turn, after the step's effect)
void set_observer(const std::function<void(std::string&)>& f);
// called after the DEADLOCK report, before exit (print monitor state with sched::log / fprintf)
void set_deadlock_handler(const std::function<void()>& f);

// managed threads for drivers that do not want muduo::Thread's start-up hand-shake in the trace
typedef int handle;
handle spawn(const std::function<void()>& f);
void join(handle h);
// blocks (as a schedulable action, never really) until managed thread `thread_index` has finished its thread
// function; does NOT pthread_join it (the program under test may still do that).  Trace: "point waited T<i>".
void wait_exit(int thread_index);
}  // namespace sched
#endif
