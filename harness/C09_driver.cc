// C09 driver: the real EPollPoller and PollPoller (and real Channel objects) are driven op by op
// on the same history over the same real descriptors; no loop() is running (DESIGN 4.2 A).
// An EventLoop exists only to own the pollers (its poller_ is pointed at the back-end an op is
// meant for) and to satisfy assertInLoopThread().  Same case / output format as extract/C09_driver.ml.
//
//   case <id> ops [only=E|only=P] [plain]   op-by-op history (both back-ends, every op on both; only=: one back-end,
//                                      needed when the loop's own wake-up / timer descriptors are used; "plain" is a
//                                      marker for the checker: the case is also replayed on a non-ASan build)
//   case <id> loop <epoll|poll>        free-running loop scenario (blocks instead of spinning)
//   end
// environment ops (descriptor k lives at real fd 100+k, its peer at 600+k):
//   open k E|S|P|Q   eventfd | socketpair end | pipe read end | pipe write end
//   open k W|T       a dup of the EventLoop's own wake-up eventfd | of its TimerQueue's timerfd: a channel constructed on it
//                    gets the loop's real EventLoop::handleRead / TimerQueue::handleRead as its read callback
//   WAKE             the real EventLoop::wakeup();   TIMER   runAfter(~0) and wait until the timerfd is due
//   wr k             make readable (eventfd += 1; peer writes one byte)
//   drain k          read everything from k
//   hc k             peer half-closes (shutdown SHUT_WR), S only
//   pc k             peer closes
//   fill k / unfill k   make k unwritable (fill its buffer / eventfd counter) / peer drains
//   close k          close descriptor k itself (no live channel may be registered on it)
// channel ops (Channel object c; one real object per back-end, same descriptor):
//   NEW c k | DEL c | ER c | DR c | EW c | DW c | DA c | RM c
//   INJ c bits       set_revents(bits) + handleEvent on the epoll-side object (dispatch table)
//   POLL k:bits ...  predicted readiness of the open descriptors (checked against raw poll(2));
//                    both pollers poll(0); active lists sorted by channel; then handleEvent on each
//   TIE c | DROP c   Channel::tie() both objects of c to an owner token | destroy the owner
//   ON c kind op c2  script: when the <kind> callback (read|write|close|error) of c runs, call
//                    op (ER|DR|EW|DW|DA|RM|DEL) on c2;  ON c kind NEW c2 k constructs c2 on descriptor k;
//                    ON c kind Q <op c2 | NEW c2 k>: the callback queues a functor (queueInLoop) that makes
//                    the call -- it runs in doPendingFunctors of the same iteration;  QQ: the queued functor queues a
//                    second functor (while callingPendingFunctors_: the real queueInLoop must wake the loop), which
//                    makes the call in the NEXT iteration;  OFF forgets all scripts
//   HAS c            Poller::hasChannel on each back-end;   FOREIGN op c   the op from another thread (must abort)
//   LOOP k:bits ...  ONE iteration of the real EventLoop::loop() per back-end (poller_ pointed at it,
//                    poll time-out forced to 0 by --wrap, quit() queued as a pending functor): poll,
//                    dispatch of the activeChannels_ snapshot with the scripted callbacks, in the
//                    order the poller produced.  A scripted op that violates a precondition (Channel
//                    API, EventLoop::removeChannel's assert) is not executed: that side prints
//                    "rejected" and is dead for the rest of the case.  (A trailing order=.. token is
//                    for the model runner and ignored here.)
// Output: one line per op.  Channel-API preconditions (the documented asserts of Channel /
// EventLoop::updateChannel users: one registered channel per descriptor, remove() only when
// registered and isNoneEvent(), destroy only after remove()) are tested on the driver's own
// bookkeeping; a violating op prints "rejected" and is not executed.
#include <assert.h>
#include <errno.h>
#include <fcntl.h>
#include <poll.h>
#include <signal.h>
#include <stdint.h>
#include <sys/epoll.h>
#include <sys/eventfd.h>
#include <sys/socket.h>
#include <unistd.h>
#include <algorithm>
#include <functional>
#include <iostream>
#include <map>
#include <memory>
#include <set>
#include <sstream>
#include <string>
#include <vector>
#include <thread>
#include <atomic>

#define private public
#define protected public
#include "muduo/net/EventLoop.h"
#include "muduo/net/Channel.h"
#include "muduo/net/Poller.h"
#include "muduo/net/poller/EPollPoller.h"
#include "muduo/net/poller/PollPoller.h"
#include "muduo/net/TimerQueue.h"
#undef private
#undef protected
#include "muduo/base/Logging.h"
#include "muduo/base/Timestamp.h"
#include "common.h"

using namespace muduo;
using namespace muduo::net;
using std::string;

static const int FDBASE = 100, PEERBASE = 600, MAXFD = 400, MAXCH = 400;

static int g_kerr = 0;   // LOG_SYSERR records about epoll_ctl (failed EPOLL_CTL_DEL)
static void logOut(const char* msg, int len)
{
  string s(msg, static_cast<size_t>(len));
  if (s.find("epoll_ctl") != string::npos) ++g_kerr;
  fwrite(msg, 1, static_cast<size_t>(len), stderr);
}
static void logFlush() { fflush(stderr); }

struct Desc { char kind; bool open; bool peerOpen; };
static Desc g_desc[MAXFD];

struct Side { Channel* ch; int fd; bool alive; bool reg; std::shared_ptr<int> owner; };
struct Obj { Side s[2]; };            // s[0]: the object on the epoll side, s[1]: on the poll side
static Obj g_obj[MAXCH];
static std::vector<string> g_cb[2];
static bool g_dead[2];            // a side whose batch was rejected is not touched again in this case

struct Script { int c; string kind; int queued; string op; int c2; int arg; bool active; };   // queued: 0 direct, 1 Q, 2 QQ
// OFF only deactivates: indices stay valid for functors that are still queued
static std::atomic<int> g_timerFired(0);
static int g_specialOpen = 0;     // number of open W/T descriptors: LOOP then also prints w= t= tf=
static std::vector<Script> g_scripts;
static bool g_inBatch = false;    // inside LOOP: callbacks execute their scripts
static int g_side = 0;            // side the running batch belongs to
static bool g_batchRejected = false;
static bool g_snapTaken = false;  // activeChannels_ as (channel id, revents), captured before any callback could destroy one
static std::vector<std::pair<int, int> > g_snap;
static std::set<int> g_destroyedInBatch;
static std::vector<int> g_fnRan;  // queued functors (script indices) in the order they ran
static volatile bool g_zeroTimeout = false;
static volatile bool g_longTimeout = false;   // free-running scenario: the loop's 10 s poll time-out becomes 10 min, so that a
                                              // lost wake-up can never be mistaken for a slow machine (and vice versa)

extern "C" int __real_epoll_wait(int, struct epoll_event*, int, int);
extern "C" int __wrap_epoll_wait(int epfd, struct epoll_event* ev, int maxev, int timeout)
{
  return __real_epoll_wait(epfd, ev, maxev, g_zeroTimeout ? 0 : (g_longTimeout && timeout > 1000 ? 600000 : timeout));
}
extern "C" int __real_poll(struct pollfd*, nfds_t, int);
extern "C" int __wrap_poll(struct pollfd* fds, nfds_t n, int timeout)
{
  return __real_poll(fds, n, g_zeroTimeout ? 0 : (g_longTimeout && timeout > 1000 ? 600000 : timeout));
}

static void msleep(int ms) { ::usleep(static_cast<useconds_t>(ms) * 1000); }
static EventLoop* g_loop;
static EPollPoller* g_ep;
static PollPoller* g_pp;

static void usePoller(Poller* p) { g_loop->poller_.release(); g_loop->poller_.reset(p); }

static void invalid(const char* why)
{
  printf("invalid %s\n", why);
}

static int moveTo(int fd, int target)
{
  if (fd == target) return fd;
  if (::dup2(fd, target) < 0) { perror("dup2"); exit(3); }
  ::close(fd);
  return target;
}

static void setNb(int fd) { ::fcntl(fd, F_SETFL, ::fcntl(fd, F_GETFL) | O_NONBLOCK); }

static bool openDesc(int k, char kind)
{
  int a = -1, b = -1;
  int fds[2];
  switch (kind)
  {
    case 'E': a = ::eventfd(0, EFD_NONBLOCK); break;
    case 'S':
      if (::socketpair(AF_UNIX, SOCK_STREAM, 0, fds) != 0) { perror("socketpair"); exit(3); }
      a = fds[0]; b = fds[1];
      { int sz = 4096; ::setsockopt(a, SOL_SOCKET, SO_SNDBUF, &sz, sizeof sz); }
      break;
    case 'P': if (::pipe(fds) != 0) { perror("pipe"); exit(3); } a = fds[0]; b = fds[1]; break;
    case 'Q': if (::pipe(fds) != 0) { perror("pipe"); exit(3); } a = fds[1]; b = fds[0];
      ::fcntl(a, F_SETPIPE_SZ, 4096); break;
    case 'W': a = ::dup(g_loop->wakeupFd_); ++g_specialOpen; break;
    case 'T': a = ::dup(g_loop->timerQueue_->timerfd_); ++g_specialOpen; break;
    default: return false;
  }
  if (a < 0) { perror("open"); exit(3); }
  // move the peer out of the way first so that it can never sit in the channel range
  if (b >= 0) { b = moveTo(b, PEERBASE + k); setNb(b); }
  a = moveTo(a, FDBASE + k);
  setNb(a);
  g_desc[k].kind = kind; g_desc[k].open = true; g_desc[k].peerOpen = (b >= 0);
  return true;
}

static void drainFd(int fd)
{
  char buf[8192];
  while (::read(fd, buf, sizeof buf) > 0) {}
}

static void fillFd(int fd)
{
  char buf[4096];
  memset(buf, 'x', sizeof buf);
  while (::write(fd, buf, sizeof buf) > 0) {}
  while (::write(fd, buf, 1) > 0) {}
}

// kernel interest set of the epoll instance, read from /proc (events without the implicit ERR|HUP)
static string kernelInterest(int epfd)
{
  char path[64];
  snprintf(path, sizeof path, "/proc/self/fdinfo/%d", epfd);
  FILE* f = fopen(path, "r");
  std::map<int, unsigned> m;
  if (f)
  {
    char line[256];
    while (fgets(line, sizeof line, f))
    {
      int tfd; unsigned ev;
      if (sscanf(line, "tfd: %d events: %x", &tfd, &ev) == 2) m[tfd - FDBASE] = ev & ~(EPOLLERR | EPOLLHUP);
    }
    fclose(f);
  }
  std::ostringstream os;
  bool first = true;
  for (auto& kv : m) { os << (first ? "" : ",") << kv.first << ":" << kv.second; first = false; }
  return os.str();
}

static int cidOf(Channel* ch, int side)
{
  for (int c = 0; c < MAXCH; ++c)
    if (g_obj[c].s[side].alive && g_obj[c].s[side].ch == ch) return c;
  return -1;
}

static Poller* pollerOf(int side) { return side == 0 ? static_cast<Poller*>(g_ep) : static_cast<Poller*>(g_pp); }

static string stateString()
{
  std::ostringstream os;
  bool first = true;
  if (g_dead[0]) os << "E{dead} ";
  else
  {
    os << "E{idx=";
    for (int c = 0; c < MAXCH; ++c)
      if (g_obj[c].s[0].alive) { os << (first ? "" : ",") << c << ":" << g_obj[c].s[0].ch->index() << "/" << g_obj[c].s[0].ch->events(); first = false; }
    os << " map=";
    first = true;
    for (auto& kv : g_ep->channels_) { os << (first ? "" : ",") << kv.first - FDBASE << ">" << cidOf(kv.second, 0); first = false; }
    os << " kern=" << kernelInterest(g_ep->epollfd_) << " cap=" << g_ep->events_.size() << " kerr=" << g_kerr << "} ";
  }
  if (g_dead[1]) { os << "P{dead}"; return os.str(); }
  os << "P{idx=";
  first = true;
  for (int c = 0; c < MAXCH; ++c)
    if (g_obj[c].s[1].alive) { os << (first ? "" : ",") << c << ":" << g_obj[c].s[1].ch->index() << "/" << g_obj[c].s[1].ch->events(); first = false; }
  os << " map=";
  first = true;
  for (auto& kv : g_pp->channels_) { os << (first ? "" : ",") << kv.first - FDBASE << ">" << cidOf(kv.second, 1); first = false; }
  os << " pfds=";
  first = true;
  for (auto& pfd : g_pp->pollfds_)
  {
    // print in model coordinates: k or -k-1
    int k = pfd.fd >= 0 ? pfd.fd - FDBASE : -(-pfd.fd - 1 - FDBASE) - 1;
    os << (first ? "" : ",") << k << ":" << pfd.events; first = false;
  }
  os << "}";
  return os.str();
}

static int aliveCount()
{
  int n = 0;
  for (int c = 0; c < MAXCH; ++c) if (g_obj[c].s[0].alive || g_obj[c].s[1].alive) ++n;
  return n;
}

static void showState(const char* status)
{
  if (aliveCount() > 16) { printf("%s big\n", status); return; }
  printf("%s %s\n", status, stateString().c_str());
}

static void record(int side, int c, const char* kind);

static Channel* makeChannel(int side, int c, int fd)
{
  Channel* ch = new Channel(g_loop, fd);
  char kind = g_desc[fd - FDBASE].kind;
  // on the loop's own descriptors the read callback is what the loop itself installs
  if (kind == 'W') ch->setReadCallback([=](Timestamp) { g_loop->handleRead(); record(side, c, "read"); });
  else if (kind == 'T') ch->setReadCallback([=](Timestamp) { g_loop->timerQueue_->handleRead(); record(side, c, "read"); });
  else
  ch->setReadCallback([=](Timestamp) { record(side, c, "read"); });
  ch->setWriteCallback([=]() { record(side, c, "write"); });
  ch->setCloseCallback([=]() { record(side, c, "close"); });
  ch->setErrorCallback([=]() { record(side, c, "error"); });
  ch->doNotLogHup();
  return ch;
}

static string joinLog(std::vector<string>& v)
{
  string s;
  for (size_t i = 0; i < v.size(); ++i) { if (i) s += ","; s += v[i]; }
  v.clear();
  return s;
}

static bool fdTaken(int fd, int except, int side)
{
  for (int c = 0; c < MAXCH; ++c)
    if (c != except && g_obj[c].s[side].alive && g_obj[c].s[side].reg && g_obj[c].s[side].fd == fd) return true;
  return false;
}

// precondition of a channel op on one side, tested on the driver's own bookkeeping (a violating op
// would abort the process); cur >= 0: the op is issued by a callback of channel cur during a batch
static bool opAllowed(const string& op, int c2, int arg, int side, int cur)
{
  if (c2 < 0 || c2 >= MAXCH) return false;
  Side& o = g_obj[c2].s[side];
  if (op == "NEW") return !o.alive && arg >= 0 && arg < MAXFD && g_desc[arg].open;
  if (!o.alive) return false;
  if (op == "DEL") return !o.reg && c2 != cur;      // ~Channel: assert(!addedToLoop_), assert(!eventHandling_)
  if (op == "RM")
  {
    if (!o.reg || !o.ch->isNoneEvent()) return false;
    if (cur >= 0 && c2 != cur)
    {
      // EventLoop::removeChannel: assert(currentActiveChannel_ == channel || not in activeChannels_) -- tested on the
      // driver's own bookkeeping by channel IDENTITY: an object of the snapshot that was not destroyed during this batch
      // (a fresh object constructed under the same id is a different channel, whatever address the allocator gave it)
      for (size_t i = 0; i < g_snap.size(); ++i)
        if (g_snap[i].first == c2 && !g_destroyedInBatch.count(c2)) return false;
    }
    return true;
  }
  return o.reg || !fdTaken(o.fd, c2, side);
}

static void doOp(const string& op, int c2, int arg, int side)
{
  Side& o = g_obj[c2].s[side];
  if (op == "NEW")
  {
    o.ch = makeChannel(side, c2, FDBASE + arg); o.fd = arg; o.alive = true; o.reg = false; o.owner.reset();
    return;
  }
  if (op == "DEL") { delete o.ch; o.ch = NULL; o.alive = false; if (g_inBatch) g_destroyedInBatch.insert(c2); return; }
  Channel* ch = o.ch;
  if (op == "ER") ch->enableReading();
  else if (op == "DR") ch->disableReading();
  else if (op == "EW") ch->enableWriting();
  else if (op == "DW") ch->disableWriting();
  else if (op == "DA") ch->disableAll();
  else if (op == "RM") { ch->remove(); o.reg = false; return; }
  o.reg = true;
}

static void takeSnapshot(int side)
{
  if (g_snapTaken) return;
  g_snapTaken = true;
  g_snap.clear();
  std::vector<Channel*>& act = g_loop->activeChannels_;
  for (size_t i = 0; i < act.size(); ++i) g_snap.push_back(std::make_pair(cidOf(act[i], side), act[i]->revents_));
}

static void runQueued(int side, int idx, int stage)
{
  g_fnRan.push_back(stage == 2 ? 1000 + idx : idx);
  if (g_batchRejected) return;
  const Script& sc = g_scripts[static_cast<size_t>(idx)];
  if (sc.queued == 2 && stage == 1)
  {
    // a running functor queues another one: callingPendingFunctors_ is true, queueInLoop must call wakeup()
    g_loop->queueInLoop([side, idx]() { runQueued(side, idx, 2); });
    return;
  }
  // doPendingFunctors runs after the dispatch loop: eventHandling_ is false, no batch assert applies
  if (!opAllowed(sc.op, sc.c2, sc.arg, side, -1)) { g_batchRejected = true; return; }
  doOp(sc.op, sc.c2, sc.arg, side);
}

static void record(int side, int c, const char* kind)
{
  char b[64];
  snprintf(b, sizeof b, "%d:%s", c, kind);
  g_cb[side].push_back(b);
  if (!g_inBatch) return;
  takeSnapshot(side);
  if (g_batchRejected) return;
  for (size_t i = 0; i < g_scripts.size(); ++i)
  {
    const Script& sc = g_scripts[i];
    if (!sc.active || sc.c != c || sc.kind != kind) continue;
    if (sc.queued)
    {
      int idx = static_cast<int>(i);
      g_loop->queueInLoop([side, idx]() { runQueued(side, idx, 1); });
      continue;
    }
    if (!opAllowed(sc.op, sc.c2, sc.arg, side, c)) { g_batchRejected = true; return; }
    doOp(sc.op, sc.c2, sc.arg, side);
  }
}

// one active list -> "c:revents,..." sorted by channel, then handleEvent on each in that order
static string activeString(Poller::ChannelList& act, int side, string* cbs)
{
  std::vector<std::pair<int, Channel*> > v;
  for (Channel* ch : act) v.push_back(std::make_pair(cidOf(ch, side), ch));
  std::sort(v.begin(), v.end());
  std::ostringstream os;
  for (size_t i = 0; i < v.size(); ++i)
    os << (i ? "," : "") << v[i].first << ":" << v[i].second->revents_;
  Timestamp now(Timestamp::now());
  for (size_t i = 0; i < v.size(); ++i) v[i].second->handleEvent(now);
  *cbs = joinLog(g_cb[side]);
  return os.str();
}

static unsigned long long eventfdCount(int fd)
{
  char path[64], line[256];
  snprintf(path, sizeof path, "/proc/self/fdinfo/%d", fd);
  FILE* f = fopen(path, "r");
  unsigned long long v = 0;
  if (f)
  {
    while (fgets(line, sizeof line, f)) { unsigned long long x; if (sscanf(line, "eventfd-count: %llx", &x) == 1) v = x; }
    fclose(f);
  }
  return v;
}
static bool fdReadable(int fd)
{
  struct pollfd p; p.fd = fd; p.events = POLLIN; p.revents = 0;
  bool z = g_zeroTimeout; g_zeroTimeout = true; ::poll(&p, 1, 0); g_zeroTimeout = z;
  return (p.revents & POLLIN) != 0;
}

// one real iteration of EventLoop::loop() on one back-end; the active list in dispatch order
static string loopOnce(int side, bool quitQueued)
{
  usePoller(pollerOf(side));
  std::ostringstream os;
  // activeChannels_ is NOT touched by the driver: emptying it at the start of every iteration is loop()'s own job
  // (seeded change C09_4 moved it into fillActiveChannels, which is not reached when the poll call reports nothing:
  // the previous iteration's channels are then dispatched again).  A LOOP after which nothing is ready shows it.
  if (side == 1 && g_pp->pollfds_.empty())
  {
    os << "ok n=0 [] cb= fn=";
    return os.str();
  }
  g_side = side; g_inBatch = true; g_batchRejected = false; g_zeroTimeout = true;
  g_snapTaken = false; g_fnRan.clear(); g_destroyedInBatch.clear(); g_snap.clear();
  int fired0 = g_timerFired.load();
  if (!quitQueued) g_loop->queueInLoop(std::bind(&EventLoop::quit, g_loop));
  g_loop->loop();
  g_zeroTimeout = false; g_inBatch = false;
  takeSnapshot(side);            // no callback ran: nothing was destroyed, the list can still be read
  os << (g_batchRejected ? "rejected" : "ok") << " n=" << g_snap.size();
  if (side == 0) os << " cap=" << g_ep->events_.size();
  os << " [";
  for (size_t i = 0; i < g_snap.size(); ++i)
    os << (i ? "," : "") << g_snap[i].first << ":" << g_snap[i].second;
  os << "]";
  string cbs = joinLog(g_cb[side]);
  if (g_batchRejected) g_dead[side] = true;
  else
  {
    os << " cb=" << cbs << " fn=";
    for (size_t i = 0; i < g_fnRan.size(); ++i) os << (i ? "," : "") << g_fnRan[i];
    if (g_specialOpen > 0)
    {
      // the loop's own descriptors after the iteration: eventfd counter (/proc), timerfd due?, timer callbacks run
      os << " w=" << eventfdCount(g_loop->wakeupFd_) << " t=" << (fdReadable(g_loop->timerQueue_->timerfd_) ? 1 : 0)
         << " tf=" << (g_timerFired.load() - fired0);
    }
  }
  return os.str();                   // activeChannels_ is left as loop() left it (see above)
}

static void resetCase()
{
  for (int c = 0; c < MAXCH; ++c)
    for (int side = 0; side < 2; ++side)
    {
      // Channel objects are leaked on purpose: their destructor asserts they were removed
      Side& o = g_obj[c].s[side];
      o.alive = false; o.reg = false; o.ch = NULL; o.owner.reset();
    }
  for (int k = 0; k < MAXFD; ++k)
  {
    if (g_desc[k].open) ::close(FDBASE + k);
    if (g_desc[k].peerOpen) ::close(PEERBASE + k);
    g_desc[k].open = false; g_desc[k].peerOpen = false;
  }
  usePoller(NULL);
  delete g_ep; delete g_pp;
  g_ep = new EPollPoller(g_loop);
  g_pp = new PollPoller(g_loop);
  g_kerr = 0;
  g_cb[0].clear(); g_cb[1].clear();
  g_dead[0] = g_dead[1] = false;
  g_scripts.clear();
  // the loop's own state is shared by all cases: expire what is armed, forget queued functors, drain both descriptors
  // (every LOOP of every case writes the wake-up eventfd: queueInLoop(quit) before loop() is entered)
  g_loop->pendingFunctors_.clear();
  if (!g_loop->timerQueue_->timers_.empty()) { msleep(3); g_loop->timerQueue_->handleRead(); }
  else if (fdReadable(g_loop->timerQueue_->timerfd_)) g_loop->timerQueue_->handleRead();
  if (fdReadable(g_loop->wakeupFd_)) g_loop->handleRead();
  g_specialOpen = 0;
  g_timerFired = 0;
}

// a top-level channel op on both sides: "ok" / "rejected" / "MIXED" (the sides went apart: the case ends)
static bool topLevel(const string& op, int c, int arg, bool* bad)
{
  bool use[2] = { !g_dead[0], !g_dead[1] };
  int nuse = 0, nok = 0;
  bool ok[2];
  for (int side = 0; side < 2; ++side)
  {
    ok[side] = opAllowed(op, c, arg, side, -1);
    if (use[side]) { ++nuse; if (ok[side]) ++nok; }
  }
  if (nuse > 0 && nok == 0) { showState("rejected"); return false; }
  if (nok < nuse) { printf("MIXED\n"); *bad = true; return false; }
  for (int side = 0; side < 2; ++side)
    if (use[side]) { usePoller(pollerOf(side)); doOp(op, c, arg, side); }
  showState("ok");
  return true;
}

// ------------------------------------------------------------------ free-running loop scenario
static int64_t iterOf(EventLoop* l) { return *const_cast<volatile int64_t*>(&l->iteration_); }

// wait (at most maxms) until pred() holds; the scenario never relies on a fixed sleep being long enough for the loop
// thread to be scheduled -- only "nothing happens for 150 ms" observations are timed
template <typename F> static bool waitFor(F pred, int maxms)
{
  for (int i = 0; i < maxms; ++i) { if (pred()) return true; msleep(1); }
  return pred();
}

static void loopScenario(const string& backend)
{
  if (backend == "poll") ::setenv("MUDUO_USE_POLL", "1", 1); else ::unsetenv("MUDUO_USE_POLL");
  g_longTimeout = true;
  std::atomic<EventLoop*> lp(NULL);
  std::atomic<int> timerRuns(0), taskRuns(0), nestedRuns(0);
  std::thread th([&]() {
    EventLoop l;
    lp.store(&l);
    l.loop();
    lp.store(NULL);
  });
  while (lp.load() == NULL) msleep(1);
  EventLoop* l = lp.load();
  for (int i = 0; i < 120000 && !l->looping_; ++i) msleep(1);
  const char* kind = dynamic_cast<PollPoller*>(l->poller_.get()) ? "PollPoller"
                     : dynamic_cast<EPollPoller*>(l->poller_.get()) ? "EPollPoller" : "?";
  std::ostringstream os;
  os << "loop backend=" << backend << " poller=" << kind;
  msleep(30);
  const int LIMIT = 30000;    // ms: generous for a starved machine; a lost wake-up would wait for the (lengthened) 10 min time-out
  auto idle = [&](const char* name) {
    int64_t x = iterOf(l); msleep(150); int64_t y = iterOf(l);
    os << " " << name << "=" << (y - x == 0 ? "blocked" : "SPINS(" + std::to_string(y - x) + ")");
  };
  // 1. idle: nothing ready, no timer, no task -> blocked in poll (10 s time-out)
  idle("idle1");
  // 2. three wake-ups: each makes the loop iterate, each is consumed (level-triggered eventfd drained by handleRead)
  int64_t b = iterOf(l);
  bool wakeOk = true;
  for (int i = 0; i < 3; ++i)
  {
    int64_t before = iterOf(l);
    l->wakeup();
    if (!waitFor([&]() { return iterOf(l) > before; }, LIMIT)) wakeOk = false;
    msleep(5);
  }
  int64_t c = iterOf(l);
  os << " wake=" << ((wakeOk && c - b >= 3 && c - b <= 6) ? "ok" : "BAD(" + std::to_string(c - b) + ")");
  idle("idle2");
  // 3. a queued task from this (foreign) thread: runs once, loop blocks again
  int64_t d = iterOf(l);
  l->queueInLoop([&]() { ++taskRuns; });
  bool taskOk = waitFor([&]() { return taskRuns.load() >= 1; }, LIMIT);
  msleep(5);
  int64_t e0 = iterOf(l);
  os << " task=" << (taskOk && taskRuns.load() == 1 && e0 - d <= 2 ? "ok" : "BAD(" + std::to_string(taskRuns.load()) + "," + std::to_string(e0 - d) + ")");
  idle("idle3");
  // 3b. a functor that queues another functor while doPendingFunctors is running (callingPendingFunctors_): the second
  //     one must be woken for at once (not after the 10 s poll time-out), runs once, and the loop blocks again
  l->queueInLoop([&, l]() { l->queueInLoop([&]() { ++nestedRuns; }); });
  bool nestedOk = waitFor([&]() { return nestedRuns.load() >= 1; }, LIMIT);
  msleep(5);
  os << " nested=" << (nestedOk && nestedRuns.load() == 1 ? "ok" : "BAD(" + std::to_string(nestedRuns.load()) + ")");
  idle("idle3b");
  // 4. a timer: fires once (timerfd read by readTimerfd), loop blocks again
  int64_t e = iterOf(l);
  l->runAfter(0.03, [&]() { ++timerRuns; });
  bool timerOk = waitFor([&]() { return timerRuns.load() >= 1; }, LIMIT);
  msleep(5);
  int64_t f0 = iterOf(l);
  os << " timer=" << (timerOk && timerRuns.load() == 1 && f0 - e <= 3 && f0 - e >= 1 ? "ok" : "BAD(" + std::to_string(timerRuns.load()) + "," + std::to_string(f0 - e) + ")");
  idle("idle4");
  l->quit();
  th.join();
  g_longTimeout = false;
  ::unsetenv("MUDUO_USE_POLL");
  printf("%s\n", os.str().c_str());
}

int main()
{
  ::signal(SIGPIPE, SIG_IGN);
  Logger::setOutput(logOut);
  Logger::setFlush(logFlush);
  EventLoop loop;
  g_loop = &loop;
  Poller* orig = loop.poller_.release();
  g_ep = new EPollPoller(g_loop);
  g_pp = new PollPoller(g_loop);
  string line;
  bool bad = false;     // case declared invalid: remaining ops are skipped
  bool loopCase = false;
  while (std::getline(std::cin, line))
  {
    fflush(stdout);                 // everything printed so far survives a crash of the op that follows
    std::vector<string> w = vh::splitWs(line);
    if (w.empty()) continue;
    const string& k = w[0];
    if (k == "case")
    {
      resetCase();
      bad = false;
      loopCase = (w.size() > 3 && w[2] == "loop");
      for (size_t i = 3; i < w.size(); ++i)
      {
        if (w[i] == "only=E") g_dead[1] = true;
        if (w[i] == "only=P") g_dead[0] = true;
      }
      printf("case %s abi=%d,%d,%d,%d,%d,%d,%d epoll_eq_poll=%d\n", w[1].c_str(), POLLIN, POLLPRI, POLLOUT, POLLERR, POLLHUP,
             POLLNVAL, POLLRDHUP,
             (EPOLLIN == POLLIN && EPOLLPRI == POLLPRI && EPOLLOUT == POLLOUT && EPOLLERR == POLLERR && EPOLLHUP == POLLHUP) ? 1 : 0);
      if (loopCase) loopScenario(w[3]);
      continue;
    }
    if (k == "end") { printf("end\n"); fflush(stdout); continue; }
    if (loopCase) { continue; }
    if (bad) { printf("skipped\n"); continue; }
    int a = w.size() > 1 && k != "POLL" && k != "LOOP" && k != "FOREIGN" ? atoi(w[1].c_str()) : 0;

    // ---------------- environment ops
    if (k == "open")
    {
      if (a < 0 || a >= MAXFD || g_desc[a].open || w.size() < 3 || !openDesc(a, w[2][0])) { invalid("open"); bad = true; continue; }
      printf("env\n");
    }
    else if (k == "wr" || k == "drain" || k == "hc" || k == "pc" || k == "fill" || k == "unfill" || k == "close")
    {
      if (a < 0 || a >= MAXFD || !g_desc[a].open) { invalid("descriptor not open"); bad = true; continue; }
      Desc& d = g_desc[a];
      int fd = FDBASE + a, peer = PEERBASE + a;
      if (k == "wr")
      {
        if (d.kind == 'E') { uint64_t one = 1; ssize_t n = ::write(fd, &one, sizeof one); (void)n; }
        else if ((d.kind == 'S' || d.kind == 'P') && d.peerOpen) { ssize_t n = ::write(peer, "x", 1); (void)n; }
        else { invalid("wr"); bad = true; continue; }
      }
      else if (k == "drain")
      {
        if (d.kind == 'Q') { invalid("drain"); bad = true; continue; }
        drainFd(fd);
      }
      else if (k == "hc")
      {
        if (d.kind != 'S' || !d.peerOpen) { invalid("hc"); bad = true; continue; }
        ::shutdown(peer, SHUT_WR);
      }
      else if (k == "pc")
      {
        if (d.kind == 'E' || !d.peerOpen) { invalid("pc"); bad = true; continue; }
        ::close(peer); d.peerOpen = false;
      }
      else if (k == "fill")
      {
        if (d.kind == 'E') { drainFd(fd); uint64_t v = 0xfffffffffffffffeULL; ssize_t n = ::write(fd, &v, sizeof v); (void)n; }
        else if ((d.kind == 'S' || d.kind == 'Q') && d.peerOpen) fillFd(fd);
        else { invalid("fill"); bad = true; continue; }
      }
      else if (k == "unfill")
      {
        if ((d.kind == 'S' || d.kind == 'Q') && d.peerOpen) drainFd(peer);
        else { invalid("unfill"); bad = true; continue; }
      }
      else // close
      {
        bool used = false;
        for (int c = 0; c < MAXCH; ++c)
          for (int side = 0; side < 2; ++side)
            if (g_obj[c].s[side].alive && g_obj[c].s[side].fd == a) used = true;
        for (size_t i = 0; i < g_scripts.size(); ++i) if (g_scripts[i].active && g_scripts[i].op == "NEW" && g_scripts[i].arg == a) used = true;
        if (used) { invalid("close with a live channel or a script constructing one"); bad = true; continue; }
        ::close(fd); d.open = false;
        if (d.peerOpen) { ::close(peer); d.peerOpen = false; }
      }
      printf("env\n");
    }
    // ---------------- channel ops
    else if (k == "NEW")
    {
      int fdk = w.size() > 2 ? atoi(w[2].c_str()) : -1;
      if (a < 0 || a >= MAXCH || fdk < 0 || fdk >= MAXFD || !g_desc[fdk].open) { invalid("NEW"); bad = true; continue; }
      topLevel("NEW", a, fdk, &bad);
    }
    else if (k == "DEL" || k == "RM" || k == "ER" || k == "DR" || k == "EW" || k == "DW" || k == "DA")
    {
      if (a < 0 || a >= MAXCH) { invalid("channel op"); bad = true; continue; }
      topLevel(k, a, -1, &bad);
    }
    else if (k == "WAKE") { g_loop->wakeup(); printf("wake\n"); }
    else if (k == "TIMER")
    {
      g_loop->runAfter(0.0002, []() { ++g_timerFired; });
      msleep(2);            // at least 2 ms (usleep never returns early): this timer's expiration time has passed for sure,
                            // even when the timerfd was already readable because of an earlier timer
      bool due = false;
      for (int i = 0; i < 20000 && !due; ++i) { due = fdReadable(g_loop->timerQueue_->timerfd_); if (!due) msleep(1); }
      printf(due ? "timer\n" : "timer NOT-DUE\n");
    }
    else if (k == "HAS")
    {
      if (a < 0 || a >= MAXCH) { invalid("HAS"); bad = true; continue; }
      string r[2];
      for (int side = 0; side < 2; ++side)
      {
        if (g_dead[side]) { r[side] = "-"; continue; }
        usePoller(pollerOf(side));
        r[side] = (g_obj[a].s[side].alive && g_loop->hasChannel(g_obj[a].s[side].ch)) ? "1" : "0";
      }
      printf("has E=%s P=%s\n", r[0].c_str(), r[1].c_str());
    }
    else if (k == "FOREIGN")
    {
      // a Channel update from a thread that is not the loop's: Poller::assertInLoopThread must abort the process
      int c2 = w.size() > 2 ? atoi(w[2].c_str()) : -1;
      int side = g_dead[0] ? 1 : 0;
      if (w.size() < 3 || c2 < 0 || c2 >= MAXCH || !g_obj[c2].s[side].alive) { invalid("FOREIGN"); bad = true; continue; }
      string op = w[1];
      usePoller(pollerOf(side));
      fflush(stdout);
      std::thread th([&]() { doOp(op, c2, -1, side); });
      th.join();
      printf("foreign NOT-REFUSED\n");
    }
    else if (k == "INJ")
    {
      if (a < 0 || a >= MAXCH || !g_obj[a].s[0].alive || w.size() < 3) { invalid("INJ"); bad = true; continue; }
      g_obj[a].s[0].ch->set_revents(atoi(w[2].c_str()));
      g_obj[a].s[0].ch->handleEvent(Timestamp::now());
      printf("inj cb=%s\n", joinLog(g_cb[0]).c_str());
    }
    else if (k == "TIE" || k == "DROP")
    {
      if (a < 0 || a >= MAXCH) { invalid("TIE/DROP"); bad = true; continue; }
      for (int side = 0; side < 2; ++side)
      {
        Side& o = g_obj[a].s[side];
        if (!o.alive) continue;
        if (k == "TIE") { o.owner.reset(new int(a)); o.ch->tie(o.owner); }
        else o.owner.reset();
      }
      printf(k == "TIE" ? "tie\n" : "drop\n");
    }
    else if (k == "ON")
    {
      // ON c kind [Q] op c2 [k]
      Script sc; sc.c = a; sc.queued = 0; sc.arg = -1; sc.active = true;
      size_t i = 3;
      if (w.size() < 5) { invalid("ON"); bad = true; continue; }
      sc.kind = w[2];
      if (w[i] == "Q") { sc.queued = 1; ++i; }
      else if (w[i] == "QQ") { sc.queued = 2; ++i; }
      if (w.size() < i + 2) { invalid("ON"); bad = true; continue; }
      sc.op = w[i]; sc.c2 = atoi(w[i + 1].c_str());
      if (sc.op == "NEW")
      {
        if (w.size() < i + 3) { invalid("ON NEW"); bad = true; continue; }
        sc.arg = atoi(w[i + 2].c_str());
        if (sc.arg < 0 || sc.arg >= MAXFD || !g_desc[sc.arg].open) { invalid("ON NEW descriptor"); bad = true; continue; }
      }
      bool kindOk = sc.kind == "read" || sc.kind == "write" || sc.kind == "close" || sc.kind == "error";
      bool opOk = sc.op == "ER" || sc.op == "DR" || sc.op == "EW" || sc.op == "DW" || sc.op == "DA" || sc.op == "RM" ||
                  sc.op == "NEW" || sc.op == "DEL";
      if (!kindOk || !opOk || a < 0 || a >= MAXCH || sc.c2 < 0 || sc.c2 >= MAXCH) { invalid("ON"); bad = true; continue; }
      g_scripts.push_back(sc);
      printf("on\n");
    }
    else if (k == "OFF") { for (size_t i = 0; i < g_scripts.size(); ++i) g_scripts[i].active = false; printf("off\n"); }
    else if (k == "POLL" && g_specialOpen > 0) { invalid("POLL with the loop's own descriptors open: use LOOP"); bad = true; continue; }
    else if (k == "LOOP" || k == "POLL")
    {
      // with the loop's own descriptors in play (one live side) quit() is queued first, so that the wakeup() it causes
      // (queueInLoop before loop() is entered: !looping_) is part of the readiness observed below
      bool preQuit = (k == "LOOP" && g_specialOpen > 0 && (g_dead[0] != g_dead[1]));
      if (k == "LOOP" && g_specialOpen > 0 && !preQuit) { invalid("the loop's own descriptors need a one-sided case (only=E|only=P)"); bad = true; continue; }
      if (preQuit && !g_dead[1] && g_pp->pollfds_.empty())
      {
        // PollPoller::poll must not be entered with an empty pollfds_ (see POLL below): nothing to iterate with
        invalid("LOOP on the poll back-end with no channel registered while the loop's own descriptors are in play"); bad = true; continue;
      }
      if (preQuit) g_loop->queueInLoop(std::bind(&EventLoop::quit, g_loop));
      // observed readiness of every open descriptor (independent raw poll(2), all conditions asked)
      std::vector<struct pollfd> raw;
      for (int d = 0; d < MAXFD; ++d)
        if (g_desc[d].open) { struct pollfd p; p.fd = FDBASE + d; p.events = POLLIN | POLLPRI | POLLOUT | POLLRDHUP; p.revents = 0; raw.push_back(p); }
      if (!raw.empty()) ::poll(&raw[0], raw.size(), 0);
      std::ostringstream env;
      bool first = true;
      for (size_t i = 0; i < raw.size(); ++i)
        if (raw[i].revents) { env << (first ? "" : ",") << raw[i].fd - FDBASE << ":" << raw[i].revents; first = false; }
      if (k == "LOOP")
      {
        string sE = g_dead[0] ? string("dead") : loopOnce(0, preQuit);
        string sP = g_dead[1] ? string("dead") : loopOnce(1, preQuit);
        printf("loop env=%s E %s | P %s || %s\n", env.str().c_str(), sE.c_str(), sP.c_str(),
               aliveCount() > 16 ? "big" : stateString().c_str());
        if (g_dead[0] && g_dead[1]) bad = true;     // nothing left to compare in this case
      }
      else
      {
        Poller::ChannelList actE, actP;
        usePoller(g_ep); if (!g_dead[0]) g_ep->poll(0, &actE);
        // an EventLoop always has its wake-up and timer channels registered, so PollPoller::poll is never
        // entered with an empty pollfds_ (there `&*pollfds_.begin()` would bind a null reference)
        usePoller(g_pp); if (!g_dead[1] && !g_pp->pollfds_.empty()) g_pp->poll(0, &actP);
        string cbE, cbP;
        size_t nE = actE.size(), nP = actP.size();
        string sE = activeString(actE, 0, &cbE);
        string sP = activeString(actP, 1, &cbP);
        char partE[64], partP[64];
        snprintf(partE, sizeof partE, "E n=%zu cap=%zu", nE, g_ep->events_.size());
        snprintf(partP, sizeof partP, "P n=%zu", nP);
        printf("poll env=%s %s [%s] cb=%s | %s [%s] cb=%s\n", env.str().c_str(), g_dead[0] ? "E dead" : partE,
               sE.c_str(), cbE.c_str(), g_dead[1] ? "P dead" : partP, sP.c_str(), cbP.c_str());
      }
    }
    else { invalid("unknown op"); bad = true; continue; }
    fflush(stdout);
  }
  usePoller(orig);
  return 0;
}
