// C08 TSan scenarios: EventLoop / TimerQueue cross-thread operations
// (runInLoop, queueInLoop, runAt/runAfter/runEvery, cancel, quit, queueSize) + the scenario driver main().
#include "C08_tsan.h"
#include "muduo/net/TimerId.h"
#include "muduo/net/EventLoopThread.h"

using namespace muduo;
using namespace muduo::net;
using c08::LoopHost;
using c08::sleep_ms;

static long g_ticks = 0;                         // plain, loop-owned: functors / timer callbacks must only run on the loop thread
static void tick() { ++g_ticks; }
static void keep_busy(EventLoop* loop)           // the loop thread keeps touching its own state
{
  loop->runEvery(0.001, tick);
}

C08_SCENARIO(runInLoop)
{
  LoopHost host(keep_busy);
  for (int i = 0; i < 300; ++i)
  {
    host.loop()->runInLoop(tick);
    if (i % 8 == 0) ::usleep(300);
  }
  sleep_ms(60);
}

C08_SCENARIO(queueInLoop)
{
  LoopHost host(keep_busy);
  for (int i = 0; i < 300; ++i)
  {
    host.loop()->queueInLoop(tick);
    if (i % 8 == 0) ::usleep(300);
  }
  sleep_ms(60);
}

// two foreign threads at once (the operations must not race with each other either)
static void* hammer(void* p)
{
  EventLoop* loop = static_cast<EventLoop*>(p);
  for (int i = 0; i < 200; ++i)
  {
    loop->queueInLoop(tick);
    loop->runInLoop(tick);
    (void)loop->queueSize();
  }
  return NULL;
}
C08_SCENARIO(queue_two_callers)
{
  LoopHost host(keep_busy);
  pthread_t a, b;
  pthread_create(&a, NULL, hammer, host.loop());
  pthread_create(&b, NULL, hammer, host.loop());
  for (int i = 0; i < 100; ++i) host.loop()->runInLoop(tick);
  sleep_ms(80);
  pthread_join(a, NULL);
  pthread_join(b, NULL);
}

C08_SCENARIO(timers)
{
  LoopHost host(keep_busy);
  EventLoop* loop = host.loop();
  for (int i = 0; i < 60; ++i)
  {
    // one-shot deadlines stay >= 10 ms away: addTimer() reads timer->sequence() after the hand-off, and a timer that
    // fires (and is freed) inside that window is finding F-7, which belongs to C07, not to this scenario
    loop->runAfter(0.010 + 0.001 * (i % 7), tick);
    loop->runAt(addTime(Timestamp::now(), 0.012), tick);
    loop->runEvery(0.003 + 0.001 * (i % 3), tick);
    ::usleep(400);
  }
  sleep_ms(80);
}

C08_SCENARIO(cancel)
{
  LoopHost host(keep_busy);
  EventLoop* loop = host.loop();
  std::vector<TimerId> ids;
  for (int i = 0; i < 60; ++i)
  {
    ids.push_back(loop->runEvery(0.001 + 0.0005 * (i % 4), tick));
    ids.push_back(loop->runAfter(0.02, tick));      // cancelled before it fires (no F-7 interference)
  }
  sleep_ms(10);
  for (size_t i = 0; i < ids.size(); ++i)
  {
    loop->cancel(ids[i]);
    if (i % 16 == 0) ::usleep(300);
  }
  sleep_ms(60);
}

C08_SCENARIO(quit)
{
  LoopHost* host = new LoopHost(keep_busy);
  for (int i = 0; i < 50; ++i) host->loop()->queueInLoop(tick);
  sleep_ms(20);
  host->loop()->quit();         // foreign quit while the loop is busy; nothing else afterwards
  sleep_ms(60);
  delete host;                  // (quit again: harmless) + join
}

static void* queuer(void* p)
{
  EventLoop* loop = static_cast<EventLoop*>(p);
  for (int i = 0; i < 400; ++i)
  {
    loop->queueInLoop(tick);
    if (i % 4 == 0) ::usleep(200);
  }
  return NULL;
}
C08_SCENARIO(queueSize)
{
  LoopHost host(keep_busy);
  pthread_t a;
  pthread_create(&a, NULL, queuer, host.loop());
  size_t seen = 0;
  for (int i = 0; i < 3000; ++i)
  {
    seen += host.loop()->queueSize();   // the caller's only action
  }
  sleep_ms(60);
  pthread_join(a, NULL);
  if (seen == static_cast<size_t>(-1)) printf("x\n");
}

// F-4: quit() stores quit_ and then calls wakeup() on the loop; the owner may leave loop() on the strength of the flag and
// destroy the EventLoop (close(wakeupFd_)) with nothing ordering the caller's wakeup() before that.  The loop thread is
// inside a long callback when quit() arrives, so it leaves loop() without ever polling the wake-up descriptor.
namespace
{
EventLoop* g_f4loop = NULL;
CountDownLatch* g_f4ready = NULL;
void f4busy() { ::usleep(90 * 1000); }
void* f4thread(void*)
{
  EventLoop loop;
  loop.runAfter(0.005, f4busy);
  g_f4loop = &loop;
  g_f4ready->countDown();
  loop.loop();
  return NULL;                   // ~EventLoop here, on the owner's thread, as EventLoopThread::threadFunc does
}
}  // namespace

C08_SCENARIO(quit_while_loop_busy)
{
  CountDownLatch ready(1);
  g_f4ready = &ready;
  pthread_t th;
  pthread_create(&th, NULL, &f4thread, NULL);
  ready.wait();
  sleep_ms(40);                  // the loop thread is inside f4busy
  g_f4loop->quit();              // any-thread operation; afterwards this thread only sleeps
  sleep_ms(150);
  pthread_join(th, NULL);
}

// F-4 / F-11: ~EventLoopThread reads loop_ without the mutex while threadFunc stores NULL under it
C08_SCENARIO(eventloopthread_dtor)
{
  EventLoopThread* t = new EventLoopThread;
  EventLoop* loop = t->startLoop();
  loop->quit();                 // the loop ends on its own thread: threadFunc goes on to `loop_ = NULL`
  sleep_ms(80);
  delete t;                     // unlocked read of loop_
}

// ---- forced schedules: see C08_tsan.h
namespace c08 { Stall g_stall; }
extern "C" void __real___tsan_read8(void* addr);
extern "C" void __real___tsan_write4(void* addr);
extern "C" void __real___tsan_read4(void* addr);
static inline __attribute__((no_sanitize("thread"), always_inline)) void c08_maybe_stall(void* a, int w)
{
  if (c08::g_stall.armed.load(std::memory_order_relaxed) &&
      a == c08::g_stall.addr.load(std::memory_order_relaxed) &&
      w == c08::g_stall.write.load(std::memory_order_relaxed) &&
      static_cast<unsigned long>(pthread_self()) == c08::g_stall.thread.load(std::memory_order_relaxed))
  {
    c08::g_stall.armed.store(0, std::memory_order_relaxed);
    c08::g_stall.stalled.store(1, std::memory_order_relaxed);
    for (int i = 0; i < 50000 && c08::g_stall.release.load(std::memory_order_relaxed) == 0; ++i) ::usleep(200);
  }
}
extern "C" __attribute__((no_sanitize("thread"))) void __wrap___tsan_read8(void* addr)
{
  c08_maybe_stall(addr, 0);
  // tail call: the runtime takes its caller's return address as the pc of the access - it must be the instrumented code's
  [[clang::musttail]] return __real___tsan_read8(addr);
}
extern "C" __attribute__((no_sanitize("thread"))) void __wrap___tsan_read4(void* addr)
{
  c08_maybe_stall(addr, 2);
  [[clang::musttail]] return __real___tsan_read4(addr);
}
extern "C" __attribute__((no_sanitize("thread"))) void __wrap___tsan_write4(void* addr)
{
  c08_maybe_stall(addr, 1);
  [[clang::musttail]] return __real___tsan_write4(addr);
}

int main(int argc, char** argv)
{
  Logger::setLogLevel(Logger::WARN);
  if (argc < 2 || std::string(argv[1]) == "--list")
  {
    for (std::map<std::string, c08::ScenarioFn>::iterator it = c08::Registry::table().begin();
         it != c08::Registry::table().end(); ++it)
      printf("%s\n", it->first.c_str());
    return 0;
  }
  std::map<std::string, c08::ScenarioFn>::iterator it = c08::Registry::table().find(argv[1]);
  if (it == c08::Registry::table().end())
  {
    fprintf(stderr, "unknown scenario %s\n", argv[1]);
    return 2;
  }
  it->second();
  printf("scenario %s done\n", argv[1]);
  fflush(stdout);
  return 0;
}
