// C14 driver: the real BlockingQueue<int>, BoundedBlockingQueue<int>, CountDownLatch under the
// controlled scheduler (harness/sched.cc).  One forked child per case.
// Case format:
//   case <id> kind=bq|bbq|latch [cap=N] [count=N] [thr=spawn|muduo] sched=<source> spur=<k> ...
//   <program of T1>      ops separated by ';' :  put <v> | take | drain | size | empty | full | capacity (bbq) | cd | wait | count
//   <program of T2> ...
//   end
// Output: "case <id>", the scheduler's lines (t = trace, c = choice, e = event log: "e T<i> r <k>
// <op> <result>"), "schedule ...", "final ...", "end".  Every trace line carries the observers
// h=<holder_ as canonical thread | - | ?> n=<queue size | latch count> read without the lock
// (safe: exactly one thread runs).
#include <stdint.h>
#include <stdio.h>
#include <sys/wait.h>
#include <unistd.h>
#include <iostream>
#include <map>
#include <memory>
#include <sstream>
#include <boost/circular_buffer.hpp>

#define private public
#include "muduo/base/BlockingQueue.h"
#include "muduo/base/BoundedBlockingQueue.h"
#include "muduo/base/CountDownLatch.h"
#include "muduo/base/Thread.h"
#undef private
#include "muduo/base/CurrentThread.h"

#include "common.h"
#include "sched.h"

using std::string;
typedef std::vector<string> Op;

struct CaseDesc
{
  string id, kind, thr;
  int cap, count;
  sched::Config cfg;
  std::vector<std::vector<Op> > progs;
};

static std::map<pid_t, int> g_tid2idx;
static muduo::BlockingQueue<int>* g_bq;
static muduo::BoundedBlockingQueue<int>* g_bbq;
static muduo::CountDownLatch* g_latch;

static muduo::MutexLock& theMutex()
{
  return g_bq ? g_bq->mutex_ : g_bbq ? g_bbq->mutex_ : g_latch->mutex_;
}

static long theSize()
{
  return g_bq ? static_cast<long>(g_bq->queue_.size()) : g_bbq ? static_cast<long>(g_bbq->queue_.size()) : g_latch->count_;
}

static void observe(string& line)
{
  char buf[64];
  pid_t h = theMutex().holder_;
  if (h == 0) snprintf(buf, sizeof buf, " h=- n=%ld", theSize());
  else
  {
    std::map<pid_t, int>::iterator it = g_tid2idx.find(h);
    if (it == g_tid2idx.end()) snprintf(buf, sizeof buf, " h=? n=%ld", theSize());
    else snprintf(buf, sizeof buf, " h=T%d n=%ld", it->second, theSize());
  }
  line += buf;
}

static void runProgram(const std::vector<Op>& prog)
{
  g_tid2idx[muduo::CurrentThread::tid()] = sched::self();
  for (size_t k = 0; k < prog.size(); ++k)
  {
    const Op& op = prog[k];
    const string& o = op[0];
    if (o == "put")
    {
      int v = atoi(op[1].c_str());
      if (g_bq) g_bq->put(v); else g_bbq->put(v);
      sched::log("r %zu put %d", k, v);
    }
    else if (o == "take")
    {
      int v = g_bq ? g_bq->take() : g_bbq->take();
      sched::log("r %zu take %d", k, v);
    }
    else if (o == "drain")
    {
      std::deque<int> d = g_bq->drain();
      string s;
      char b[16];
      for (size_t i = 0; i < d.size(); ++i) { snprintf(b, sizeof b, "%s%d", i ? "," : "", d[i]); s += b; }
      sched::log("r %zu drain %s", k, d.empty() ? "-" : s.c_str());
    }
    else if (o == "size")
    {
      size_t n = g_bq ? g_bq->size() : g_bbq->size();
      sched::log("r %zu size %zu", k, n);
    }
    else if (o == "empty") { bool b = g_bbq->empty(); sched::log("r %zu empty %d", k, b ? 1 : 0); }
    else if (o == "full") { bool b = g_bbq->full(); sched::log("r %zu full %d", k, b ? 1 : 0); }
    else if (o == "capacity") { size_t n = g_bbq->capacity(); sched::log("r %zu capacity %zu", k, n); }
    else if (o == "cd") { g_latch->countDown(); sched::log("r %zu cd -", k); }
    else if (o == "wait") { g_latch->wait(); sched::log("r %zu wait -", k); }
    else if (o == "count") { int c = g_latch->getCount(); sched::log("r %zu count %d", k, c); }
    else sched::log("r %zu BADOP %s", k, o.c_str());
  }
}

static void printFinal()
{
  if (g_latch) { printf("final count=%d\n", g_latch->count_); return; }
  string s;
  char b[16];
  if (g_bq) for (size_t i = 0; i < g_bq->queue_.size(); ++i) { snprintf(b, sizeof b, "%s%d", i ? "," : "", g_bq->queue_[i]); s += b; }
  if (g_bbq) for (size_t i = 0; i < g_bbq->queue_.size(); ++i) { snprintf(b, sizeof b, "%s%d", i ? "," : "", g_bbq->queue_[i]); s += b; }
  printf("final queue=%s\n", s.empty() ? "-" : s.c_str());
}

static void runCase(const CaseDesc& c)
{
  std::unique_ptr<muduo::BlockingQueue<int> > bq;
  std::unique_ptr<muduo::BoundedBlockingQueue<int> > bbq;
  std::unique_ptr<muduo::CountDownLatch> latch;
  if (c.kind == "bq")
  {
    bq.reset(new muduo::BlockingQueue<int>());
    g_bq = bq.get();
    sched::name_mutex(g_bq->mutex_.getPthreadMutex());
    sched::name_cond(&g_bq->notEmpty_.pcond_);
  }
  else if (c.kind == "bbq")
  {
    bbq.reset(new muduo::BoundedBlockingQueue<int>(c.cap));
    g_bbq = bbq.get();
    sched::name_mutex(g_bbq->mutex_.getPthreadMutex());
    sched::name_cond(&g_bbq->notEmpty_.pcond_);
    sched::name_cond(&g_bbq->notFull_.pcond_);
  }
  else
  {
    latch.reset(new muduo::CountDownLatch(c.count));
    g_latch = latch.get();
    sched::name_mutex(g_latch->mutex_.getPthreadMutex());
    sched::name_cond(&g_latch->condition_.pcond_);
  }
  sched::set_observer(observe);
  sched::set_deadlock_handler(printFinal);
  g_tid2idx[muduo::CurrentThread::tid()] = 0;
  sched::run(c.cfg, [&c]() {
    if (c.thr == "muduo")
    {
      std::vector<std::unique_ptr<muduo::Thread> > ts;
      for (size_t i = 0; i < c.progs.size(); ++i)
      {
        const std::vector<Op>* p = &c.progs[i];
        ts.emplace_back(new muduo::Thread([p]() { runProgram(*p); }));
        ts.back()->start();
      }
      for (size_t i = 0; i < ts.size(); ++i) ts[i]->join();
    }
    else
    {
      std::vector<sched::handle> hs;
      for (size_t i = 0; i < c.progs.size(); ++i)
      {
        const std::vector<Op>* p = &c.progs[i];
        hs.push_back(sched::spawn([p]() { runProgram(*p); }));
      }
      for (size_t i = 0; i < hs.size(); ++i) sched::join(hs[i]);
    }
  });
  printFinal();
  printf("end\n");
  fflush(stdout);
  _exit(0);
}

int main()
{
  string line;
  CaseDesc c;
  bool in = false;
  while (std::getline(std::cin, line))
  {
    std::vector<string> w = vh::splitWs(line);
    if (w.empty()) continue;
    if (w[0] == "case")
    {
      c = CaseDesc();
      c.id = w[1];
      c.cap = 1;
      c.count = 1;
      c.thr = "spawn";
      for (size_t i = 2; i < w.size(); ++i)
      {
        if (sched::parse_token(c.cfg, w[i])) continue;
        size_t eq = w[i].find('=');
        if (eq == string::npos) continue;
        string k = w[i].substr(0, eq), v = w[i].substr(eq + 1);
        if (k == "kind") c.kind = v;
        else if (k == "cap") c.cap = atoi(v.c_str());
        else if (k == "count") c.count = atoi(v.c_str());
        else if (k == "thr") c.thr = v;
      }
      in = true;
      continue;
    }
    if (w[0] == "end")
    {
      if (!in) continue;
      in = false;
      printf("case %s\n", c.id.c_str());
      fflush(stdout);
      pid_t pid = fork();
      if (pid == 0)
      {
        setvbuf(stdout, NULL, _IOLBF, 0);   // a crashing child (assert, sanitizer) keeps its trace
        runCase(c);
      }
      int st = 0;
      waitpid(pid, &st, 0);
      if (!(WIFEXITED(st) && WEXITSTATUS(st) == 0))
      {
        printf("CRASH status=%d\nend\n", st);
      }
      fflush(stdout);
      continue;
    }
    if (w[0] == "trace" || w[0] == "t" || w[0] == "c" || w[0] == "e") continue;   // model-side lines
    // a program line
    std::vector<Op> prog;
    Op cur;
    for (size_t i = 0; i < w.size(); ++i)
    {
      if (w[i] == ";") { if (!cur.empty()) prog.push_back(cur); cur.clear(); }
      else cur.push_back(w[i]);
    }
    if (!cur.empty()) prog.push_back(cur);
    if (prog.size() == 1 && prog[0][0] == "-") prog.clear();
    c.progs.push_back(prog);
  }
  return 0;
}
