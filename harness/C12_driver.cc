// C12 driver (style A, DESIGN 4.2): drives ONE real muduo::net::TcpClient (and its Connector and the
// TcpConnections it creates) op by op on the thread that owns the EventLoop, with no loop() running.
// The kernel is scripted by link-time interposition (-Wl,--wrap=...): socket() hands out one end of a
// fresh AF_UNIX socketpair (so a "successful" attempt yields a working TcpConnection whose peer end
// the driver holds), connect() answers the scripted errno, getsockopt(SO_ERROR) / getsockname /
// getpeername answer what the EVW op says, close()/shutdown() are counted per logical socket, the
// clock is virtual (gettimeofday), a foreign thread's call is cut in two by stalling it at its n-th
// pthread_mutex_lock.  Cases run in worker processes, each case on a fresh thread with nothing ever destroyed (a crash
// kills the worker, is reported as a `crashed` line, and a new worker continues with the next case).
//
// case <id>
//   CONNECT | DISCONNECT | STOP | RETRY | DESTROY            client API on the loop thread
//   XCF XCE | XSF XSE | XDF XDR | XYR XYD                    foreign connect / stop / disconnect / ~TcpClient in two halves
//   CR <errno> | EVW <so_error> <self 0|1> | EVE | TF | RUN | RUN1 | DOWN | HOLD | REL
//   EVWY                                                     POLLOUT with SO_ERROR 0; a foreign thread runs ~TcpClient while the loop thread is
//                                                            inside TcpClient::newConnection, just before it takes mutex_
//   LOOPEND                                                  the loop has stopped for good (loop() returned) and the EventLoop goes out of scope AFTER
//                                                            the TcpClient: `delete loop` = EventLoop::~EventLoop: pendingFunctors_ destroyed unrun,
//                                                            ~TimerQueue deletes the timers unrun.  Rejected while the client exists, while user code
//                                                            holds a TcpConnectionPtr, while a foreign ~TcpClient's addTimerInLoop hand-off is queued
// end
// One line per op:
//   ok|rejected t=<virtual ms> ev=.. arm=.. k=<state>/<connect_>/<channel sock:registered>/<retryDelayMs_> tm=<ms until due,..>
//   pend=<n> socks=<o|cN|H|HcN,..> cl=<connect_>/<retry_>/<connection_ index> cs=<state/registered/fin/user refs | x,..>
#include <errno.h>
#include <fcntl.h>
#include <poll.h>
#include <pthread.h>
#include <semaphore.h>
#include <signal.h>
#include <sys/socket.h>
#include <sys/time.h>
#include <sys/epoll.h>
#include <sys/wait.h>
#include <sys/mman.h>
#include <netinet/in.h>
#include <arpa/inet.h>
#include <unistd.h>

#include <algorithm>
#include <deque>
#include <functional>
#include <iostream>
#include <map>
#include <memory>
#include <set>
#include <thread>

#define private public
#define protected public
#include "muduo/net/TcpClient.h"
#include "muduo/net/Connector.h"
#include "muduo/net/TcpConnection.h"
#include "muduo/net/EventLoop.h"
#include "muduo/net/Channel.h"
#include "muduo/net/Socket.h"
#include "muduo/net/TimerQueue.h"
#include "muduo/net/Poller.h"
#include "muduo/net/poller/EPollPoller.h"
#include "muduo/net/Timer.h"
#include "muduo/net/InetAddress.h"
#include "muduo/base/Logging.h"
#undef private
#undef protected

#include "common.h"

using namespace muduo;
using namespace muduo::net;
using std::string;

// ------------------------------------------------------------------ interposition
extern "C" {
int __real_socket(int domain, int type, int protocol);
int __real_connect(int fd, const struct sockaddr* addr, socklen_t len);
int __real_close(int fd);
int __real_shutdown(int fd, int how);
int __real_getsockopt(int fd, int level, int optname, void* optval, socklen_t* optlen);
int __real_getsockname(int fd, struct sockaddr* addr, socklen_t* len);
int __real_getpeername(int fd, struct sockaddr* addr, socklen_t* len);
int __real_gettimeofday(struct timeval* tv, void* tz);
int __real_pthread_mutex_lock(pthread_mutex_t* m);
int __real_epoll_ctl(int epfd, int op, int fd, struct epoll_event* event);
}

struct LSock { int fd; int peer; bool open; int closes; bool handed; int conn; };
static std::vector<LSock> g_socks;          // logical sockets in creation order
static std::map<int, int> g_fd2sock;        // descriptor number -> latest logical socket using it
static bool g_active = false;
static std::deque<int> g_script;            // errno answers for ::connect
static int g_soerr = 0;
static bool g_self = false;
static const int64_t kEpochUs = 1700000000LL * 1000000LL;
static int64_t g_now_us = kEpochUs;
static std::vector<string> g_events;
static MutexLock g_evmutex;
static thread_local int t_stall_at = 0;     // stall this thread at its n-th pthread_mutex_lock
static thread_local int t_locks = 0;
static thread_local bool t_in_wrap = false;
static sem_t g_reached;
static thread_local sem_t* t_release = NULL;
// EVWY: when the loop thread is about to take this mutex (TcpClient::mutex_, inside TcpClient::newConnection called from
// Connector::handleWrite), a foreign thread runs `delete client` to completion first (forced schedule of F-13)
static pthread_mutex_t* g_race_mutex = NULL;
static TcpClient* g_race_client = NULL;
static pthread_t g_loop_thread;

static void ev(const string& s) { g_events.push_back(s); }

static int lookup(int fd)
{
  std::map<int, int>::iterator it = g_fd2sock.find(fd);
  return it == g_fd2sock.end() ? -1 : it->second;
}

extern "C" int __wrap_socket(int domain, int type, int protocol)
{
  if (!g_active || domain != AF_INET) return __real_socket(domain, type, protocol);
  int sv[2];
  if (::socketpair(AF_UNIX, SOCK_STREAM | SOCK_NONBLOCK | SOCK_CLOEXEC, 0, sv) != 0) { perror("socketpair"); _exit(3); }
  LSock s = {sv[0], sv[1], true, 0, false, -1};
  g_socks.push_back(s);
  g_fd2sock[sv[0]] = static_cast<int>(g_socks.size()) - 1;
  return sv[0];
}

extern "C" int __wrap_connect(int fd, const struct sockaddr* addr, socklen_t len)
{
  int id = g_active ? lookup(fd) : -1;
  if (id < 0) return __real_connect(fd, addr, len);
  int e = EINPROGRESS;
  if (!g_script.empty()) { e = g_script.front(); g_script.pop_front(); }
  ev("att:" + std::to_string(id) + ":" + std::to_string(e));
  if (e == 0) return 0;
  errno = e;
  return -1;
}

extern "C" int __wrap_close(int fd)
{
  int id = g_active ? lookup(fd) : -1;
  if (id < 0) return __real_close(fd);
  LSock& s = g_socks[static_cast<size_t>(id)];
  ++s.closes;
  ev(string(s.handed ? "cclose:" : "close:") + std::to_string(id));
  if (s.open) { s.open = false; return __real_close(fd); }
  errno = EBADF;      // second close of the same logical socket: do not hit an unrelated descriptor
  return -1;
}

extern "C" int __wrap_shutdown(int fd, int how)
{
  int id = g_active ? lookup(fd) : -1;
  if (id >= 0 && how == SHUT_WR) ev("fin:" + std::to_string(g_socks[static_cast<size_t>(id)].conn));
  return __real_shutdown(fd, how);
}

extern "C" int __wrap_getsockopt(int fd, int level, int optname, void* optval, socklen_t* optlen)
{
  int id = g_active ? lookup(fd) : -1;
  if (id >= 0 && level == SOL_SOCKET && optname == SO_ERROR)
  {
    *static_cast<int*>(optval) = g_soerr;
    *optlen = sizeof(int);
    return 0;
  }
  return __real_getsockopt(fd, level, optname, optval, optlen);
}

static int fakeAddr(int id, bool peer, struct sockaddr* addr, socklen_t* len)
{
  struct sockaddr_in a;
  memset(&a, 0, sizeof a);
  a.sin_family = AF_INET;
  a.sin_addr.s_addr = htonl(INADDR_LOOPBACK);
  a.sin_port = htons(static_cast<uint16_t>((peer && !g_self) ? 2000 : 40000 + id % 20000));
  memcpy(addr, &a, std::min(static_cast<size_t>(*len), sizeof a));
  *len = sizeof a;
  return 0;
}
extern "C" int __wrap_getsockname(int fd, struct sockaddr* addr, socklen_t* len)
{
  int id = g_active ? lookup(fd) : -1;
  return id < 0 ? __real_getsockname(fd, addr, len) : fakeAddr(id, false, addr, len);
}
extern "C" int __wrap_getpeername(int fd, struct sockaddr* addr, socklen_t* len)
{
  int id = g_active ? lookup(fd) : -1;
  return id < 0 ? __real_getpeername(fd, addr, len) : fakeAddr(id, true, addr, len);
}

// the logical socket of the channel the Connector registered last (its Channel asks for EPOLLOUT; a TcpConnection's for
// EPOLLIN): names the socket of an unregistered channel_ independently of descriptor-number and address reuse
static int g_conn_watch = -1;
extern "C" int __wrap_epoll_ctl(int epfd, int op, int fd, struct epoll_event* event)
{
  if (g_active && op == EPOLL_CTL_ADD && event != NULL && (event->events & EPOLLOUT))
  {
    int id = lookup(fd);
    if (id >= 0) g_conn_watch = id;
  }
  return __real_epoll_ctl(epfd, op, fd, event);
}

extern "C" int __wrap_gettimeofday(struct timeval* tv, void* tz)
{
  (void)tz;
  tv->tv_sec = g_now_us / 1000000;
  tv->tv_usec = g_now_us % 1000000;
  return 0;
}

extern "C" int __wrap_pthread_mutex_lock(pthread_mutex_t* m)
{
  if (g_race_mutex != NULL && m == g_race_mutex && pthread_equal(pthread_self(), g_loop_thread))
  {
    g_race_mutex = NULL;
    TcpClient* c = g_race_client;
    std::thread t([c]() { delete c; });
    t.join();
    return 0;      // the mutex is destroyed and freed: what an unchecked pthread_mutex_lock amounts to; the caller goes on
  }
  if (t_stall_at > 0 && ++t_locks == t_stall_at)
  {
    sem_post(&g_reached);
    sem_wait(t_release);
  }
  return __real_pthread_mutex_lock(m);
}

// ------------------------------------------------------------------ driver state
struct ConnRec { std::weak_ptr<TcpConnection> wp; bool fresh; bool fin; };
static std::vector<ConnRec> g_conns;

static void onConnection(const TcpConnectionPtr& c)
{
  size_t h = c->name().rfind('#');
  int idx = atoi(c->name().c_str() + h + 1) - 1;
  if (c->connected())
  {
    while (static_cast<int>(g_conns.size()) <= idx) { ConnRec r; r.fresh = false; r.fin = false; g_conns.push_back(r); }
    g_conns[static_cast<size_t>(idx)].wp = c;
    g_conns[static_cast<size_t>(idx)].fresh = true;
    int id = lookup(c->socket_->fd());
    if (id >= 0) { g_socks[static_cast<size_t>(id)].handed = true; g_socks[static_cast<size_t>(id)].conn = idx; }
    ev("hand:" + std::to_string(id));
    ev("up:" + std::to_string(idx));
  }
  else ev("down:" + std::to_string(idx));
}

static void nullOutput(const char*, int) {}

struct Foreign { std::thread th; sem_t* release; bool parked; };

static int errnoOf(const string& s)
{
  static std::map<string, int> m;
  if (m.empty())
  {
    m["0"] = 0; m["EINPROGRESS"] = EINPROGRESS; m["EINTR"] = EINTR; m["EISCONN"] = EISCONN; m["EAGAIN"] = EAGAIN;
    m["EADDRINUSE"] = EADDRINUSE; m["EADDRNOTAVAIL"] = EADDRNOTAVAIL; m["ECONNREFUSED"] = ECONNREFUSED;
    m["ENETUNREACH"] = ENETUNREACH; m["EACCES"] = EACCES; m["EPERM"] = EPERM; m["EAFNOSUPPORT"] = EAFNOSUPPORT;
    m["EALREADY"] = EALREADY; m["EBADF"] = EBADF; m["EFAULT"] = EFAULT; m["ENOTSOCK"] = ENOTSOCK;
    m["ETIMEDOUT"] = ETIMEDOUT; m["EHOSTUNREACH"] = EHOSTUNREACH; m["ECONNRESET"] = ECONNRESET; m["ENOBUFS"] = ENOBUFS;
  }
  std::map<string, int>::iterator it = m.find(s);
  return it != m.end() ? it->second : atoi(s.c_str());
}

static int runCase(const std::vector<string>& lines)
{
  sem_init(&g_reached, 0, 0);
  g_loop_thread = pthread_self();
  // nothing of a case is ever destroyed (a case ends wherever it ends: mid-connect, with parked foreign threads ...):
  // the objects are leaked, only the descriptors are closed at the end
  EventLoop& loop = *new EventLoop;
  InetAddress server("127.0.0.1", 2000);
  g_active = true;
  TcpClient* client = new TcpClient(&loop, server, "cl");
  client->setConnectionCallback(onConnection);
  std::weak_ptr<Connector> wk = client->connector_;
  TcpConnectionPtr& user = *new TcpConnectionPtr;
  std::map<string, Foreign>& foreign = *new std::map<string, Foreign>;     // "C", "S", "D", "Y"
  bool destroying = false;
  bool loopGone = false;          // LOOPEND happened: `loop` is a dangling reference from then on
  bool yHadConn = false;          // XYR: the snapshot of connection_ the foreign ~TcpClient took
  int hackIdx = -1;               // position in pendingFunctors_ of the addTimerInLoop hand-off of a foreign ~TcpClient's runAfter, -1: none
  int64_t lastSeq = 0;
  Channel* chanPtr = NULL;
  int chanSock = -1;
  {
    // sequence numbers of timers are global and monotone: everything above lastSeq is new
    Timer probe([]() {}, Timestamp(), 0.0);
    lastSeq = probe.sequence();
  }

  for (size_t li = 0; li < lines.size(); ++li)
  {
    std::vector<string> w = vh::splitWs(lines[li]);
    if (w.empty()) continue;
    const string& k = w[0];
    bool rejected = false;
    g_events.clear();
    bool apiOk = client != NULL && !destroying;
    ConnectorPtr kp = wk.lock();       // keeps the connector alive for the duration of the op only if it is alive anyway
    Connector* kraw = kp.get();
    kp.reset();

    auto startForeign = [&](const string& tag, int stallAt, std::function<void()> body) {
      Foreign f;
      f.release = new sem_t;
      sem_init(f.release, 0, 0);
      f.parked = true;
      sem_t* rel = f.release;
      f.th = std::thread([rel, stallAt, body]() {
        t_release = rel;
        t_locks = 0;
        t_stall_at = stallAt;
        body();
        t_stall_at = 0;
      });
      sem_wait(&g_reached);
      foreign[tag] = std::move(f);
    };
    auto finishForeign = [&](const string& tag) {
      Foreign& f = foreign[tag];
      sem_post(f.release);
      f.th.join();
      delete f.release;
      foreign.erase(tag);
    };

    if (k == "CONNECT") { if (apiOk) client->connect(); else rejected = true; }
    else if (k == "DISCONNECT") { if (apiOk) client->disconnect(); else rejected = true; }
    else if (k == "STOP") { if (apiOk) client->stop(); else rejected = true; }
    else if (k == "RETRY") { if (apiOk) client->enableRetry(); else rejected = true; }
    else if (k == "DESTROY")
    {
      if (apiOk && foreign.empty()) { delete client; client = NULL; } else rejected = true;
    }
    else if (k == "XCF")
    {
      if (apiOk && !foreign.count("C")) { TcpClient* c = client; startForeign("C", 1, [c]() { c->connect(); }); } else rejected = true;
    }
    else if (k == "XCE") { if (apiOk && foreign.count("C")) finishForeign("C"); else rejected = true; }
    else if (k == "XSF")
    {
      if (apiOk && !foreign.count("S")) { TcpClient* c = client; startForeign("S", 1, [c]() { c->stop(); }); } else rejected = true;
    }
    else if (k == "XSE") { if (apiOk && foreign.count("S")) finishForeign("S"); else rejected = true; }
    else if (k == "XDF")
    {
      if (apiOk && !foreign.count("D")) { TcpClient* c = client; startForeign("D", 1, [c]() { c->disconnect(); }); } else rejected = true;
    }
    else if (k == "XDR") { if (apiOk && foreign.count("D")) finishForeign("D"); else rejected = true; }
    else if (k == "XYR")
    {
      if (apiOk && foreign.empty())
      {
        TcpClient* c = client;
        destroying = true;
        yHadConn = static_cast<bool>(client->connection_);
        startForeign("Y", 2, [c]() { delete c; });     // lock 1 = the snapshot under mutex_, lock 2 = the first enqueue
      }
      else rejected = true;
    }
    else if (k == "XYD")
    {
      if (destroying && foreign.count("Y"))
      {
        finishForeign("Y");
        client = NULL;
        destroying = false;
        if (!yHadConn) hackIdx = static_cast<int>(loop.queueSize()) - 1;   // stop()'s stopInLoop, then runAfter's addTimerInLoop
      }
      else rejected = true;
    }
    else if (k == "CR") g_script.push_back(errnoOf(w[1]));
    else if (k == "EVW" || k == "EVE")
    {
      if (kraw && kraw->channel_ && kraw->channel_->addedToLoop_)
      {
        g_soerr = k == "EVW" ? errnoOf(w[1]) : 0;
        g_self = k == "EVW" && w[2] == "1";
        kraw->channel_->set_revents(k == "EVW" ? POLLOUT : POLLERR);
        kraw->channel_->handleEvent(Timestamp::now());
        g_soerr = 0;
        g_self = false;
      }
      else rejected = true;
    }
    else if (k == "EVWY")
    {
      if (apiOk && foreign.empty() && kraw && kraw->channel_ && kraw->channel_->addedToLoop_ &&
          kraw->state_ == Connector::kConnecting && kraw->connect_)
      {
        g_soerr = 0;
        g_self = false;
        g_race_client = client;
        g_race_mutex = client->mutex_.getPthreadMutex();
        client = NULL;                   // it is gone when handleEvent returns (if it returns)
        kraw->channel_->set_revents(POLLOUT);
        kraw->channel_->handleEvent(Timestamp::now());
        g_race_mutex = NULL;
      }
      else rejected = true;
    }
    else if (k == "LOOPEND")
    {
      if (client == NULL && !destroying && !user && hackIdx < 0)
      {
        if (!loopGone)
        {
          loopGone = true;
          delete &loop;      // on the loop's own thread, after the client: what scope exit does in `EventLoop loop; TcpClient client(&loop, ..);`
        }
      }
      else rejected = true;
    }
    else if (loopGone && (k == "TF" || k == "RUN1")) rejected = true;      // no timer, no functor is left
    else if (loopGone && k == "RUN") { for (size_t i = 0; i < g_conns.size(); ++i) g_conns[i].fresh = false; }
    else if (k == "TF")
    {
      TimerQueue* tq = loop.timerQueue_.get();
      if (tq->timers_.empty()) rejected = true;
      else
      {
        int64_t first = tq->timers_.begin()->first.microSecondsSinceEpoch();
        int64_t now2 = std::max(g_now_us, first);
        // equal deadlines run in the order of the Timer addresses; the callbacks (startInLoop / the empty removeConnector)
        // give the same result in every order, the model fixes one
        g_now_us = now2;
        tq->handleRead();
      }
    }
    else if (k == "RUN" || k == "RUN1")
    {
      std::vector<EventLoop::Functor> functors;
      {
        MutexLockGuard lock(loop.mutex_);
        if (k == "RUN") functors.swap(loop.pendingFunctors_);
        else if (!loop.pendingFunctors_.empty())
        {
          functors.push_back(std::move(loop.pendingFunctors_.front()));
          loop.pendingFunctors_.erase(loop.pendingFunctors_.begin());
          if (hackIdx >= 0) --hackIdx;
        }
      }
      if (k == "RUN") hackIdx = -1;
      if (k == "RUN1" && functors.empty()) rejected = true;
      loop.callingPendingFunctors_ = true;
      for (size_t i = 0; i < functors.size(); ++i)
      {
        functors[i]();
        functors[i] = EventLoop::Functor();    // drop the functor's references (the real loop does at batch end)
      }
      loop.callingPendingFunctors_ = false;
      if (k == "RUN") for (size_t i = 0; i < g_conns.size(); ++i) g_conns[i].fresh = false;
    }
    else if (k == "DOWN")
    {
      int target = -1;
      for (size_t i = 0; i < g_conns.size(); ++i)
      {
        TcpConnectionPtr c = g_conns[i].wp.lock();
        if (c && c->channel_->addedToLoop_ && !g_conns[i].fresh &&
            (c->state_ == TcpConnection::kConnected || c->state_ == TcpConnection::kDisconnecting))
          target = static_cast<int>(i);
      }
      if (target < 0) rejected = true;
      else
      {
        Channel* ch;
        {
          TcpConnectionPtr c = g_conns[static_cast<size_t>(target)].wp.lock();
          int id = lookup(c->socket_->fd());
          __real_shutdown(g_socks[static_cast<size_t>(id)].peer, SHUT_RDWR);    // the peer closes
          ch = c->channel_.get();
        }
        ch->set_revents(POLLIN);
        ch->handleEvent(Timestamp::now());
      }
    }
    else if (k == "HOLD")
    {
      if (apiOk && !user && client->connection()) user = client->connection(); else rejected = true;
    }
    else if (k == "REL")
    {
      if (!user) rejected = true;
      else user.reset();
    }
    else { fprintf(stderr, "bad op %s\n", k.c_str()); return 2; }

    // ---- observation
    string evs, arms;
    for (size_t i = 0; i < g_events.size(); ++i) { if (!evs.empty()) evs += ","; evs += g_events[i]; }
    if (!loopGone)
    {
      TimerQueue* tq = loop.timerQueue_.get();
      std::vector<std::pair<int64_t, int64_t> > fresh;   // (sequence, delay ms)
      int64_t maxSeq = lastSeq;
      for (TimerQueue::TimerList::iterator it = tq->timers_.begin(); it != tq->timers_.end(); ++it)
      {
        int64_t sq = it->second->sequence();
        if (sq > lastSeq)
        {
          fresh.push_back(std::make_pair(sq, (it->first.microSecondsSinceEpoch() - g_now_us) / 1000));
          maxSeq = std::max(maxSeq, sq);
        }
      }
      lastSeq = maxSeq;
      std::sort(fresh.begin(), fresh.end());
      for (size_t i = 0; i < fresh.size(); ++i) { if (!arms.empty()) arms += ","; arms += std::to_string(fresh[i].second); }
    }
    if (!rejected) g_now_us += 1000;     // every op that happened takes a millisecond of virtual time
    string kst = "dead";
    {
      ConnectorPtr p = wk.lock();
      if (p)
      {
        kst = std::to_string(static_cast<int>(p->state_)) + "/" + (p->connect_ ? "1" : "0") + "/";
        if (p->channel_)
        {
          // a registered channel's descriptor is open, so the table is current; once unregistered (descriptor closed,
          // number possibly reused) keep the logical socket seen while it was registered
          chanPtr = p->channel_.get();
          chanSock = p->channel_->addedToLoop_ ? lookup(p->channel_->fd()) : g_conn_watch;
          kst += std::to_string(chanSock) + ":" + (p->channel_->addedToLoop_ ? "1" : "0");
        }
        else kst += "-";
        kst += "/" + std::to_string(p->retryDelayMs_);
      }
    }
    string tm;
    if (!loopGone)
    {
      TimerQueue* tq = loop.timerQueue_.get();
      for (TimerQueue::TimerList::iterator it = tq->timers_.begin(); it != tq->timers_.end(); ++it)
      {
        if (!tm.empty()) tm += ",";
        tm += std::to_string((it->first.microSecondsSinceEpoch() - g_now_us) / 1000);
      }
    }
    string socks;
    for (size_t i = 0; i < g_socks.size(); ++i)
    {
      if (i) socks += ",";
      const LSock& s = g_socks[i];
      if (s.handed) socks += "H";
      if (s.closes == 0) socks += s.handed ? "" : "o"; else socks += "c" + std::to_string(s.closes);
    }
    string cl = "x";
    if (client && !destroying)
    {
      cl = string(client->connect_ ? "1" : "0") + "/" + (client->retry_ ? "1" : "0") + "/";
      TcpConnectionPtr c = client->connection_;
      int idx = -1;
      for (size_t i = 0; i < g_conns.size(); ++i) if (c && g_conns[i].wp.lock() == c) idx = static_cast<int>(i);
      cl += c ? std::to_string(idx) : "-";
    }
    else if (client) cl = "dying";
    string cs;
    for (size_t i = 0; i < g_conns.size(); ++i)
    {
      if (i) cs += ",";
      TcpConnectionPtr c = g_conns[i].wp.lock();
      if (!c) { cs += "x"; continue; }
      bool fin = false;
      for (size_t j = 0; j < g_events.size(); ++j) if (g_events[j] == "fin:" + std::to_string(i)) g_conns[i].fin = true;
      fin = g_conns[i].fin;
      cs += std::to_string(static_cast<int>(c->state_)) + "/" + (c->channel_->addedToLoop_ ? "1" : "0") + "/" + (fin ? "1" : "0") +
            "/" + ((user && user == c) ? "1" : "0");
    }
    printf("%s t=%lld ev=%s arm=%s k=%s tm=%s pend=%zu socks=%s cl=%s cs=%s\n", rejected ? "rejected" : "ok",
           static_cast<long long>((g_now_us - kEpochUs) / 1000), evs.empty() ? "-" : evs.c_str(), arms.empty() ? "-" : arms.c_str(), kst.c_str(), tm.empty() ? "-" : tm.c_str(),
           loopGone ? static_cast<size_t>(0) : loop.queueSize(), socks.empty() ? "-" : socks.c_str(), cl.c_str(), cs.empty() ? "-" : cs.c_str());
    fflush(stdout);
  }
  fflush(stdout);
  // ---- end of the case: close its descriptors, leak the rest
  for (size_t i = 0; i < g_socks.size(); ++i)
  {
    if (g_socks[i].open) __real_close(g_socks[i].fd);
    __real_close(g_socks[i].peer);
  }
  g_active = false;
  if (!loopGone)
  {
    if (EPollPoller* ep = dynamic_cast<EPollPoller*>(loop.poller_.get())) __real_close(ep->epollfd_);
    __real_close(loop.wakeupFd_);
    __real_close(loop.timerQueue_->timerfd_);
  }
  return 0;
}

static void resetGlobals()
{
  g_socks.clear();
  g_fd2sock.clear();
  g_active = false;
  g_script.clear();
  g_soerr = 0;
  g_self = false;
  g_now_us = kEpochUs;
  g_events.clear();
  g_conns.clear();
  g_race_mutex = NULL;
  g_race_client = NULL;
  g_conn_watch = -1;
}

// Cases run one after the other in a worker process, each on a fresh thread (an EventLoop is bound to its thread and is
// never destroyed here).  A crash (assert, sanitizer report, alarm) kills the worker: the parent reports it for the case
// that was running and starts a new worker with the next case.  A worker is recycled after kPerWorker cases.
struct Shared { volatile int cur; volatile int done; };
static const int kPerWorker = 300;

int main()
{
  string line;
  std::vector<string> lines;
  std::vector<std::pair<string, std::vector<string> > > cases;
  string cid;
  bool in = false;
  signal(SIGPIPE, SIG_IGN);
  while (std::getline(std::cin, line))
  {
    std::vector<string> w = vh::splitWs(line);
    if (w.empty()) continue;
    if (w[0] == "case") { cid = w[1]; lines.clear(); in = true; continue; }
    if (w[0] != "end") { if (in) lines.push_back(line); continue; }
    in = false;
    cases.push_back(std::make_pair(cid, lines));
  }
  Shared* sh = static_cast<Shared*>(mmap(NULL, sizeof(Shared), PROT_READ | PROT_WRITE, MAP_SHARED | MAP_ANONYMOUS, -1, 0));
  if (sh == MAP_FAILED) { perror("mmap"); return 3; }
  size_t next = 0;
  while (next < cases.size())
  {
    int ep[2];
    if (pipe(ep) != 0) { perror("pipe"); return 3; }
    sh->cur = static_cast<int>(next);
    sh->done = 0;
    fflush(stdout);
    pid_t pid = fork();
    if (pid == 0)
    {
      ::close(ep[0]);
      dup2(ep[1], 2);
      ::close(ep[1]);
      Logger::setOutput(nullOutput);
      size_t last = std::min(cases.size(), next + static_cast<size_t>(kPerWorker));
      for (size_t i = next; i < last; ++i)
      {
        sh->cur = static_cast<int>(i);
        alarm(60);
        resetGlobals();
        printf("case %s\n", cases[i].first.c_str());
        fflush(stdout);
        const std::vector<string>* ls = &cases[i].second;
        std::thread t([ls]() { runCase(*ls); });
        t.join();
        printf("end\n");
        fflush(stdout);
      }
      sh->cur = static_cast<int>(last);
      sh->done = 1;
      fflush(stdout);
      _exit(0);
    }
    ::close(ep[1]);
    string err;
    char buf[4096];
    ssize_t n;
    while ((n = ::read(ep[0], buf, sizeof buf)) > 0)
    {
      err.append(buf, static_cast<size_t>(n));
      if (err.size() > (1u << 20)) err.erase(0, err.size() - (1u << 19));
    }
    ::close(ep[0]);
    int status = 0;
    waitpid(pid, &status, 0);
    if (sh->done && WIFEXITED(status) && WEXITSTATUS(status) == 0) { next = static_cast<size_t>(sh->cur); continue; }
    // the worker died inside case sh->cur
    {
      // canonical reason: the failed assertion or the sanitizer's error kind (no addresses); the LAST report counts
      string why = "unknown";
      size_t a = err.rfind("Assertion `");
      size_t s = err.rfind("ERROR: AddressSanitizer: ");
      size_t u = err.rfind("runtime error: ");
      size_t mc = err.rfind(": Unexpected error: ");
      if (a != string::npos) { size_t e = err.find('\'', a + 11); why = "assert:" + err.substr(a + 11, e - a - 11); }
      else if (s != string::npos) { size_t e = err.find_first_of(" \n", s + 25); why = "asan:" + err.substr(s + 25, e - s - 25); }
      else if (u != string::npos) { size_t e = err.find('\n', u); why = "ubsan:" + err.substr(u + 15, e - u - 15); }
      else if (mc != string::npos) { size_t b = err.rfind(' ', mc - 1); why = "mcheck:" + err.substr(b + 1, mc - b - 1); }
      else if (WIFSIGNALED(status)) why = "signal:" + std::to_string(WTERMSIG(status));
      string fn;
      size_t f = err.rfind(": Assertion");
      if (a != string::npos && f != string::npos)
      {
        size_t b = err.rfind(": ", f - 1);
        if (b != string::npos) fn = err.substr(b + 2, f - b - 2);
      }
      else if (s != string::npos)
      {
        size_t m = err.find(" in muduo::", s);
        if (m != string::npos) { size_t e = err.find_first_of("( ", m + 4); fn = err.substr(m + 4, e - m - 4); }
      }
      for (size_t i = 0; i < why.size(); ++i) if (why[i] == ' ') why[i] = '_';
      for (size_t i = 0; i < fn.size(); ++i) if (fn[i] == ' ') fn[i] = '_';
      printf("crashed %s at=%s\n", why.c_str(), fn.empty() ? "?" : fn.c_str());
      size_t tail = err.size() > 1500 ? err.size() - 1500 : 0;
      fwrite(err.data() + tail, 1, err.size() - tail, stderr);
      printf("end\n");
      fflush(stdout);
      next = static_cast<size_t>(sh->cur) + 1;
    }
  }
  return 0;
}
