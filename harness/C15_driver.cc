// C15 driver: the real muduo::ThreadPool under the controlled scheduler (harness/sched.cc).
// One forked child per case.
// Case format:
//   case <id> nw=<workers 0..> maxq=<maxQueueSize, 0 = unbounded> sched=<source> spur=<k> post=<mask> ...
//   <program of client 1>    ops separated by ';' :  run <k> | stop | size
//   <program of client 2> ...
//   end
// Threads: T0 = the driver's main thread (creates the pool, start(nw), spawns the clients, joins
// them and, if no client program contains `stop`, calls stop() itself); T1..Tnw = the pool's
// workers (muduo::Thread, created by ThreadPool::start); then the clients in the order given.
// Output: "case <id>", the scheduler's lines, "final queue=<n> running=<0|1>", "end".
//   e T<i> call run <k> / ret run <k> / call stop / ret stop / call size / ret size <n>
//   e T<i> x <k>          task k starts executing on T<i> (then the task parks at point "task")
//   e T<i> init           worker T<i> ran the thread-init callback
// A second stop() on a pool with threads aborts in muduo::Thread::join (assert(!joined_)): the child
// dies and the parent prints "CRASH status=...".
// Every trace line carries h=<holder_ of mutex_> n=<queue_.size()> r=<running_> read without the
// lock (safe: exactly one thread runs).
#include <stdint.h>
#include <stdio.h>
#include <sys/wait.h>
#include <unistd.h>
#include <iostream>
#include <map>
#include <memory>
#include <sstream>

#define private public
#include "muduo/base/ThreadPool.h"
#undef private
#include "muduo/base/CurrentThread.h"

#include "common.h"
#include "sched.h"

using std::string;
typedef std::vector<string> Op;

struct CaseDesc
{
  string id;
  int nw, maxq;
  sched::Config cfg;
  std::vector<std::vector<Op> > progs;
};

static std::map<pid_t, int> g_tid2idx;
static muduo::ThreadPool* g_pool;
static int g_nw;

static void observe(string& line)
{
  char buf[96];
  pid_t h = g_pool->mutex_.holder_;
  long n = static_cast<long>(g_pool->queue_.size());
  int r = g_pool->running_ ? 1 : 0;
  if (h == 0) snprintf(buf, sizeof buf, " h=- n=%ld r=%d", n, r);
  else
  {
    std::map<pid_t, int>::iterator it = g_tid2idx.find(h);
    if (it == g_tid2idx.end()) snprintf(buf, sizeof buf, " h=? n=%ld r=%d", n, r);
    else snprintf(buf, sizeof buf, " h=T%d n=%ld r=%d", it->second, n, r);
  }
  line += buf;
}

static void registerThread()
{
  g_tid2idx[muduo::CurrentThread::tid()] = sched::self();
}

// ThreadPool::threadInitCallback_: runs at the top of runInThread in every worker (and in the caller of
// start(0)); only the workers' calls are logged ("e T<w> init")
static void initCallback()
{
  registerThread();
  if (sched::self() >= 1 && sched::self() <= g_nw) sched::log("init");
}

static void taskBody(int k)
{
  sched::log("x %d", k);
  sched::point("task");   // a worker can be "in the middle of a task" when stop() runs
}

static void runProgram(const std::vector<Op>& prog)
{
  registerThread();
  for (size_t i = 0; i < prog.size(); ++i)
  {
    const Op& op = prog[i];
    const string& o = op[0];
    if (o == "run")
    {
      int k = atoi(op[1].c_str());
      sched::log("call run %d", k);
      g_pool->run(std::bind(taskBody, k));
      sched::log("ret run %d", k);
    }
    else if (o == "stop")
    {
      sched::log("call stop");
      g_pool->stop();
      sched::log("ret stop");
    }
    else if (o == "size")
    {
      sched::log("call size");
      size_t n = g_pool->queueSize();
      sched::log("ret size %zu", n);
    }
    else sched::log("BADOP %s", o.c_str());
  }
}

static void printFinal()
{
  printf("final queue=%zu running=%d\n", g_pool->queue_.size(), g_pool->running_ ? 1 : 0);
}

static void runCase(const CaseDesc& c)
{
  std::unique_ptr<muduo::ThreadPool> pool(new muduo::ThreadPool("p"));
  g_pool = pool.get();
  g_pool->setMaxQueueSize(c.maxq);
  g_nw = c.nw;
  g_pool->setThreadInitCallback(initCallback);
  sched::name_mutex(g_pool->mutex_.getPthreadMutex());
  sched::name_cond(&g_pool->notEmpty_.pcond_);
  sched::name_cond(&g_pool->notFull_.pcond_);
  sched::set_observer(observe);
  sched::set_deadlock_handler(printFinal);
  bool anyStop = false;
  for (size_t i = 0; i < c.progs.size(); ++i)
    for (size_t j = 0; j < c.progs[i].size(); ++j)
      if (c.progs[i][j][0] == "stop") anyStop = true;
  sched::run(c.cfg, [&c, anyStop]() {
    registerThread();
    g_pool->start(c.nw);
    std::vector<sched::handle> hs;
    for (size_t i = 0; i < c.progs.size(); ++i)
    {
      const std::vector<Op>* p = &c.progs[i];
      hs.push_back(sched::spawn([p]() { runProgram(*p); }));
    }
    for (size_t i = 0; i < hs.size(); ++i) sched::join(hs[i]);
    if (!anyStop)
    {
      sched::log("call stop");
      g_pool->stop();
      sched::log("ret stop");
    }
  });
  printFinal();
  printf("end\n");
  fflush(stdout);
  _exit(0);
}

int main()
{
  string line;
  CaseDesc c;
  bool in = false;
  while (std::getline(std::cin, line))
  {
    std::vector<string> w = vh::splitWs(line);
    if (w.empty()) continue;
    if (w[0] == "case")
    {
      c = CaseDesc();
      c.id = w[1];
      c.nw = 1;
      c.maxq = 0;
      for (size_t i = 2; i < w.size(); ++i)
      {
        if (sched::parse_token(c.cfg, w[i])) continue;
        size_t eq = w[i].find('=');
        if (eq == string::npos) continue;
        string k = w[i].substr(0, eq), v = w[i].substr(eq + 1);
        if (k == "nw") c.nw = atoi(v.c_str());
        else if (k == "maxq") c.maxq = atoi(v.c_str());
      }
      in = true;
      continue;
    }
    if (w[0] == "end")
    {
      if (!in) continue;
      in = false;
      printf("case %s\n", c.id.c_str());
      fflush(stdout);
      pid_t pid = fork();
      if (pid == 0)
      {
        setvbuf(stdout, NULL, _IOLBF, 0);   // a crashing child (assert, sanitizer) keeps its trace
        runCase(c);
      }
      int st = 0;
      waitpid(pid, &st, 0);
      if (!(WIFEXITED(st) && WEXITSTATUS(st) == 0))
      {
        printf("CRASH status=%d\nend\n", st);
      }
      fflush(stdout);
      continue;
    }
    if (w[0] == "trace" || w[0] == "t" || w[0] == "c" || w[0] == "e") continue;   // model-side lines
    std::vector<Op> prog;
    Op cur;
    for (size_t i = 0; i < w.size(); ++i)
    {
      if (w[i] == ";") { if (!cur.empty()) prog.push_back(cur); cur.clear(); }
      else cur.push_back(w[i]);
    }
    if (!cur.empty()) prog.push_back(cur);
    if (prog.size() == 1 && prog[0][0] == "-") prog.clear();
    c.progs.push_back(prog);
  }
  return 0;
}
