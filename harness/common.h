// common.h: helpers shared by the C++ drivers (same payload syntax / hash as extract/util.ml)
#ifndef VERIF_HARNESS_COMMON_H
#define VERIF_HARNESS_COMMON_H
#include <stdint.h>
#include <stdio.h>
#include <stdlib.h>
#include <string.h>
#include <string>
#include <vector>
#include <sstream>

namespace vh
{
// CRC-32 (zlib polynomial), 8 hex digits; same function in extract/util.ml and Python's zlib.crc32
inline std::string fnv(const char* p, size_t n)
{
  static uint32_t tab[256];
  static bool init = false;
  if (!init)
  {
    for (uint32_t i = 0; i < 256; ++i)
    {
      uint32_t c = i;
      for (int k = 0; k < 8; ++k) c = (c & 1) ? (0xEDB88320u ^ (c >> 1)) : (c >> 1);
      tab[i] = c;
    }
    init = true;
  }
  uint32_t c = 0xffffffffu;
  for (size_t i = 0; i < n; ++i) c = tab[(c ^ static_cast<unsigned char>(p[i])) & 255] ^ (c >> 8);
  c ^= 0xffffffffu;
  char buf[32];
  snprintf(buf, sizeof buf, "%08x", c);
  return buf;
}
inline std::string fnv(const std::string& s) { return fnv(s.data(), s.size()); }

inline int hv(char c) { return (c >= '0' && c <= '9') ? c - '0' : c - 'a' + 10; }

// payload syntax: hex, "-" (empty) or "@len:seed" (xorshift32 stream)
inline std::string bytesOfSpec(const std::string& s)
{
  std::string out;
  if (s == "-") return out;
  if (!s.empty() && s[0] == '@')
  {
    size_t c = s.find(':');
    long len = atol(s.substr(1, c - 1).c_str());
    uint32_t x = (static_cast<uint32_t>(atol(s.substr(c + 1).c_str()))) | 1u;
    out.reserve(static_cast<size_t>(len));
    for (long i = 0; i < len; ++i)
    {
      x ^= x << 13;
      x ^= x >> 17;
      x ^= x << 5;
      out.push_back(static_cast<char>(x & 255));
    }
    return out;
  }
  out.reserve(s.size() / 2);
  for (size_t i = 0; i + 1 < s.size(); i += 2)
    out.push_back(static_cast<char>(hv(s[i]) * 16 + hv(s[i + 1])));
  return out;
}

inline std::string hexOf(const std::string& s)
{
  static const char* d = "0123456789abcdef";
  std::string o;
  for (size_t i = 0; i < s.size(); ++i)
  {
    unsigned char c = static_cast<unsigned char>(s[i]);
    o.push_back(d[c >> 4]);
    o.push_back(d[c & 15]);
  }
  return o;
}

inline std::vector<std::string> splitWs(const std::string& line)
{
  std::vector<std::string> w;
  std::istringstream is(line);
  std::string t;
  while (is >> t) w.push_back(t);
  return w;
}
}  // namespace vh
#endif
