// C08 TSan scenarios: muduo/base - ThreadPool::run, BlockingQueue, BoundedBlockingQueue, CountDownLatch,
// AsyncLogging::append, the LOG_* macros.
#include "C08_tsan.h"
#include "muduo/base/LogFile.h"
#include "muduo/base/ThreadPool.h"
#include "muduo/base/BlockingQueue.h"
#include "muduo/base/BoundedBlockingQueue.h"
#include "muduo/base/AsyncLogging.h"
#include "muduo/base/Timestamp.h"

using namespace muduo;
using c08::sleep_ms;

namespace
{
std::atomic<long> g_done(0);
void work() { ++g_done; }
void slowWork() { ::usleep(40000); ++g_done; }

void* poolCaller(void* p)
{
  ThreadPool* pool = static_cast<ThreadPool*>(p);
  for (int i = 0; i < 300; ++i)
  {
    pool->run(work);
    if (i % 16 == 0) (void)pool->queueSize();
  }
  return NULL;
}
}  // namespace

C08_SCENARIO(threadpool_run)
{
  ThreadPool pool("c08pool");
  pool.setMaxQueueSize(8);                     // exercises the notFull_ path too
  pool.start(3);
  pthread_t a, b;
  pthread_create(&a, NULL, poolCaller, &pool);
  pthread_create(&b, NULL, poolCaller, &pool);
  for (int i = 0; i < 200; ++i) pool.run(work);
  pthread_join(a, NULL);
  pthread_join(b, NULL);
  for (int i = 0; i < 300 && g_done.load() < 800; ++i) ::usleep(1000);
  // all tasks have run and the workers sit in take(): stop() now synchronises with each of them through the mutex
  sleep_ms(20);
  pool.stop();
}

// teardown: the destructor (not an explicit stop()) has to join the workers before mutex_/notEmpty_/notFull_ go away
C08_SCENARIO(threadpool_dtor_joins)
{
  {
    ThreadPool pool("c08pool");
    pool.start(2);
    for (int i = 0; i < 50; ++i) pool.run(work);
    sleep_ms(20);
  }                                            // ~ThreadPool: if (running_) stop()
  sleep_ms(30);
}

// F-11: runInThread evaluates `while (running_)` without the mutex; stop() stores it under the mutex
C08_SCENARIO(threadpool_stop_vs_worker)
{
  ThreadPool pool("c08pool");
  pool.start(2);
  pool.run(slowWork);
  pool.run(slowWork);
  sleep_ms(10);                                // both workers are inside a task, their last lock section is behind them
  pool.stop();                                 // store under the lock; the workers' next read of running_ takes no lock
}

namespace
{
BlockingQueue<int>* g_bq = NULL;
BoundedBlockingQueue<int>* g_bbq = NULL;
std::atomic<long> g_sum(0);
void* bqProducer(void*) { for (int i = 1; i <= 500; ++i) g_bq->put(i); return NULL; }
void* bqConsumer(void*) { for (int i = 0; i < 500; ++i) g_sum += g_bq->take(); return NULL; }
void* bbqProducer(void*) { for (int i = 1; i <= 500; ++i) g_bbq->put(i); return NULL; }
void* bbqConsumer(void*) { for (int i = 0; i < 500; ++i) g_sum += g_bbq->take(); return NULL; }
}  // namespace

C08_SCENARIO(blockingqueue)
{
  BlockingQueue<int> q;
  g_bq = &q;
  pthread_t t[4];
  pthread_create(&t[0], NULL, bqProducer, NULL);
  pthread_create(&t[1], NULL, bqProducer, NULL);
  pthread_create(&t[2], NULL, bqConsumer, NULL);
  pthread_create(&t[3], NULL, bqConsumer, NULL);
  size_t s = 0;
  for (int i = 0; i < 2000; ++i) s += q.size();
  for (int i = 0; i < 4; ++i) pthread_join(t[i], NULL);
  if (g_sum.load() != 2L * 500 * 501 / 2) { fprintf(stderr, "C08: blockingqueue lost items\n"); exit(4); }
  if (s == static_cast<size_t>(-1)) printf("x\n");
}

C08_SCENARIO(boundedblockingqueue)
{
  BoundedBlockingQueue<int> q(4);
  g_bbq = &q;
  pthread_t t[4];
  pthread_create(&t[0], NULL, bbqProducer, NULL);
  pthread_create(&t[1], NULL, bbqProducer, NULL);
  pthread_create(&t[2], NULL, bbqConsumer, NULL);
  pthread_create(&t[3], NULL, bbqConsumer, NULL);
  size_t s = 0;
  for (int i = 0; i < 2000; ++i) s += q.size() + (q.full() ? 1 : 0) + (q.empty() ? 1 : 0) + q.capacity();
  for (int i = 0; i < 4; ++i) pthread_join(t[i], NULL);
  if (g_sum.load() != 2L * 500 * 501 / 2) { fprintf(stderr, "C08: boundedblockingqueue lost items\n"); exit(4); }
  if (s == static_cast<size_t>(-1)) printf("x\n");
}

namespace
{
CountDownLatch* g_latch = NULL;
long g_payload[4];                              // plain: written before countDown, read after wait
void* latchWorker(void* p)
{
  long i = reinterpret_cast<long>(p);
  g_payload[i] = 100 + i;
  g_latch->countDown();
  return NULL;
}
void* latchWaiter(void*)
{
  g_latch->wait();
  long s = 0;
  for (int i = 0; i < 4; ++i) s += g_payload[i];
  if (s != 406) { fprintf(stderr, "C08: latch released early\n"); exit(4); }
  return NULL;
}
}  // namespace

C08_SCENARIO(countdownlatch)
{
  CountDownLatch latch(4);
  g_latch = &latch;
  pthread_t w[4], r[2];
  pthread_create(&r[0], NULL, latchWaiter, NULL);
  pthread_create(&r[1], NULL, latchWaiter, NULL);
  for (long i = 0; i < 4; ++i) pthread_create(&w[i], NULL, latchWorker, reinterpret_cast<void*>(i));
  for (int i = 0; i < 200; ++i) (void)latch.getCount();
  latch.wait();
  for (int i = 0; i < 4; ++i) pthread_join(w[i], NULL);
  pthread_join(r[0], NULL);
  pthread_join(r[1], NULL);
}

namespace
{
AsyncLogging* g_async = NULL;
void* appender(void* p)
{
  long id = reinterpret_cast<long>(p);
  char line[128];
  for (int i = 0; i < 3000; ++i)
  {
    int n = snprintf(line, sizeof line, "appender %ld line %d ....................................................\n", id, i);
    g_async->append(line, n);
  }
  return NULL;
}
}  // namespace

C08_SCENARIO(asynclogging_append)
{
  char base[256];
  if (chdir("/tmp") != 0) {}
  snprintf(base, sizeof base, "c08_async_%d", getpid());   // LogFile wants a basename without '/'

  {
    AsyncLogging log(base, 64 * 1024 * 1024, 1);
    g_async = &log;
    log.start();
    pthread_t t[3];
    for (long i = 0; i < 3; ++i) pthread_create(&t[i], NULL, appender, reinterpret_cast<void*>(i));
    appender(reinterpret_cast<void*>(9L));
    for (int i = 0; i < 3; ++i) pthread_join(t[i], NULL);
    sleep_ms(30);
    log.stop();
  }
  char cmd[300];
  snprintf(cmd, sizeof cmd, "rm -f /tmp/%s.*", base);
  if (system(cmd) != 0) {}
}

// The back-end side of AsyncLogging: every access of currentBuffer_/nextBuffer_/buffers_ in threadFunc sits inside its
// MutexLockGuard scope.  To give an access moved just OUTSIDE that scope a failing input, the front-end has to touch the same
// member again before the back-end's next lock acquisition - i.e. a second buffer overflow (>= 4,000,000 bytes) while the
// back-end is still writing out the first one.  The back-end is held in its write-out by -Wl,--wrap=fwrite_unlocked.
namespace
{
std::atomic<int> g_fwrite_stall_ms(0);
}
extern "C" size_t __real_fwrite_unlocked(const void* ptr, size_t size, size_t n, FILE* stream);
extern "C" void __tsan_write_range(void* addr, unsigned long size);
extern "C" size_t __wrap_fwrite_unlocked(const void* ptr, size_t size, size_t n, FILE* stream)
{
  int ms = g_fwrite_stall_ms.exchange(0, std::memory_order_relaxed);
  if (ms > 0) ::usleep(ms * 1000);
  // libc is not instrumented: tell ThreadSanitizer what stdio does - it copies into the stream's buffer, which is the array
  // the program handed to setbuffer() (FileUtil::AppendFile::buffer_)
  if (stream->_IO_buf_base && stream->_IO_buf_end > stream->_IO_buf_base)
  {
    size_t cap = static_cast<size_t>(stream->_IO_buf_end - stream->_IO_buf_base);
    size_t len = size * n;
    __tsan_write_range(stream->_IO_buf_base, len < cap ? len : cap);
  }
  return __real_fwrite_unlocked(ptr, size, n, stream);
}

// Two LogFile objects, each used by ONE thread (legal: LogFile(threadSafe = false) is single-threaded per object).  Nothing
// is shared between them - unless something the objects use has static storage (AppendFile's stdio buffer).
namespace
{
void* logfileWriter(void* p)
{
  long id = reinterpret_cast<long>(p);
  char base[256];
  snprintf(base, sizeof base, "c08_lf%ld_%d", id, getpid());
  {
    muduo::LogFile lf(base, 64 * 1024 * 1024, false, 1, 16);
    std::string line(200, static_cast<char>('a' + id));
    line += '\n';
    for (int i = 0; i < 400; ++i)
    {
      lf.append(line.data(), static_cast<int>(line.size()));
      if (i % 50 == 0) lf.flush();
    }
  }
  return NULL;
}
}  // namespace

C08_SCENARIO(two_logfiles_two_threads)
{
  if (chdir("/tmp") != 0) {}
  pthread_t a, b;
  pthread_create(&a, NULL, logfileWriter, reinterpret_cast<void*>(1L));
  pthread_create(&b, NULL, logfileWriter, reinterpret_cast<void*>(2L));
  pthread_join(a, NULL);
  pthread_join(b, NULL);
  char cmd[300];
  snprintf(cmd, sizeof cmd, "rm -f /tmp/c08_lf1_%d.* /tmp/c08_lf2_%d.*", getpid(), getpid());
  if (system(cmd) != 0) {}
}

C08_SCENARIO(asynclogging_overflow_during_writeout)
{
  char base[256];
  if (chdir("/tmp") != 0) {}
  snprintf(base, sizeof base, "c08_async2_%d", getpid());
  {
    AsyncLogging log(base, 64 * 1024 * 1024, 3);
    log.start();
    std::string line(999, 'o');
    line += '\n';
    g_fwrite_stall_ms.store(250, std::memory_order_relaxed);
    for (int i = 0; i < 4200; ++i) log.append(line.data(), static_cast<int>(line.size()));   // overflow A wakes the back-end
    sleep_ms(40);                               // it has swapped the buffers, left its lock scope and sits in the write-out
    for (int i = 0; i < 4200; ++i) log.append(line.data(), static_cast<int>(line.size()));   // overflow B takes nextBuffer_
    sleep_ms(300);
    log.stop();
  }
  char cmd[300];
  snprintf(cmd, sizeof cmd, "rm -f /tmp/%s.*", base);
  if (system(cmd) != 0) {}
}

namespace
{
std::atomic<long> g_logged(0);
void countingOutput(const char*, int len) { g_logged += len; }
void countingFlush() {}
void* logger(void* p)
{
  long id = reinterpret_cast<long>(p);
  for (int i = 0; i < 500; ++i)
  {
    LOG_WARN << "thread " << id << " message " << i << " " << 3.25 << " " << static_cast<const void*>(p);
    LOG_INFO << "filtered by level";
    if (i % 50 == 0) { errno = EAGAIN; LOG_SYSERR << "with errno"; }
  }
  return NULL;
}
}  // namespace

C08_SCENARIO(log_macros)
{
  Logger::setOutput(countingOutput);           // set-up, before any other thread exists
  Logger::setFlush(countingFlush);
  pthread_t t[4];
  for (long i = 0; i < 4; ++i) pthread_create(&t[i], NULL, logger, reinterpret_cast<void*>(i + 1));
  logger(reinterpret_cast<void*>(9L));
  for (int i = 0; i < 4; ++i) pthread_join(t[i], NULL);
  if (g_logged.load() == 0) { fprintf(stderr, "C08: nothing logged\n"); exit(4); }
}
