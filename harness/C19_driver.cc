// C19 driver (style A, DESIGN 4.2): ONE real muduo::net::RpcChannel bound to a real TcpConnection on
// an AF_UNIX socketpair, driven op by op on the thread that owns the EventLoop (no loop() running).
// The other end of the socketpair is a scripted raw peer that is independent of muduo: frames are
// built and decoded by hand (4-byte big-endian length, "RPC0", RpcMessage bytes, adler32 by zlib).
//
// case <id> svc=<0|1> [obs=1]
//                         svc=0: channel made like examples/protobuf/rpc/client.cc (new RpcChannel; setConnection)
//                         svc=1: channel made by the real RpcServer::onConnection (registerService(TestService)):
//                                owned by the connection's context, destroyed by onConnection on DOWN
//                         svc=2: user-owned channel (as svc=0) with setServices(the server's table)
//                         obs=1: observation mode: a CallMethod with response == NULL (outside the contract of
//                                google::protobuf::RpcChannel::CallMethod) is made all the same; without it the
//                                driver, like the model, REJECTS such a call (prints `rejected`, does nothing)
//   CALL  c r d meth req            CallMethod on the loop thread (r/d: response / done non-NULL)
//   CALLA c r d meth req body..     same, and the peer answers this very call the moment its REQUEST frame
//                                   reaches the wire (from inside write(2), --wrap=write): the fastest correct peer
//   F t c r d meth req | R t | S t  helper thread t: CallMethod cut at its micro-steps (stalled at the channel
//                                   mutex = after the id fetch; at the loop mutex = after registering, before the
//                                   send is queued; S lets it finish and runs the loop's pending functors).
//                                   A helper is also parked before its SECOND (and any later) atomic access to
//                                   id_ within one CallMethod (C19_atomic_hook.h): the real code makes exactly one
//                                   (fetch-and-add), so this point is never reached; an id obtained by a read
//                                   followed by an increment is cut there, and the schedule F 1, F 2 then hands
//                                   both threads the same id.
//   BURST n k base                  n helper threads x k calls each, really concurrent (id race)
//   RESP id body..                  peer sends a RESPONSE frame;  body ::= p=<payload> | e=<ErrorCode name>
//   REQ id svc meth payload         peer sends a REQUEST frame ("-" = field absent)
//   DONE k data                     the test service completes deferred request k
//   OTHER id                        peer sends a frame of type ERROR
// case <id> svc=0 sys=1   TWO real channels: the client's (user-owned, as svc=0) on one end of the socketpair, the
//                         server's, made by the real RpcServer::onConnection, on the other end; no scripted peer.
//                         sys=2: the same two channels, both calling and serving: the client's channel gets the service table
//                         too (end A, user-owned), the server's channel (end B, owned by RpcServer) makes calls as well:
//                           CALLB c r d meth req   a call made on end B's channel        ADONE k data   the service at end A completes
//                           PUMPA = PUMPC, PUMPB = PUMPS                                 DOWNA / DOWNB  that end's connection goes DOWN
//                         (forceClose of that TcpConnection; the driver keeps the object, so the other end sees no EOF:
//                          each end goes DOWN on its own, as in the model; frames towards a dead end are never read)
//                         output lines carry end B's channel too:  ... pend=<B's> b:next=<id_> outs=<..> pend=<A's>
//                         seg=<k> (with sys=1/2): every write(2) on either connection takes at most k bytes (--wrap=write), so
//                         RpcCodec / TcpConnection see every frame cut into k-byte pieces: partial writes buffered and
//                         flushed on POLLOUT, partial frames waiting in the input Buffer
//   PUMPS / PUMPC                   the server's / the client's connection reads what has arrived (all complete frames)
//                                   (CALL, F/R/S, BURST on the client; DONE completes a request the service deferred)
//   SER type id svc meth req resp err   RpcMessage built field by field ("~" = field absent, "-" = present and empty,
//                                   else hex; type/err by number), printed as wire:<hex of SerializeAsString>
//   WIRE hex                        RpcMessage::ParsePartialFromString + IsInitialized (= ParseFromString without the
//                                   log line) of arbitrary bytes: parsed:<type>:<id>:<svc>:<meth>:<req>:<resp>:<err> | parsed:reject
//   DOWN                            the peer closes; the connection reads EOF: handleClose -> connection callback
//                                   (DOWN) -> close callback -> connectDestroyed.  In svc=1 mode RpcServer::onConnection
//                                   drops the channel (~RpcChannel deletes what is outstanding: events del:/drop:).
//                                   Afterwards RESP/REQ/OTHER are rejected (nothing is delivered on a dead connection),
//                                   and so are calls on a destroyed channel; DONE runs the service's callback all the same.
// end
// payload ::= V<hex> | V-  (TestMsg with that data, serialized by protobuf)  |  X<hex> (raw bytes protobuf rejects) | -
// One output line per op:  ok|rejected ev=<e1,e2,..> next=<id_> outs=<id:rXdY,..> pend=<k,..>
#include "C19_atomic_hook.h"      // first: muduo/base/Atomic.h with the hook (see there)
#include <errno.h>
#include <fcntl.h>
#include <poll.h>
#include <pthread.h>
#include <semaphore.h>
#include <sys/socket.h>
#include <unistd.h>
#include <zlib.h>

#include <algorithm>
#include <atomic>
#include <functional>
#include <iostream>
#include <map>
#include <memory>
#include <set>
#include <thread>

#include <boost/any.hpp>
#include <google/protobuf/descriptor.h>
#include <google/protobuf/message.h>
#include <google/protobuf/service.h>
#include <google/protobuf/stubs/callback.h>
#include "muduo/net/protorpc/rpc.pb.h"
#include "C19_test.pb.h"

#if defined(__SANITIZE_ADDRESS__)
#include <sanitizer/asan_interface.h>
#define FREED(p) (__asan_address_is_poisoned(p) != 0)
#else
#define FREED(p) (false)
#endif

#define private public
#define protected public
#include "muduo/net/TcpConnection.h"
#include "muduo/net/EventLoop.h"
#include "muduo/net/Channel.h"
#include "muduo/net/InetAddress.h"
#include "muduo/base/Logging.h"
#include "muduo/net/protorpc/RpcChannel.h"
#include "muduo/net/protorpc/RpcServer.h"
#undef private
#undef protected

#include "common.h"

using namespace muduo;
using namespace muduo::net;
using std::string;

extern "C" {
ssize_t __real_write(int fd, const void* buf, size_t n);
int __real_pthread_mutex_lock(pthread_mutex_t* m);
}

// ------------------------------------------------------------------ state
static EventLoop* g_loop = NULL;
static TcpConnectionPtr g_conn;
static TcpConnectionPtr g_sconn;       // sys=1: the server's end
static RpcChannel* g_chan = NULL;
static int g_connfd = -1, g_peer = -1;
static int g_sconnfd = -1;             // sys=1: the server end's descriptor
static size_t g_seg = 0;               // seg=<k>: at most k bytes per write(2) on the two connections
static std::vector<string> g_ev;
static string g_wire;
static bool g_curCorrupt = false;       // the RESPONSE being delivered carries an X payload
static int64_t g_lastReqId = 0;         // id of the last REQUEST frame seen on the wire
static bool g_suppressSend = false;     // BURST: REQUEST frames are summarised, not listed
static std::vector<std::pair<int64_t, string> > g_burstFrames;

static pthread_mutex_t* g_chanMutex = NULL;
static pthread_mutex_t* g_loopMutex = NULL;
static thread_local bool t_stall = false;
static thread_local sem_t* t_release = NULL;
static sem_t g_reached;
static std::atomic<bool> g_noStall(false);

static string hexOrDash(const string& s) { return s.empty() ? "-" : vh::hexOf(s); }

struct CallRec
{
  string label;                 // tag as printed
  c19::TestMsg* resp;
  google::protobuf::Closure* done;
  string sentinel;
  int runs;
  bool closureDead, respDead, registered, leakReported, burst, dropReported;
  CallRec() : resp(NULL), done(NULL), runs(0), closureDead(false), respDead(false), registered(false),
              leakReported(false), burst(false), dropReported(false) {}
};
static std::vector<CallRec*> g_calls;

static void drainWire();

class TagClosure : public google::protobuf::Closure
{
 public:
  explicit TagClosure(CallRec* r) : rec_(r) {}
  ~TagClosure() override { rec_->closureDead = true; }
  void Run() override
  {
    drainWire();
    string seen;
    if (!rec_->resp) seen = "noresp";
    else if (FREED(rec_->resp)) seen = "FREED";
    else if (g_curCorrupt) seen = "garbage";
    else if (rec_->resp->data() == rec_->sentinel) seen = "untouched";
    else seen = "parsed:" + hexOrDash(rec_->resp->data());
    g_ev.push_back("run:" + rec_->label + ":" + seen);
    rec_->runs++;
    // a protobuf completion closure is one-shot; the object is released at the end of the case so that
    // a second Run() is reported as an event rather than as a use-after-free inside the harness
  }
 private:
  CallRec* rec_;
};

// ------------------------------------------------------------------ the wire, by hand
static string frameOf(const RpcMessage& m)
{
  string body = "RPC0";
  string pb;
  m.SerializePartialToString(&pb);
  body += pb;
  uint32_t a = static_cast<uint32_t>(::adler32(1, reinterpret_cast<const Bytef*>(body.data()), static_cast<uInt>(body.size())));
  char c[4] = { static_cast<char>(a >> 24), static_cast<char>(a >> 16), static_cast<char>(a >> 8), static_cast<char>(a) };
  body.append(c, 4);
  uint32_t n = static_cast<uint32_t>(body.size());
  char l[4] = { static_cast<char>(n >> 24), static_cast<char>(n >> 16), static_cast<char>(n >> 8), static_cast<char>(n) };
  return string(l, 4) + body;
}

static uint32_t be32(const char* p)
{
  const unsigned char* u = reinterpret_cast<const unsigned char*>(p);
  return (static_cast<uint32_t>(u[0]) << 24) | (static_cast<uint32_t>(u[1]) << 16) | (static_cast<uint32_t>(u[2]) << 8) | u[3];
}

static string dataOf(const string& pb)
{
  c19::TestMsg m;
  if (!m.ParseFromString(pb)) return "UNPARSABLE";
  return hexOrDash(m.data());
}

static void decodeFrames()
{
  while (g_wire.size() >= 4)
  {
    uint32_t len = be32(g_wire.data());
    if (g_wire.size() < 4 + static_cast<size_t>(len)) break;
    string body = g_wire.substr(4, len);
    g_wire.erase(0, 4 + static_cast<size_t>(len));
    if (len < 8 || body.compare(0, 4, "RPC0") != 0) { g_ev.push_back("badframe:tag"); continue; }
    uint32_t a = static_cast<uint32_t>(::adler32(1, reinterpret_cast<const Bytef*>(body.data()), static_cast<uInt>(len - 4)));
    if (a != be32(body.data() + len - 4)) { g_ev.push_back("badframe:checksum"); continue; }
    RpcMessage m;
    if (!m.ParseFromArray(body.data() + 4, static_cast<int>(len - 8))) { g_ev.push_back("badframe:parse"); continue; }
    int64_t id = static_cast<int64_t>(m.id());
    if (m.type() == REQUEST)
    {
      g_lastReqId = id;
      if (g_suppressSend) { g_burstFrames.push_back(std::make_pair(id, m.request())); continue; }
      g_ev.push_back("send:" + std::to_string(id) + ":" + (m.has_service() ? m.service() : "-") + ":" +
                     (m.has_method() ? m.method() : "-") + ":" + dataOf(m.request()));
    }
    else if (m.type() == RESPONSE)
    {
      string e = "reply:" + std::to_string(id) + ":";
      if (m.has_response()) e += "p=" + dataOf(m.response());
      if (m.has_response() && m.has_error()) e += ";";
      if (m.has_error()) e += "e=" + ErrorCode_Name(m.error());
      if (!m.has_response() && !m.has_error()) e += "empty";
      g_ev.push_back(e);
    }
    else g_ev.push_back("frame:type" + std::to_string(static_cast<int>(m.type())));
  }
}

static void drainWire()
{
  char buf[65536];
  for (;;)
  {
    ssize_t n = ::read(g_peer, buf, sizeof buf);
    if (n > 0) g_wire.append(buf, static_cast<size_t>(n));
    else break;
  }
  decodeFrames();
}

static void feed(const RpcMessage& m)
{
  string f = frameOf(m);
  if (__real_write(g_peer, f.data(), f.size()) != static_cast<ssize_t>(f.size())) { perror("peer write"); abort(); }
  Channel* ch = g_conn->channel_.get();
  ch->set_revents(POLLIN);
  ch->handleEvent(Timestamp::now());
}

// payload spec -> (bytes, corrupt?) ; "-" = field absent
static bool payloadOf(const string& spec, string* out, bool* present, bool* corrupt)
{
  *present = true;
  *corrupt = false;
  out->clear();
  if (spec == "-") { *present = false; return true; }
  if (spec[0] == 'V')
  {
    c19::TestMsg m;
    m.set_data(vh::bytesOfSpec(spec.substr(1)));
    m.SerializeToString(out);
    return true;
  }
  if (spec[0] == 'X')
  {
    *out = vh::bytesOfSpec(spec.substr(1));
    *corrupt = true;
    c19::TestMsg m;
    if (m.ParseFromString(*out)) { fprintf(stderr, "harness: X payload %s is accepted by protobuf\n", spec.c_str()); return false; }
    return true;
  }
  return false;
}

static bool parseErr(const string& s, ErrorCode* e) { return ErrorCode_Parse(s, e); }

// body tokens -> RpcMessage fields; false if neither p= nor e= is present (assert at RpcChannel.cc:89)
static bool bodyOf(const std::vector<string>& w, size_t from, RpcMessage* m, bool* corrupt)
{
  bool any = false;
  *corrupt = false;
  for (size_t i = from; i < w.size(); ++i)
  {
    if (w[i].compare(0, 2, "p=") == 0)
    {
      string pb; bool present, c;
      if (!payloadOf(w[i].substr(2), &pb, &present, &c)) abort();
      if (present) { m->set_response(pb); any = true; *corrupt = c; }
    }
    else if (w[i].compare(0, 2, "e=") == 0)
    {
      ErrorCode e;
      if (!parseErr(w[i].substr(2), &e)) abort();
      m->set_error(e);
      any = true;
    }
  }
  return any;
}

// ------------------------------------------------------------------ interposition
static bool g_answerArmed = false;
static RpcMessage g_answer;
static bool g_answerCorrupt = false;
static pthread_t g_mainThread;

extern "C" ssize_t __wrap_write(int fd, const void* buf, size_t n)
{
  if (g_seg > 0 && fd >= 0 && (fd == g_connfd || fd == g_sconnfd) && n > g_seg) n = g_seg;     // a short write
  ssize_t w = __real_write(fd, buf, n);
  if (g_answerArmed && fd == g_connfd && g_connfd >= 0 && pthread_equal(pthread_self(), g_mainThread))
  {
    g_answerArmed = false;
    drainWire();                                   // the REQUEST frame is on the wire now
    g_answer.set_id(static_cast<uint64_t>(g_lastReqId));
    g_curCorrupt = g_answerCorrupt;
    feed(g_answer);                                // ... and the peer's answer arrives before write() returns
    g_curCorrupt = false;
  }
  return w;
}

extern "C" int __wrap_pthread_mutex_lock(pthread_mutex_t* m)
{
  if (t_stall && !g_noStall.load() && (m == g_chanMutex || m == g_loopMutex))
  {
    sem_post(&g_reached);
    sem_wait(t_release);
  }
  return __real_pthread_mutex_lock(m);
}

// every atomic access (through the two builtins Atomic.h uses) to the channel's id_
static std::atomic<long> g_idAccesses(0);
static thread_local int t_idAccesses = 0;

extern "C" void c19_atomic_access(const volatile void* addr)
{
  RpcChannel* ch = g_chan;
  if (ch == NULL || addr != static_cast<const volatile void*>(&ch->id_)) return;
  g_idAccesses++;
  if (t_stall && !g_noStall.load())
  {
    if (++t_idAccesses >= 2)
    {
      sem_post(&g_reached);
      sem_wait(t_release);
    }
  }
}

// ------------------------------------------------------------------ the test service
struct Deferred { c19::TestMsg* response; google::protobuf::Closure* done; bool completed; };
static std::map<int, Deferred> g_deferred;
static int g_tok = 0;
static int g_tokA = 0;                 // sys=2: tokens of the service calls made through end A's channel
static int g_servEnd = 0;              // 1 while end A's connection is reading (the service then serves end A)
static const int kEndA = 1000000;      // key offset of end A's deferred requests in g_deferred

class TestServiceImpl : public c19::TestService
{
 public:
  void Echo(google::protobuf::RpcController*, const c19::TestMsg* request, c19::TestMsg* response,
            google::protobuf::Closure* done) override
  {
    drainWire();
    int k = g_servEnd ? g_tokA++ : g_tok++;
    g_ev.push_back(string(g_servEnd ? "adispatch:" : "dispatch:") + std::to_string(k) + ":Echo:" + hexOrDash(request->data()));
    response->set_data(request->data());
    done->Run();
  }
  void Defer(google::protobuf::RpcController*, const c19::TestMsg* request, c19::TestMsg* response,
             google::protobuf::Closure* done) override
  {
    drainWire();
    int k = g_servEnd ? g_tokA++ : g_tok++;
    g_ev.push_back(string(g_servEnd ? "adispatch:" : "dispatch:") + std::to_string(k) + ":Defer:" + hexOrDash(request->data()));
    Deferred d = { response, done, false };
    g_deferred[k + (g_servEnd ? kEndA : 0)] = d;
  }
};

// ------------------------------------------------------------------ calls
static CallRec* newCall(const string& label, bool r, bool d)
{
  CallRec* rec = new CallRec;
  rec->label = label;
  rec->sentinel = string("\0init", 5) + label;
  if (r) { rec->resp = new c19::TestMsg; rec->resp->set_data(rec->sentinel); }
  if (d) rec->done = new TagClosure(rec);
  g_calls.push_back(rec);
  return rec;
}

static void doCallOn(RpcChannel* ch, CallRec* rec, const string& meth, const string& reqdata)
{
  c19::TestService::Stub stub(ch);
  c19::TestMsg req;
  req.set_data(reqdata);
  if (meth == "Echo") stub.Echo(NULL, &req, rec->resp, rec->done);
  else if (meth == "Ping") { c19::OtherService::Stub other(ch); other.Ping(NULL, &req, rec->resp, rec->done); }
  else stub.Defer(NULL, &req, rec->resp, rec->done);
}

static void doCall(CallRec* rec, const string& meth, const string& reqdata) { doCallOn(g_chan, rec, meth, reqdata); }

static RpcChannel* g_chanB = NULL;     // sys=2: end B's channel (made by RpcServer::onConnection)

static void scanCalls()
{
  std::set<const void*> dones;
  if (g_chanB)
  {
    MutexLockGuard lock(g_chanB->mutex_);
    for (std::map<int64_t, RpcChannel::OutstandingCall>::const_iterator it = g_chanB->outstandings_.begin();
         it != g_chanB->outstandings_.end(); ++it)
      dones.insert(it->second.done);
  }
  if (g_chan)
  {
    MutexLockGuard lock(g_chan->mutex_);
    for (std::map<int64_t, RpcChannel::OutstandingCall>::const_iterator it = g_chan->outstandings_.begin();
         it != g_chan->outstandings_.end(); ++it)
      dones.insert(it->second.done);
  }
  std::vector<string> dels, leaks;
  for (size_t i = 0; i < g_calls.size(); ++i)
  {
    CallRec* rec = g_calls[i];
    if (rec->resp && !rec->respDead && FREED(rec->resp)) { rec->respDead = true; g_ev.push_back("del:" + rec->label); }
    // closure deleted without having run (~RpcChannel while the case is still going on)
    if (rec->done && rec->closureDead && rec->runs == 0 && !rec->dropReported) { rec->dropReported = true; g_ev.push_back("drop:" + rec->label); }
    if (rec->done && rec->registered && !rec->closureDead && rec->runs == 0 && !rec->leakReported && !dones.count(rec->done))
    { rec->leakReported = true; g_ev.push_back("leak:" + rec->label); }
  }
}

struct Helper
{
  std::thread th;
  sem_t release;
  std::atomic<bool> finished;
  int phase;            // 1 = fetched, 2 = registered (as the driver believes: number of stalls passed)
  CallRec* rec;
  Helper() : finished(false), phase(0), rec(NULL) { sem_init(&release, 0, 0); }
};

static void nullOutput(const char*, int) {}

int main()
{
  Logger::setOutput(nullOutput);
  Logger::setLogLevel(Logger::WARN);
  sem_init(&g_reached, 0, 0);
  g_mainThread = pthread_self();
  EventLoop loop;
  g_loop = &loop;
  g_loopMutex = loop.mutex_.getPthreadMutex();
  TestServiceImpl service;
  RpcServer server(&loop, InetAddress(0, true));
  server.registerService(&service);
  RpcChannelPtr ownChannel;
  std::map<int, Helper*> helpers;
  bool svc = false;
  bool obs = false;          // observation mode: out-of-contract calls (response == NULL) are made all the same
  bool down = false;         // the connection went DOWN in this case
  int mode = 0;              // svc=<mode>
  bool sysmode = false;      // sys=1: two channels
  bool bidi = false;         // sys=2: both ends call and serve
  bool downA = false, downB = false;
  int64_t lastNextB = 0;
  int64_t lastNext = 0;      // id_ as last seen (a destroyed channel cannot be asked)
  string line;
  while (std::getline(std::cin, line))
  {
    std::vector<string> w = vh::splitWs(line);
    if (w.empty()) continue;
    const string& k = w[0];
    g_ev.clear();
    bool rejected = false;
    if (k == "case")
    {
      int sv[2];
      if (::socketpair(AF_UNIX, SOCK_STREAM | SOCK_NONBLOCK | SOCK_CLOEXEC, 0, sv) != 0) { perror("socketpair"); return 3; }
      g_connfd = sv[0];
      g_peer = sv[1];
      g_wire.clear();
      g_tok = 0;
      g_noStall = false;
      svc = false;
      obs = false;
      down = false;
      mode = 0;
      lastNext = 0;
      sysmode = false;
      bidi = false;
      downA = downB = false;
      lastNextB = 0;
      g_chanB = NULL;
      g_tokA = 0;
      g_servEnd = 0;
      g_seg = 0;
      g_sconnfd = -1;
      for (size_t i = 2; i < w.size(); ++i)
      {
        if (w[i] == "svc=1") { svc = true; mode = 1; }
        if (w[i] == "svc=2") mode = 2;
        if (w[i] == "obs=1") obs = true;
        if (w[i] == "sys=1") sysmode = true;
        if (w[i] == "sys=2") { sysmode = true; bidi = true; }
        if (w[i].compare(0, 4, "seg=") == 0) g_seg = static_cast<size_t>(atoi(w[i].c_str() + 4));
      }

      InetAddress a(1), b(2);
      g_conn.reset(new TcpConnection(&loop, "c" + w[1], sv[0], a, b));
      g_conn->setCloseCallback([&loop](const TcpConnectionPtr& c) {
        loop.queueInLoop(std::bind(&TcpConnection::connectDestroyed, c));
      });
      if (svc)
      {
        g_conn->setConnectionCallback(std::bind(&RpcServer::onConnection, &server, _1));
        g_conn->connectEstablished();     // UP: RpcServer::onConnection installs the per-connection channel
        RpcChannelPtr ch = boost::any_cast<RpcChannelPtr>(g_conn->getContext());
        g_chan = ch.get();
      }
      else
      {
        ownChannel.reset(new RpcChannel);
        g_chan = ownChannel.get();
        if (mode == 2) g_chan->setServices(&server.services_);
        g_conn->setConnectionCallback([](const TcpConnectionPtr& c) { if (c->connected()) g_chan->setConnection(c); });
        g_conn->setMessageCallback(std::bind(&RpcChannel::onMessage, g_chan, _1, _2, _3));
        g_conn->connectEstablished();
      }
      g_chanMutex = g_chan->mutex_.getPthreadMutex();
      if (sysmode)
      {
        g_peer = -1;                       // nobody scripts the other end: it is the server's connection
        g_sconnfd = sv[1];
        g_sconn.reset(new TcpConnection(&loop, "s" + w[1], sv[1], b, a));
        g_sconn->setCloseCallback([&loop](const TcpConnectionPtr& c) {
          loop.queueInLoop(std::bind(&TcpConnection::connectDestroyed, c));
        });
        g_sconn->setConnectionCallback(std::bind(&RpcServer::onConnection, &server, _1));
        g_sconn->connectEstablished();
        if (bidi)
        {
          g_chan->setServices(&server.services_);          // end A serves too
          g_chanB = boost::any_cast<RpcChannelPtr>(g_sconn->getContext()).get();
        }
      }
      string s = "NULL";
      if (g_chan->services_)
      {
        s.clear();
        for (std::map<string, google::protobuf::Service*>::const_iterator it = g_chan->services_->begin();
             it != g_chan->services_->end(); ++it)
        {
          if (!s.empty()) s += ",";
          s += it->first + ":";
          const google::protobuf::ServiceDescriptor* d = it->second->GetDescriptor();
          for (int i = 0; i < d->method_count(); ++i) { if (i) s += "+"; s += d->method(i)->name(); }
        }
      }
      if (sysmode) s = bidi ? "SYS2" : "SYS";
      printf("case %s services=%s\n", w[1].c_str(), s.c_str());
      continue;
    }
    if (k == "end")
    {
      // let parked helpers finish, flush what they queued
      g_noStall = true;
      for (std::map<int, Helper*>::iterator it = helpers.begin(); it != helpers.end(); ++it)
      {
        if (!it->second->finished.load() || it->second->th.joinable()) { sem_post(&it->second->release); sem_post(&it->second->release); }
        if (it->second->th.joinable()) it->second->th.join();
        delete it->second;
      }
      helpers.clear();
      while (sem_trywait(&g_reached) == 0) {}
      loop.doPendingFunctors();
      drainWire();
      std::vector<string> dtor, leaked, respleak;
      // tear the connection down like its owner would; in svc=1 mode the DOWN callback drops the channel
      g_chan = NULL;
      if (g_conn->channel_->addedToLoop_ && (g_conn->state_ == TcpConnection::kConnected || g_conn->state_ == TcpConnection::kDisconnecting))
        g_conn->forceCloseInLoop();
      loop.doPendingFunctors();
      loop.doPendingFunctors();
      g_chanB = NULL;
      if (g_sconn)
      {
        if (g_sconn->channel_->addedToLoop_ && (g_sconn->state_ == TcpConnection::kConnected || g_sconn->state_ == TcpConnection::kDisconnecting))
          g_sconn->forceCloseInLoop();
        loop.doPendingFunctors();
        loop.doPendingFunctors();
        g_sconn.reset();
      }
      g_conn.reset();
      ownChannel.reset();                // ~RpcChannel: deletes the response and the closure of every outstanding call
      loop.doPendingFunctors();
      for (size_t i = 0; i < g_calls.size(); ++i)
      {
        CallRec* rec = g_calls[i];
        if (rec->done && rec->closureDead && rec->runs == 0 && !rec->dropReported) dtor.push_back(rec->label);
        if (rec->done && !rec->closureDead && rec->runs == 0) leaked.push_back(rec->label);
        if (rec->resp && !FREED(rec->resp)) respleak.push_back(rec->label);
      }
      std::sort(dtor.begin(), dtor.end());
      std::sort(leaked.begin(), leaked.end());
      std::sort(respleak.begin(), respleak.end());
      string s1, s2, s3;
      for (size_t i = 0; i < dtor.size(); ++i) s1 += (i ? "," : "") + dtor[i];
      for (size_t i = 0; i < leaked.size(); ++i) s2 += (i ? "," : "") + leaked[i];
      for (size_t i = 0; i < respleak.size(); ++i) s3 += (i ? "," : "") + respleak[i];
      printf("final dtor=%s leaked=%s respleak=%s\n", s1.empty() ? "-" : s1.c_str(), s2.empty() ? "-" : s2.c_str(),
             s3.empty() ? "-" : s3.c_str());
      for (size_t i = 0; i < g_calls.size(); ++i)
      {
        CallRec* rec = g_calls[i];
        if (rec->done && !rec->closureDead) delete rec->done;     // ran (kept for double-run detection) or leaked
        if (rec->resp && !FREED(rec->resp)) delete rec->resp;
        delete rec;
      }
      g_calls.clear();
      for (std::map<int, Deferred>::iterator it = g_deferred.begin(); it != g_deferred.end(); ++it)
        if (!it->second.completed) { delete it->second.done; delete it->second.response; }   // a service that never answers (user code)
      g_deferred.clear();
      if (g_peer >= 0) ::close(g_peer);
      g_connfd = -1;
      g_peer = -1;
      printf("end\n");
      fflush(stdout);
      continue;
    }

    if (sysmode && (k == "RESP" || k == "REQ" || k == "OTHER" || k == "CALLA" || k == "DOWN")) rejected = true;   // no scripted peer
    else if (k == "CALL" || k == "CALLA")
    {
      RpcMessage ans;
      bool corrupt = false;
      bool ok = true;
      if (k == "CALLA")
      {
        ans.set_type(RESPONSE);
        ans.set_id(0);
        ok = bodyOf(w, 6, &ans, &corrupt);
      }
      // response == NULL violates the contract of google::protobuf::RpcChannel::CallMethod: not made
      if (!ok || (w[2] != "1" && !obs) || g_chan == NULL) rejected = true;
      else
      {
        CallRec* rec = newCall(w[1], w[2] == "1", w[3] == "1");
        if (k == "CALLA") { g_answer = ans; g_answerCorrupt = corrupt; g_answerArmed = true; }
        int64_t idBefore = g_chan->id_.get();
        long seenBefore = g_idAccesses.load();
        doCall(rec, w[4], vh::bytesOfSpec(w[5]));
        long seenAfter = g_idAccesses.load();
        if (g_chan->id_.get() != idBefore && seenAfter == seenBefore)
        {
          // the forced schedules of F/R/S rely on seeing the accesses to id_
          fprintf(stderr, "harness: id_ changed but no atomic access to it went through C19_atomic_hook.h\n");
          abort();
        }
        g_answerArmed = false;
        rec->registered = true;
      }
    }
    else if (k == "F")
    {
      int t = atoi(w[1].c_str());
      if (helpers.count(t) || (w[3] != "1" && !obs) || g_chan == NULL) rejected = true;
      else
      {
        Helper* h = new Helper;
        h->rec = newCall(w[2], w[3] == "1", w[4] == "1");
        string meth = w[5], req = vh::bytesOfSpec(w[6]);
        CallRec* rec = h->rec;
        h->th = std::thread([h, rec, meth, req]() {
          t_release = &h->release;
          t_stall = true;
          doCall(rec, meth, req);
          t_stall = false;
          h->finished = true;
          sem_post(&g_reached);
        });
        sem_wait(&g_reached);
        h->phase = 1;
        helpers[t] = h;
      }
    }
    else if (k == "R")
    {
      int t = atoi(w[1].c_str());
      std::map<int, Helper*>::iterator it = helpers.find(t);
      if (it == helpers.end() || it->second->phase != 1) rejected = true;
      else
      {
        Helper* h = it->second;
        if (!h->finished.load()) { sem_post(&h->release); sem_wait(&g_reached); }
        h->phase = 2;
        h->rec->registered = true;
      }
    }
    else if (k == "S")
    {
      int t = atoi(w[1].c_str());
      std::map<int, Helper*>::iterator it = helpers.find(t);
      if (it == helpers.end() || it->second->phase != 2) rejected = true;
      else
      {
        Helper* h = it->second;
        while (!h->finished.load()) { sem_post(&h->release); sem_wait(&g_reached); }
        h->th.join();
        delete h;
        helpers.erase(it);
        loop.doPendingFunctors();       // the loop thread performs the queued sendInLoop
      }
    }
    else if (k == "BURST" && g_chan == NULL) rejected = true;
    else if (k == "BURST")
    {
      int n = atoi(w[1].c_str()), per = atoi(w[2].c_str());
      std::vector<CallRec*> recs;
      for (int i = 0; i < n * per; ++i) { CallRec* r = newCall("?", true, true); r->burst = true; recs.push_back(r); }
      std::atomic<bool> go(false);
      std::vector<std::thread> ths;
      for (int t = 0; t < n; ++t)
        ths.push_back(std::thread([t, per, &recs, &go]() {
          while (!go.load()) {}
          for (int j = 0; j < per; ++j)
          {
            size_t idx = static_cast<size_t>(t * per + j);
            doCall(recs[idx], "Echo", std::to_string(idx));
          }
        }));
      go = true;
      for (size_t t = 0; t < ths.size(); ++t) ths[t].join();
      g_suppressSend = true;
      g_burstFrames.clear();
      // the loop thread performs the queued sends; the peer reads; what did not fit into the socket buffer
      // is written when the peer has made room (the loop would see POLLOUT)
      for (int round = 0; round < 10000; ++round)
      {
        loop.doPendingFunctors();
        drainWire();
        if (g_conn->outputBuffer_.readableBytes() == 0) break;
        Channel* ch = g_conn->channel_.get();
        ch->set_revents(POLLOUT);
        ch->handleEvent(Timestamp::now());
      }
      drainWire();
      g_suppressSend = false;
      std::set<int64_t> ids;
      int64_t lo = 0, hi = 0;
      for (size_t i = 0; i < g_burstFrames.size(); ++i)
      {
        int64_t id = g_burstFrames[i].first;
        c19::TestMsg m;
        m.ParseFromString(g_burstFrames[i].second);
        size_t idx = static_cast<size_t>(atol(m.data().c_str()));
        if (idx < recs.size())
        {
          recs[idx]->label = "B" + std::to_string(id);
          recs[idx]->sentinel = string("\0init", 5) + recs[idx]->label;
          recs[idx]->resp->set_data(recs[idx]->sentinel);
          recs[idx]->registered = true;
        }
        if (ids.empty() || id < lo) lo = id;
        if (ids.empty() || id > hi) hi = id;
        ids.insert(id);
      }
      char b[160];
      snprintf(b, sizeof b, "burst:sent=%zu:distinct=%zu:ids=%lld..%lld", g_burstFrames.size(), ids.size(),
               static_cast<long long>(lo), static_cast<long long>(hi));
      g_ev.push_back(b);
    }
    else if (k == "RESP")
    {
      RpcMessage m;
      m.set_type(RESPONSE);
      m.set_id(static_cast<uint64_t>(strtoll(w[1].c_str(), NULL, 10)));
      bool corrupt = false;
      if (!bodyOf(w, 2, &m, &corrupt) || down) rejected = true;
      else { g_curCorrupt = corrupt; feed(m); g_curCorrupt = false; }
    }
    else if (k == "REQ")
    {
      RpcMessage m;
      m.set_type(REQUEST);
      m.set_id(static_cast<uint64_t>(strtoll(w[1].c_str(), NULL, 10)));
      if (w[2] != "-") m.set_service(w[2]);
      if (w[3] != "-") m.set_method(w[3]);
      string pb; bool present, corrupt;
      if (!payloadOf(w[4], &pb, &present, &corrupt)) abort();
      if (present) m.set_request(pb);
      if (down) rejected = true; else feed(m);
    }
    else if (k == "DONE")
    {
      int t = atoi(w[1].c_str());
      std::map<int, Deferred>::iterator it = g_deferred.find(t);
      if (it == g_deferred.end() || it->second.completed) rejected = true;   // a one-shot closure must not be run twice
      else
      {
        it->second.completed = true;
        it->second.response->set_data(vh::bytesOfSpec(w[2]));
        it->second.done->Run();
      }
    }
    else if (k == "OTHER")
    {
      RpcMessage m;
      m.set_type(ERROR);
      m.set_id(static_cast<uint64_t>(strtoll(w[1].c_str(), NULL, 10)));
      if (down) rejected = true; else feed(m);
    }
    else if (k == "CALLB")
    {
      if (!bidi || g_chanB == NULL || (w[2] != "1" && !obs)) rejected = true;
      else
      {
        CallRec* rec = newCall(w[1], w[2] == "1", w[3] == "1");
        doCallOn(g_chanB, rec, w[4], vh::bytesOfSpec(w[5]));
        rec->registered = true;
      }
    }
    else if (k == "ADONE")
    {
      int t = atoi(w[1].c_str());
      std::map<int, Deferred>::iterator it = g_deferred.find(t + kEndA);
      if (!bidi || it == g_deferred.end() || it->second.completed) rejected = true;
      else
      {
        it->second.completed = true;
        it->second.response->set_data(vh::bytesOfSpec(w[2]));
        it->second.done->Run();
      }
    }
    else if (k == "DOWNA" || k == "DOWNB")
    {
      bool isA = (k == "DOWNA");
      if (!bidi || (isA ? downA : downB)) rejected = true;
      else
      {
        TcpConnectionPtr c = isA ? g_conn : g_sconn;
        // what this end has already handed to its connection is on its way (the model's frames under way): finish
        // the short writes of seg=<k> first; forceClose would drop them, which the model does not describe
        for (int round = 0; round < 1000000 && c->outputBuffer_.readableBytes() > 0; ++round)
        {
          Channel* ch = c->channel_.get();
          ch->set_revents(POLLOUT);
          ch->handleEvent(Timestamp::now());
        }
        c->forceCloseInLoop();                     // handleClose -> connection callback (DOWN) -> close callback
        if (!isA) g_chanB = NULL;                  // RpcServer::onConnection dropped end B's channel
        loop.doPendingFunctors();                  // connectDestroyed
        if (isA) downA = true; else downB = true;
      }
    }
    else if (k == "PUMPS" || k == "PUMPC" || k == "PUMPA" || k == "PUMPB")
    {
      bool toB = (k == "PUMPS" || k == "PUMPB");
      TcpConnectionPtr c = toB ? g_sconn : g_conn;
      if (!sysmode || !c) rejected = true;
      else if (toB ? downB : downA) {}             // a dead connection reads nothing
      else
      {
        g_servEnd = toB ? 0 : 1;
        TcpConnectionPtr sender = toB ? g_conn : g_sconn;
        if (toB ? downA : downB) sender.reset();   // a dead connection writes nothing more
        for (int round = 0; round < 1000000; ++round)
        {
          bool progress = false;
          struct pollfd pf = { c->channel_->fd(), POLLIN, 0 };
          if (::poll(&pf, 1, 0) > 0 && (pf.revents & POLLIN))
          {
            Channel* ch = c->channel_.get();
            ch->set_revents(POLLIN);
            ch->handleEvent(Timestamp::now());       // whatever has arrived, a whole frame or a piece of one
            progress = true;
          }
          if (sender && sender->outputBuffer_.readableBytes() > 0)
          {
            Channel* ch = sender->channel_.get();
            ch->set_revents(POLLOUT);
            ch->handleEvent(Timestamp::now());       // handleWrite: the next piece of what a short write left behind
            progress = true;
          }
          if (!progress) break;
        }
        g_servEnd = 0;
      }
    }
    else if (k == "SER")
    {
      RpcMessage m;
      m.set_type(static_cast<MessageType>(atoi(w[1].c_str())));
      m.set_id(strtoull(w[2].c_str(), NULL, 10));
      if (w[3] != "~") m.set_service(vh::bytesOfSpec(w[3]));
      if (w[4] != "~") m.set_method(vh::bytesOfSpec(w[4]));
      if (w[5] != "~") m.set_request(vh::bytesOfSpec(w[5]));
      if (w[6] != "~") m.set_response(vh::bytesOfSpec(w[6]));
      if (w[7] != "~") m.set_error(static_cast<ErrorCode>(atoi(w[7].c_str())));
      g_ev.push_back("wire:" + hexOrDash(m.SerializeAsString()));
    }
    else if (k == "WIRE")
    {
      RpcMessage m;
      string in = vh::bytesOfSpec(w[1]);
      if (m.ParsePartialFromString(in) && m.IsInitialized())
      {
        string e = "parsed:" + std::to_string(static_cast<int>(m.type())) + ":" + std::to_string(static_cast<unsigned long long>(m.id()));
        e += ":" + (m.has_service() ? hexOrDash(m.service()) : string("~"));
        e += ":" + (m.has_method() ? hexOrDash(m.method()) : string("~"));
        e += ":" + (m.has_request() ? hexOrDash(m.request()) : string("~"));
        e += ":" + (m.has_response() ? hexOrDash(m.response()) : string("~"));
        e += ":" + (m.has_error() ? std::to_string(static_cast<int>(m.error())) : string("~"));
        g_ev.push_back(e);
      }
      else g_ev.push_back("parsed:reject");
    }
    else if (k == "DOWN")
    {
      if (down) rejected = true;
      else
      {
        drainWire();
        ::shutdown(g_peer, SHUT_RDWR);             // the peer goes away: the connection reads EOF
        Channel* ch = g_conn->channel_.get();
        ch->set_revents(POLLIN);
        ch->handleEvent(Timestamp::now());         // handleRead -> handleClose -> connection callback (DOWN) -> close callback
        if (mode == 1) { g_chan = NULL; g_chanMutex = NULL; }   // RpcServer::onConnection dropped the channel
        loop.doPendingFunctors();                  // connectDestroyed
        down = true;
      }
    }
    else { fprintf(stderr, "bad op %s\n", k.c_str()); return 2; }

    drainWire();
    scanCalls();
    string ev;
    for (size_t i = 0; i < g_ev.size(); ++i) { if (i) ev += ","; ev += g_ev[i]; }
    if (ev.empty()) ev = "-";
    string outs, pend;
    if (g_chan)
    {
      lastNext = g_chan->id_.get();
      MutexLockGuard lock(g_chan->mutex_);
      for (std::map<int64_t, RpcChannel::OutstandingCall>::const_iterator it = g_chan->outstandings_.begin();
           it != g_chan->outstandings_.end(); ++it)
      {
        if (!outs.empty()) outs += ",";
        outs += std::to_string(it->first) + ":r" + (it->second.response ? "1" : "0") + "d" + (it->second.done ? "1" : "0");
      }
    }
    for (std::map<int, Deferred>::const_iterator it = g_deferred.begin(); it != g_deferred.end(); ++it)
      if (!it->second.completed && it->first < kEndA) { if (!pend.empty()) pend += ","; pend += std::to_string(it->first); }
    string btail;
    if (bidi)
    {
      string outsb, penda;
      if (g_chanB)
      {
        lastNextB = g_chanB->id_.get();
        MutexLockGuard lock(g_chanB->mutex_);
        for (std::map<int64_t, RpcChannel::OutstandingCall>::const_iterator it = g_chanB->outstandings_.begin();
             it != g_chanB->outstandings_.end(); ++it)
        {
          if (!outsb.empty()) outsb += ",";
          outsb += std::to_string(it->first) + ":r" + (it->second.response ? "1" : "0") + "d" + (it->second.done ? "1" : "0");
        }
      }
      for (std::map<int, Deferred>::const_iterator it = g_deferred.begin(); it != g_deferred.end(); ++it)
        if (!it->second.completed && it->first >= kEndA) { if (!penda.empty()) penda += ","; penda += std::to_string(it->first - kEndA); }
      btail = " b:next=" + std::to_string(static_cast<long long>(lastNextB)) + " outs=" + (outsb.empty() ? "-" : outsb) +
              " pend=" + (penda.empty() ? "-" : penda);
    }
    printf("%s ev=%s next=%lld outs=%s pend=%s%s\n", rejected ? "rejected" : "ok", ev.c_str(),
           static_cast<long long>(lastNext), outs.empty() ? "-" : outs.c_str(), pend.empty() ? "-" : pend.c_str(), btail.c_str());
    fflush(stdout);
  }
  return 0;
}
