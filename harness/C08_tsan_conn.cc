// C08 TSan scenarios: TcpConnection (send, forceClose, forceCloseWithDelay, startRead, stopRead, one shutdown)
// over a loopback connection served by a TcpServer living on the loop thread, and TcpClient
// (connect, disconnect, stop, connection).  The peer is a raw blocking socket on its own pthread.
#include <errno.h>
#include <fcntl.h>
#include <poll.h>
#include <pthread.h>
#include <stdint.h>
#include <stdio.h>
#include <stdlib.h>
#include <string.h>
#include <sys/socket.h>
#include <sys/time.h>
#include <sys/types.h>
#include <netinet/in.h>
#include <netinet/tcp.h>
#include <arpa/inet.h>
#include <unistd.h>
#include <algorithm>
#include <atomic>
#include <functional>
#include <iostream>
#include <map>
#include <memory>
#include <set>
#include <sstream>
#include <string>
#include <vector>
#include <boost/any.hpp>
#include <boost/circular_buffer.hpp>
// the forced-schedule scenarios need the ADDRESSES of TcpConnection::state_ / loop_ (nothing else private is touched)
#define private public
#include "C08_tsan.h"
#include "muduo/net/TcpServer.h"
#include "muduo/net/TcpClient.h"
#include "muduo/net/TcpConnection.h"
#include "muduo/net/Connector.h"
#include "muduo/net/InetAddress.h"
#include "muduo/net/Buffer.h"
#undef private

using namespace muduo;
using namespace muduo::net;
using c08::LoopHost;
using c08::sleep_ms;

namespace
{
MutexLock g_mu;
TcpConnectionPtr g_conn;          // published by the loop thread under g_mu (synchronisation BEFORE the operation under test)
std::atomic<int> g_up(0), g_down(0);
TcpServer* g_server = NULL;
int g_port = 0;

void onConnection(const TcpConnectionPtr& conn)
{
  if (conn->connected())
  {
    MutexLockGuard lock(g_mu);
    g_conn = conn;
    ++g_up;
  }
  else
  {
    ++g_down;
  }
}
void onMessageEcho(const TcpConnectionPtr& conn, Buffer* buf, Timestamp)
{
  conn->send(buf);                // loop-thread send: keeps sendInLoop/outputBuffer_/state_ reads going
}
void serverInit(EventLoop* loop)
{
  g_server = new TcpServer(loop, InetAddress("127.0.0.1", static_cast<uint16_t>(g_port)), "c08srv");
  g_server->setConnectionCallback(onConnection);
  g_server->setMessageCallback(onMessageEcho);
  g_server->start();
}
void serverFini(EventLoop*)
{
  {
    MutexLockGuard lock(g_mu);
    g_conn.reset();
  }
  delete g_server;
  g_server = NULL;
}

// peer: connects, writes small chunks for `ms` milliseconds, drains what comes back, then closes (or is closed)
struct Peer
{
  int port, ms, fd;
  bool close_early;
  std::atomic<int> stop;          // set by a scenario: close now
  pthread_t th;
  static void* run(void* p)
  {
    Peer* self = static_cast<Peer*>(p);
    self->fd = c08::raw_connect(self->port);
    if (self->fd < 0) return NULL;
    char out[256];
    memset(out, 'p', sizeof out);
    char in[4096];
    int rounds = self->ms * 4;
    for (int i = 0; i < rounds; ++i)
    {
      if (::send(self->fd, out, sizeof out, MSG_NOSIGNAL | MSG_DONTWAIT) < 0 && errno != EAGAIN) break;
      ssize_t n = ::recv(self->fd, in, sizeof in, MSG_DONTWAIT);
      if (n == 0) break;
      if (self->stop.load(std::memory_order_relaxed)) break;
      ::usleep(250);
    }
    ::close(self->fd);
    return NULL;
  }
  Peer(int port_, int ms_) : port(port_), ms(ms_), fd(-1), close_early(false), stop(0) { pthread_create(&th, NULL, &Peer::run, this); }
  void join() { pthread_join(th, NULL); }
};

TcpConnectionPtr waitConn()
{
  for (int i = 0; i < 400; ++i)
  {
    {
      MutexLockGuard lock(g_mu);
      if (g_conn) return g_conn;
    }
    ::usleep(2000);
  }
  fprintf(stderr, "C08: no connection established\n");
  exit(3);
}

struct ConnFixture
{
  LoopHost* host;
  Peer* peer;
  TcpConnectionPtr conn;
  explicit ConnFixture(int peer_ms)
  {
    g_port = c08::pick_port();
    host = new LoopHost(serverInit, serverFini);
    peer = new Peer(g_port, peer_ms);
    conn = waitConn();
  }
  ~ConnFixture()
  {
    conn.reset();
    peer->join();
    sleep_ms(20);
    delete host;
    delete peer;
  }
};
}  // namespace

C08_SCENARIO(conn_send)
{
  ConnFixture f(120);
  std::string msg(100, 'm');
  for (int i = 0; i < 300; ++i)
  {
    f.conn->send(msg);                       // foreign-thread send while the loop thread echoes
    if (i % 4 == 0) ::usleep(300);
  }
  sleep_ms(40);
}

// F-11: send() reads state_ on the caller's thread while the loop thread stores it (peer closes -> handleClose)
C08_SCENARIO(conn_send_vs_close)
{
  ConnFixture f(30);                          // the peer closes after ~30 ms
  std::string msg(16, 'm');
  Timestamp t0(Timestamp::now());
  int i = 0;
  while (timeDifference(Timestamp::now(), t0) < 0.15)   // spans the close; the caller looks at nothing but send()
  {
    f.conn->send(msg);
    if (++i % 4 == 0) ::usleep(100);         // do not drown the loop in functors: it has to get to the close event
  }
  sleep_ms(60);
}

C08_SCENARIO(conn_forceClose)
{
  ConnFixture f(3000);                        // the peer stays until it sees the close (no peer close racing the operation:
                                              // that is the lost-update consequence of F-11, see findings/C08.md)
  sleep_ms(20);
  f.conn->forceClose();                       // foreign thread, loop busy echoing
  sleep_ms(60);
}

C08_SCENARIO(conn_forceCloseWithDelay)
{
  ConnFixture f(3000);                        // the peer stays until it sees the close (no peer close racing the operation:
                                              // that is the lost-update consequence of F-11, see findings/C08.md)
  sleep_ms(20);
  f.conn->forceCloseWithDelay(0.02);
  sleep_ms(90);
}

C08_SCENARIO(conn_startStopRead)
{
  ConnFixture f(120);
  for (int i = 0; i < 60; ++i)
  {
    f.conn->stopRead();
    ::usleep(500);
    f.conn->startRead();
    ::usleep(500);
  }
  sleep_ms(40);
}

C08_SCENARIO(conn_shutdown)
{
  ConnFixture f(3000);                        // the peer stays until it sees the close (no peer close racing the operation:
                                              // that is the lost-update consequence of F-11, see findings/C08.md)
  sleep_ms(20);
  f.conn->shutdown();                         // a single shutdown from a foreign thread
  sleep_ms(60);
}

// A caller that reuses / frees its buffer as soon as send() has returned: the functor must own a copy of the bytes
// (TcpConnection::send binds message.as_string()); a bound StringPiece would read the caller's freed memory.
C08_SCENARIO(conn_send_buffer_reuse)
{
  ConnFixture f(150);
  for (int i = 0; i < 300; ++i)
  {
    {
      std::string msg(200, static_cast<char>('a' + i % 26));
      f.conn->send(msg);                     // foreign thread; msg dies at the end of this block
    }
    {
      char* raw = static_cast<char*>(::malloc(300));
      memset(raw, 'r', 300);
      f.conn->send(raw, 300);                // send(const void*, int)
      memset(raw, 'x', 300);                 // the caller rewrites, then frees its buffer
      ::free(raw);
    }
    if (i % 4 == 0) ::usleep(300);
  }
  sleep_ms(40);
}

// ---------------------------------------------------------------- forced schedules (see C08_tsan.h)
namespace
{
// the other side's move while the caller is parked: the peer closes, the loop thread takes the connection down and the
// server drops its references (handleClose -> removeConnectionInLoop -> connectDestroyed)
void peerCloseAndWaitDown(void* p)
{
  Peer* peer = static_cast<Peer*>(p);
  peer->stop.store(1, std::memory_order_relaxed);
  for (int i = 0; i < 4000 && g_down.load(std::memory_order_relaxed) == 0; ++i) ::usleep(500);
  ::usleep(40 * 1000);
}
// the calling thread becomes the only user-side owner of the connection (the server's map holds the other reference)
TcpConnectionPtr soleOwner(ConnFixture& f)
{
  TcpConnectionPtr c = f.conn;
  f.conn.reset();
  {
    MutexLockGuard lock(g_mu);
    g_conn.reset();
  }
  return c;
}
void busy(int ms) { ::usleep(ms * 1000); }
}  // namespace

// raw `this` in send(): the caller has seen kConnected and is about to post sendInLoop(this, copy); the connection goes
// down and the server lets go of it; the caller posts, returns and drops the last reference: the connection is destroyed on
// the caller's thread and the loop thread then runs sendInLoop on the freed object.
C08_SCENARIO(f_send_rawthis)
{
  ConnFixture f(3000);
  sleep_ms(10);
  TcpConnectionPtr c = soleOwner(f);
  {
    c08::StallHelper h(&peerCloseAndWaitDown, f.peer);
    c08::arm_stall(&c->loop_, false);         // first read of loop_ in send() comes after `state_ == kConnected`
    c->send("late");
    c.reset();                                // ~TcpConnection here, functor still queued
  }
  sleep_ms(60);
}

// the same for shutdown(): parked after `setState(kDisconnecting)`, before `loop_->runInLoop(bind(shutdownInLoop, this))`
C08_SCENARIO(f_shutdown_rawthis)
{
  ConnFixture f(3000);
  sleep_ms(10);
  TcpConnectionPtr c = soleOwner(f);
  {
    c08::StallHelper h(&peerCloseAndWaitDown, f.peer);
    c08::arm_stall(&c->loop_, false);
    c->shutdown();
    c.reset();
  }
  sleep_ms(60);
}

// startRead()/stopRead() post ...InLoop(this) unconditionally: a caller that still holds a connection which is already
// down (the server has let go) calls it while the loop is busy and drops its reference.
C08_SCENARIO(f_startRead_rawthis)
{
  ConnFixture f(3000);
  sleep_ms(10);
  TcpConnectionPtr c = soleOwner(f);
  f.peer->stop.store(1, std::memory_order_relaxed);
  for (int i = 0; i < 4000 && g_down.load() == 0; ++i) ::usleep(500);
  sleep_ms(40);
  f.host->loop()->runInLoop(std::bind(&busy, 80));   // (synchronisation BEFORE the operation under test)
  sleep_ms(10);
  c->startRead();
  c.reset();
  sleep_ms(120);
}

C08_SCENARIO(f_stopRead_rawthis)
{
  ConnFixture f(3000);
  sleep_ms(10);
  TcpConnectionPtr c = soleOwner(f);
  f.peer->stop.store(1, std::memory_order_relaxed);
  for (int i = 0; i < 4000 && g_down.load() == 0; ++i) ::usleep(500);
  sleep_ms(40);
  f.host->loop()->runInLoop(std::bind(&busy, 80));
  sleep_ms(10);
  c->stopRead();
  c.reset();
  sleep_ms(120);
}

// F-11 lost update, forced: forceClose() has read kConnected and is parked before its store of kDisconnecting; the peer
// closes and the loop thread runs handleClose (state_ = kDisconnected, DOWN callback, removal); the caller's store then
// overwrites kDisconnected and the queued forceCloseInLoop runs handleClose a SECOND time: second DOWN callback and
// assert(n == 1) in TcpServer::removeConnectionInLoop.  Ends in abort on the pinned tree (explained by the recorded key).
C08_SCENARIO(f_lost_update_forceClose)
{
  ConnFixture f(3000);
  sleep_ms(10);
  TcpConnectionPtr c = f.conn;
  {
    c08::StallHelper h(&peerCloseAndWaitDown, f.peer);
    c08::arm_stall(&c->state_, true);
    c->forceClose();
  }
  sleep_ms(80);
  printf("downs=%d\n", g_down.load());
}

// the same lost update through forceCloseWithDelay(): the delayed forceClose() finds kDisconnecting and closes a second time
C08_SCENARIO(f_lost_update_forceCloseWithDelay)
{
  ConnFixture f(3000);
  sleep_ms(10);
  TcpConnectionPtr c = f.conn;
  {
    c08::StallHelper h(&peerCloseAndWaitDown, f.peer);
    c08::arm_stall(&c->state_, true);
    c->forceCloseWithDelay(0.02);
  }
  sleep_ms(120);
  printf("downs=%d\n", g_down.load());
}

// ... and through shutdown(): the connection that is down ends up in kDisconnecting for good; its destructor's
// assert(state_ == kDisconnected) fails when the last owner lets go.
C08_SCENARIO(f_lost_update_shutdown)
{
  ConnFixture f(3000);
  sleep_ms(10);
  TcpConnectionPtr c = soleOwner(f);
  {
    c08::StallHelper h(&peerCloseAndWaitDown, f.peer);
    c08::arm_stall(&c->state_, true);
    c->shutdown();
  }
  sleep_ms(60);                 // shutdownInLoop has run (on a live object: this thread still owns it)
  c.reset();                    // ~TcpConnection
  sleep_ms(20);
}

// ---------------------------------------------------------------- TcpClient
namespace
{
struct RawServer
{
  int port, lfd;
  int hold_ms;
  pthread_t th;
  static void* run(void* p)
  {
    RawServer* s = static_cast<RawServer*>(p);
    for (int k = 0; k < 3; ++k)
    {
      struct timeval tv = {0, 300000};
      fd_set rf;
      FD_ZERO(&rf);
      FD_SET(s->lfd, &rf);
      if (::select(s->lfd + 1, &rf, NULL, NULL, &tv) <= 0) break;
      int fd = ::accept(s->lfd, NULL, NULL);
      if (fd < 0) break;
      char in[1024];
      for (int i = 0; i < s->hold_ms; ++i)
      {
        ssize_t n = ::recv(fd, in, sizeof in, MSG_DONTWAIT);
        if (n == 0) break;
        ::usleep(1000);
      }
      ::close(fd);
    }
    return NULL;
  }
  explicit RawServer(int hold) : hold_ms(hold)
  {
    port = c08::pick_port();
    lfd = c08::raw_listen(port);
    pthread_create(&th, NULL, &RawServer::run, this);
  }
  ~RawServer()
  {
    pthread_join(th, NULL);
    ::close(lfd);
  }
};
std::atomic<int> g_cup(0), g_cdown(0);
void onClientConn(const TcpConnectionPtr& conn)
{
  if (conn->connected()) ++g_cup; else ++g_cdown;
}
// Tear a TcpClient down the only way its source calls safe: on its own loop thread (~TcpClient: "FIXME: not 100% safe,
// if we are in different thread"; Connector::stop()/start() post functors bound to the raw `this`, "FIXME: unsafe").
// The destructor is not one of the any-thread operations of C08; destroying the client on the calling thread is the
// F-13 lifetime hazard, shown on purpose by client_stop_then_foreign_dtor only (docs/C08.md).
void deleteClient(TcpClient* c) { delete c; }
void destroyOnLoop(LoopHost& host, TcpClient* client)
{
  host.loop()->runInLoop(std::bind(&deleteClient, client));
}
}  // namespace

C08_SCENARIO(client_connect_connection_disconnect)
{
  RawServer srv(200);
  LoopHost host;
  TcpClient* client = new TcpClient(host.loop(), InetAddress("127.0.0.1", static_cast<uint16_t>(srv.port)), "c08cli");
  client->setConnectionCallback(onClientConn);
  client->connect();                          // foreign thread
  long seen = 0;
  for (int i = 0; i < 3000; ++i)               // connection() races the loop thread's `connection_ = conn`
  {
    TcpConnectionPtr c = client->connection();
    if (c) ++seen;
    if (g_cup.load() > 0 && i > 2000) break;
  }
  sleep_ms(20);
  client->disconnect();                       // foreign thread
  for (int i = 0; i < 200 && g_cdown.load() == 0; ++i) ::usleep(1000);
  sleep_ms(30);
  destroyOnLoop(host, client);                // lifetime is not this scenario's subject
  sleep_ms(20);
  if (seen < 0) printf("x\n");
}

C08_SCENARIO(client_stop)
{
  int port = c08::pick_port();                // nobody listens: the connector keeps retrying
  LoopHost host;
  TcpClient* client = new TcpClient(host.loop(), InetAddress("127.0.0.1", static_cast<uint16_t>(port)), "c08cli");
  client->connect();
  sleep_ms(30);
  client->stop();                             // foreign thread while the connector is in its retry cycle
  sleep_ms(60);
  destroyOnLoop(host, client);
  sleep_ms(1100);                             // ~TcpClient posts removeConnector 1 s later (FIXME: HACK in the source)
}

// F-11: TcpClient::retry_ / connect_ are plain bools written by callers and read by the loop in removeConnection
C08_SCENARIO(client_flags_vs_loop)
{
  RawServer srv(40);                          // the server closes after ~40 ms -> removeConnection on the loop
  LoopHost host;
  TcpClient* client = new TcpClient(host.loop(), InetAddress("127.0.0.1", static_cast<uint16_t>(srv.port)), "c08cli");
  client->setConnectionCallback(onClientConn);
  client->connect();
  for (int i = 0; i < 400 && g_cup.load() == 0; ++i) ::usleep(500);
  Timestamp t0(Timestamp::now());
  while (timeDifference(Timestamp::now(), t0) < 0.10)   // spans the server's close at ~40 ms
  {
    client->enableRetry();                    // plain store, nothing else
  }
  sleep_ms(30);
  client->stop();
  for (int i = 0; i < 300 && g_cdown.load() < g_cup.load(); ++i) ::usleep(1000);
  sleep_ms(30);
  destroyOnLoop(host, client);
  sleep_ms(1100);
}

// raw `this` in Connector::stop() (F-13 family).  stop() posts Connector::stopInLoop bound to the raw
// `this`; with a live connection ~TcpClient does not hand connector_ to the loop (that is only done in its else-branch), so
// the Connector is freed on the calling thread with nothing ordering the loop thread's stopInLoop before the free.
C08_SCENARIO(client_stop_then_foreign_dtor)
{
  RawServer srv(600);
  LoopHost host;
  TcpClient* client = new TcpClient(host.loop(), InetAddress("127.0.0.1", static_cast<uint16_t>(srv.port)), "c08cli");
  client->setConnectionCallback(onClientConn);
  client->connect();
  for (int i = 0; i < 400 && g_cup.load() == 0; ++i) ::usleep(500);
  sleep_ms(10);
  client->stop();                             // any-thread operation: queues stopInLoop(raw this)
  sleep_ms(20);                               // in real time the loop has run it by now; no happens-before says so
  delete client;                              // foreign-thread destruction: frees the Connector here
  sleep_ms(60);
}

// ---------------------------------------------------------------- forced schedules, part 2: callbacks and hand-offs
namespace
{
EventLoop* g_qloop = NULL;
CountDownLatch* g_qready = NULL;
void qbusy() { ::usleep(90 * 1000); }
void* qthread(void*)
{
  EventLoop loop;
  loop.runAfter(0.005, qbusy);
  g_qloop = &loop;
  g_qready->countDown();
  loop.loop();
  return NULL;                                // ~EventLoop on the owner's thread
}
pthread_t g_loopTid;
void storeTid(CountDownLatch* l) { g_loopTid = pthread_self(); l->countDown(); }
TcpClient* g_victim = NULL;
void deleteVictim(void*) { delete g_victim; g_victim = NULL; ::usleep(20 * 1000); }
}  // namespace

// F-4 family: queueInLoop() hands the loop a functor (push under the mutex, unlock) and then still calls wakeup().  If the
// functor itself ends the loop - queueInLoop(bind(&EventLoop::quit, loop)) - the owner may destroy the EventLoop before or
// while that happens.  The loop thread is inside a long timer callback when the call arrives; it then runs the functor in
// the same iteration and leaves loop() without ever polling the wake-up descriptor: nothing orders the caller's write to
// wakeupFd_ before ~EventLoop's close.  (ThreadSanitizer forgets a descriptor at close(), so the schedule in which the
// write comes after the close is not reportable; the missing happens-before edge is the same.)
C08_SCENARIO(f_queueInLoop_quit_functor)
{
  CountDownLatch ready(1);
  g_qready = &ready;
  pthread_t th;
  pthread_create(&th, NULL, &qthread, NULL);
  ready.wait();
  sleep_ms(40);                               // the loop thread is inside qbusy
  g_qloop->queueInLoop(std::bind(&EventLoop::quit, g_qloop));   // any-thread operation; afterwards only sleep
  sleep_ms(150);
  pthread_join(th, NULL);
}

// F-13 proper: TcpClient's constructor registers newConnection(raw this) on the Connector, a shared_ptr-managed object that
// outlives the client (~TcpClient parks it on the loop for 1 s).  The loop thread is parked in Connector::handleWrite after
// `if (connect_)`, right before it invokes the callback; a foreign thread destroys the client; the callback then runs
// TcpClient::newConnection on the freed client.
C08_SCENARIO(f_client_ctor_callback_rawthis)
{
  RawServer srv(300);
  LoopHost host;
  {
    CountDownLatch l(1);
    host.loop()->runInLoop(std::bind(&storeTid, &l));
    l.wait();
  }
  g_victim = new TcpClient(host.loop(), InetAddress("127.0.0.1", static_cast<uint16_t>(srv.port)), "c08cli");
  {
    c08::StallHelper h(&deleteVictim, NULL);
    // std::function::operator() first reads _M_manager (offset 16) to test for emptiness
    c08::arm_stall_thread(g_loopTid, reinterpret_cast<char*>(&g_victim->connector_->newConnectionCallback_) + 16, c08::kRead8);
    g_victim->connect();
  }
  sleep_ms(100);
}

// TcpClient::newConnection registers removeConnection(raw this) as the connection's close callback; ~TcpClient replaces it
// by a functor it POSTS to the loop ("FIXME: not 100% safe, if we are in different thread"): a close handled before that
// functor runs calls TcpClient::removeConnection on the freed client.  The loop is busy while the peer closes and the
// foreign thread destroys the client; channel events are handled before pending functors.
C08_SCENARIO(f_client_closecb_rawthis)
{
  RawServer srv(60);
  LoopHost host;
  TcpClient* client = new TcpClient(host.loop(), InetAddress("127.0.0.1", static_cast<uint16_t>(srv.port)), "c08cli");
  client->setConnectionCallback(onClientConn);
  client->connect();
  for (int i = 0; i < 400 && g_cup.load() == 0; ++i) ::usleep(500);
  host.loop()->runInLoop(std::bind(&busy, 150));      // (synchronisation BEFORE the operation under test)
  sleep_ms(100);                                      // the server has closed by now (60 ms); the loop has not seen it
  delete client;                                      // foreign thread
  sleep_ms(150);
}

// TcpServer::newConnection registers removeConnection(raw this) as the close callback of a connection that lives on an io
// loop and can outlive the server.  The io loop handles the peer's close while the base loop is busy (the callback posts
// removeConnectionInLoop(raw this) to the base loop); the base loop then destroys the server and afterwards runs the posted
// functor on the freed server.
namespace
{
void serverInitMT(EventLoop* loop)
{
  g_server = new TcpServer(loop, InetAddress("127.0.0.1", static_cast<uint16_t>(g_port)), "c08srv");
  g_server->setConnectionCallback(onConnection);
  g_server->setMessageCallback(onMessageEcho);
  g_server->setThreadNum(1);
  g_server->start();
}
void busyThenDeleteServer(int ms)
{
  ::usleep(ms * 1000);
  delete g_server;
  g_server = NULL;
}
}  // namespace

C08_SCENARIO(f_server_closecb_rawthis)
{
  g_port = c08::pick_port();
  LoopHost* host = new LoopHost(serverInitMT, serverFini);
  Peer* peer = new Peer(g_port, 3000);
  TcpConnectionPtr conn = waitConn();
  sleep_ms(10);
  EventLoop* io = conn->getLoop();
  host->loop()->runInLoop(std::bind(&busyThenDeleteServer, 160));
  sleep_ms(10);
  io->runInLoop(std::bind(&busy, 50));
  sleep_ms(10);
  peer->stop.store(1, std::memory_order_relaxed);     // closes during the io loop's busy period
  sleep_ms(300);
  conn.reset();
  {
    MutexLockGuard lock(g_mu);
    g_conn.reset();
  }
  peer->join();
  delete host;
  delete peer;
}

// Two io-loop threads of one TcpServer each receive a burst larger than their connection's input buffer has room for
// (1024 bytes initially): Buffer::readFd spills into its 64 KiB extrabuf.  The two threads never synchronise with each
// other; nothing they touch is shared - unless extrabuf has static storage.
namespace
{
void onMessageDiscard(const TcpConnectionPtr&, Buffer* buf, Timestamp) { buf->retrieveAll(); }
void serverInitMT2(EventLoop* loop)
{
  g_server = new TcpServer(loop, InetAddress("127.0.0.1", static_cast<uint16_t>(g_port)), "c08srv");
  g_server->setConnectionCallback(onConnection);
  g_server->setMessageCallback(onMessageDiscard);
  g_server->setThreadNum(2);
  g_server->start();
}
void* burstPeer(void*)
{
  int fd = c08::raw_connect(g_port);
  if (fd < 0) return NULL;
  std::string chunk(32 * 1024, 'b');
  for (int i = 0; i < 12; ++i)
  {
    if (::send(fd, chunk.data(), chunk.size(), MSG_NOSIGNAL) < 0) break;
    ::usleep(3000);
  }
  ::usleep(30 * 1000);
  ::close(fd);
  return NULL;
}
}  // namespace

C08_SCENARIO(io_threads_read_burst)
{
  g_port = c08::pick_port();
  LoopHost* host = new LoopHost(serverInitMT2, serverFini);
  pthread_t a, b;
  pthread_create(&a, NULL, burstPeer, NULL);
  pthread_create(&b, NULL, burstPeer, NULL);      // round-robin: the second connection lands on the other io loop
  pthread_join(a, NULL);
  pthread_join(b, NULL);
  for (int i = 0; i < 300 && g_down.load() < 2; ++i) ::usleep(1000);
  sleep_ms(30);
  {
    MutexLockGuard lock(g_mu);
    g_conn.reset();
  }
  delete host;
}

// F-11: TcpClient::connect_ is stored by disconnect() callers and read by the loop in removeConnection
C08_SCENARIO(client_disconnect_flag_vs_loop)
{
  RawServer srv(400);                         // closes when it sees our FIN
  LoopHost host;
  TcpClient* client = new TcpClient(host.loop(), InetAddress("127.0.0.1", static_cast<uint16_t>(srv.port)), "c08cli");
  client->setConnectionCallback(onClientConn);
  client->enableRetry();                      // before connect(): removeConnection evaluates `retry_ && connect_`
  client->connect();
  for (int i = 0; i < 400 && g_cup.load() == 0; ++i) ::usleep(500);
  Timestamp t0(Timestamp::now());
  while (timeDifference(Timestamp::now(), t0) < 0.10)
  {
    client->disconnect();                     // connect_ = false; the first call half-closes, the peer then closes
  }
  for (int i = 0; i < 300 && g_cdown.load() < g_cup.load(); ++i) ::usleep(1000);
  sleep_ms(30);
  destroyOnLoop(host, client);
  sleep_ms(1100);
}

// F-11: Connector::connect_ is stored by stop()/start() callers and read by the loop thread in its retry cycle
C08_SCENARIO(connector_flag_vs_loop)
{
  int port = c08::pick_port();                // refused: retry timer chain on the loop thread reads connect_
  LoopHost host;
  TcpClient* client = new TcpClient(host.loop(), InetAddress("127.0.0.1", static_cast<uint16_t>(port)), "c08cli");
  client->connect();
  Timestamp t0(Timestamp::now());
  while (timeDifference(Timestamp::now(), t0) < 0.65)   // spans the first retry (500 ms): Connector::startInLoop reads connect_
  {
    client->stop();                           // connect_ = false (both TcpClient's and Connector's), then a queued functor
    ::usleep(100);
  }
  sleep_ms(30);
  destroyOnLoop(host, client);
  sleep_ms(1100);
}
