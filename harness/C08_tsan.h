// C08 ThreadSanitizer scenario suite: shared scaffolding.
// One process per scenario (`C08_tsan <scenario>`), each a few hundred ms.  In every scenario the
// calling ("foreign") thread performs the cross-thread operation under test and afterwards nothing
// that synchronises with the owning thread (only usleep), so a missing happens-before edge inside
// the operation is visible to TSan; TSan's first report (both stacks) is the replay.
#ifndef VERIF_C08_TSAN_H
#define VERIF_C08_TSAN_H
#include <stdio.h>
#include <stdlib.h>
#include <string.h>
#include <unistd.h>
#include <pthread.h>
#include <sys/socket.h>
#include <netinet/in.h>
#include <arpa/inet.h>
#include <functional>
#include <map>
#include <string>
#include <vector>
#include <atomic>

#include "muduo/base/Logging.h"
#include "muduo/base/Thread.h"
#include "muduo/base/Mutex.h"
#include "muduo/base/Condition.h"
#include "muduo/base/CountDownLatch.h"
#include "muduo/net/EventLoop.h"

namespace c08
{
typedef void (*ScenarioFn)();
struct Registry
{
  static std::map<std::string, ScenarioFn>& table()
  {
    static std::map<std::string, ScenarioFn> t;
    return t;
  }
  Registry(const char* name, ScenarioFn f) { table()[name] = f; }
};
#define C08_SCENARIO(name) \
  static void scenario_##name(); \
  static c08::Registry reg_##name(#name, &scenario_##name); \
  static void scenario_##name()

inline void sleep_ms(int ms) { ::usleep(ms * 1000); }

// ---- forced schedules (scenarios f_*).  The TSan build calls __tsan_read8/__tsan_write4/... before every instrumented
// access; the driver is linked with -Wl,--wrap=__tsan_read8,--wrap=__tsan_write4,--wrap=__tsan_read4 (definitions in C08_tsan_loop.cc), so a
// scenario can park the calling thread exactly between two adjacent statements of an operation under test - e.g. between
// `if (state_ == kConnected)` and `setState(kDisconnecting)` - let the loop thread make its move, and release it.
// Everything here uses relaxed atomics only (no synchronisation ThreadSanitizer would count as a happens-before edge),
// and the release comes from a third, plain pthread.
struct Stall
{
  std::atomic<void*> addr;
  std::atomic<int> write;
  std::atomic<unsigned long> thread;
  std::atomic<int> armed, stalled, release;
};
extern Stall g_stall;
enum StallKind { kRead8 = 0, kWrite4 = 1, kRead4 = 2 };
// thread `who` will stall at its next instrumented access of that kind to addr
inline void arm_stall_thread(pthread_t who, void* addr, int kind)
{
  g_stall.addr.store(addr, std::memory_order_relaxed);
  g_stall.write.store(kind, std::memory_order_relaxed);
  g_stall.thread.store(static_cast<unsigned long>(who), std::memory_order_relaxed);
  g_stall.stalled.store(0, std::memory_order_relaxed);
  g_stall.release.store(0, std::memory_order_relaxed);
  g_stall.armed.store(1, std::memory_order_relaxed);
}
// the calling thread will stall at its next instrumented 8-byte read (write=false) / 4-byte write (write=true) of addr
inline void arm_stall(void* addr, bool write) { arm_stall_thread(pthread_self(), addr, write ? kWrite4 : kRead8); }
// a plain thread that waits for the stall, runs `during(arg)` (the other side's move) and releases the stalled thread
struct StallHelper
{
  void (*during)(void*);
  void* arg;
  pthread_t th;
  static void* run(void* p)
  {
    StallHelper* h = static_cast<StallHelper*>(p);
    for (int i = 0; i < 20000 && g_stall.stalled.load(std::memory_order_relaxed) == 0; ++i) ::usleep(200);
    h->during(h->arg);
    g_stall.release.store(1, std::memory_order_relaxed);
    return NULL;
  }
  StallHelper(void (*d)(void*), void* a) : during(d), arg(a) { pthread_create(&th, NULL, &StallHelper::run, this); }
  ~StallHelper() { pthread_join(th, NULL); }
};

// A loop that lives on its own thread (NOT EventLoopThread, whose destructor is finding F-4): the loop
// thread constructs the EventLoop, runs `init` on it, publishes the pointer and loops until quit().
// The loop thread destroys its EventLoop only after the host's quit() call has RETURNED (quitDone_): quit() stores the
// flag and then still calls wakeup() on the object - the F-4 window, which is the subject of scenario
// quit_while_loop_busy and of nothing else.
class LoopHost
{
 public:
  typedef std::function<void(muduo::net::EventLoop*)> Init;
  explicit LoopHost(const Init& init = Init(), const Init& fini = Init())
    : init_(init), fini_(fini), loop_(NULL), latch_(1), quitDone_(1),
      thread_(std::bind(&LoopHost::run, this), "c08loop")
  {
    thread_.start();
    latch_.wait();
  }
  ~LoopHost()
  {
    loop_->quit();
    quitDone_.countDown();
    thread_.join();
  }
  muduo::net::EventLoop* loop() { return loop_; }

 private:
  void run()
  {
    muduo::net::EventLoop loop;
    if (init_) init_(&loop);
    loop_ = &loop;
    latch_.countDown();
    loop.loop();
    if (fini_) fini_(&loop);
    quitDone_.wait();
  }
  Init init_, fini_;
  muduo::net::EventLoop* loop_;
  muduo::CountDownLatch latch_;
  muduo::CountDownLatch quitDone_;
  muduo::Thread thread_;
};

// raw blocking TCP helpers (no muduo, no pthread synchronisation)
inline int pick_port()
{
  int fd = ::socket(AF_INET, SOCK_STREAM, 0);
  struct sockaddr_in a;
  memset(&a, 0, sizeof a);
  a.sin_family = AF_INET;
  a.sin_addr.s_addr = htonl(INADDR_LOOPBACK);
  a.sin_port = 0;
  ::bind(fd, reinterpret_cast<struct sockaddr*>(&a), sizeof a);
  socklen_t len = sizeof a;
  ::getsockname(fd, reinterpret_cast<struct sockaddr*>(&a), &len);
  int port = ntohs(a.sin_port);
  ::close(fd);
  return port;
}
inline int raw_connect(int port)
{
  for (int i = 0; i < 200; ++i)
  {
    int fd = ::socket(AF_INET, SOCK_STREAM, 0);
    struct sockaddr_in a;
    memset(&a, 0, sizeof a);
    a.sin_family = AF_INET;
    a.sin_addr.s_addr = htonl(INADDR_LOOPBACK);
    a.sin_port = htons(static_cast<uint16_t>(port));
    if (::connect(fd, reinterpret_cast<struct sockaddr*>(&a), sizeof a) == 0) return fd;
    ::close(fd);
    ::usleep(5000);
  }
  return -1;
}
inline int raw_listen(int port)
{
  int fd = ::socket(AF_INET, SOCK_STREAM, 0);
  int one = 1;
  ::setsockopt(fd, SOL_SOCKET, SO_REUSEADDR, &one, sizeof one);
  struct sockaddr_in a;
  memset(&a, 0, sizeof a);
  a.sin_family = AF_INET;
  a.sin_addr.s_addr = htonl(INADDR_LOOPBACK);
  a.sin_port = htons(static_cast<uint16_t>(port));
  ::bind(fd, reinterpret_cast<struct sockaddr*>(&a), sizeof a);
  ::listen(fd, 16);
  return fd;
}
}  // namespace c08
#endif
