// C17 driver: runs the real muduo::LogStream / Fmt / Logger / formatSI / formatIEC on the same
// cases as the extracted model (extract/C17_driver.ml) and prints the same line per op.
// Everything after " |nd " on a line is non-deterministic detail (wall-clock times, real thread
// ids) for the Python oracle; the part in front of it is compared with the model.
//
//   case <id>                        fresh LogStream (heap), log level INFO, no zone, fresh time cache
//   B 0|1 | C <byte> | S <payload> | SN | STR <payload> | SP <payload>
//   I <s|us|i|u|l|ul|ll|ull> <value> | P <uintptr> | D <bits64> | F <bits32> | DS | RST
//   IR <type> <lo> <hi> <step>       every value lo, lo+step, ... <= hi into a reset stream; one summary line
//   PRX <lo> <hi> <step>             same for pointers
//   FM <fmt-id> <value>              muduo::Fmt against snprintf (C++ side only)
//   SI <n> | IEC <n>
//   LV <0..5> | TZ none|<eastOfUtc>
//   LOG <level 0..4> t=<us> tid=<n> errno=<e> errtxt=<payload> func=<payload|-> path=<payload> line=<n> | item ; item ...
//   M <macro 0..7>                   the real LOG_* macro at a fixed #line site (FATAL ones in a forked child)
//   NOW                              true time / tid: main thread, a muduo::Thread, a forked child
//   end
#include <stdint.h>
#include <stdio.h>
#include <stdlib.h>
#include <string.h>
#include <errno.h>
#include <inttypes.h>
#include <unistd.h>
#include <sys/time.h>
#include <sys/types.h>
#include <sys/wait.h>
#include <sys/syscall.h>
#include <limits>
#include <iostream>
#include <memory>
#include <functional>
#include <string>
#include <vector>
#include <sstream>
#include <map>

#define private public
#include "muduo/base/LogStream.h"
#include "muduo/base/Logging.h"
#undef private
#include "muduo/base/TimeZone.h"
#include "muduo/base/CurrentThread.h"
#include "muduo/base/Thread.h"
#include "common.h"

namespace muduo
{
extern __thread char t_time[64];        // Logging.cc:38-40 (per-thread cache of the formatted second)
extern __thread time_t t_lastSecond;
extern __thread char t_errnobuf[512];   // strerror_tl's buffer
}

using std::string;
using muduo::LogStream;
using muduo::Logger;

// ---------------------------------------------------------------- scripted clock / tid
static bool g_virtTime = false;
static int64_t g_us = 0;
static bool g_virtTid = false;
static long g_tid = 0;

extern "C" int __real_gettimeofday(struct timeval* tv, void* tz);
extern "C" int __wrap_gettimeofday(struct timeval* tv, void* tz)
{
  if (g_virtTime)
  {
    tv->tv_sec = static_cast<time_t>(g_us / 1000000);
    tv->tv_usec = static_cast<suseconds_t>(g_us % 1000000);
    return 0;
  }
  return __real_gettimeofday(tv, tz);
}
extern "C" long __real_syscall(long n, long a, long b, long c, long d, long e, long f);
extern "C" long __wrap_syscall(long n, long a, long b, long c, long d, long e, long f)
{
  if (n == SYS_gettid && g_virtTid) return g_tid;
  return __real_syscall(n, a, b, c, d, e, f);
}
static long realTid() { return __real_syscall(SYS_gettid, 0, 0, 0, 0, 0, 0); }
static int64_t realNow()
{
  struct timeval tv;
  __real_gettimeofday(&tv, NULL);
  return static_cast<int64_t>(tv.tv_sec) * 1000000 + tv.tv_usec;
}

// ---------------------------------------------------------------- captured log output
static string g_captured;
static int g_emitted = 0;
static int g_pipeFd = -1;
static void captureOutput(const char* msg, int len) { g_captured.append(msg, len); ++g_emitted; }
static void pipeOutput(const char* msg, int len) { ssize_t n = ::write(g_pipeFd, msg, len); (void)n; }
static void noFlush() {}

// ---------------------------------------------------------------- stream items
static unsigned long long parseU(const string& s) { return strtoull(s.c_str(), NULL, 10); }
static long long parseS(const string& s) { return strtoll(s.c_str(), NULL, 10); }

static bool inRange(const string& ty, const string& v)
{
  // values are decimal; anything with more than 20 digits is out of every range
  bool neg = !v.empty() && v[0] == '-';
  string mag = neg ? v.substr(1) : v;
  if (mag.size() > 20) return false;
  unsigned long long m = parseU(mag);
  if (mag.size() == 20 && mag > "18446744073709551615") return false;
  unsigned long long hi;   // inclusive magnitude bounds
  unsigned long long lo;   // magnitude of the most negative value
  if (ty == "s") { hi = 32767; lo = 32768; }
  else if (ty == "us") { hi = 65535; lo = 0; }
  else if (ty == "i") { hi = 2147483647ULL; lo = 2147483648ULL; }
  else if (ty == "u") { hi = 4294967295ULL; lo = 0; }
  else if (ty == "l" || ty == "ll") { hi = 9223372036854775807ULL; lo = 9223372036854775808ULL; }
  else { hi = 18446744073709551615ULL; lo = 0; }
  return neg ? (m <= lo) : (m <= hi);
}

static void streamInt(LogStream& s, const string& ty, const string& v)
{
  if (ty == "s") s << static_cast<short>(parseS(v));
  else if (ty == "us") s << static_cast<unsigned short>(parseU(v));
  else if (ty == "i") s << static_cast<int>(parseS(v));
  else if (ty == "u") s << static_cast<unsigned int>(parseU(v));
  else if (ty == "l") s << static_cast<long>(parseS(v));
  else if (ty == "ul") s << static_cast<unsigned long>(parseU(v));
  else if (ty == "ll") s << static_cast<long long>(parseS(v));
  else s << static_cast<unsigned long long>(parseU(v));
}

static int snprintfInt(char* buf, size_t n, const string& ty, long long sv, unsigned long long uv)
{
  if (ty == "s") return snprintf(buf, n, "%hd", static_cast<short>(sv));
  if (ty == "us") return snprintf(buf, n, "%hu", static_cast<unsigned short>(uv));
  if (ty == "i") return snprintf(buf, n, "%d", static_cast<int>(sv));
  if (ty == "u") return snprintf(buf, n, "%u", static_cast<unsigned int>(uv));
  if (ty == "l") return snprintf(buf, n, "%ld", static_cast<long>(sv));
  if (ty == "ul") return snprintf(buf, n, "%lu", static_cast<unsigned long>(uv));
  if (ty == "ll") return snprintf(buf, n, "%lld", sv);
  return snprintf(buf, n, "%llu", uv);
}

// returns false when the item is not a value of the parameter type ("rejected")
static bool streamItem(LogStream& s, const std::vector<string>& w, size_t at)
{
  const string& k = w[at];
  if (k == "B") s << (w[at + 1] == "1");
  else if (k == "C") s << static_cast<char>(atoi(w[at + 1].c_str()));
  else if (k == "S") { string d = vh::bytesOfSpec(w[at + 1]); s << d.c_str(); }
  else if (k == "SN") s << static_cast<const char*>(NULL);
  else if (k == "STR") { string d = vh::bytesOfSpec(w[at + 1]); s << d; }
  else if (k == "SP") { string d = vh::bytesOfSpec(w[at + 1]); s << muduo::StringPiece(d.data(), static_cast<int>(d.size())); }
  else if (k == "I") { if (!inRange(w[at + 1], w[at + 2])) return false; streamInt(s, w[at + 1], w[at + 2]); }
  else if (k == "P")
  {
    if (!inRange("ull", w[at + 1])) return false;
    s << reinterpret_cast<const void*>(static_cast<uintptr_t>(parseU(w[at + 1])));
  }
  else if (k == "D")
  {
    if (!inRange("ull", w[at + 1])) return false;
    uint64_t bits = parseU(w[at + 1]); double d; memcpy(&d, &bits, 8); s << d;
  }
  else if (k == "F")
  {
    if (!inRange("u", w[at + 1])) return false;
    uint32_t bits = static_cast<uint32_t>(parseU(w[at + 1])); float f; memcpy(&f, &bits, 4); s << f;
  }
  else if (k == "FMI")
  {
    // Fmt("%07d", int): the constructor asserts length < sizeof buf_ (32): not a value otherwise
    if (!inRange("i", w[at + 1])) return false;
    int v = static_cast<int>(parseS(w[at + 1]));
    char probe[64];
    if (snprintf(probe, sizeof probe, "%07d", v) >= 32) return false;
    s << muduo::Fmt("%07d", v);
  }
  else if (k == "FMD")
  {
    // Fmt("%10.4f", double): up to 300+ characters for large magnitudes -> the assert: rejected here
    if (!inRange("ull", w[at + 1])) return false;
    uint64_t bits = parseU(w[at + 1]); double d; memcpy(&d, &bits, 8);
    char probe[512];
    if (snprintf(probe, sizeof probe, "%10.4f", d) >= 32) return false;
    s << muduo::Fmt("%10.4f", d);
  }
  else { fprintf(stderr, "bad item %s\n", k.c_str()); exit(2); }
  return true;
}

static void showStream(const char* status, LogStream& s, int before)
{
  const LogStream::Buffer& b = s.buffer();
  int len = b.length();
  int av = b.avail();
  bool sane = (len >= 0 && len <= static_cast<int>(sizeof b.data_) && av == static_cast<int>(sizeof b.data_) - len);
  if (!sane) { printf("%s OUT-OF-BOUNDS len=%d avail=%d\n", status, len, av); return; }
  string added = (len >= before) ? string(b.data() + before, len - before) : string("?");
  printf("%s len=%d avail=%d h=%s t=%s\n", status, len, av, vh::fnv(b.data(), len).c_str(),
         added.size() <= 64 ? (added.empty() ? "-" : vh::hexOf(added).c_str()) : ("crc:" + vh::fnv(added)).c_str());
}

// ---------------------------------------------------------------- macro sites
static const char kSiteFunc[] = "macroSite";
#line 4242 "/some/dir/sub/C17_site.cc"
static void macroSite(int m) {
  switch (m) {
    case 0: LOG_TRACE << "m" << 42; break;
    case 1: LOG_DEBUG << "m" << 42; break;
    case 2: LOG_INFO << "m" << 42; break;
    case 3: LOG_WARN << "m" << 42; break;
    case 4: LOG_ERROR << "m" << 42; break;
    case 5: LOG_FATAL << "m" << 42; break;
    case 6: errno = 2; LOG_SYSERR << "m" << 42; break;
    case 7: errno = 2; LOG_SYSFATAL << "m" << 42; break;
  }
}
#line 193 "C17_driver.cc"

static string readAll(int fd)
{
  string out;
  char buf[4096];
  ssize_t n;
  while ((n = ::read(fd, buf, sizeof buf)) > 0) out.append(buf, n);
  return out;
}

struct TrueSample { int64_t t0, t1; long tid; string line; };

static TrueSample logTrue(const char* who)
{
  TrueSample r;
  g_captured.clear();
  r.tid = realTid();
  r.t0 = realNow();
  LOG_WARN << who;
  r.t1 = realNow();
  r.line = g_captured;
  return r;
}

// does the line carry the "%5d " rendering of the kernel tid of the thread that logged it?  (the deterministic
// part of NOW: the model predicts these flags from the regenerated afterFork / atfork registration)
static int tidFlag(const TrueSample& s)
{
  char want[32];
  snprintf(want, sizeof want, "%5ld ", s.tid);
  // date(17) '.' us(6) 'Z' ' ' then the tid text
  const size_t at = 17 + 1 + 6 + 2;
  return s.line.size() > at + strlen(want) && s.line.compare(at, strlen(want), want) == 0 ? 1 : 0;
}

static void printTrue(const char* who, const TrueSample& s)
{
  printf(" %s:t0=%" PRId64 ",t1=%" PRId64 ",tid=%ld,line=%s", who, s.t0, s.t1, s.tid, vh::hexOf(s.line).c_str());
}

int main()
{
  Logger::setOutput(captureOutput);
  Logger::setFlush(noFlush);
  std::unique_ptr<LogStream> ls(new LogStream);
  string line;
  char tmp[128];
  while (std::getline(std::cin, line))
  {
    std::vector<string> w = vh::splitWs(line);
    if (w.empty()) continue;
    const string& k = w[0];
    if (k == "case")
    {
      ls.reset(new LogStream);
      Logger::setLogLevel(Logger::INFO);
      Logger::setTimeZone(muduo::TimeZone());
      muduo::t_lastSecond = 0;
      memset(muduo::t_time, 0, sizeof muduo::t_time);
      printf("case %s cap=%d max=%d\n", w[1].c_str(), ls->buffer().avail(), LogStream::kMaxNumericSize);
      continue;
    }
    if (k == "end") { printf("end\n"); fflush(stdout); continue; }
    if (k == "DS")
    {
      int before = ls->buffer().length();
      const char* p = ls->buffer_.debugString();
      bool nul = (p[before] == '\0');
      showStream(nul ? "ok" : "ok-no-nul", *ls, before);
    }
    else if (k == "RST") { ls->resetBuffer(); showStream("ok", *ls, 0); }
    else if (k == "IR" || k == "PRX")
    {
      bool ptr = (k == "PRX");
      string ty = ptr ? "ull" : w[1];
      size_t o = ptr ? 1 : 2;
      bool sgn = (ty == "s" || ty == "i" || ty == "l" || ty == "ll");
      // iterate in 128-bit arithmetic so that hi = type max cannot wrap
      __int128 lo = sgn ? static_cast<__int128>(parseS(w[o])) : static_cast<__int128>(parseU(w[o]));
      __int128 hi = sgn ? static_cast<__int128>(parseS(w[o + 1])) : static_cast<__int128>(parseU(w[o + 1]));
      __int128 step = static_cast<__int128>(parseU(w[o + 2]));
      uint64_t n = 0;
      uint32_t crc = 0xffffffffu;
      static uint32_t tab[256];
      static bool init = false;
      if (!init)
      {
        for (uint32_t i = 0; i < 256; ++i) { uint32_t c = i; for (int j = 0; j < 8; ++j) c = (c & 1) ? (0xEDB88320u ^ (c >> 1)) : (c >> 1); tab[i] = c; }
        init = true;
      }
      string bad = "-";
      LogStream s;
      for (__int128 v = lo; v <= hi; v += step)
      {
        s.resetBuffer();
        long long sv = static_cast<long long>(v);
        unsigned long long uv = static_cast<unsigned long long>(v);
        int el;
        if (ptr) { s << reinterpret_cast<const void*>(static_cast<uintptr_t>(uv)); el = snprintf(tmp, sizeof tmp, "0x%" PRIXPTR, static_cast<uintptr_t>(uv)); }
        else
        {
          if (ty == "s") s << static_cast<short>(sv);
          else if (ty == "us") s << static_cast<unsigned short>(uv);
          else if (ty == "i") s << static_cast<int>(sv);
          else if (ty == "u") s << static_cast<unsigned int>(uv);
          else if (ty == "l") s << static_cast<long>(sv);
          else if (ty == "ul") s << static_cast<unsigned long>(uv);
          else if (ty == "ll") s << sv;
          else s << uv;
          el = snprintfInt(tmp, sizeof tmp, ty, sv, uv);
        }
        const LogStream::Buffer& b = s.buffer();
        int len = b.length();
        if (bad == "-" && (len != el || memcmp(b.data(), tmp, el) != 0))
          bad = sgn ? std::to_string(sv) : std::to_string(uv);
        for (int i = 0; i < len; ++i) crc = tab[(crc ^ static_cast<unsigned char>(b.data()[i])) & 255] ^ (crc >> 8);
        crc = tab[(crc ^ 10u) & 255] ^ (crc >> 8);
        ++n;
      }
      printf("ok n=%" PRIu64 " h=%08x bad=%s\n", n, crc ^ 0xffffffffu, bad.c_str());
    }
    else if (k == "FM")
    {
      // C++ side only: Fmt is snprintf into 32 bytes; checked against snprintf here
      int id = atoi(w[1].c_str());
      int el = 0;
      string got;
      if (id == 0) { int v = static_cast<int>(parseS(w[2])); muduo::Fmt f("%d", v); got.assign(f.data(), f.length()); el = snprintf(tmp, sizeof tmp, "%d", v); }
      else if (id == 1) { int v = static_cast<int>(parseS(w[2])); muduo::Fmt f(".%06dZ ", v); got.assign(f.data(), f.length()); el = snprintf(tmp, sizeof tmp, ".%06dZ ", v); }
      else if (id == 2) { long long v = parseS(w[2]); muduo::Fmt f("%016llx", v); got.assign(f.data(), f.length()); el = snprintf(tmp, sizeof tmp, "%016llx", v); }
      else { uint64_t bits = parseU(w[2]); double d; memcpy(&d, &bits, 8); muduo::Fmt f("%8.3f", d); got.assign(f.data(), f.length()); el = snprintf(tmp, sizeof tmp, "%8.3f", d); }
      printf("ok |nd fmt=%s snprintf=%s\n", vh::hexOf(got).c_str(), vh::hexOf(string(tmp, el)).c_str());
    }
    else if (k == "SI" || k == "IEC")
    {
      int64_t n = parseS(w[1]);
      if (n < 0 || !inRange("ll", w[1])) { printf("rejected\n"); continue; }
      string r = (k == "SI") ? muduo::formatSI(n) : muduo::formatIEC(n);
      printf("ok %s\n", vh::hexOf(r).c_str());
    }
    else if (k == "LV") { Logger::setLogLevel(static_cast<Logger::LogLevel>(atoi(w[1].c_str()))); printf("ok\n"); }
    else if (k == "TZ")
    {
      if (w[1] == "none") Logger::setTimeZone(muduo::TimeZone());
      else Logger::setTimeZone(muduo::TimeZone(atoi(w[1].c_str()), "VERIF"));
      printf("ok\n");
    }
    else if (k == "LOG")
    {
      std::map<string, string> kv;
      size_t i = 2;
      for (; i < w.size() && w[i] != "|"; ++i)
      {
        size_t e = w[i].find('=');
        kv[w[i].substr(0, e)] = w[i].substr(e + 1);
      }
      int level = atoi(w[1].c_str());
      int err = atoi(kv["errno"].c_str());
      string path = vh::bytesOfSpec(kv["path"]);
      string func = kv["func"] == "-" ? string() : vh::bytesOfSpec(kv["func"]);
      int lineNo = atoi(kv["line"].c_str());
      g_virtTime = true; g_us = parseS(kv["t"]);
      g_virtTid = true; g_tid = atol(kv["tid"].c_str());
      muduo::CurrentThread::t_cachedTid = 0;          // force cacheTid() to run again (as after fork)
      g_captured.clear();
      bool rejected = false;
      {
        std::unique_ptr<Logger> lg;
        Logger::SourceFile sf(path.c_str());
        if (err != 0) { errno = err; lg.reset(new Logger(sf, lineNo, false)); }
        else if (kv["func"] != "-") lg.reset(new Logger(sf, lineNo, static_cast<Logger::LogLevel>(level), func.c_str()));
        else if (level == Logger::INFO) lg.reset(new Logger(sf, lineNo));
        else lg.reset(new Logger(sf, lineNo, static_cast<Logger::LogLevel>(level)));
        // items separated by ';'
        std::vector<string> it;
        for (size_t j = i + 1; j <= w.size(); ++j)
        {
          if (j == w.size() || w[j] == ";")
          {
            if (!it.empty() && !streamItem(lg->stream(), it, 0)) rejected = true;
            it.clear();
          }
          else it.push_back(w[j]);
        }
      }
      g_virtTime = false; g_virtTid = false;
      muduo::CurrentThread::t_cachedTid = 0;
      if (rejected) printf("rejected\n");
      else printf("ok n=%zu h=%s line=%s\n", g_captured.size(), vh::fnv(g_captured).c_str(),
                  g_captured.size() <= 300 ? vh::hexOf(g_captured).c_str() : "long");
    }
    else if (k == "M")
    {
      int m = atoi(w[1].c_str());
      g_virtTime = true; g_us = 1700000000123456LL;
      g_virtTid = true; g_tid = 4711;
      muduo::CurrentThread::t_cachedTid = 0;
      g_captured.clear();
      g_emitted = 0;
      if (m == 5 || m == 7)
      {
        int fds[2];
        if (::pipe(fds) != 0) { perror("pipe"); return 3; }
        fflush(stdout);
        pid_t pid = ::fork();
        if (pid == 0)
        {
          ::close(fds[0]);
          g_pipeFd = fds[1];
          Logger::setOutput(pipeOutput);
          muduo::CurrentThread::t_cachedTid = 0;
          macroSite(m);
          _exit(0);   // not reached: FATAL aborts
        }
        ::close(fds[1]);
        g_captured = readAll(fds[0]);
        ::close(fds[0]);
        int st = 0;
        ::waitpid(pid, &st, 0);
        g_emitted = g_captured.empty() ? 0 : 1;
        bool aborted = WIFSIGNALED(st) || (WIFEXITED(st) && WEXITSTATUS(st) != 0);
        printf("ok emitted=%d line=%s%s\n", g_emitted, g_captured.empty() ? "-" : vh::hexOf(g_captured).c_str(),
               aborted ? "" : " NOT-ABORTED");
      }
      else
      {
        macroSite(m);
        printf("ok emitted=%d line=%s\n", g_emitted, g_captured.empty() ? "-" : vh::hexOf(g_captured).c_str());
      }
      g_virtTime = false; g_virtTid = false;
      muduo::CurrentThread::t_cachedTid = 0;
    }
    else if (k == "SE")
    {
      // strerror_tl: GNU strerror_r returns either a static string (known errno) or the text it wrote into t_errnobuf
      int e = atoi(w[1].c_str());
      const char* r = muduo::strerror_tl(e);
      bool inbuf = (r >= muduo::t_errnobuf && r < muduo::t_errnobuf + sizeof muduo::t_errnobuf);
      size_t n = strlen(r);
      printf("ok |nd where=%s len=%zu size=%zu text=%s\n", inbuf ? "buf" : "static", n, sizeof muduo::t_errnobuf, vh::hexOf(string(r, n)).c_str());
    }
    else if (k == "NOW")
    {
      // true metadata: real clock, real thread ids.  Nothing here is scripted.
      muduo::CurrentThread::t_cachedTid = 0;
      muduo::t_lastSecond = 0;
      TrueSample a = logTrue("main");
      TrueSample a2 = logTrue("main-again");      // second line: cached second text, cached tid
      TrueSample b;
      {
        muduo::Thread th([&b] { b = logTrue("thread"); }, "verif");
        th.start();
        th.join();
      }
      int fds[2];
      if (::pipe(fds) != 0) { perror("pipe"); return 3; }
      fflush(stdout);
      pid_t pid = ::fork();
      if (pid == 0)
      {
        ::close(fds[0]);
        TrueSample c = logTrue("child");           // tid must be the child's: cache reset by the atfork handler
        TrueSample d;
        {
          muduo::Thread th([&d] { d = logTrue("child-thread"); }, "verifc");
          th.start();
          th.join();
        }
        std::ostringstream os;
        os << c.t0 << ' ' << c.t1 << ' ' << c.tid << ' ' << vh::hexOf(c.line) << ' '
           << d.t0 << ' ' << d.t1 << ' ' << d.tid << ' ' << vh::hexOf(d.line) << '\n';
        string sOut = os.str();
        ssize_t n = ::write(fds[1], sOut.data(), sOut.size()); (void)n;
        _exit(0);
      }
      ::close(fds[1]);
      string childOut = readAll(fds[0]);
      ::close(fds[0]);
      int st = 0;
      ::waitpid(pid, &st, 0);
      TrueSample c, d;
      {
        std::istringstream is(childOut);
        string h1, h2;
        is >> c.t0 >> c.t1 >> c.tid >> h1 >> d.t0 >> d.t1 >> d.tid >> h2;
        c.line = vh::bytesOfSpec(h1);
        d.line = vh::bytesOfSpec(h2);
      }
      printf("ok main=%d main2=%d thread=%d child=%d childthread=%d |nd pid=%d child=%d", tidFlag(a), tidFlag(a2), tidFlag(b), tidFlag(c), tidFlag(d),
             static_cast<int>(::getpid()), static_cast<int>(pid));
      printTrue("main", a); printTrue("main2", a2); printTrue("thread", b); printTrue("child", c); printTrue("childthread", d);
      printf("\n");
    }
    else
    {
      int before = ls->buffer().length();
      bool ok = streamItem(*ls, w, 0);
      if (ok) showStream("ok", *ls, before);
      else printf("rejected\n");
    }
  }
  return 0;
}
