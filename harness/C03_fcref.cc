// C03_fcref: failing-input finder for the structure facts forceClose_queues_strong_ref /
// forceCloseWithDelay_holds_weak_ref (Conn_GenTieLife.source_structure_life), on the REAL TcpConnection
// compiled from VERIF_REPO under ASan.  The main thread owns the EventLoop and plays it step by step
// (loop() is never run).
//
// scenario fc-drop:  an established connection; forceClose() (its functor is queued); the caller then
//   releases the LAST user reference (what ~TcpClient's unique branch and TcpServer's map erase do);
//   the loop runs its pending functors.  C03: forceClose() brings the connection DOWN exactly once --
//   the queued functor must own the connection, so the object is still alive when the functor runs, DOWN
//   and the close callback are delivered, and only then is the object destroyed.
// scenario fcd-drop: forceCloseWithDelay(1.0) on an established connection which is then closed and
//   destroyed by its owner; the timer must not keep the object alive and firing it later is a no-op.
//
// stdout (flushed line by line; a crash leaves the tail missing):
//   fc-drop alive_after_request=<0|1>
//   fc-drop alive_until_functor=<0|1> down=<n> close=<n> destroyed_after=<0|1>
//   fcd-drop destroyed_before_timer=<0|1> down=<n> timer_fired_quietly=1
#include <stdio.h>
#include <sys/socket.h>
#include <unistd.h>

#include <functional>
#include <memory>
#include <vector>

#define private public
#define protected public
#include "muduo/net/TcpConnection.h"
#include "muduo/net/EventLoop.h"
#include "muduo/net/Channel.h"
#include "muduo/net/TimerQueue.h"
#include "muduo/net/Timer.h"
#include "muduo/net/InetAddress.h"
#include "muduo/base/Logging.h"
#undef private
#undef protected

using namespace muduo;
using namespace muduo::net;

static int g_up = 0, g_down = 0, g_close = 0;

static void onConnection(const TcpConnectionPtr& c)
{
  if (c->connected()) ++g_up; else ++g_down;
}

static TcpConnectionPtr makeConn(EventLoop* loop, const char* name, int* peer)
{
  int sv[2];
  if (::socketpair(AF_UNIX, SOCK_STREAM | SOCK_NONBLOCK | SOCK_CLOEXEC, 0, sv) != 0) { perror("socketpair"); _exit(3); }
  *peer = sv[1];
  InetAddress a(1), b(2);
  TcpConnectionPtr conn(new TcpConnection(loop, name, sv[0], a, b));
  conn->setConnectionCallback(onConnection);
  // what TcpServer::removeConnectionInLoop / TcpClient::removeConnection do
  conn->setCloseCallback([loop](const TcpConnectionPtr& c) {
    ++g_close;
    loop->queueInLoop(std::bind(&TcpConnection::connectDestroyed, c));
  });
  conn->connectEstablished();
  return conn;
}

int main()
{
  Logger::setLogLevel(Logger::WARN);
  EventLoop loop;
  {
    int peer = -1;
    g_up = g_down = g_close = 0;
    TcpConnectionPtr conn = makeConn(&loop, "fc", &peer);
    std::weak_ptr<TcpConnection> w(conn);
    conn->forceClose();
    printf("fc-drop alive_after_request=%d\n", w.expired() ? 0 : 1);
    fflush(stdout);
    conn.reset();                       // the last user reference goes away while the functor is queued
    const int alive = w.expired() ? 0 : 1;
    loop.doPendingFunctors();           // forceCloseInLoop -> handleClose -> DOWN, close callback
    loop.doPendingFunctors();           // connectDestroyed queued by the close callback
    printf("fc-drop alive_until_functor=%d down=%d close=%d destroyed_after=%d\n", alive, g_down, g_close, w.expired() ? 1 : 0);
    fflush(stdout);
    ::close(peer);
  }
  {
    int peer = -1;
    g_up = g_down = g_close = 0;
    TcpConnectionPtr conn = makeConn(&loop, "fcd", &peer);
    std::weak_ptr<TcpConnection> w(conn);
    conn->forceCloseWithDelay(1.0);
    conn->forceClose();
    conn.reset();
    loop.doPendingFunctors();
    loop.doPendingFunctors();
    const int gone = w.expired() ? 1 : 0;
    // fire every registered timer now, as TimerQueue::handleRead would a second later
    std::vector<TimerQueue::Entry> expired = loop.timerQueue_->getExpired(addTime(Timestamp::now(), 10.0));
    for (size_t i = 0; i < expired.size(); ++i) expired[i].second->run();
    loop.timerQueue_->reset(expired, addTime(Timestamp::now(), 10.0));
    printf("fcd-drop destroyed_before_timer=%d down=%d timer_fired_quietly=1\n", gone, g_down);
    fflush(stdout);
    ::close(peer);
  }
  return 0;
}
