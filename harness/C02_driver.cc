// C02 driver: free-running life-cycle scenarios over the REAL TcpServer (0..3 io threads) with raw
// blocking client sockets driven by this thread, server-side actions issued from inside callbacks
// (loop thread) and from this thread (foreign).  Prints the per-connection callback sequences with
// thread ids, object destruction (weak_ptr expiry), the descriptor census and WARN+ log lines.
//   case <id> <iothreads>
//     C i | W i n | CS i cmd | FA i cmd | CL i | RST i | HC i | RD i | DESTROY | SETTLE
//   end
//   cmd ::= send:<n> | shutdown | force | forcedelay | stopread | startread
#include <errno.h>
#include <dirent.h>
#include <fcntl.h>
#include <poll.h>
#include <signal.h>
#include <sys/socket.h>
#include <netinet/in.h>
#include <netinet/tcp.h>
#include <unistd.h>

#include <iostream>
#include <map>
#include <memory>
#include <mutex>
#include <set>

#include "muduo/net/TcpServer.h"
#include "muduo/net/TcpConnection.h"
#include "muduo/net/EventLoop.h"
#include "muduo/net/EventLoopThread.h"
#include "muduo/net/InetAddress.h"
#include "muduo/base/Logging.h"
#include "muduo/base/CountDownLatch.h"
#include "muduo/base/CurrentThread.h"
#include "common.h"

using namespace muduo;
using namespace muduo::net;
using std::string;

struct Ev { string conn; string kind; int tid; };
static std::mutex g_mu;
static std::vector<Ev> g_log;
static std::vector<string> g_warn;
static std::map<int, TcpConnectionPtr> g_byPort;       // client local port -> server-side connection (user reference)
static std::map<string, std::weak_ptr<TcpConnection>> g_weak;
static std::set<int> g_loopTids;

static void logOutput(const char* msg, int len)
{
  string s(msg, static_cast<size_t>(len));
  if (s.find(" WARN ") != string::npos || s.find(" ERROR ") != string::npos || s.find(" FATAL ") != string::npos)
  {
    std::lock_guard<std::mutex> l(g_mu);
    g_warn.push_back(s);
  }
}

static void record(const TcpConnectionPtr& c, const string& kind)
{
  std::lock_guard<std::mutex> l(g_mu);
  g_log.push_back(Ev{c->name(), kind, CurrentThread::tid()});
}

static void doCmd(const TcpConnectionPtr& c, const string& cmd)
{
  if (cmd.compare(0, 5, "send:") == 0) { string d(static_cast<size_t>(atol(cmd.c_str() + 5)), 'x'); c->send(d.data(), static_cast<int>(d.size())); }
  else if (cmd == "shutdown") c->shutdown();
  else if (cmd == "force") c->forceClose();
  else if (cmd == "forcedelay") c->forceCloseWithDelay(0.02);
  else if (cmd == "stopread") c->stopRead();
  else if (cmd == "startread") c->startRead();
}

static void onConnection(const TcpConnectionPtr& c)
{
  record(c, c->connected() ? "Up" : "Down");
  std::lock_guard<std::mutex> l(g_mu);
  if (c->connected())
  {
    g_byPort[c->peerAddress().port()] = c;
    g_weak[c->name()] = c;
  }
}

static void onMessage(const TcpConnectionPtr& c, Buffer* b, Timestamp)
{
  string all = b->retrieveAllAsString();
  record(c, "Msg:" + std::to_string(all.size()));
  // commands are framed as "!<cmd>;"
  size_t p = 0;
  while ((p = all.find('!', p)) != string::npos)
  {
    size_t e = all.find(';', p);
    if (e == string::npos) break;
    doCmd(c, all.substr(p + 1, e - p - 1));
    p = e + 1;
  }
}

static int countFds()
{
  int n = 0;
  DIR* d = opendir("/proc/self/fd");
  while (readdir(d)) ++n;
  closedir(d);
  return n;
}

static bool waitFor(const std::function<bool()>& pred, int ms)
{
  for (int i = 0; i < ms; ++i)
  {
    { std::lock_guard<std::mutex> l(g_mu); if (pred()) return true; }
    ::usleep(1000);
  }
  std::lock_guard<std::mutex> l(g_mu);
  return pred();
}

int main()
{
  Logger::setOutput(logOutput);
  signal(SIGPIPE, SIG_IGN);
  string line;
  std::unique_ptr<EventLoopThread> baseThread;
  EventLoop* base = NULL;
  TcpServer* server = NULL;
  std::map<int, int> clientFd, clientPort;
  uint16_t port = 0;
  int fds0 = 0;
  string cid;
  while (std::getline(std::cin, line))
  {
    std::vector<string> w = vh::splitWs(line);
    if (w.empty()) continue;
    const string& k = w[0];
    if (k == "case")
    {
      cid = w[1];
      fds0 = countFds();
      g_log.clear(); g_warn.clear(); g_byPort.clear(); g_weak.clear(); g_loopTids.clear();
      clientFd.clear(); clientPort.clear();
      baseThread.reset(new EventLoopThread());
      base = baseThread->startLoop();
      int nthreads = atoi(w[2].c_str());
      {
        CountDownLatch again(1);
        base->runInLoop([&]() {
          int s = ::socket(AF_INET, SOCK_STREAM, 0);
          struct sockaddr_in sa; memset(&sa, 0, sizeof sa); sa.sin_family = AF_INET; sa.sin_addr.s_addr = htonl(INADDR_LOOPBACK);
          ::bind(s, reinterpret_cast<struct sockaddr*>(&sa), sizeof sa);
          socklen_t sl = sizeof sa; ::getsockname(s, reinterpret_cast<struct sockaddr*>(&sa), &sl);
          port = ntohs(sa.sin_port);
          ::close(s);
          InetAddress addr(port, true);
          server = new TcpServer(base, addr, "srv", TcpServer::kReusePort);
          server->setThreadNum(nthreads);
          server->setConnectionCallback(onConnection);
          server->setMessageCallback(onMessage);
          server->setThreadInitCallback([](EventLoop*) { std::lock_guard<std::mutex> l(g_mu); g_loopTids.insert(CurrentThread::tid()); });
          server->start();
          { std::lock_guard<std::mutex> l(g_mu); g_loopTids.insert(CurrentThread::tid()); }
          again.countDown();
        });
        again.wait();
      }
      printf("case %s\n", cid.c_str());
      continue;
    }
    if (k == "end")
    {
      // user releases its references, owner goes away, loops stop.
      // Assumption of this property (DESIGN C02, residue R): the TcpServer object is not destroyed while a
      // close of one of its connections is being processed on ANOTHER thread (removeConnection binds the raw
      // `this`, "FIXME: unsafe").  With io threads the server is therefore deleted only after every connection
      // has reported DOWN and has been destroyed; with 0 io threads everything runs on the base loop thread and
      // a DESTROY may come at any point.
      for (auto& c : clientFd) if (c.second >= 0) ::close(c.second);
      if (server)
      {
        waitFor([]() {
          std::map<string, int> ups, downs;
          for (const Ev& e : g_log) { if (e.kind == "Up") ++ups[e.conn]; if (e.kind == "Down") ++downs[e.conn]; }
          for (auto& u : ups) if (downs[u.first] < 1) return false;
          return true; }, 3000);
      }
      ::usleep(20 * 1000);
      { std::lock_guard<std::mutex> l(g_mu); g_byPort.clear(); }
      if (server)
        waitFor([]() { for (auto& w : g_weak) if (!w.second.expired()) return false; return true; }, 3000);
      if (server)
      {
        CountDownLatch gone(1);
        base->runInLoop([&]() { delete server; server = NULL; gone.countDown(); });
        gone.wait();
      }
      ::usleep(60 * 1000);      // let io loops run the queued connectDestroyed / delayed closes
      baseThread.reset();
      // report
      std::map<string, std::vector<Ev>> per;
      for (const Ev& e : g_log) per[e.conn].push_back(e);
      for (auto& p : per)
      {
        string s;
        std::set<int> tids;
        for (const Ev& e : p.second) { if (!s.empty()) s += ","; s += e.kind; tids.insert(e.tid); }
        bool onLoop = true;
        for (int t : tids) onLoop = onLoop && g_loopTids.count(t);
        bool expired = g_weak.count(p.first) ? g_weak[p.first].expired() : true;
        printf("conn %s seq=%s threads=%zu onloop=%d destroyed=%d\n", p.first.substr(p.first.find('#')).c_str(), s.c_str(), tids.size(), onLoop ? 1 : 0, expired ? 1 : 0);
      }
      size_t badfd = 0;
      for (const string& l : g_warn)
        if (l.find("Bad file descriptor") != string::npos || l.find("epoll_ctl op") != string::npos || l.find("EPOLL_CTL") != string::npos) ++badfd;
      printf("fds=%d badfd=%zu\n", countFds() - fds0, badfd);
      for (size_t i = 0; i < g_warn.size(); ++i)
        if (g_warn[i].find("Bad file descriptor") != string::npos || g_warn[i].find("epoll_ctl") != string::npos) { printf("log %s", g_warn[i].c_str()); break; }
      printf("end\n");
      fflush(stdout);
      continue;
    }
    int i = w.size() > 1 ? atoi(w[1].c_str()) : -1;
    if (k == "C")
    {
      int fd = ::socket(AF_INET, SOCK_STREAM | SOCK_CLOEXEC, 0);
      struct sockaddr_in sa; memset(&sa, 0, sizeof sa); sa.sin_family = AF_INET; sa.sin_port = htons(port); sa.sin_addr.s_addr = htonl(INADDR_LOOPBACK);
      if (::connect(fd, reinterpret_cast<struct sockaddr*>(&sa), sizeof sa) != 0) { perror("connect"); return 3; }
      socklen_t sl = sizeof sa; ::getsockname(fd, reinterpret_cast<struct sockaddr*>(&sa), &sl);
      clientFd[i] = fd; clientPort[i] = ntohs(sa.sin_port);
      int p = clientPort[i];
      waitFor([p]() { return g_byPort.count(p) > 0; }, 1000);
    }
    else if (k == "W") { string d(static_cast<size_t>(atol(w[2].c_str())), 'd'); if (clientFd[i] >= 0) (void)!::write(clientFd[i], d.data(), d.size()); ::usleep(1500); }
    else if (k == "CS") { string d = "!" + w[2] + ";"; if (clientFd[i] >= 0) (void)!::write(clientFd[i], d.data(), d.size()); ::usleep(1500); }
    else if (k == "FA")
    {
      TcpConnectionPtr c;
      { std::lock_guard<std::mutex> l(g_mu); auto it = g_byPort.find(clientPort[i]); if (it != g_byPort.end()) c = it->second; }
      if (c) doCmd(c, w[2]);
    }
    else if (k == "CL") { if (clientFd[i] >= 0) { ::close(clientFd[i]); clientFd[i] = -1; } ::usleep(1500); }
    else if (k == "RST")
    {
      if (clientFd[i] >= 0) { struct linger lg = {1, 0}; ::setsockopt(clientFd[i], SOL_SOCKET, SO_LINGER, &lg, sizeof lg); ::close(clientFd[i]); clientFd[i] = -1; }
      ::usleep(1500);
    }
    else if (k == "HC") { if (clientFd[i] >= 0) ::shutdown(clientFd[i], SHUT_WR); ::usleep(1500); }
    else if (k == "RD")
    {
      if (clientFd[i] >= 0)
      {
        char buf[65536];
        struct pollfd p = {clientFd[i], POLLIN, 0};
        while (::poll(&p, 1, 20) > 0) { ssize_t n = ::read(clientFd[i], buf, sizeof buf); if (n <= 0) break; }
      }
    }
    else if (k == "DESTROY")
    {
      if (server)
      {
        CountDownLatch gone(1);
        base->runInLoop([&]() { delete server; server = NULL; gone.countDown(); });
        gone.wait();
      }
    }
    else if (k == "SETTLE") ::usleep(40 * 1000);
    else { fprintf(stderr, "bad op %s\n", k.c_str()); return 2; }
  }
  return 0;
}
