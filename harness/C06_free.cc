// C06_free: free-running comparison against the wall clock.  ONE real muduo::net::EventLoop runs loop()
// on the main thread with the real timerfd, the real clock and the real poller; nothing is interposed.
// A program of timers is scheduled through the public API (runAt / runAfter / runEvery / cancel) from the
// loop thread (before loop() and from inside timer callbacks) and from a foreign thread at given offsets.
// Every add, callback run and processed cancel is recorded with gettimeofday timestamps; the Python side
// (lib/props/C06.py: free_oracle) checks the property text against that trace: never early, one-shots at
// most once (exactly once when their deadline lies well before the end), k-th run of a repeater no earlier
// than first deadline + (k-1) intervals, deadline order among one-shots, a processed cancel stops the timer.
// Only lower bounds are hard checks (lateness is the platform's).
//
// stdin (times in microseconds):
//   case <id> free <min_us> <timeout_us>   the program ends when min_us have passed AND every timer that was added and
//                                      never the target of a cancel call has run at least once -- or, at the latest,
//                                      after timeout_us (generous: only a lost timer or a hopelessly slow machine gets
//                                      there; the quit record says which).  No fixed sleep decides "none lost".
//   A  <tag> <delay> <iv>              added on the loop thread before loop() starts (iv > 0: runEvery(iv), delay ignored)
//   FA <tag> <delay> <iv> <at>         added by the foreign thread at t0 + at
//   FC <tag> <at>                      cancelled by the foreign thread at t0 + at; a marker functor queued behind the
//                                      cancel records when the loop has processed it
//   N  <cbtag> <tag> <delay> <iv>      the first callback run of <cbtag> adds <tag> on the loop thread
//   X  <cbtag> <victim>                the first callback run of <cbtag> cancels <victim> (may be itself)
//   end
// stdout: case <id> / one line per record / end
//   add <tag> <seq> <t_before> <t_after> <when_lo> <when_hi> <iv> <L|F>     (times relative to t0)
//   run <tag> <seq|-1> <t_run> <filed_deadline|-1> <L|F>    L: the callback ran on the thread that owns the loop
//                                      (EventLoop::isInLoopThread(), i.e. threadId_ == CurrentThread::tid()); added for
//                                      REVIEW_B B-10: the clause "runs ... on the loop thread" of C06
//   cancel <tag> <t_call> <L|F>        the cancel call returned (L: on the loop thread = processed)
//   processed <tag> <t>                 the marker behind a foreign cancel ran on the loop thread
//   quit <t> <done|timeout>
#include <stdint.h>
#include <stdio.h>
#include <stdlib.h>
#include <unistd.h>

#include <algorithm>
#include <functional>
#include <iostream>
#include <map>
#include <mutex>
#include <string>
#include <thread>
#include <vector>

#define private public
#define protected public
#include "muduo/net/EventLoop.h"
#include "muduo/net/TimerQueue.h"
#include "muduo/net/Timer.h"
#include "muduo/net/TimerId.h"
#include "muduo/base/Logging.h"
#include "muduo/base/Timestamp.h"
#undef private
#undef protected

#include "common.h"

using namespace muduo;
using namespace muduo::net;
using std::string;

struct Op { string k; int cbtag; int tag; int64_t delay, iv, at; };

static EventLoop* g_loop = NULL;
static int64_t g_t0 = 0, g_base = 0;
static std::mutex g_mu;                       // ids + trace
static std::map<int, TimerId> g_ids;
static std::map<int, int> g_runs;
static std::map<int, bool> g_cancelCalled;
static std::vector<string> g_trace;
static std::map<int, std::vector<Op> > g_nested;   // cbtag -> ops of its first run

static int64_t nowUs() { return Timestamp::now().microSecondsSinceEpoch(); }
static string i64(int64_t v) { return std::to_string(static_cast<long long>(v)); }
static void rec(const string& s) { std::lock_guard<std::mutex> lk(g_mu); g_trace.push_back(s); }

static void onTimer(int tag);

static void doAdd(int tag, int64_t delay, int64_t iv, bool foreign)
{
  TimerCallback cb = std::bind(&onTimer, tag);
  int64_t tb = nowUs();
  TimerId id;
  int64_t lo, hi;
  if (iv > 0)
  {
    id = g_loop->runEvery(static_cast<double>(iv) / 1e6, cb);
    int64_t ta = nowUs();
    lo = tb + iv; hi = ta + iv;
  }
  else if (tag % 2 == 0)
  {
    id = g_loop->runAt(Timestamp(tb + delay), cb);
    lo = hi = tb + delay;
  }
  else
  {
    id = g_loop->runAfter(static_cast<double>(delay) / 1e6, cb);
    int64_t ta = nowUs();
    lo = tb + delay - 1; hi = ta + delay;          // -1: the double conversion truncates
  }
  int64_t ta = nowUs();
  {
    std::lock_guard<std::mutex> lk(g_mu);
    g_ids[tag] = id;
    g_trace.push_back("add " + i64(tag) + " " + i64(id.sequence_ - g_base) + " " + i64(tb - g_t0) + " " + i64(ta - g_t0) + " "
                      + i64(lo - g_t0) + " " + i64(hi - g_t0) + " " + i64(iv) + (foreign ? " F" : " L"));
  }
}

static bool idOf(int tag, TimerId* id)
{
  std::lock_guard<std::mutex> lk(g_mu);
  std::map<int, TimerId>::const_iterator it = g_ids.find(tag);
  if (it == g_ids.end()) return false;
  *id = it->second;
  return true;
}

static void onTimer(int tag)
{
  int64_t t = nowUs();
  TimerId id;
  bool known = idOf(tag, &id);
  // the Timer object is alive during its own callback: the deadline it was filed under.  restart() has not run yet.
  int64_t dl = known ? id.timer_->expiration_.microSecondsSinceEpoch() - g_t0 : -1;
  int first;
  {
    std::lock_guard<std::mutex> lk(g_mu);
    first = g_runs[tag]++;
    g_trace.push_back("run " + i64(tag) + " " + i64(known ? id.sequence_ - g_base : -1) + " " + i64(t - g_t0) + " " + i64(dl)
                      + (g_loop->isInLoopThread() ? " L" : " F"));
  }
  if (first == 0)
  {
    std::map<int, std::vector<Op> >::const_iterator it = g_nested.find(tag);
    if (it != g_nested.end())
    {
      for (size_t i = 0; i < it->second.size(); ++i)
      {
        const Op& o = it->second[i];
        if (o.k == "N") doAdd(o.tag, o.delay, o.iv, false);
        else if (o.k == "X")
        {
          TimerId v;
          if (idOf(o.tag, &v))
          {
            { std::lock_guard<std::mutex> lk(g_mu); g_cancelCalled[o.tag] = true; }
            g_loop->cancel(v);
            rec("cancel " + i64(o.tag) + " " + i64(nowUs() - g_t0) + " L");
          }
        }
      }
    }
  }
}

static void marker(int tag) { rec("processed " + i64(tag) + " " + i64(nowUs() - g_t0)); }

static bool g_timedOut = false;
// every timer that was added and never the target of a cancel call has run at least once
static bool allRan()
{
  std::lock_guard<std::mutex> lk(g_mu);
  for (std::map<int, TimerId>::const_iterator it = g_ids.begin(); it != g_ids.end(); ++it)
  {
    if (g_cancelCalled.count(it->first)) continue;
    std::map<int, int>::const_iterator r = g_runs.find(it->first);
    if (r == g_runs.end() || r->second == 0) return false;
  }
  return true;
}

static void foreignThread(std::vector<Op> ops, int64_t duration, int64_t timeout)
{
  std::sort(ops.begin(), ops.end(), [](const Op& a, const Op& b) { return a.at < b.at; });
  for (size_t i = 0; i < ops.size(); ++i)
  {
    int64_t w = g_t0 + ops[i].at - nowUs();
    if (w > 0) usleep(static_cast<useconds_t>(w));
    if (ops[i].k == "FA") doAdd(ops[i].tag, ops[i].delay, ops[i].iv, true);
    else
    {
      TimerId v;
      if (idOf(ops[i].tag, &v))
      {
        { std::lock_guard<std::mutex> lk(g_mu); g_cancelCalled[ops[i].tag] = true; }
        g_loop->cancel(v);
        rec("cancel " + i64(ops[i].tag) + " " + i64(nowUs() - g_t0) + " F");
        g_loop->queueInLoop(std::bind(&marker, ops[i].tag));     // FIFO: runs after the cancel has been processed
      }
    }
  }
  int64_t w = g_t0 + duration - nowUs();
  if (w > 0) usleep(static_cast<useconds_t>(w));
  // wait for the timers, not for the clock: a slow or loaded machine only makes this longer
  while (!allRan())
  {
    if (nowUs() - g_t0 > timeout) { g_timedOut = true; break; }
    usleep(2000);
  }
  g_loop->quit();
}

static void nullOutput(const char*, int) {}
static void nullFlush() {}

int main()
{
  Logger::setOutput(nullOutput);
  Logger::setFlush(nullFlush);
  string line, cid;
  int64_t duration = 0, timeout = 20000000;
  std::vector<Op> initial, foreign;
  while (std::getline(std::cin, line))
  {
    std::vector<string> w = vh::splitWs(line);
    if (w.empty()) continue;
    const string& k = w[0];
    if (k == "case")
    {
      cid = w.size() > 1 ? w[1] : "?";
      duration = w.size() > 3 ? strtoll(w[3].c_str(), NULL, 10) : 300000;
      timeout = w.size() > 4 ? strtoll(w[4].c_str(), NULL, 10) : 20000000;
      initial.clear(); foreign.clear(); g_nested.clear(); g_ids.clear(); g_runs.clear(); g_trace.clear();
      g_cancelCalled.clear(); g_timedOut = false;
      continue;
    }
    if (k == "end")
    {
      printf("case %s\n", cid.c_str());
      fflush(stdout);
      EventLoop loop;
      g_loop = &loop;
      g_base = Timer::numCreated();
      g_t0 = nowUs();
      for (size_t i = 0; i < initial.size(); ++i) doAdd(initial[i].tag, initial[i].delay, initial[i].iv, false);
      std::thread F(foreignThread, foreign, duration, timeout);
      loop.loop();
      F.join();
      rec("quit " + i64(nowUs() - g_t0) + (g_timedOut ? " timeout" : " done"));
      for (size_t i = 0; i < g_trace.size(); ++i) printf("%s\n", g_trace[i].c_str());
      printf("end\n");
      fflush(stdout);
      g_loop = NULL;
      continue;
    }
    Op o; o.k = k; o.cbtag = 0; o.tag = 0; o.delay = o.iv = o.at = 0;
    if (k == "A" && w.size() >= 4) { o.tag = atoi(w[1].c_str()); o.delay = strtoll(w[2].c_str(), NULL, 10); o.iv = strtoll(w[3].c_str(), NULL, 10); initial.push_back(o); }
    else if (k == "FA" && w.size() >= 5) { o.tag = atoi(w[1].c_str()); o.delay = strtoll(w[2].c_str(), NULL, 10); o.iv = strtoll(w[3].c_str(), NULL, 10); o.at = strtoll(w[4].c_str(), NULL, 10); foreign.push_back(o); }
    else if (k == "FC" && w.size() >= 3) { o.tag = atoi(w[1].c_str()); o.at = strtoll(w[2].c_str(), NULL, 10); foreign.push_back(o); }
    else if (k == "N" && w.size() >= 5) { o.cbtag = atoi(w[1].c_str()); o.tag = atoi(w[2].c_str()); o.delay = strtoll(w[3].c_str(), NULL, 10); o.iv = strtoll(w[4].c_str(), NULL, 10); g_nested[o.cbtag].push_back(o); }
    else if (k == "X" && w.size() >= 3) { o.cbtag = atoi(w[1].c_str()); o.tag = atoi(w[2].c_str()); g_nested[o.cbtag].push_back(o); }
    else { fprintf(stderr, "C06_free: bad line: %s\n", line.c_str()); return 2; }
  }
  return 0;
}
