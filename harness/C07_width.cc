// C07_width: failing-input finder for the obligation C07_sequence_width_faithful
// (coq/C07_Width.v: every place that carries a timer sequence keeps all values below 2^63).
// On the REAL classes compiled from VERIF_REPO: a timer A is registered and cancelled on the loop
// thread (its Timer object is freed).  The 2^32 - 1 timers a long-running process creates in the
// meantime are accounted for by advancing Timer::s_numCreated_ by that amount (nothing else is
// touched; the loop itself is never run, the main thread is the loop thread).  Then timers are added
// until the allocator hands A's block out again (victim B).  The property text: the stale id of A
// names no live timer, cancel(id_A) is a no-op and B stays registered.
//
// stdout: one line
//   ok seqA=<n> seqB=<n> same_addr=<0|1> erased=<0|1> attempts=<n>
#include <stdint.h>
#include <stdio.h>

#define private public
#define protected public
#include "muduo/net/EventLoop.h"
#include "muduo/net/TimerQueue.h"
#include "muduo/net/Timer.h"
#include "muduo/net/TimerId.h"
#undef private
#undef protected

using namespace muduo;
using namespace muduo::net;

static void nop() {}

int main()
{
  EventLoop loop;
  TimerId a = loop.runAfter(100000.0, nop);
  const int64_t seqA = a.sequence_;
  Timer* addrA = a.timer_;
  loop.cancel(a);  // loop thread: cancelInLoop runs at once, the Timer is deleted
  if (loop.timerQueue_->timers_.size() != 0) { printf("bad cancel-did-not-erase\n"); return 2; }

  const int64_t target = seqA + (static_cast<int64_t>(1) << 32) - 1;
  const int64_t delta = target - Timer::numCreated();
  Timer::s_numCreated_.add(static_cast<decltype(Timer::s_numCreated_.get())>(delta));

  TimerId b;
  int attempts = 0;
  bool same = false;
  // the very next Timer is the 2^32-th after A; with glibc malloc it also reuses A's block
  b = loop.runEvery(100000.0, nop);
  ++attempts;
  same = (b.timer_ == addrA);
  const int64_t seqB = b.sequence_;
  const size_t before = loop.timerQueue_->timers_.size();
  loop.cancel(a);  // the stale id
  const size_t after = loop.timerQueue_->timers_.size();
  printf("ok seqA=%lld seqB=%lld same_addr=%d erased=%d attempts=%d\n", static_cast<long long>(seqA),
         static_cast<long long>(seqB), same ? 1 : 0, before != after ? 1 : 0, attempts);
  return 0;
}
