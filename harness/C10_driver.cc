// C10 driver: runs the real muduo::net::Buffer on the same op lists as the extracted
// model (extract/C10_driver.ml) and prints the same observer line after every op.
// Case format (one token list per line):
//   case <id> <initialSize1> <initialSize2>     start a new case with two buffers
//   A <payload> | P <payload> | R n | RA | RS n | EW n | HW <payload> | UW n | SH n | SW
//   RF <payload-available-on-fd> | AI k x | PI k x | KI k | RI k | FC from | FE from
//   end
// Documented preconditions (the asserts on arguments) are tested here on the public
// observers; a violating op is reported "rejected" and not executed.
#include "muduo/net/Buffer.h"
#include "common.h"

#include <fcntl.h>
#include <unistd.h>
#include <iostream>
#include <memory>

using muduo::net::Buffer;
using std::string;

static void show(const char* status, const string& out, const Buffer& b)
{
  printf("%s %s r=%zu w=%zu p=%zu h=%s\n", status, out.c_str(), b.readableBytes(),
         b.writableBytes(), b.prependableBytes(), vh::fnv(b.peek(), b.readableBytes()).c_str());
}

static ssize_t doReadFd(Buffer& b, const string& avail)
{
  int fds[2];
  if (::pipe(fds) != 0) { perror("pipe"); exit(3); }
  long want = static_cast<long>(avail.size()) + 8192;
  if (want > 65536 && ::fcntl(fds[1], F_SETPIPE_SZ, want) < 0) { perror("F_SETPIPE_SZ"); exit(3); }
  ::fcntl(fds[1], F_SETFL, O_NONBLOCK);
  size_t off = 0;
  while (off < avail.size())
  {
    ssize_t n = ::write(fds[1], avail.data() + off, avail.size() - off);
    if (n <= 0) { perror("pipe write"); exit(3); }
    off += static_cast<size_t>(n);
  }
  ::close(fds[1]);   // so that an empty pipe reads as 0, like EOF
  int err = 0;
  ssize_t n = b.readFd(fds[0], &err);
  ::close(fds[0]);
  return n;
}

int main()
{
  std::unique_ptr<Buffer> a(new Buffer(0)), c(new Buffer(0));
  string line;
  char tmp[64];
  while (std::getline(std::cin, line))
  {
    std::vector<string> w = vh::splitWs(line);
    if (w.empty()) continue;
    const string& k = w[0];
    if (k == "case")
    {
      a.reset(new Buffer(static_cast<size_t>(atol(w[2].c_str()))));
      c.reset(new Buffer(static_cast<size_t>(atol(w[3].c_str()))));
      printf("case %s r=%zu w=%zu p=%zu h=%s\n", w[1].c_str(), a->readableBytes(), a->writableBytes(),
             a->prependableBytes(), vh::fnv(a->peek(), a->readableBytes()).c_str());
      continue;
    }
    if (k == "end") { printf("end\n"); fflush(stdout); continue; }
    Buffer& b = *a;
    size_t n = (w.size() > 1 && k != "A" && k != "P" && k != "HW" && k != "RF") ? static_cast<size_t>(atol(w[1].c_str())) : 0;
    if (k == "A") { string d = vh::bytesOfSpec(w[1]); b.append(d.data(), d.size()); show("ok", "-", b); }
    else if (k == "P")
    {
      string d = vh::bytesOfSpec(w[1]);
      if (d.size() <= b.prependableBytes()) { b.prepend(d.data(), d.size()); show("ok", "-", b); }
      else show("rejected", "-", b);
    }
    else if (k == "R") { if (n <= b.readableBytes()) { b.retrieve(n); show("ok", "-", b); } else show("rejected", "-", b); }
    else if (k == "RA") { b.retrieveAll(); show("ok", "-", b); }
    else if (k == "RS")
    {
      if (n <= b.readableBytes())
      {
        string s = b.retrieveAsString(n);
        show("ok", "b:" + vh::fnv(s) + ":" + std::to_string(s.size()), b);
      }
      else show("rejected", "-", b);
    }
    else if (k == "EW") { b.ensureWritableBytes(n); show("ok", "-", b); }
    else if (k == "HW")
    {
      string d = vh::bytesOfSpec(w[1]);
      if (d.size() <= b.writableBytes())
      {
        memcpy(b.beginWrite(), d.data(), d.size());   // what a codec does before hasWritten
        b.hasWritten(d.size());
        show("ok", "-", b);
      }
      else show("rejected", "-", b);
    }
    else if (k == "UW") { if (n <= b.readableBytes()) { b.unwrite(n); show("ok", "-", b); } else show("rejected", "-", b); }
    else if (k == "SH") { b.shrink(n); show("ok", "-", b); }
    else if (k == "SW") { a->swap(*c); show("ok", "-", *a); }
    else if (k == "RF")
    {
      string d = vh::bytesOfSpec(w[1]);
      ssize_t r = doReadFd(b, d);
      show("ok", std::to_string(r), b);
    }
    else if (k == "AI" || k == "PI")
    {
      long long x = strtoll(w[2].c_str(), NULL, 10);
      bool pre = (k == "PI");
      if (pre && n > b.prependableBytes()) { show("rejected", "-", b); continue; }
      switch (n)
      {
        case 1: pre ? b.prependInt8(static_cast<int8_t>(x)) : b.appendInt8(static_cast<int8_t>(x)); break;
        case 2: pre ? b.prependInt16(static_cast<int16_t>(x)) : b.appendInt16(static_cast<int16_t>(x)); break;
        case 4: pre ? b.prependInt32(static_cast<int32_t>(x)) : b.appendInt32(static_cast<int32_t>(x)); break;
        case 8: pre ? b.prependInt64(x) : b.appendInt64(x); break;
        default: fprintf(stderr, "bad width\n"); return 2;
      }
      show("ok", "-", b);
    }
    else if (k == "KI" || k == "RI")
    {
      if (n > b.readableBytes()) { show("rejected", "-", b); continue; }
      bool rd = (k == "RI");
      long long v = 0;
      switch (n)
      {
        case 1: v = rd ? b.readInt8() : b.peekInt8(); break;
        case 2: v = rd ? b.readInt16() : b.peekInt16(); break;
        case 4: v = rd ? b.readInt32() : b.peekInt32(); break;
        case 8: v = rd ? b.readInt64() : b.peekInt64(); break;
        default: fprintf(stderr, "bad width\n"); return 2;
      }
      snprintf(tmp, sizeof tmp, "i:%lld", v);
      show("ok", tmp, b);
    }
    else if (k == "FC" || k == "FE")
    {
      if (n > b.readableBytes()) { show("rejected", "-", b); continue; }
      const char* p = (k == "FC") ? b.findCRLF(b.peek() + n) : b.findEOL(b.peek() + n);
      if (p == NULL) show("ok", "none", b);
      else { snprintf(tmp, sizeof tmp, "at:%ld", static_cast<long>(p - b.peek())); show("ok", tmp, b); }
    }
    else { fprintf(stderr, "bad op %s\n", k.c_str()); return 2; }
  }
  return 0;
}
