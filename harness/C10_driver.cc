// C10 driver: runs the real muduo::net::Buffer on the same op lists as the extracted
// model (extract/C10_driver.ml) and prints the same observer line after every op.
// Case format (one token list per line):
//   case <id> <initialSize1> <initialSize2>     start a new case with two buffers
//   A <payload> | P <payload> | R n | RA | RS n | EW n | HW <payload> | UW n | SH n | SW
//   RF <payload-available-on-fd> | RFE errno | RF2 <payload A> <payload B> (both buffers readFd CONCURRENTLY, see below) | AI k x | PI k x | KI k | RI k | RN k
//   FC from | FE from (signed offset of the start pointer from peek()) | FC0 | FE0
//   RU off (retrieveUntil(peek()+off)) | RAS | TS | IC | AS (second = first)
//   end
// readv is interposed (-Wl,--wrap=readv): the wrapper records the iovec array Buffer::readFd
// offers (count, lengths, base of vec[0]) and can make the call fail with a given errno.
// Documented preconditions (the asserts on arguments): the verdict printed is the REAL class's.
// __assert_fail is interposed (-Wl,--wrap=__assert_fail, as in the C18 driver).  An op whose
// precondition holds (tested here on the public observers) runs on the buffer itself; should the
// class assert all the same the line is "rejected assert:<expr>".  An op whose precondition FAILS is
// issued too -- on a heap copy of the buffer, so that the case can go on --: "rejected -" when the
// class asserts (what the model's Rejected and the oracle expect), "ok noassert" when it does not
// (a weakened / wrong argument assert: review B-2).  The buffer of the case is never touched by a
// violating call.
#include "muduo/net/Buffer.h"
#include "common.h"

#include <errno.h>
#include <fcntl.h>
#include <pthread.h>
#include <setjmp.h>
#include <sys/uio.h>
#include <unistd.h>
#include <iostream>
#include <memory>

using muduo::net::Buffer;
using std::string;

static void show(const char* status, const string& out, const Buffer& b)
{
  printf("%s %s r=%zu w=%zu p=%zu h=%s\n", status, out.c_str(), b.readableBytes(),
         b.writableBytes(), b.prependableBytes(), vh::fnv(b.peek(), b.readableBytes()).c_str());
}

static int g_iovcnt = 0;
static size_t g_len0 = 0, g_cap = 0;
static const void* g_base0 = NULL;
static int g_inject = 0;
extern "C" ssize_t __real_readv(int fd, const struct iovec* iov, int cnt);
// RF2: the two buffers of the case call readFd on two threads, each on its own descriptor.  The wrapper makes the two
// threads rendezvous AFTER their real readv returned and BEFORE they return into Buffer::readFd, so that both spills
// (the bytes the kernel put into extrabuf) are in flight at the same time: each buffer must end up with exactly the bytes
// of ITS descriptor (seeded change C01_4: a `static` extrabuf is shared by all buffers on all threads).
static bool g_rendezvous = false;
static pthread_barrier_t g_bar;
extern "C" ssize_t __wrap_readv(int fd, const struct iovec* iov, int cnt)
{
  if (g_rendezvous)
  {
    ssize_t r = __real_readv(fd, iov, cnt);
    pthread_barrier_wait(&g_bar);
    return r;
  }
  g_iovcnt = cnt;
  g_len0 = cnt > 0 ? iov[0].iov_len : 0;
  g_base0 = cnt > 0 ? iov[0].iov_base : NULL;
  g_cap = 0;
  for (int i = 0; i < cnt; ++i) g_cap += iov[i].iov_len;
  if (g_inject != 0) { errno = g_inject; return -1; }
  return __real_readv(fd, iov, cnt);
}

static const int kErrUnset = -12345;

// ---- assertions of the class under test are caught while a guarded call is in flight ----------
static sigjmp_buf g_jmp;
static volatile bool g_armed = false;
static string g_assertText;
static Buffer* g_tmp = NULL;
extern "C" void __real___assert_fail(const char* expr, const char* file, unsigned int line, const char* func);
extern "C" void __wrap___assert_fail(const char* expr, const char* file, unsigned int line, const char* func)
{
  if (g_armed)
  {
    g_armed = false;
    g_assertText = expr ? expr : "?";
    for (size_t i = 0; i < g_assertText.size(); ++i) if (g_assertText[i] == ' ') g_assertText[i] = '_';
    siglongjmp(g_jmp, 1);
  }
  __real___assert_fail(expr, file, line, func);
}

template <class F> static bool asserted(F f)
{
  g_armed = true;
  if (sigsetjmp(g_jmp, 1) == 0) { f(); g_armed = false; return false; }
  g_armed = false;
  return true;
}

enum Verdict { kRan = 0, kRejected = 1, kNoAssert = 2, kAssertedValid = 3 };

// f(Buffer&) issues the call.  pre = the documented precondition on the public observers.
template <class F> static Verdict guarded(bool pre, Buffer& b, F f)
{
  if (pre) return asserted([&] { f(b); }) ? kAssertedValid : kRan;
  g_tmp = new Buffer(b);                       // the violating call never touches the case's buffer
  bool a = asserted([&] { f(*g_tmp); });
  delete g_tmp;                                // the assert is the first statement: the copy is intact
  g_tmp = NULL;
  return a ? kRejected : kNoAssert;
}

static void showVerdict(Verdict v, const string& out, const Buffer& b)
{
  switch (v)
  {
    case kRan: show("ok", out, b); break;
    case kRejected: show("rejected", "-", b); break;
    case kNoAssert: show("ok", "noassert", b); break;
    case kAssertedValid: show("rejected", "assert:" + g_assertText, b); break;
  }
}

// "rd:<n>:<iovcnt>:<vec[0].iov_len>:<errno or ->:cap=<sum of offered lengths>"
static string readResult(const Buffer& before_unused, ssize_t n, int err, const void* expectedBase)
{
  char tmp[160];
  (void)before_unused;
  string e = (err == kErrUnset) ? "-" : std::to_string(err);
  snprintf(tmp, sizeof tmp, "rd:%zd:%d:%zu:%s:cap=%zu%s", n, g_iovcnt, g_len0, e.c_str(), g_cap,
           g_base0 == expectedBase ? "" : ":vec0-not-at-beginWrite");
  return tmp;
}

static int loadedPipe(const string& avail);
struct Rf2 { Buffer* b; int fd; ssize_t n; int err; };
static void* rf2Thread(void* p)
{
  Rf2* a = static_cast<Rf2*>(p);
  a->n = a->b->readFd(a->fd, &a->err);
  return NULL;
}

static ssize_t doReadFd(Buffer& b, const string& avail, int* err)
{
  int fd = loadedPipe(avail);
  ssize_t n = b.readFd(fd, err);
  ::close(fd);
  return n;
}

// read end of a pipe pre-loaded with avail (write end closed: an empty pipe reads as 0, like EOF)
static int loadedPipe(const string& avail)
{
  int fds[2];
  if (::pipe(fds) != 0) { perror("pipe"); exit(3); }
  long want = static_cast<long>(avail.size()) + 8192;
  if (want > 65536 && ::fcntl(fds[1], F_SETPIPE_SZ, want) < 0) { perror("F_SETPIPE_SZ"); exit(3); }
  ::fcntl(fds[1], F_SETFL, O_NONBLOCK);
  size_t off = 0;
  while (off < avail.size())
  {
    ssize_t n = ::write(fds[1], avail.data() + off, avail.size() - off);
    if (n <= 0) { perror("pipe write"); exit(3); }
    off += static_cast<size_t>(n);
  }
  ::close(fds[1]);   // so that an empty pipe reads as 0, like EOF
  return fds[0];
}

int main()
{
  std::unique_ptr<Buffer> a(new Buffer(0)), c(new Buffer(0));
  string line;
  char tmp[64];
  while (std::getline(std::cin, line))
  {
    std::vector<string> w = vh::splitWs(line);
    if (w.empty()) continue;
    const string& k = w[0];
    if (k == "case")
    {
      a.reset(new Buffer(static_cast<size_t>(atol(w[2].c_str()))));
      c.reset(new Buffer(static_cast<size_t>(atol(w[3].c_str()))));
      printf("case %s r=%zu w=%zu p=%zu h=%s\n", w[1].c_str(), a->readableBytes(), a->writableBytes(),
             a->prependableBytes(), vh::fnv(a->peek(), a->readableBytes()).c_str());
      continue;
    }
    if (k == "end") { printf("end\n"); fflush(stdout); continue; }
    Buffer& b = *a;
    size_t n = (w.size() > 1 && k != "A" && k != "P" && k != "HW" && k != "RF" && k != "RF2") ? static_cast<size_t>(atol(w[1].c_str())) : 0;
    long sn = (w.size() > 1 && (k == "FC" || k == "FE" || k == "RU")) ? atol(w[1].c_str()) : 0;
    if (k == "A") { string d = vh::bytesOfSpec(w[1]); b.append(d.data(), d.size()); show("ok", "-", b); }
    else if (k == "P")
    {
      string d = vh::bytesOfSpec(w[1]);
      showVerdict(guarded(d.size() <= b.prependableBytes(), b, [&](Buffer& x) { x.prepend(d.data(), d.size()); }), "-", b);
    }
    else if (k == "R") showVerdict(guarded(n <= b.readableBytes(), b, [&](Buffer& x) { x.retrieve(n); }), "-", b);
    else if (k == "RA") { b.retrieveAll(); show("ok", "-", b); }
    else if (k == "RU")
    {
      showVerdict(guarded(sn >= 0 && static_cast<size_t>(sn) <= b.readableBytes(), b,
                          [&](Buffer& x) { x.retrieveUntil(x.peek() + sn); }), "-", b);
    }
    else if (k == "RN")
    {
      if (n != 1 && n != 2 && n != 4 && n != 8) { fprintf(stderr, "bad width\n"); return 2; }
      showVerdict(guarded(n <= b.readableBytes(), b, [&](Buffer& x) {
        switch (n)
        {
          case 1: x.retrieveInt8(); break;
          case 2: x.retrieveInt16(); break;
          case 4: x.retrieveInt32(); break;
          default: x.retrieveInt64(); break;
        }
      }), "-", b);
    }
    else if (k == "RAS")
    {
      string s = b.retrieveAllAsString();
      show("ok", "b:" + vh::fnv(s) + ":" + std::to_string(s.size()), b);
    }
    else if (k == "TS")
    {
      muduo::StringPiece sp = b.toStringPiece();
      string s(sp.data(), sp.size());
      show("ok", "b:" + vh::fnv(s) + ":" + std::to_string(s.size()), b);
    }
    else if (k == "IC")
    {
      size_t size = b.prependableBytes() + b.readableBytes() + b.writableBytes();
      if (b.internalCapacity() >= size) show("ok", std::to_string(size), b);
      else show("ok", "capacity-below-size:" + std::to_string(b.internalCapacity()), b);
    }
    else if (k == "AS") { *c = *a; show("ok", "-", b); }
    else if (k == "RS")
    {
      string s;
      Verdict v = guarded(n <= b.readableBytes(), b, [&](Buffer& x) { s = x.retrieveAsString(n); });
      showVerdict(v, v == kRan ? "b:" + vh::fnv(s) + ":" + std::to_string(s.size()) : string("-"), b);
    }
    else if (k == "EW") { b.ensureWritableBytes(n); show("ok", "-", b); }
    else if (k == "HW")
    {
      string d = vh::bytesOfSpec(w[1]);
      bool pre = d.size() <= b.writableBytes();
      if (pre) memcpy(b.beginWrite(), d.data(), d.size());   // what a codec does before hasWritten
      showVerdict(guarded(pre, b, [&](Buffer& x) { x.hasWritten(d.size()); }), "-", b);
    }
    else if (k == "UW") showVerdict(guarded(n <= b.readableBytes(), b, [&](Buffer& x) { x.unwrite(n); }), "-", b);
    else if (k == "SH") { b.shrink(n); show("ok", "-", b); }
    else if (k == "SW") { a->swap(*c); show("ok", "-", *a); }
    else if (k == "RF")
    {
      string d = vh::bytesOfSpec(w[1]);
      int err = kErrUnset;
      const void* base = b.beginWrite();
      ssize_t r = doReadFd(b, d, &err);
      show("ok", readResult(b, r, err, base), b);
    }
    else if (k == "RF2")
    {
      string da = vh::bytesOfSpec(w[1]), db = vh::bytesOfSpec(w[2]);
      Rf2 x = { a.get(), loadedPipe(da), 0, kErrUnset }, y = { c.get(), loadedPipe(db), 0, kErrUnset };
      pthread_barrier_init(&g_bar, NULL, 2);
      g_rendezvous = true;
      pthread_t t1, t2;
      pthread_create(&t1, NULL, rf2Thread, &x);
      pthread_create(&t2, NULL, rf2Thread, &y);
      pthread_join(t1, NULL);
      pthread_join(t2, NULL);
      g_rendezvous = false;
      pthread_barrier_destroy(&g_bar);
      ::close(x.fd); ::close(y.fd);
      char t[160];
      snprintf(t, sizeof t, "rd2:%zd:%zd:%zu:%s", x.n, y.n, c->readableBytes(), vh::fnv(c->peek(), c->readableBytes()).c_str());
      show("ok", t, b);
    }
    else if (k == "RFE")
    {
      // errno 9: a really invalid descriptor (the kernel's own EBADF); others: injected by the wrapper
      int want = atoi(w[1].c_str());
      int err = kErrUnset;
      const void* base = b.beginWrite();
      ssize_t r;
      if (want == 9) r = b.readFd(-1, &err);
      else { g_inject = want; r = b.readFd(0, &err); g_inject = 0; }
      show("ok", readResult(b, r, err, base), b);
    }
    else if (k == "AI" || k == "PI")
    {
      long long x = strtoll(w[2].c_str(), NULL, 10);
      bool pre = (k == "PI");
      if (n != 1 && n != 2 && n != 4 && n != 8) { fprintf(stderr, "bad width\n"); return 2; }
      showVerdict(guarded(!pre || n <= b.prependableBytes(), b, [&](Buffer& y) {
        switch (n)
        {
          case 1: pre ? y.prependInt8(static_cast<int8_t>(x)) : y.appendInt8(static_cast<int8_t>(x)); break;
          case 2: pre ? y.prependInt16(static_cast<int16_t>(x)) : y.appendInt16(static_cast<int16_t>(x)); break;
          case 4: pre ? y.prependInt32(static_cast<int32_t>(x)) : y.appendInt32(static_cast<int32_t>(x)); break;
          default: pre ? y.prependInt64(x) : y.appendInt64(x); break;
        }
      }), "-", b);
    }
    else if (k == "KI" || k == "RI")
    {
      if (n != 1 && n != 2 && n != 4 && n != 8) { fprintf(stderr, "bad width\n"); return 2; }
      bool rd = (k == "RI");
      long long v = 0;
      Verdict vd = guarded(n <= b.readableBytes(), b, [&](Buffer& y) {
        switch (n)
        {
          case 1: v = rd ? y.readInt8() : y.peekInt8(); break;
          case 2: v = rd ? y.readInt16() : y.peekInt16(); break;
          case 4: v = rd ? y.readInt32() : y.peekInt32(); break;
          default: v = rd ? y.readInt64() : y.peekInt64(); break;
        }
      });
      snprintf(tmp, sizeof tmp, "i:%lld", v);
      showVerdict(vd, tmp, b);
    }
    else if (k == "FC0" || k == "FE0")
    {
      const char* p = (k == "FC0") ? b.findCRLF() : b.findEOL();
      if (p == NULL) show("ok", "none", b);
      else { snprintf(tmp, sizeof tmp, "at:%ld", static_cast<long>(p - b.peek())); show("ok", tmp, b); }
    }
    else if (k == "FC" || k == "FE")
    {
      const char* p = NULL;
      Verdict vd = guarded(!(sn < 0 || static_cast<size_t>(sn) > b.readableBytes()), b, [&](Buffer& y) {
        p = (k == "FC") ? y.findCRLF(y.peek() + sn) : y.findEOL(y.peek() + sn);
      });
      if (vd != kRan || p == NULL) showVerdict(vd, "none", b);
      else { snprintf(tmp, sizeof tmp, "at:%ld", static_cast<long>(p - b.peek())); showVerdict(vd, tmp, b); }
    }
    else { fprintf(stderr, "bad op %s\n", k.c_str()); return 2; }
  }
  return 0;
}
