// C02 lock-step driver (style A over several loops): the REAL TcpServer / TcpClient / TcpConnection /
// Channel / EPollPoller / EventLoop objects.  The base loop (0) is an EventLoop on a helper thread with NO
// loop() running (doPendingFunctors is executed piecewise by the harness exactly as EventLoop.cc does it).
// The io loops (1..nio) are the REAL threads of the server's EventLoopThreadPool (threadPool_->start()),
// each running the REAL EventLoop::loop(); the harness parks them at three points and steps them:
//   P1  inside Poller::poll (epoll_wait / poll are --wrap'ped: a parked io thread "is in poll()", the hook
//       returns 0 events when the harness lets the loop go on to doPendingFunctors),
//   P2  right after the swap of doPendingFunctors (the unlock of EventLoop::mutex_, --wrap=pthread_mutex_unlock),
//   P3  after each functor of the batch (every queued functor is wrapped by the harness into
//       { f(); park(); }, the wrapper owns the original functor object, so references die where they do in the code).
// While parked an io thread executes the jobs the harness hands it (an injected Channel::handleEvent, an API
// call "inside a callback").  ~TcpServer therefore runs the real ~EventLoopThreadPool / ~EventLoopThread:
// quit() and join() (--wrap=pthread_join tells the harness that the base thread is blocked in join), and an io
// thread that is released with quit_ set really leaves loop() and destroys its EventLoop with whatever is queued.
// The main thread reads ops and hands each one to the thread that must execute it (loop thread l, or a
// foreign thread), waits for it, and prints the observations: callbacks with the thread that ran
// them, destructions (seen at ::close of the connection's descriptor, with the thread and whether the
// descriptor was still in an epoll set), and per connection state_/interest/addedToLoop_/the kernel's
// epoll registration (read from /proc/self/fdinfo/<epollfd>)/shared_ptr use_count/outstanding timers.
// doPendingFunctors is executed piecewise (SWAP / RUN / END) exactly as EventLoop.cc does it.
// Foreign API calls are cut at their unsynchronised setState (TcpConnection.cc is compiled into
// this translation unit with `setState(s)` rewritten to `setState((stall(), s))` - no change to the
// source) and at the first pthread_mutex_lock of queueInLoop (--wrap).
// Same case format and output as extract/C02_driver.ml.
#include <dirent.h>
#include <errno.h>
#include <fcntl.h>
#include <poll.h>
#include <pthread.h>
#include <semaphore.h>
#include <signal.h>
#include <sys/epoll.h>
#include <sys/socket.h>
#include <sys/time.h>
#include <sys/uio.h>
#include <netinet/in.h>
#include <unistd.h>

#include <algorithm>
#include <atomic>
#include <chrono>
#include <condition_variable>
#include <deque>
#include <fstream>
#include <functional>
#include <iostream>
#include <map>
#include <memory>
#include <mutex>
#include <set>
#include <sstream>
#include <thread>

#define private public
#define protected public
#include "muduo/net/TcpConnection.h"
#include "muduo/net/TcpServer.h"
#include "muduo/net/TcpClient.h"
#include "muduo/net/EventLoop.h"
#include "muduo/net/EventLoopThreadPool.h"
#include "muduo/net/Channel.h"
#include "muduo/net/TimerQueue.h"
#include "muduo/net/Timer.h"
#include "muduo/net/InetAddress.h"
#include "muduo/net/Socket.h"
#include "muduo/net/SocketsOps.h"
#include "muduo/net/poller/EPollPoller.h"
#include "muduo/net/poller/PollPoller.h"
#include "muduo/base/Logging.h"
#include "muduo/base/WeakCallback.h"
#include "muduo/base/CurrentThread.h"

static void verif_stall(int point);
// TcpConnection.cc compiled here, from the tree under test, with one schedule point added in front of every
// store to state_ made by a thread that is armed (only foreign threads inside an API call are)
#define setState(s) setState((verif_stall(1), (s)))
#include "muduo/net/TcpConnection.cc"
#undef setState
#undef private
#undef protected

#include "common.h"

using std::string;

// ------------------------------------------------------------------ foreign threads and stall points
struct Foreign
{
  std::thread th;
  sem_t reached, release;
  int armed;        // bit 1: stall at setState, bit 2: stall at the next pthread_mutex_lock (after skipLocks more),
                    // bit 4: stall right after the stallWrites-th write to a descriptor that is not a connection (loop wakeups)
  int skipLocks, stallWrites;
  int at;           // where it is parked: 1, 2, 4, or 0 = the API call has returned
  int conn, api;
  bool loaded, stored, pin;
  TcpConnectionPtr copy;
};
static thread_local Foreign* t_self = NULL;

static void verif_stall(int point)
{
  Foreign* f = t_self;
  if (f && (f->armed & point))
  {
    f->armed &= ~point;
    if (point == 1) f->armed |= 2; else f->armed = 0;
    f->at = point;
    sem_post(&f->reached);
    sem_wait(&f->release);
  }
}

// ------------------------------------------------------------------ io threads of the real pool
struct IoCtl
{
  int index;
  muduo::net::EventLoop* loop;
  pthread_mutex_t* loopMutex;
  std::mutex mu;
  std::condition_variable cv;
  bool parked, go, freeRun, armSwap;
  int where;
  std::function<void()> job;
  bool hasJob, jobDone;
  std::atomic<bool> inPoll;
  IoCtl() : index(0), loop(NULL), loopMutex(NULL), parked(false), go(false), freeRun(false), armSwap(false), where(0),
            hasJob(false), jobDone(false), inPoll(false) {}
};
static thread_local IoCtl* t_io = NULL;

static void io_park(IoCtl* io, int where)
{
  std::unique_lock<std::mutex> l(io->mu);
  if (io->freeRun) return;
  io->where = where;
  io->parked = true;
  io->cv.notify_all();
  for (;;)
  {
    io->cv.wait(l, [io]() { return io->go || io->hasJob || io->freeRun; });
    if (io->hasJob)
    {
      std::function<void()> j;
      j.swap(io->job);
      io->hasJob = false;
      l.unlock();
      j();
      j = std::function<void()>();
      l.lock();
      io->jobDone = true;
      io->cv.notify_all();
      continue;
    }
    io->go = false;
    io->parked = false;
    return;
  }
}
static void harnessStuck(const char* what)
{
  fprintf(stderr, "harness: %s\n", what);
  fflush(stderr);
  _exit(3);
}
static void io_exec(IoCtl* io, std::function<void()> f)
{
  std::unique_lock<std::mutex> l(io->mu);
  if (!io->parked) harnessStuck("job for an io thread that is not parked");
  io->job = std::move(f);
  io->hasJob = true;
  io->jobDone = false;
  io->cv.notify_all();
  io->cv.wait(l, [io]() { return io->jobDone; });
}
static void io_release(IoCtl* io, bool armSwap)
{
  std::unique_lock<std::mutex> l(io->mu);
  io->armSwap = armSwap;
  io->go = true;
  io->parked = false;
  io->cv.notify_all();
}
static void io_wait_parked(IoCtl* io, int where)
{
  std::unique_lock<std::mutex> l(io->mu);
  if (!io->cv.wait_for(l, std::chrono::seconds(20), [io]() { return io->parked; })) harnessStuck("io thread did not reach its next schedule point");
  if (io->where != where) { fprintf(stderr, "harness: io thread %d parked at %d, expected %d\n", io->index, io->where, where); _exit(3); }
}

// the base thread inside ~TcpServer: every pthread_join it reaches is the join() of an ~EventLoopThread
static thread_local bool t_inSrvDtor = false;
static std::mutex g_poolMu;
static std::condition_variable g_poolCv;
static int g_joinReached = 0;
static bool g_sdDone = true;
// ~TcpServer's body: the base thread is parked after each runInLoop hand-off (right after the wakeup() write of queueInLoop),
// so that io-loop steps can be interleaved INSIDE the real destructor
static int g_handoffsToPark = 0;     // hand-offs of the running ~TcpServer after which the base thread still parks
static int g_handoffsParked = 0;     // parks reached so far
static bool g_baseGo = false;
static void base_park_after_handoff()
{
  std::unique_lock<std::mutex> l(g_poolMu);
  if (g_handoffsToPark <= 0) return;
  --g_handoffsToPark;
  ++g_handoffsParked;
  g_poolCv.notify_all();
  g_poolCv.wait(l, []() { return g_baseGo; });
  g_baseGo = false;
}

extern "C" {
int __real_pthread_mutex_unlock(pthread_mutex_t* m);
int __real_epoll_wait(int epfd, struct epoll_event* ev, int maxev, int timeout);
int __real_poll(struct pollfd* fds, nfds_t n, int timeout);
int __real_pthread_join(pthread_t th, void** ret);
int __real_pthread_mutex_lock(pthread_mutex_t* m);
ssize_t __real_write(int fd, const void* buf, size_t n);
ssize_t __real_readv(int fd, const struct iovec* iov, int cnt);
int __real_gettimeofday(struct timeval* tv, void* tz);
int __real_close(int fd);
int __real_shutdown(int fd, int how);
}

extern "C" int __wrap_pthread_mutex_lock(pthread_mutex_t* m)
{
  if (t_self && (t_self->armed & 2) && !(t_self->armed & 1))
  {
    if (t_self->skipLocks > 0) --t_self->skipLocks; else verif_stall(2);
  }
  return __real_pthread_mutex_lock(m);
}

extern "C" int __wrap_pthread_mutex_unlock(pthread_mutex_t* m)
{
  int r = __real_pthread_mutex_unlock(m);
  IoCtl* io = t_io;
  if (io && io->armSwap && m == io->loopMutex) { io->armSwap = false; io_park(io, 2); }
  return r;
}
extern "C" int __wrap_epoll_wait(int epfd, struct epoll_event* ev, int maxev, int timeout)
{
  IoCtl* io = t_io;
  if (io && !io->freeRun) { io_park(io, 1); if (!io->freeRun) return 0; }
  if (io) io->inPoll = true;
  int r = __real_epoll_wait(epfd, ev, maxev, io ? 50 : timeout);
  if (io) io->inPoll = false;
  return r;
}
extern "C" int __wrap_poll(struct pollfd* fds, nfds_t n, int timeout)
{
  IoCtl* io = t_io;
  if (io && !io->freeRun) { io_park(io, 1); if (!io->freeRun) return 0; }
  if (io) io->inPoll = true;
  int r = __real_poll(fds, n, io ? 50 : timeout);
  if (io) io->inPoll = false;
  return r;
}
extern "C" int __wrap_pthread_join(pthread_t th, void** ret)
{
  if (t_inSrvDtor)
  {
    { std::lock_guard<std::mutex> l(g_poolMu); ++g_joinReached; }
    g_poolCv.notify_all();
  }
  return __real_pthread_join(th, ret);
}

// ------------------------------------------------------------------ scripted kernel
static const int64_t kT0 = 1700000000LL * 1000000LL;
extern "C" int __wrap_gettimeofday(struct timeval* tv, void*) { tv->tv_sec = kT0 / 1000000; tv->tv_usec = 0; return 0; }

struct ConnRec
{
  int fd, peer, loop;
  std::weak_ptr<muduo::net::TcpConnection> weak;
  muduo::net::TcpConnection* raw;
  std::vector<muduo::net::TcpConnectionPtr> urefs;
  bool fin, peerShut;
  int nDelay;
  int timersSeen;     // outstanding forceCloseWithDelay timers when the connection's loop was last looked at
};
static std::vector<ConnRec> g_conns;
static std::mutex g_mu;                 // protects g_events / g_fdconn (callbacks run on helper threads, one at a time)
static std::vector<string> g_events;    // callbacks, in order
static std::vector<std::pair<int, string>> g_dtors;   // (conn, text)
static std::map<int, int> g_fdconn;     // server-side fd -> connection id (while open)
static std::map<int, int> g_tidIndex;   // kernel tid -> thread index
static std::vector<int> g_epfd;         // per loop: epoll descriptor, or -1 when the loop uses PollPoller (MUDUO_USE_POLL)
static std::vector<muduo::net::PollPoller*> g_pp;   // per loop: the PollPoller, or NULL
// during the tear-down the io threads run concurrently: the descriptor table of the hooks has its own lock (taken
// with the real pthread_mutex_lock: the wrapper is a schedule point of the foreign threads)
static pthread_mutex_t g_fdMu = PTHREAD_MUTEX_INITIALIZER;
static bool g_concurrent = false;
extern "C" int __real_pthread_mutex_lock(pthread_mutex_t* m);
extern "C" int __real_pthread_mutex_unlock(pthread_mutex_t* m);
struct FdLock
{
  FdLock() { __real_pthread_mutex_lock(&g_fdMu); }
  ~FdLock() { __real_pthread_mutex_unlock(&g_fdMu); }
};
static long g_wscript = -1;             // next write on a connection fd takes at most this many bytes (-1: all)
static bool g_readvFail = false;
static int g_badClose = 0;

static int threadIndex()
{
  std::map<int, int>::iterator it = g_tidIndex.find(muduo::CurrentThread::tid());
  return it == g_tidIndex.end() ? 999 : it->second;
}

static string epollMaskFd(int epfd, int fd);
// the poller's registration of fd on loop l: "-" = the kernel is not asked about it, else the interest ("0" = empty)
static string epollMask(int l, int fd)
{
  if (g_pp[static_cast<size_t>(l)])
  {
    const std::vector<struct pollfd>& v = g_pp[static_cast<size_t>(l)]->pollfds_;
    for (size_t i = 0; i < v.size(); ++i)
      if (v[i].fd == fd)
      {
        string m;
        if (v[i].events & (POLLIN | POLLPRI)) m += "r";
        if (v[i].events & POLLOUT) m += "w";
        return m.empty() ? "0" : m;
      }
    return "-";
  }
  return epollMaskFd(g_epfd[static_cast<size_t>(l)], fd);
}
static string epollMaskFd(int epfd, int fd)
{
  char path[64];
  snprintf(path, sizeof path, "/proc/self/fdinfo/%d", epfd);
  std::ifstream in(path);
  string line;
  while (std::getline(in, line))
  {
    int tfd; unsigned ev;
    if (sscanf(line.c_str(), "tfd: %d events: %x", &tfd, &ev) == 2 && tfd == fd)
    {
      string m;
      if (ev & EPOLLIN) m += "r";
      if (ev & EPOLLOUT) m += "w";
      return m.empty() ? "0" : m;
    }
  }
  return "-";
}

extern "C" ssize_t __wrap_write(int fd, const void* buf, size_t n)
{
  bool ours;
  { FdLock lk; ours = g_fdconn.count(fd) > 0; }
  if (!ours || g_wscript < 0)
  {
    ssize_t r = __real_write(fd, buf, n);
    if (!ours && t_self && (t_self->armed & 4) && --t_self->stallWrites <= 0) verif_stall(4);
    if (!ours && t_inSrvDtor) base_park_after_handoff();       // the wakeup() of a hand-off made by ~TcpServer
    return r;
  }
  size_t m = static_cast<size_t>(g_wscript) < n ? static_cast<size_t>(g_wscript) : n;
  if (m == 0) return 0;
  return __real_write(fd, buf, m);
}
extern "C" ssize_t __wrap_readv(int fd, const struct iovec* iov, int cnt)
{
  if (g_readvFail) { FdLock lk; if (g_fdconn.count(fd)) { g_readvFail = false; errno = ECONNRESET; return -1; } }
  return __real_readv(fd, iov, cnt);
}
extern "C" int __wrap_shutdown(int fd, int how)
{
  {
    FdLock lk;
    std::map<int, int>::iterator it = g_fdconn.find(fd);
    if (it != g_fdconn.end() && how == SHUT_WR) g_conns[static_cast<size_t>(it->second)].fin = true;
  }
  return __real_shutdown(fd, how);
}
extern "C" int __wrap_close(int fd)
{
  FdLock lk;
  std::map<int, int>::iterator it = g_fdconn.find(fd);
  if (it != g_fdconn.end())
  {
    int c = it->second;
    bool inset = false;
    // (a PollPoller's table is read only by its own thread once the threads run concurrently)
    for (size_t l = 0; l < g_epfd.size(); ++l)
      if (!g_concurrent || !g_pp[l] || threadIndex() == static_cast<int>(l)) inset = inset || epollMask(static_cast<int>(l), fd) != "-";
    if (inset) ++g_badClose;
    g_dtors.push_back(std::make_pair(c, "Dtor@" + std::to_string(threadIndex()) + "#" + std::to_string(c) + (inset ? "!REGISTERED" : "")));
    g_fdconn.erase(it);
  }
  return __real_close(fd);
}

// ------------------------------------------------------------------ helper threads
struct Worker
{
  std::thread th;
  std::mutex mu;
  std::condition_variable cv;
  std::function<void()> job;
  bool has, done, quit;
  int index;
  Worker() : has(false), done(false), quit(false), index(0) {}
  void start(int idx)
  {
    index = idx;
    th = std::thread([this]() {
      { std::lock_guard<std::mutex> l(g_mu); g_tidIndex[muduo::CurrentThread::tid()] = index; }
      std::unique_lock<std::mutex> l(mu);
      for (;;)
      {
        cv.wait(l, [this]() { return has || quit; });
        if (quit) return;
        std::function<void()> j;
        j.swap(job);
        has = false;
        l.unlock();
        j();
        j = std::function<void()>();
        l.lock();
        done = true;
        cv.notify_all();
      }
    });
  }
  void exec(std::function<void()> f)
  {
    std::unique_lock<std::mutex> l(mu);
    job = std::move(f);
    has = true;
    done = false;
    cv.notify_all();
    cv.wait(l, [this]() { return done; });
  }
  void startAsync(std::function<void()> f)
  {
    std::unique_lock<std::mutex> l(mu);
    job = std::move(f);
    has = true;
    done = false;
    cv.notify_all();
  }
  void wait()
  {
    std::unique_lock<std::mutex> l(mu);
    cv.wait(l, [this]() { return done; });
  }
  void stop()
  {
    { std::lock_guard<std::mutex> l(mu); quit = true; cv.notify_all(); }
    th.join();
  }
};

using namespace muduo;
using namespace muduo::net;

// a queued functor of an io loop, owned by the wrapper the harness puts in its place: the original functor object and the
// references pinned to it die when the wrapper dies (end of doPendingFunctors, or ~EventLoop), on the thread that destroys it
struct Hold
{
  EventLoop::Functor f;
  std::vector<TcpConnectionPtr> pins;
};
struct LoopRec
{
  Worker w;             // base loop only
  IoCtl* io;            // io loops only: the real thread of the pool
  EventLoop* loop;
  std::vector<EventLoop::Functor> batch;
  size_t next;          // next functor of the batch to run
  size_t batchSize;     // io loops: size of the batch the real doPendingFunctors swapped out
  bool active;          // inside a drain
  bool gone;            // io loops: the thread has left loop(), the EventLoop is destroyed
  std::deque<std::vector<TcpConnectionPtr>> pendPins;   // base loop: aligned with pendingFunctors_: references pinned to raw functors
  std::vector<std::vector<TcpConnectionPtr>> batchPins;
  std::deque<std::weak_ptr<Hold>> pendHolds;            // io loops: aligned with pendingFunctors_
  LoopRec() : io(NULL), loop(NULL), next(0), batchSize(0), active(false), gone(false) {}
  void exec(std::function<void()> f) { if (io) io_exec(io, std::move(f)); else w.exec(std::move(f)); }
};

static void onConnection(const TcpConnectionPtr& c)
{
  std::lock_guard<std::mutex> l(g_mu);
  int id = -1;
  for (size_t i = 0; i < g_conns.size(); ++i) if (g_conns[i].raw == c.get()) id = static_cast<int>(i);
  g_events.push_back(string(c->connected() ? "Up@" : "Down@") + std::to_string(threadIndex()) + "#" + std::to_string(id));
}
static void onMessage(const TcpConnectionPtr& c, Buffer* b, Timestamp)
{
  b->retrieveAll();
  std::lock_guard<std::mutex> l(g_mu);
  int id = -1;
  for (size_t i = 0; i < g_conns.size(); ++i) if (g_conns[i].raw == c.get()) id = static_cast<int>(i);
  g_events.push_back("Msg@" + std::to_string(threadIndex()) + "#" + std::to_string(id));
}
static void onWriteComplete(const TcpConnectionPtr&) {}
static void nullOutput(const char* msg, int len)
{
  // only what muduo itself considers fatal (e.g. EventLoop::abortNotInLoopThread) is shown, on stderr
  std::string s(msg, static_cast<size_t>(len));
  if (s.find(" FATAL ") != std::string::npos) fprintf(stderr, "%s", s.c_str());
}
static void nullFlush() {}

static int countFds()
{
  int n = 0;
  DIR* d = opendir("/proc/self/fd");
  while (readdir(d)) ++n;
  closedir(d);
  return n;
}

static int g_listen = -1;
static uint16_t g_port = 0;

static bool makePair(int* srvFd, int* peerFd, InetAddress* peerAddr)
{
  int c = ::socket(AF_INET, SOCK_STREAM | SOCK_CLOEXEC, 0);
  struct sockaddr_in sa;
  memset(&sa, 0, sizeof sa);
  sa.sin_family = AF_INET;
  sa.sin_port = htons(g_port);
  sa.sin_addr.s_addr = htonl(INADDR_LOOPBACK);
  if (::connect(c, reinterpret_cast<struct sockaddr*>(&sa), sizeof sa) != 0) { perror("connect"); return false; }
  struct sockaddr_in pa;
  socklen_t pl = sizeof pa;
  int s = ::accept4(g_listen, reinterpret_cast<struct sockaddr*>(&pa), &pl, SOCK_NONBLOCK | SOCK_CLOEXEC);
  if (s < 0) { perror("accept4"); return false; }
  *srvFd = s;
  *peerFd = c;
  *peerAddr = InetAddress(pa);
  return true;
}

int main()
{
  Logger::setOutput(nullOutput);
  Logger::setFlush(nullFlush);
  signal(SIGPIPE, SIG_IGN);
  { g_tidIndex[CurrentThread::tid()] = 900; }
  // the harness's own listening socket: pairs of really connected TCP sockets are made here and the server-side
  // descriptor is handed to TcpServer::newConnection / TcpClient::newConnection (the scripted accept / connect)
  g_listen = ::socket(AF_INET, SOCK_STREAM | SOCK_CLOEXEC, 0);
  {
    struct sockaddr_in sa;
    memset(&sa, 0, sizeof sa);
    sa.sin_family = AF_INET;
    sa.sin_addr.s_addr = htonl(INADDR_LOOPBACK);
    ::bind(g_listen, reinterpret_cast<struct sockaddr*>(&sa), sizeof sa);
    socklen_t sl = sizeof sa;
    ::getsockname(g_listen, reinterpret_cast<struct sockaddr*>(&sa), &sl);
    g_port = ntohs(sa.sin_port);
    ::listen(g_listen, 64);
  }
  string line;
  std::vector<LoopRec*> loops;
  Worker user0;                      // foreign thread 100: user references are dropped here
  user0.start(100);
  std::map<int, Foreign*> calls;
  TcpServer* server = NULL;
  TcpClient* client = NULL;
  bool strict = true, wc = false;
  bool baseBusy = false;             // the base thread is inside ~TcpServer (parked between two hand-offs, or blocked in a join())
  bool dying = false;                // ... parked between two hand-offs of the destructor's loop over connections_
  TcpServer* victim = NULL;          // the server whose destructor is running (its connections_ are still there while dying)
  int fds0 = 0;
  // wait until the base thread has reached its next join() or ~TcpServer has returned
  auto waitPoolEvent = [&](int prevJoin) {
    std::unique_lock<std::mutex> l(g_poolMu);
    if (!g_poolCv.wait_for(l, std::chrono::seconds(20), [&]() { return g_sdDone || g_joinReached > prevJoin; }))
      harnessStuck("the base thread neither reached the next join() nor finished ~TcpServer");
    baseBusy = !g_sdDone;
    dying = false;
    victim = NULL;
    l.unlock();
    if (!baseBusy) loops[0]->w.wait();     // the worker has taken note that its (asynchronous) job is over
  };
  auto liveEntries = [&](TcpServer* sv) { int n = 0; for (auto& e : sv->connections_) if (e.second) ++n; return n; };
  // wait until the base thread is parked after its next hand-off, or has reached a join() / finished the destructor
  auto waitStep = [&](int prevParked, int prevJoin) {
    std::unique_lock<std::mutex> l(g_poolMu);
    if (!g_poolCv.wait_for(l, std::chrono::seconds(20), [&]() { return g_handoffsParked > prevParked || g_sdDone || g_joinReached > prevJoin; }))
      harnessStuck("~TcpServer made no progress");
    if (g_handoffsParked > prevParked) { dying = true; baseBusy = true; return; }
    baseBusy = !g_sdDone;
    dying = false;
    victim = NULL;
    l.unlock();
    if (!baseBusy) loops[0]->w.wait();
  };
  auto sdNext = [&]() {
    int pp, pj;
    { std::lock_guard<std::mutex> l(g_poolMu); pp = g_handoffsParked; pj = g_joinReached; g_baseGo = true; }
    g_poolCv.notify_all();
    waitStep(pp, pj);
  };
  // the connection whose hand-off the parked destructor has just made: the loop body's local `TcpConnectionPtr conn` is still
  // alive (the base thread is parked inside runInLoop), the model's iteration is atomic: that one reference is not a holder
  TcpConnection* handRaw = NULL;
  auto liveSet = [&](TcpServer* sv) { std::set<TcpConnection*> r; for (auto& e : sv->connections_) if (e.second) r.insert(e.second.get()); return r; };
  bool inlineDying = false;          // no io threads: the stepped destructor has made at least one iteration
  // functors queued on an io loop are wrapped as soon as they are there (see Hold)
  auto wrapQueues = [&]() {
    for (size_t l = 1; l < loops.size(); ++l)
    {
      LoopRec* r = loops[l];
      if (r->gone || !r->io) continue;
      IoCtl* io = r->io;
      MutexLockGuard lock(r->loop->mutex_);
      std::vector<EventLoop::Functor>& q = r->loop->pendingFunctors_;
      while (r->pendHolds.size() < q.size())
      {
        size_t i = r->pendHolds.size();
        std::shared_ptr<Hold> h(new Hold);
        h->f = std::move(q[i]);
        r->pendHolds.push_back(h);
        q[i] = [io, h]() { h->f(); io_park(io, 3); };
      }
    }
  };
  while (std::getline(std::cin, line))
  {
    std::vector<string> w = vh::splitWs(line);
    if (w.empty()) continue;
    const string& k = w[0];
    if (k == "case")
    {
      fds0 = countFds();
      int nio = atoi(w[2].c_str());
      strict = w[4] == "1";
      wc = w[5] == "1";
      (void)strict;
      g_conns.clear(); g_events.clear(); g_dtors.clear(); g_fdconn.clear(); g_epfd.clear(); g_pp.clear(); g_badClose = 0;
      g_concurrent = false;
      g_wscript = -1;
      baseBusy = false; dying = false; victim = NULL; inlineDying = false;
      { std::lock_guard<std::mutex> l(g_poolMu); g_sdDone = true; g_joinReached = 0; g_handoffsToPark = 0; g_handoffsParked = 0; g_baseGo = false; }
      for (int l = 0; l <= nio; ++l)
      {
        LoopRec* r = new LoopRec;
        loops.push_back(r);
        g_epfd.push_back(-1);
        g_pp.push_back(NULL);
      }
      loops[0]->w.start(0);
      loops[0]->w.exec([&]() { loops[0]->loop = new EventLoop; });
      int ioCount = 0;
      loops[0]->w.exec([&]() {
        InetAddress addr("127.0.0.1", 0);
        server = new TcpServer(loops[0]->loop, addr, "srv");
        server->setConnectionCallback(onConnection);
        server->setMessageCallback(onMessage);
        if (wc) server->setWriteCompleteCallback(onWriteComplete);
        // the REAL pool: EventLoopThreadPool::start() creates the io threads, each runs EventLoopThread::threadFunc ->
        // EventLoop::loop(); the init callback (on the io thread, before loop()) puts the thread under the harness's control
        server->setThreadNum(nio);
        server->threadPool_->start([&](EventLoop* lp) {
          if (lp == loops[0]->loop) return;
          int idx = ++ioCount;
          IoCtl* io = new IoCtl;
          io->index = idx;
          io->loop = lp;
          io->loopMutex = lp->mutex_.getPthreadMutex();
          { std::lock_guard<std::mutex> l(g_mu); g_tidIndex[CurrentThread::tid()] = idx; }
          loops[static_cast<size_t>(idx)]->io = io;
          loops[static_cast<size_t>(idx)]->loop = lp;
          t_io = io;
        });
        server->started_.getAndSet(1);
        InetAddress srvAddr("127.0.0.1", g_port);
        client = new TcpClient(loops[0]->loop, srvAddr, "cli");
        client->setConnectionCallback(onConnection);
        client->setMessageCallback(onMessage);
        if (wc) client->setWriteCompleteCallback(onWriteComplete);
      });
      for (int l = 1; l <= nio; ++l) io_wait_parked(loops[static_cast<size_t>(l)]->io, 1);    // every io thread is in poll()
      for (int l = 0; l <= nio; ++l)
      {
        LoopRec* r = loops[static_cast<size_t>(l)];
        EPollPoller* ep = dynamic_cast<EPollPoller*>(r->loop->poller_.get());
        g_epfd[static_cast<size_t>(l)] = ep ? ep->epollfd_ : -1;
        g_pp[static_cast<size_t>(l)] = ep ? NULL : dynamic_cast<PollPoller*>(r->loop->poller_.get());
        if (getenv("C02_DEBUG")) fprintf(stderr, "loop %d poller=%s\n", l, ep ? "epoll" : (g_pp[static_cast<size_t>(l)] ? "poll" : "?"));
      }
      printf("case %s\n", w[1].c_str());
      fflush(stdout);
      continue;
    }
    if (k == "end")
    {
      printf("opsdone\n");
      fflush(stdout);
      // orderly tear-down by legal steps only (not part of the compared output): finish the calls keeping their
      // references, run every loop dry, close what is still up and not owned by a live server, destroy the
      // owners, run dry, drop the references, destroy the loops on their own threads
      std::vector<TcpConnectionPtr> held;
      for (auto& c : calls)
      {
        Foreign* f = c.second;
        if (f->api == 6)
        {
          f->armed = 0;
          while (f->at != 0) { sem_post(&f->release); sem_wait(&f->reached); }
          sem_post(&f->release);
          f->th.join();
          client = NULL;
          delete f;
          continue;
        }
        while (f->at != 0)
        {
          // a call parked in front of its setState whose test no longer holds (the check-then-act race of
          // shutdown()/forceClose()) must not resurrect a closed connection during tear-down
          TcpConnection::StateE prev = f->copy->state_;
          bool atStore = f->at == 1;
          sem_post(&f->release);
          sem_wait(&f->reached);
          if (atStore && prev == TcpConnection::kDisconnected) f->copy->state_ = TcpConnection::kDisconnected;
        }
        f->pin = true;
        held.push_back(f->copy);
        sem_post(&f->release);
        f->th.join();
        f->copy.reset();
        delete f;
      }
      calls.clear();
      // a destructor that is between two hand-offs finishes its body first (the io threads are still parked)
      while (dying) sdNext();
      // the io threads of the pool run free from here on (the hooks no longer park them)
      g_concurrent = true;
      for (size_t l = 1; l < loops.size(); ++l)
      {
        LoopRec* r = loops[l];
        if (!r->io) continue;
        std::lock_guard<std::mutex> lk(r->io->mu);
        r->io->freeRun = true;
        r->io->cv.notify_all();
      }
      auto poolGone = [&]() {
        for (size_t l = 1; l < loops.size(); ++l) { loops[l]->gone = true; loops[l]->loop = NULL; g_epfd[l] = -1; g_pp[l] = NULL; }
      };
      if (baseBusy) { loops[0]->w.wait(); baseBusy = false; poolGone(); }
      auto ioBarrier = [&](LoopRec* r) {
        sem_t done;
        sem_init(&done, 0, 0);
        r->loop->queueInLoop([&done]() { sem_post(&done); });
        sem_wait(&done);
        sem_destroy(&done);
      };
      auto drain = [&]() {
        for (int round = 0; round < 8; ++round)
          for (size_t l = 0; l < loops.size(); ++l)
          {
            LoopRec* r = loops[l];
            if (r->gone) continue;
            if (r->io) { ioBarrier(r); continue; }
            r->w.exec([r]() {
              if (r->active) { for (; r->next < r->batch.size(); ++r->next) r->batch[r->next](); r->batch.clear(); r->active = false; }
              r->loop->callingPendingFunctors_ = false;
              r->loop->doPendingFunctors();
            });
            held.insert(held.end(), TcpConnectionPtr());
          }
      };
      drain();
      // close what is still up.  With io threads also the connections the server still owns: a free-running ~TcpServer with
      // two hand-offs to one io loop is the very schedule of the finding (the second hand-off can land behind the batch)
      for (size_t i = 0; i < g_conns.size(); ++i)
      {
        ConnRec* cr = &g_conns[i];
        TcpConnectionPtr p = cr->weak.lock();
        if (!p || cr->loop < 0) continue;
        LoopRec* r = loops[static_cast<size_t>(cr->loop)];
        if (r->gone) continue;
        bool up = p->state_ == TcpConnection::kConnected || p->state_ == TcpConnection::kDisconnecting;
        bool serverOwned = false;
        if (server) for (auto& e : server->connections_) serverOwned = serverOwned || e.second.get() == p.get();
        if (r->io)
        {
          r->loop->queueInLoop([p]() { if (p->state_ == TcpConnection::kConnected || p->state_ == TcpConnection::kDisconnecting) p->handleClose(); });
          p.reset();
          ioBarrier(r);
        }
        else if (up && !serverOwned)
        {
          TcpConnection* raw = p.get();
          p.reset();
          if (getenv("C02_DEBUG")) fprintf(stderr, "teardown: closing conn %zu (state %d)\n", i, static_cast<int>(raw->state_));
          r->w.exec([raw]() { raw->handleClose(); });
        }
      }
      drain();
      drain();
      loops[0]->w.exec([&]() { delete server; server = NULL; delete client; client = NULL; });
      poolGone();      // the pool is destroyed, its threads are joined
      drain();
      user0.exec([&]() { held.clear(); for (size_t i = 0; i < g_conns.size(); ++i) g_conns[i].urefs.clear(); });
      for (size_t l = 0; l < loops.size(); ++l) { LoopRec* r = loops[l]; if (!r->io) r->w.exec([r]() { r->batchPins.clear(); r->pendPins.clear(); }); }
      drain();
      int leaked = 0;
      for (size_t i = 0; i < g_conns.size(); ++i) { if (!g_conns[i].weak.expired()) ++leaked; ::close(g_conns[i].peer); }
      for (size_t l = 0; l < loops.size(); ++l)
      {
        LoopRec* r = loops[l];
        if (!r->io) { r->w.exec([r]() { delete r->loop; r->loop = NULL; }); r->w.stop(); }
        delete r->io;
        delete r;
      }
      loops.clear();
      printf("census fds=%d leaked=%d closedRegistered=%d\n", countFds() - fds0, leaked, g_badClose);
      printf("end\n");
      fflush(stdout);
      continue;
    }
    // ---------------------------------------------------------------- one op
    bool rejected = false;
    g_events.clear();
    g_dtors.clear();
    auto I = [&](size_t i) { return atoi(w[i].c_str()); };
    auto connOk = [&](int c) { return c >= 0 && static_cast<size_t>(c) < g_conns.size(); };
    auto aliveUp = [&](int c) -> TcpConnectionPtr {
      if (!connOk(c)) return TcpConnectionPtr();
      TcpConnectionPtr p = g_conns[static_cast<size_t>(c)].weak.lock();
      if (p && p->state_ == TcpConnection::kConnecting) p.reset();
      return p;
    };
    auto idle = [&](int l) { return !loops[static_cast<size_t>(l)]->active && !loops[static_cast<size_t>(l)]->gone; };
    // the base thread cannot do anything while it is blocked in ~TcpServer's join()
    auto baseFree = [&](int l) { return !(l == 0 && baseBusy); };
    // functors appended to a loop's queue by this op carry no pin unless the op says so
    auto syncPins = [&]() {
      LoopRec* r = loops[0];
      size_t n = r->loop->pendingFunctors_.size();
      while (r->pendPins.size() < n) r->pendPins.push_back(std::vector<TcpConnectionPtr>());
      wrapQueues();
    };
    if (k == "ACC")
    {
      if (!server || baseBusy || inlineDying) rejected = true;
      else
      {
        ConnRec cr;
        InetAddress peerAddr;
        if (!makePair(&cr.fd, &cr.peer, &peerAddr)) return 3;
        cr.fin = cr.peerShut = false; cr.nDelay = 0; cr.raw = NULL; cr.loop = -1; cr.timersSeen = 0;
        int id = static_cast<int>(g_conns.size());
        g_fdconn[cr.fd] = id;
        g_conns.push_back(cr);
        size_t before = server->connections_.size();
        (void)before;
        // the connection object is created inside newConnection: find it through the map right after, on the loop thread,
        // BEFORE any callback can need it (UP may run inline): hook through nextConnId_
        int connId = 0;
        loops[0]->w.exec([&]() {
          connId = server->nextConnId_;
          // newConnection runs the UP callback inline when the io loop is the base loop; the callback identifies the
          // connection by its raw pointer, so register the pointer as soon as it exists: temporarily route the
          // connection callback through a shim that fills it in
          server->setConnectionCallback([&](const TcpConnectionPtr& c) {
            if (!g_conns[static_cast<size_t>(id)].raw) { g_conns[static_cast<size_t>(id)].raw = c.get(); g_conns[static_cast<size_t>(id)].weak = c; }
            onConnection(c);
          });
          server->newConnection(g_conns[static_cast<size_t>(id)].fd, peerAddr);
          server->setConnectionCallback(onConnection);
          for (auto& e : server->connections_)
            if (e.second->socket_->fd() == g_conns[static_cast<size_t>(id)].fd)
            {
              g_conns[static_cast<size_t>(id)].raw = e.second.get();
              g_conns[static_cast<size_t>(id)].weak = e.second;
              // callbacks copied into the connection at creation still point at the shim: restore
              e.second->setConnectionCallback(onConnection);
            }
        });
        ConnRec& r = g_conns[static_cast<size_t>(id)];
        TcpConnectionPtr p = r.weak.lock();
        for (size_t l = 0; l < loops.size(); ++l) if (p && p->getLoop() == loops[l]->loop) r.loop = static_cast<int>(l);
      }
    }
    else if (k == "SDESTROY")
    {
      // ~TcpServer is a loop of hand-offs: one SDESTROY per live entry of connections_, one more for the death of the members
      if (dying)
      {
        std::set<TcpConnection*> before = liveSet(victim);
        TcpServer* v = victim;
        sdNext();
        handRaw = NULL;
        if (dying) { std::set<TcpConnection*> after = liveSet(v); for (TcpConnection* x : before) if (!after.count(x)) handRaw = x; }
      }
      else if (!server || baseBusy) rejected = true;
      else if (loops.size() == 1)
      {
        // no io threads: everything is inline on the base thread.  The destructor's loop is stepped by hand (one iteration =
        // the three statements of TcpServer.cc: copy the entry, reset it, conn->getLoop()->runInLoop(connectDestroyed)); when no
        // live entry is left the real ~TcpServer runs (over an empty map)
        TcpServer* sv = server;
        bool last = liveEntries(sv) == 0;
        loops[0]->w.exec([sv, last]() {
          if (last) { delete sv; return; }
          for (auto it = sv->connections_.begin(); it != sv->connections_.end(); ++it)
            if (it->second)
            {
              TcpConnectionPtr conn(it->second);
              it->second.reset();
              sv->connections_.erase(it);
              conn->getLoop()->runInLoop(std::bind(&TcpConnection::connectDestroyed, conn));
              break;
            }
        });
        if (last) { server = NULL; inlineDying = false; } else inlineDying = true;
      }
      else
      {
        // the REAL ~TcpServer on the base thread: it parks after each hand-off (hook on the wakeup() write); after the last
        // one threadPool_ dies: ~EventLoopThread of io loop 1 does quit() and blocks in join()
        int pp, pj;
        { std::lock_guard<std::mutex> l(g_poolMu); pp = g_handoffsParked; pj = g_joinReached; g_sdDone = false; g_handoffsToPark = liveEntries(server); g_baseGo = false; }
        victim = server;
        server = NULL;
        TcpServer* v = victim;
        std::set<TcpConnection*> before = liveSet(v);
        loops[0]->w.startAsync([v]() {
          t_inSrvDtor = true;
          delete v;
          t_inSrvDtor = false;
          { std::lock_guard<std::mutex> l(g_poolMu); g_sdDone = true; }
          g_poolCv.notify_all();
        });
        waitStep(pp, pj);
        handRaw = NULL;
        if (dying) { std::set<TcpConnection*> after = liveSet(v); for (TcpConnection* x : before) if (!after.count(x)) handRaw = x; }
      }
    }
    else if (k == "CCONN")
    {
      if (!client || client->connection_ || baseBusy) rejected = true;
      else
      {
        ConnRec cr;
        InetAddress peerAddr;
        if (!makePair(&cr.fd, &cr.peer, &peerAddr)) return 3;
        cr.fin = cr.peerShut = false; cr.nDelay = 0; cr.raw = NULL; cr.loop = 0; cr.timersSeen = 0;
        int id = static_cast<int>(g_conns.size());
        g_fdconn[cr.fd] = id;
        g_conns.push_back(cr);
        loops[0]->w.exec([&]() {
          client->setConnectionCallback([&](const TcpConnectionPtr& c) {
            if (!g_conns[static_cast<size_t>(id)].raw) { g_conns[static_cast<size_t>(id)].raw = c.get(); g_conns[static_cast<size_t>(id)].weak = c; }
            onConnection(c);
          });
          client->newConnection(g_conns[static_cast<size_t>(id)].fd);
          client->setConnectionCallback(onConnection);
          if (client->connection_) client->connection_->setConnectionCallback(onConnection);
        });
      }
    }
    else if (k == "CDESTROY")
    {
      if (!client || baseBusy) rejected = true;
      else loops[0]->w.exec([&]() { delete client; client = NULL; });
    }
    else if (k == "SWAP" || k == "RUN" || k == "END")
    {
      int l = I(1);
      if (l < 0 || static_cast<size_t>(l) >= loops.size()) rejected = true;
      else
      {
        LoopRec* r = loops[static_cast<size_t>(l)];
        if (r->gone || !baseFree(l)) rejected = true;
        else if (r->io)
        {
          // the real loop(): SWAP lets the io thread return from poll() with no event and run doPendingFunctors up to the swap;
          // RUN lets it run the next functor of the batch; END lets it finish doPendingFunctors and evaluate `while (!quit_)`:
          // back into poll(), or - with quit_ stored by ~EventLoopThread - out of loop(): the EventLoop dies with its queue
          IoCtl* io = r->io;
          if (k == "SWAP")
          {
            if (r->active) rejected = true;
            else
            {
              syncPins();
              r->batchSize = r->loop->pendingFunctors_.size();
              io_release(io, true);
              io_wait_parked(io, 2);
              r->pendHolds.clear();
              r->next = 0;
              r->active = true;
            }
          }
          else if (k == "RUN")
          {
            if (!r->active || r->next >= r->batchSize) rejected = true;
            else
            {
              g_wscript = (w[2] == "1") ? -1 : 1;
              io_release(io, false);
              io_wait_parked(io, 3);
              r->next++;
              g_wscript = -1;
            }
          }
          else
          {
            if (!r->active || r->next < r->batchSize) rejected = true;
            else
            {
              bool quit = r->loop->quit_;
              int prev;
              { std::lock_guard<std::mutex> lk(g_poolMu); prev = g_joinReached; }
              io_release(io, false);
              r->active = false;
              if (!quit) io_wait_parked(io, 1);
              else
              {
                // the io thread leaves loop(); join() returns in the base thread, which goes on to the next ~EventLoopThread
                waitPoolEvent(prev);
                r->gone = true;
                r->loop = NULL;
                r->pendHolds.clear();
                g_epfd[static_cast<size_t>(l)] = -1;
                g_pp[static_cast<size_t>(l)] = NULL;
              }
            }
          }
        }
        else if (k == "SWAP")
        {
          if (r->active) rejected = true;
          else
          {
            syncPins();
            r->w.exec([r]() {
              r->loop->callingPendingFunctors_ = true;
              MutexLockGuard lock(r->loop->mutex_);
              r->batch.clear();
              r->batch.swap(r->loop->pendingFunctors_);
            });
            r->batchPins.assign(r->pendPins.begin(), r->pendPins.end());
            r->pendPins.clear();
            r->next = 0;
            r->active = true;
          }
        }
        else if (k == "RUN")
        {
          if (!r->active || r->next >= r->batch.size()) rejected = true;
          else
          {
            g_wscript = (w[2] == "1") ? -1 : 1;
            r->w.exec([r]() { r->batch[r->next](); });
            r->next++;
            g_wscript = -1;
          }
        }
        else
        {
          if (!r->active || r->next < r->batch.size()) rejected = true;
          else
          {
            r->w.exec([r]() { r->batch.clear(); r->batchPins.clear(); r->loop->callingPendingFunctors_ = false; });
            r->active = false;
          }
        }
      }
    }
    else if (k == "EV")
    {
      int c = I(1);
      TcpConnectionPtr p = connOk(c) ? g_conns[static_cast<size_t>(c)].weak.lock() : TcpConnectionPtr();
      if (!p) rejected = true;
      else
      {
        ConnRec& cr = g_conns[static_cast<size_t>(c)];
        Channel* ch = p->channel_.get();
        string mask = epollMask(cr.loop, cr.fd);
        const string& e = w[2];
        if (!ch->addedToLoop_ || mask == "-" || !idle(cr.loop) || !baseFree(cr.loop)) rejected = true;
        else if ((e == "DATA" || e == "EOF" || e == "RERR") && !ch->isReading()) rejected = true;
        else if (e == "OUT" && !ch->isWriting()) rejected = true;
        else
        {
          int rev = 0;
          if (e == "DATA") { char b = 'd'; if (__real_write(cr.peer, &b, 1) != 1) { perror("peer write"); return 3; } rev = POLLIN; }
          else if (e == "EOF") { if (!cr.peerShut) { ::shutdown(cr.peer, SHUT_WR); cr.peerShut = true; } rev = POLLIN; }
          else if (e == "RERR") { g_readvFail = true; rev = POLLIN; }
          else if (e == "HUP") rev = POLLHUP;
          else if (e == "ERR") rev = POLLERR;
          else if (e == "OUT") { g_wscript = (w[3] == "1") ? -1 : 0; rev = POLLOUT; }
          if (e == "DATA" || e == "EOF")
          {   // loopback delivery is asynchronous: wait until the kernel has the byte / the FIN on the receiving side
            struct pollfd pf = {cr.fd, POLLIN | POLLRDHUP, 0};
            if (::poll(&pf, 1, 5000) <= 0) { fprintf(stderr, "harness: peer data did not arrive\n"); return 3; }
          }
          p.reset();      // the dispatch must not be kept alive by the harness: Channel::handleEvent takes its own guard
          LoopRec* r = loops[static_cast<size_t>(cr.loop)];
          r->exec([ch, rev]() { ch->set_revents(rev); ch->handleEvent(Timestamp::now()); });
          g_wscript = -1;
          g_readvFail = false;
        }
      }
      p.reset();
    }
    else if (k == "DFIRE")
    {
      int c = I(1);
      if (!connOk(c) || !idle(g_conns[static_cast<size_t>(c)].loop) || !baseFree(g_conns[static_cast<size_t>(c)].loop)) rejected = true;
      else
      {
        ConnRec& cr = g_conns[static_cast<size_t>(c)];
        LoopRec* r = loops[static_cast<size_t>(cr.loop)];
        bool fired = false;
        r->exec([&]() {
          TimerQueue* tq = r->loop->timerQueue_.get();
          int64_t lo = kT0 + 1000LL * (c + 1) * 1000000LL, hi = lo + 1000LL * 1000000LL;
          for (TimerQueue::TimerList::iterator it = tq->timers_.begin(); it != tq->timers_.end(); ++it)
          {
            int64_t when = it->first.microSecondsSinceEpoch();
            if (when >= lo && when < hi)
            {
              Timer* t = it->second;
              tq->activeTimers_.erase(TimerQueue::ActiveTimer(t, t->sequence()));
              tq->timers_.erase(it);
              t->run();          // what TimerQueue::handleRead does with an expired one-shot timer
              delete t;
              fired = true;
              break;
            }
          }
        });
        if (!fired) rejected = true;
      }
    }
    else if (k == "LSHUT" || k == "LFC" || k == "LFCD" || k == "LSEND" || k == "LSR" || k == "LSP")
    {
      int c = I(1);
      TcpConnectionPtr p = aliveUp(c);
      if (!p) rejected = true;
      else if (loops[static_cast<size_t>(g_conns[static_cast<size_t>(c)].loop)]->gone || !baseFree(g_conns[static_cast<size_t>(c)].loop)) rejected = true;
      else if ((k == "LSR" || k == "LSP") && !p->channel_->addedToLoop_) rejected = true;
      else
      {
        ConnRec& cr = g_conns[static_cast<size_t>(c)];
        TcpConnection* raw = p.get();
        p.reset();
        LoopRec* r = loops[static_cast<size_t>(cr.loop)];
        double delay = 1000.0 * (c + 1) + cr.nDelay;
        if (k == "LFCD") cr.nDelay++;
        if (k == "LSEND") g_wscript = (w[2] == "1") ? -1 : 1;
        r->exec([&]() {
          if (k == "LSHUT") raw->shutdown();
          else if (k == "LFC") raw->forceClose();
          else if (k == "LFCD") raw->forceCloseWithDelay(delay);
          else if (k == "LSEND") raw->send("xy", 2);
          else if (k == "LSR") raw->startRead();
          else raw->stopRead();
        });
        g_wscript = -1;
      }
    }
    else if (k == "UGRAB")
    {
      int c = I(1);
      TcpConnectionPtr p = aliveUp(c);
      if (!p) rejected = true; else g_conns[static_cast<size_t>(c)].urefs.push_back(std::move(p));
    }
    else if (k == "UDROP")
    {
      int c = I(1);
      if (!connOk(c) || g_conns[static_cast<size_t>(c)].urefs.empty()) rejected = true;
      else { ConnRec* cr = &g_conns[static_cast<size_t>(c)]; user0.exec([cr]() { cr->urefs.pop_back(); }); }
    }
    else if (k == "XB")
    {
      int u = I(1), c = I(2);
      TcpConnectionPtr p = aliveUp(c);
      bool dtor = w[3] == "dtor";
      bool dtorBusy = false;
      for (auto& cc : calls) dtorBusy = dtorBusy || cc.second->api == 6;
      if (calls.count(u) || !p) rejected = true;
      else if (dtor && (!client || dtorBusy || client->connection_.get() != p.get())) rejected = true;
      else if (dtor)
      {
        // ~TcpClient on a foreign thread (F-13).  XB: the section under mutex_ (unique = connection_.unique(); conn = connection_),
        // parked in front of the lock of runInLoop(setCloseCallback);  XS: runInLoop(...) and, if unique, forceClose(), parked
        // right after the last loop wakeup;  XE: the destructor's locals and members die, the memory is freed
        p.reset();
        Foreign* f = new Foreign;
        sem_init(&f->reached, 0, 0);
        sem_init(&f->release, 0, 0);
        f->api = 6; f->conn = c; f->armed = 2; f->skipLocks = 1; f->stallWrites = 0; f->at = -1; f->pin = false; f->stored = false;
        f->loaded = client->connection_.unique();
        int idx = 100 + u;
        TcpClient* victim = client;
        f->th = std::thread([f, idx, victim]() {
          { std::lock_guard<std::mutex> l(g_mu); g_tidIndex[CurrentThread::tid()] = idx; }
          t_self = f;
          delete victim;
          f->armed = 0;
          f->at = 0;
          sem_post(&f->reached);
          sem_wait(&f->release);
          t_self = NULL;
        });
        sem_wait(&f->reached);
        calls[u] = f;
      }
      else
      {
        Foreign* f = new Foreign;
        f->skipLocks = 0; f->stallWrites = 0;
        sem_init(&f->reached, 0, 0);
        sem_init(&f->release, 0, 0);
        const string& a = w[3];
        f->api = a == "shutdown" ? 0 : a == "force" ? 1 : a == "forcedelay" ? 2 : a == "send" ? 3 : a == "startread" ? 4 : 5;
        f->conn = c;
        f->armed = (f->api <= 2) ? 1 : 2;
        f->at = -1;
        f->pin = false;
        f->stored = f->api > 2;
        f->copy = std::move(p);
        ConnRec& cr = g_conns[static_cast<size_t>(c)];
        double delay = 1000.0 * (c + 1) + cr.nDelay;
        if (f->api == 2) cr.nDelay++;
        int idx = 100 + u;
        f->th = std::thread([f, delay, idx]() {
          { std::lock_guard<std::mutex> l(g_mu); g_tidIndex[CurrentThread::tid()] = idx; }
          t_self = f;
          TcpConnection* raw = f->copy.get();
          switch (f->api)
          {
            case 0: raw->shutdown(); break;
            case 1: raw->forceClose(); break;
            case 2: raw->forceCloseWithDelay(delay); break;
            case 3: raw->send("xy", 2); break;
            case 4: raw->startRead(); break;
            default: raw->stopRead(); break;
          }
          f->armed = 0;
          f->at = 0;
          sem_post(&f->reached);
          sem_wait(&f->release);       // parked with its reference until XE
          t_self = NULL;
          if (!f->pin) f->copy.reset();
        });
        sem_wait(&f->reached);
        // the test passed iff the call did not return at once (startRead/stopRead have no test)
        f->loaded = f->at != 0;
        calls[u] = f;
      }
    }
    else if (k == "XS")
    {
      int u = I(1);
      std::map<int, Foreign*>::iterator it = calls.find(u);
      if (it == calls.end() || it->second->stored) rejected = true;
      else
      {
        Foreign* f = it->second;
        if (f->api == 6 && f->at == 2)
        {
          TcpConnection* conn = g_conns[static_cast<size_t>(f->conn)].raw;
          bool force = f->loaded && (conn->state_ == TcpConnection::kConnected || conn->state_ == TcpConnection::kDisconnecting);
          f->armed = 4; f->stallWrites = force ? 2 : 1;
          sem_post(&f->release); sem_wait(&f->reached);
        }
        else if (f->at == 1) { sem_post(&f->release); sem_wait(&f->reached); }
        f->stored = true;
      }
    }
    else if (k == "XE")
    {
      int u = I(1);
      std::map<int, Foreign*>::iterator it = calls.find(u);
      if (it == calls.end() || !it->second->stored) rejected = true;
      else if (it->second->api == 6)
      {
        Foreign* f = it->second;
        while (f->at != 0) { sem_post(&f->release); sem_wait(&f->reached); }
        sem_post(&f->release);
        f->th.join();
        client = NULL;
        delete f;
        calls.erase(it);
      }
      else
      {
        Foreign* f = it->second;
        bool pin = w[2] == "1";
        bool raw = f->api == 0 || f->api >= 3;
        ConnRec& cr = g_conns[static_cast<size_t>(f->conn)];
        LoopRec* r = loops[static_cast<size_t>(cr.loop)];
        syncPins();
        if (f->at == 2) { sem_post(&f->release); sem_wait(&f->reached); }
        f->pin = pin && raw && f->loaded;
        TcpConnectionPtr keep;
        if (f->pin) keep = f->copy;
        sem_post(&f->release);
        f->th.join();
        if (f->pin)
        {
          f->copy.reset();
          syncPins();
          if (r->io) { std::shared_ptr<Hold> h = r->pendHolds.back().lock(); h->pins.push_back(std::move(keep)); }
          else r->pendPins.back().push_back(std::move(keep));
        }
        delete f;
        calls.erase(it);
      }
    }
    else { fprintf(stderr, "bad op %s\n", k.c_str()); return 2; }
    syncPins();
    // ---------------------------------------------------------------- observations
    string ev;
    for (size_t i = 0; i < g_events.size(); ++i) { if (!ev.empty()) ev += ","; ev += g_events[i]; }
    std::sort(g_dtors.begin(), g_dtors.end());
    for (size_t i = 0; i < g_dtors.size(); ++i) { if (!ev.empty()) ev += ","; ev += g_dtors[i].second; }
    if (ev.empty()) ev = "-";
    string cs;
    for (size_t i = 0; i < g_conns.size(); ++i)
    {
      ConnRec& cr = g_conns[i];
      if (!cs.empty()) cs += " ";
      long uc = cr.weak.use_count();
      if (uc == 0) { cs += "dead"; continue; }
      TcpConnection* p = cr.raw;
      // references the harness knows to be temporaries of a stalled call (the bound functor / the shared_from_this()
      // temporary of forceClose / forceCloseWithDelay parked at the queue's mutex) are not holders of the model
      for (auto& cl : calls) if (cl.second->conn == static_cast<int>(i) && cl.second->at == 2 && (cl.second->api == 1 || cl.second->api == 2)) uc -= 1;
      if (dying && handRaw && cr.raw == handRaw) uc -= 1;
      int timers = cr.timersSeen;
      if (!loops[static_cast<size_t>(cr.loop)]->gone)
      {
        timers = 0;
        TimerQueue* tq = loops[static_cast<size_t>(cr.loop)]->loop->timerQueue_.get();
        int64_t lo = kT0 + 1000LL * (static_cast<int64_t>(i) + 1) * 1000000LL, hi = lo + 1000LL * 1000000LL;
        for (TimerQueue::TimerList::iterator it = tq->timers_.begin(); it != tq->timers_.end(); ++it)
          if (it->first.microSecondsSinceEpoch() >= lo && it->first.microSecondsSinceEpoch() < hi) ++timers;
        cr.timersSeen = timers;
      }
      char buf[128];
      snprintf(buf, sizeof buf, "L%dS%dw%dr%df%da%de%sh%ldd%dn%d", cr.loop, static_cast<int>(p->state_), p->channel_->isWriting() ? 1 : 0,
               p->channel_->isReading() ? 1 : 0, p->reading_ ? 1 : 0, p->channel_->addedToLoop_ ? 1 : 0,
               epollMask(cr.loop, cr.fd).c_str(), uc, timers, cr.fin ? 1 : 0);
      cs += buf;
    }
    if (cs.empty()) cs = "-";
    string qs;
    for (size_t l = 0; l < loops.size(); ++l)
    {
      LoopRec* r = loops[l];
      if (!qs.empty()) qs += ";";
      if (r->gone) { qs += "gone"; continue; }
      size_t bsz = r->io ? r->batchSize : r->batch.size();
      size_t batchLeft = r->active ? bsz - r->next : 0, spent = r->active ? r->next : 0;
      // 'd' = callingPendingFunctors_ (the real flag), 'q' = quit_ (stored by the real ~EventLoopThread)
      qs += std::to_string(r->loop->queueSize()) + "/" + std::to_string(batchLeft) + "/" + std::to_string(spent) +
            (r->loop->callingPendingFunctors_ ? "d" : "") + (r->loop->quit_ ? "q" : "");
    }
    string cli = "-";
    if (client && client->connection_)
      for (size_t i = 0; i < g_conns.size(); ++i) if (g_conns[i].raw == client->connection_.get() && !g_conns[i].weak.expired()) cli = std::to_string(i);
    if (getenv("C02_DEBUG"))
      for (size_t i = 0; i < g_conns.size(); ++i)
        if (!g_conns[i].weak.expired()) fprintf(stderr, "  dbg conn %zu fd=%d index=%d events=%d\n", i, g_conns[i].fd, g_conns[i].raw->channel_->index(), g_conns[i].raw->channel_->events());
    // srv=1:n the server exists, n live entries; srv=D:n its destructor is between two hand-offs; srv=0:0 it is gone
    size_t liveN = 0;
    { TcpServer* sv = server ? server : (dying ? victim : NULL); if (sv) for (auto& e : sv->connections_) if (e.second) ++liveN; }
    // (with no io threads a stepped destructor is recognised by the model side only: the server object still exists)
    printf("%s ev=%s | %s | q=%s srv=%s:%zu cli=%d:%s\n", rejected ? "rejected" : "ok", ev.c_str(), cs.c_str(), qs.c_str(),
           dying || inlineDying ? "D" : server ? "1" : "0", liveN, client ? 1 : 0, cli.c_str());
    fflush(stdout);
  }
  user0.stop();
  return 0;
}
