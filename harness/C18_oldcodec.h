// C18_oldcodec.h: a narrow interface to the OLD protobuf codec of the examples directory
// (examples/protobuf/codec/codec.{h,cc}, class ProtobufCodec), compiled in its own translation
// unit (harness/C18_oldcodec.cc) because codec.h declares ::MessagePtr and class ::ProtobufCodec at
// global scope, which clash with muduo::net::MessagePtr under the driver's using-directives.
#ifndef VERIF_C18_OLDCODEC_H
#define VERIF_C18_OLDCODEC_H
#include <string>
namespace muduo { namespace net { class Buffer; } }
namespace google { namespace protobuf { class Message; } }

struct OldCodec;
typedef void (*OldMessageFn)(const google::protobuf::Message& m);   // messageCallback_
typedef void (*OldErrorFn)(const std::string& errorName);           // errorCallback_ (errorCodeToString)
OldCodec* oldcodec_new(OldMessageFn onMessage, OldErrorFn onError);
void oldcodec_delete(OldCodec* c);
// ProtobufCodec::onMessage(TcpConnectionPtr(), buf, Timestamp())
void oldcodec_onMessage(OldCodec* c, muduo::net::Buffer* buf);
// ProtobufCodec::fillEmptyBuffer(buf, message)
void oldcodec_fillEmptyBuffer(muduo::net::Buffer* buf, const google::protobuf::Message& message);
// the three private constants, as compiled
int oldcodec_kHeaderLen();
int oldcodec_kMinMessageLen();
int oldcodec_kMaxMessageLen();
#endif
