// C18_oldcodec.cc: the OLD codec of the tree under test, compiled from its current source
// (#include of examples/protobuf/codec/codec.cc through the include path of VERIF_REPO).
#define private public
#include "examples/protobuf/codec/codec.h"
#undef private
#include "examples/protobuf/codec/codec.cc"
#include "C18_oldcodec.h"

struct OldCodec
{
  OldMessageFn onMessage;
  OldErrorFn onError;
  ProtobufCodec* codec;
};

OldCodec* oldcodec_new(OldMessageFn onMessage, OldErrorFn onError)
{
  OldCodec* c = new OldCodec;
  c->onMessage = onMessage;
  c->onError = onError;
  c->codec = new ProtobufCodec(
      [c](const muduo::net::TcpConnectionPtr&, const MessagePtr& m, muduo::Timestamp) { c->onMessage(*m); },
      [c](const muduo::net::TcpConnectionPtr&, muduo::net::Buffer*, muduo::Timestamp, ProtobufCodec::ErrorCode e)
      { c->onError(ProtobufCodec::errorCodeToString(e)); });
  return c;
}

void oldcodec_delete(OldCodec* c)
{
  if (c) { delete c->codec; delete c; }
}

void oldcodec_onMessage(OldCodec* c, muduo::net::Buffer* buf)
{
  c->codec->onMessage(muduo::net::TcpConnectionPtr(), buf, muduo::Timestamp());
}

void oldcodec_fillEmptyBuffer(muduo::net::Buffer* buf, const google::protobuf::Message& message)
{
  ProtobufCodec::fillEmptyBuffer(buf, message);
}

int oldcodec_kHeaderLen() { return ProtobufCodec::kHeaderLen; }
int oldcodec_kMinMessageLen() { return ProtobufCodec::kMinMessageLen; }
int oldcodec_kMaxMessageLen() { return ProtobufCodec::kMaxMessageLen; }
