// C07_race: deterministic reproduction, on the REAL muduo classes compiled from VERIF_REPO under
// ASan, of the hand-off race in TimerQueue::addTimer (finding F-7):
//
//   Timer* timer = new Timer(...);
//   loop_->runInLoop(std::bind(&TimerQueue::addTimerInLoop, this, timer));   // hand-off
//   return TimerId(timer, timer->sequence());                                // read AFTER hand-off
//
// The EventLoop L lives on the driver (main) thread; loop() is never run, the main thread plays
// the loop thread step by step.  A foreign thread F calls L->runAfter(delay, cb).  Inside
// EventLoop::queueInLoop, after the functor has been pushed and the mutex released, wakeup() does
// ::write(wakeupFd_, &one, 8).  That write is interposed (-Wl,--wrap=write): in mode "forced"
// __wrap_write performs the real write and then parks F until the main thread has done what one
// iteration of EventLoop::loop() does after the wake-up:
//     EventLoop::handleRead()           (drain the eventfd)
//     EventLoop::doPendingFunctors()    (runs TimerQueue::addTimerInLoop(timer))
//     TimerQueue::handleRead()          (timer is due -> callback -> one-shot -> `delete timer`)
// F then returns from runInLoop and evaluates timer->sequence().  On the pinned tree this is a
// heap-use-after-free (ASan aborts the process inside the R op); on a tree that reads the
// sequence before the hand-off the op completes with ran=1 id_seq_ok=1.
// Time is the scripted clock of --wrap=gettimeofday (Timestamp::now()), so "the timer is due when
// the loop thread looks" does not depend on the machine: the clock is advanced by
// max(delay_us,0)+1 (or by the optional <advance_us>) before TimerQueue::handleRead().
//
// wrap list: write, gettimeofday
//
// stdin:
//   case <id> race
//   R <mode> <delay_us> [<advance_us>]
//        mode = forced : the schedule above
//        mode = benign : same foreign call, but the main thread runs the loop steps only after
//                        F has returned from runAfter (join first)
//        mode = loop   : runAfter on the loop (main) thread itself, then the loop steps
//        mode = overlap: as forced, but while F is parked after the hand-off the main thread runs only
//                        doPendingFunctors (the timer A gets registered, it is not due) and ADDS AN UNRELATED
//                        TIMER B (another Timer is constructed while A's add is in flight); F is released and
//                        returns id_A; the main thread calls cancel(id_A) (processed at once on the loop
//                        thread), lets the clock pass A's deadline and runs TimerQueue::handleRead():
//                        id_seq_ok = id_A carries the sequence of the Timer it points to (A was constructed
//                        first in this op), ran must be 0 (the cancel named A)
//   end
// stdout (flushed after each line):
//   case <id>
//   ok mode=<mode> ran=<callback runs during this op> id_seq_ok=<0|1>
//        (status "nohook" instead of "ok" when mode=forced but F never reached the wake-up
//         write, i.e. the forced schedule could not be realised)
//   end
#include <errno.h>
#include <pthread.h>
#include <stdint.h>
#include <sys/time.h>
#include <unistd.h>

#include <atomic>
#include <condition_variable>
#include <functional>
#include <iostream>
#include <memory>
#include <mutex>
#include <thread>

#define private public
#define protected public
#include "muduo/net/EventLoop.h"
#include "muduo/net/TimerQueue.h"
#include "muduo/net/Timer.h"
#include "muduo/net/TimerId.h"
#include "muduo/base/Logging.h"
#undef private
#undef protected

#include "common.h"

using namespace muduo;
using namespace muduo::net;
using std::string;

// ------------------------------------------------------------------ interposition
extern "C" {
ssize_t __real_write(int fd, const void* buf, size_t n);
int __real_gettimeofday(struct timeval* tv, void* tz);
}

static std::atomic<int64_t> g_now_us(1700000000LL * 1000000LL);
static std::atomic<int> g_wakeup_fd(-1);     // L->wakeupFd_ of the current loop
static std::atomic<bool> g_force(false);     // forced schedule enabled for the current op
static thread_local bool t_foreign = false;  // this thread is the foreign caller F
static thread_local bool t_hooked = false;   // F has already been parked once in this op

static std::mutex g_mu;
static std::condition_variable g_cv;
static bool g_hook_reached = false;   // F is parked inside the wake-up write
static bool g_loop_done = false;      // main has run the loop steps, F may go on
static bool g_f_done = false;         // F has returned from runAfter

extern "C" ssize_t __wrap_write(int fd, const void* buf, size_t n)
{
  ssize_t r = __real_write(fd, buf, n);
  if (g_force.load() && t_foreign && !t_hooked && fd >= 0 && fd == g_wakeup_fd.load())
  {
    int saved = errno;
    t_hooked = true;
    std::unique_lock<std::mutex> lk(g_mu);
    g_hook_reached = true;
    g_cv.notify_all();
    while (!g_loop_done) g_cv.wait(lk);
    errno = saved;
  }
  return r;
}

extern "C" int __wrap_gettimeofday(struct timeval* tv, void* tz)
{
  (void)tz;
  int64_t t = g_now_us.load();
  tv->tv_sec = static_cast<time_t>(t / 1000000);
  tv->tv_usec = static_cast<suseconds_t>(t % 1000000);
  return 0;
}

// ------------------------------------------------------------------ driver
static std::atomic<int> g_ran(0);
static void onTimer() { g_ran.fetch_add(1); }
static void onTimerB() {}
static void nullOutput(const char*, int) {}
static void nullFlush() {}

// what one iteration of EventLoop::loop() does once poll() has reported the wake-up fd and the
// timer fd: wakeupChannel_ -> EventLoop::handleRead, doPendingFunctors, timerfdChannel_ ->
// TimerQueue::handleRead
static void loopSteps(EventLoop* L, bool drainWakeup, int64_t advance_us)
{
  if (drainWakeup) L->handleRead();
  L->doPendingFunctors();
  g_now_us.fetch_add(advance_us);
  L->timerQueue_->handleRead();
}

int main()
{
  Logger::setOutput(nullOutput);
  Logger::setFlush(nullFlush);
  std::unique_ptr<EventLoop> loop;
  string line;
  while (std::getline(std::cin, line))
  {
    std::vector<string> w = vh::splitWs(line);
    if (w.empty()) continue;
    const string& k = w[0];
    if (k == "case")
    {
      g_wakeup_fd.store(-1);
      loop.reset();                 // ~EventLoop clears t_loopInThisThread, deletes left-over timers
      loop.reset(new EventLoop);
      g_wakeup_fd.store(loop->wakeupFd_);
      printf("case %s\n", w.size() > 1 ? w[1].c_str() : "?");
      fflush(stdout);
      continue;
    }
    if (k == "end") { printf("end\n"); fflush(stdout); continue; }
    if (k != "R" || w.size() < 3 || !loop)
    {
      fprintf(stderr, "C07_race: bad line: %s\n", line.c_str());
      return 2;
    }
    const string mode = w[1];
    const int64_t delay_us = strtoll(w[2].c_str(), NULL, 10);
    const int64_t advance_us = w.size() > 3 ? strtoll(w[3].c_str(), NULL, 10)
                                            : (delay_us > 0 ? delay_us : 0) + 1;
    const double delay = static_cast<double>(delay_us) / 1000000.0;
    EventLoop* L = loop.get();
    g_ran.store(0);
    TimerId id;
    const char* status = "ok";
    const int64_t before = Timer::numCreated();   // the timer of this op (A) is the next one constructed

    if (mode == "loop")
    {
      id = L->runAfter(delay, onTimer);          // runInLoop runs addTimerInLoop at once
      loopSteps(L, false, advance_us);
    }
    else if (mode == "forced" || mode == "benign" || mode == "overlap")
    {
      const bool overlap = (mode == "overlap");
      const bool forced = (mode == "forced") || overlap;
      {
        std::lock_guard<std::mutex> lk(g_mu);
        g_hook_reached = g_loop_done = g_f_done = false;
      }
      g_force.store(forced);
      std::thread F([L, delay, &id]() {
        t_foreign = true;
        t_hooked = false;
        TimerId r = L->runAfter(delay, onTimer);   // pinned tree + forced: ASan dies in here
        std::lock_guard<std::mutex> lk(g_mu);
        id = r;
        g_f_done = true;
        g_cv.notify_all();
      });
      bool hooked = false;
      {
        std::unique_lock<std::mutex> lk(g_mu);
        while (!g_f_done && !(forced && g_hook_reached)) g_cv.wait(lk);
        hooked = g_hook_reached && !g_f_done;
      }
      if (hooked && overlap)
      {
        // F is parked after the hand-off; A gets registered (not due), then another Timer is constructed
        L->handleRead();
        L->doPendingFunctors();
        L->runAfter(1000000.0, onTimerB);
        {
          std::lock_guard<std::mutex> lk(g_mu);
          g_loop_done = true;
          g_cv.notify_all();
        }
        F.join();
        L->cancel(id);                       // loop thread: cancelInLoop runs at once
        g_now_us.fetch_add(advance_us);
        L->timerQueue_->handleRead();        // A's deadline has passed; B is far away
      }
      else if (hooked)
      {
        // F is parked inside wakeup()'s write: functor queued, mutex released, `timer` handed off
        loopSteps(L, true, advance_us);
        {
          std::lock_guard<std::mutex> lk(g_mu);
          g_loop_done = true;
          g_cv.notify_all();
        }
        F.join();
      }
      else
      {
        F.join();                                  // F has returned (and read the sequence) first
        if (forced) status = "nohook";
        loopSteps(L, true, advance_us);
      }
      g_force.store(false);
    }
    else
    {
      fprintf(stderr, "C07_race: unknown mode %s\n", mode.c_str());
      return 2;
    }
    // the Timer of this op is the first one constructed in it
    const int64_t expect = before + 1;
    printf("%s mode=%s ran=%d id_seq_ok=%d\n", status, mode.c_str(), g_ran.load(),
           id.sequence_ == expect ? 1 : 0);
    fflush(stdout);
  }
  g_wakeup_fd.store(-1);
  loop.reset();
  return 0;
}
