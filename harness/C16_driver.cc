// C16 driver: the REAL muduo::AsyncLogging + LogFile + FileUtil::AppendFile writing real files into a
// scratch directory (argv[1], under /verif/_work), with link-time interposition only (no hooks in /repo):
//   --wrap=time / gettimeofday           virtual clock (file names, roll/flush decisions, announcement)
//   --wrap=fwrite_unlocked / ferror      scripted short writes + stream error (sequential cases),
//                                        "write" gate of the back-end thread (async cases)
//   --wrap=fflush                        flush counter (sequential) / "flush" gate (async)
//   --wrap=fputs                         captures the overload announcement on stderr / "announce" gate
//   --wrap=pthread_mutex_lock            "lock" gate: back-end about to enter its critical section
//   --wrap=pthread_cond_timedwait        "wait" gate: back-end inside waitForSeconds (mutex released)
// A gate parks the back-end thread ("Logging") until the controller (main thread, reading the case
// from stdin) releases it, so that front-end appends and stop() can be placed at every phase
// deterministically.  At every gate the AsyncLogging mutex is free, hence a front-end append (a whole
// critical section) completes synchronously.
//
// Case formats
//   case <id> seq roll=<bytes> flush=<sec> every=<n> now=<sec>
//     A <payload> <now> <now2> <script>   LogFile::append; time() returns now, then now2, now2...;
//                                         script "-" or k:e,k:e,... = successive fwrite_unlocked results
//                                         (k bytes accepted; e = ferror() afterwards)
//     F                                   LogFile::flush
//     R <now>                             LogFile::rollFile
//   case <id> async threads=<T> roll=<bytes> flush=<sec> now=<sec>
//     A <t> <n> <lenspec>   front-end thread t appends its next n records (lengths: const or @lo:hi:seed)
//     B                     release the back-end until its next gate
//     T <sec>               set the virtual clock
//     S                     stop() is called on the stopper thread; returns to the controller when
//                           running_ == false has been stored
//     J                     open all gates, wait until stop() has returned
//   case <id> free threads=<T> n=<records per thread> lens=<lenspec> roll=<bytes> burst=<k> quiesce=<0|1>
//     (no ops) all gates open, T threads append concurrently, the clock ticks, then stop();
//     optional slow=<us>: the back-end sleeps that long in front of every fwrite (provokes the overload valve)
//   case <id> lfree threads=<T> n=<records per thread> lens=<lenspec> roll=<bytes> flush=<sec> every=<n> burst=<k>
//     (no ops) T threads append concurrently to ONE thread-safe LogFile (threadSafe = true), the clock ticks
//   end
// Output: one line per op (model-comparable), then "f <file name> <size> <crc>" per produced file in
// name order, "e <announcement>" per captured stderr announcement, "end".  Files are left in
// <scratch>/<id>/ for the Python oracle (which deletes them).
#include <errno.h>
#include <dirent.h>
#include <pthread.h>
#include <sched.h>
#include <stdarg.h>
#include <stdint.h>
#include <stdio.h>
#include <string.h>
#include <sys/stat.h>
#include <sys/time.h>
#include <sys/types.h>
#include <time.h>
#include <unistd.h>
#include <algorithm>
#include <atomic>
#include <deque>
#include <iostream>
#include <map>
#include <memory>
#include <sstream>
#include <string>
#include <vector>
#include <functional>

#define private public
#include "muduo/base/AsyncLogging.h"
#include "muduo/base/LogFile.h"
#include "muduo/base/FileUtil.h"
#undef private
#include "muduo/base/CurrentThread.h"
#include "muduo/base/ProcessInfo.h"

#include "common.h"

using std::string;

extern "C" {
time_t __real_time(time_t*);
int __real_gettimeofday(struct timeval*, void*);
size_t __real_fwrite_unlocked(const void*, size_t, size_t, FILE*);
int __real_ferror(FILE*);
int __real_fflush(FILE*);
int __real_fputs(const char*, FILE*);
int __real_pthread_mutex_lock(pthread_mutex_t*);
int __real_pthread_cond_timedwait(pthread_cond_t*, pthread_mutex_t*, const struct timespec*);
}

// ------------------------------------------------------------------------------------ global control
static std::atomic<bool> g_virtual(false);        // clock is virtual
static std::atomic<bool> g_atomicClock(false);    // lfree: time() = g_vnow (several threads call it)
// lfree: the trace of critical sections.  Every event is recorded while LogFile's mutex is held (fwrite and
// time() are only called inside append_unlocked) or before the threads exist (constructor), so pushes are serial.
struct LfEvent { int t; long a; };                 // t >= 0: fwrite of record #a by thread t;  t == -1: time() returned a
static std::vector<LfEvent> g_lfTrace;
static std::atomic<bool> g_lfRecord(false);       // the section trace is recorded (lfree only)
static std::atomic<bool> g_multiShort(false);     // multi: every AsyncLogging back-end wakes up every 5 ms
static thread_local int t_lfThread = -1;
static thread_local long t_lfIndex = -1;
static std::atomic<long> g_vnow(0);
static std::deque<long> g_timeScript;              // sequential: successive time() results
static long g_timeLast = 0;
static int g_timeCalls = 0;

static std::deque<std::pair<long, int> > g_wrScript;  // sequential: fwrite_unlocked results
static int g_ferr = 0;
static int g_errSeen = 0;    // ferror() was consulted and reported an error during the current op
static int g_nflush = 0;

static std::atomic<bool> g_forced(false);          // gates active
static std::atomic<bool> g_shortWait(false);       // free mode: timed waits shortened
static std::atomic<long> g_slowWriteUs(0);         // free mode: the back-end sleeps this long per fwrite (provokes overload)
static muduo::AsyncLogging* g_log = NULL;
static pthread_mutex_t g_gm = PTHREAD_MUTEX_INITIALIZER;
static pthread_cond_t g_gcBackend = PTHREAD_COND_INITIALIZER;
static pthread_cond_t g_gcCtrl = PTHREAD_COND_INITIALIZER;
static long g_parkCount = 0;
static bool g_release = false;
static string g_gateName;
static long g_gateArg = 0;
static bool g_stopReturned = false;
static std::vector<string> g_announce;
static bool g_startGateDone = false;

static bool isBackend()
{
  const char* n = muduo::CurrentThread::t_threadName;
  return n && strcmp(n, "Logging") == 0;
}

static void gate(const char* name, long arg)
{
  if (!g_forced.load()) return;
  __real_pthread_mutex_lock(&g_gm);
  if (g_forced.load())
  {
    g_gateName = name;
    g_gateArg = arg;
    ++g_parkCount;
    pthread_cond_broadcast(&g_gcCtrl);
    while (!g_release && g_forced.load()) pthread_cond_wait(&g_gcBackend, &g_gm);
    g_release = false;
  }
  pthread_mutex_unlock(&g_gm);
}

// controller: release the back-end and wait until it parks again or stop() has returned
static string stepBackend()
{
  __real_pthread_mutex_lock(&g_gm);
  long old = g_parkCount;
  g_release = true;
  pthread_cond_broadcast(&g_gcBackend);
  while (g_parkCount == old && !g_stopReturned) pthread_cond_wait(&g_gcCtrl, &g_gm);
  string r;
  if (g_parkCount != old)
  {
    char b[64];
    snprintf(b, sizeof b, "%s arg=%ld", g_gateName.c_str(), g_gateArg);
    r = b;
  }
  else r = "exit arg=0";
  pthread_mutex_unlock(&g_gm);
  return r;
}

static string waitFirstPark()
{
  __real_pthread_mutex_lock(&g_gm);
  while (g_parkCount == 0) pthread_cond_wait(&g_gcCtrl, &g_gm);
  char b[64];
  snprintf(b, sizeof b, "%s arg=%ld", g_gateName.c_str(), g_gateArg);
  pthread_mutex_unlock(&g_gm);
  return b;
}

static void openAllGates()
{
  __real_pthread_mutex_lock(&g_gm);
  g_forced.store(false);
  g_release = true;
  pthread_cond_broadcast(&g_gcBackend);
  pthread_mutex_unlock(&g_gm);
}

// ------------------------------------------------------------------------------------ interposition
extern "C" time_t __wrap_time(time_t* t)
{
  if (!g_virtual.load()) return __real_time(t);
  long v;
  if (g_atomicClock.load())
  {
    v = g_vnow.load();
    if (g_lfRecord.load())
    {
      LfEvent e; e.t = -1; e.a = v;
      g_lfTrace.push_back(e);
    }
  }
  else if (g_log)
  {
    // the back-end's first time() call is in the LogFile constructor, before its first test of running_
    if (g_forced.load() && !g_startGateDone && isBackend()) { g_startGateDone = true; gate("start", 0); }
    v = g_vnow.load();
  }
  else
  {
    if (!g_timeScript.empty()) { v = g_timeScript.front(); g_timeScript.pop_front(); g_timeLast = v; }
    else v = g_timeLast;
    ++g_timeCalls;
  }
  if (t) *t = static_cast<time_t>(v);
  return static_cast<time_t>(v);
}

extern "C" int __wrap_gettimeofday(struct timeval* tv, void* tz)
{
  if (!g_virtual.load()) return __real_gettimeofday(tv, tz);
  tv->tv_sec = (g_log || g_atomicClock.load()) ? g_vnow.load() : g_timeLast;
  tv->tv_usec = 0;
  return 0;
}

// a write loop that never ends (e.g. AppendFile::append no longer advancing) must not fill the disk:
// no operation of any case needs more than a few dozen fwrite calls between two flushes
static thread_local long t_fwCalls = 0;   // per thread: back-end between two flushes / one sequential op / one LogFile::append
static void runaway()
{
  static const char msg[] = "RUNAWAY: more than 5000 fwrite_unlocked calls without a flush / within one operation\n";
  if (write(2, msg, sizeof msg - 1) < 0) {}
  _exit(4);
}

extern "C" size_t __wrap_fwrite_unlocked(const void* p, size_t sz, size_t n, FILE* fp)
{
  if (fp == stdout || fp == stderr) return __real_fwrite_unlocked(p, sz, n, fp);
  if (++t_fwCalls > 5000) runaway();
  if (g_log)
  {
    if (isBackend())
    {
      gate("write", static_cast<long>(sz * n));
      long us = g_slowWriteUs.load();
      if (us > 0) usleep(static_cast<useconds_t>(us));
    }
    return __real_fwrite_unlocked(p, sz, n, fp);
  }
  if (g_lfRecord.load() && t_lfThread >= 0)
  {
    LfEvent e; e.t = t_lfThread; e.a = t_lfIndex;
    g_lfTrace.push_back(e);
  }
  if (!g_wrScript.empty())
  {
    std::pair<long, int> r = g_wrScript.front();
    g_wrScript.pop_front();
    g_ferr = r.second;
    size_t k = static_cast<size_t>(r.first);
    if (k >= n) return __real_fwrite_unlocked(p, sz, n, fp);
    size_t got = __real_fwrite_unlocked(p, sz, k, fp);
    return got;
  }
  g_ferr = 0;
  return __real_fwrite_unlocked(p, sz, n, fp);
}

extern "C" int __wrap_ferror(FILE* fp)
{
  if (g_log || fp == stdout || fp == stderr) return __real_ferror(fp);
  if (g_ferr) { g_errSeen = 1; return 5; }
  return __real_ferror(fp);
}

extern "C" int __wrap_fflush(FILE* fp)
{
  if (fp == NULL || fp == stdout || fp == stderr) return __real_fflush(fp);
  t_fwCalls = 0;
  if (g_log) { if (isBackend()) gate("flush", 0); }
  else ++g_nflush;
  return __real_fflush(fp);
}

extern "C" int __wrap_fputs(const char* s, FILE* fp)
{
  if (fp == stderr && g_log && isBackend())
  {
    __real_pthread_mutex_lock(&g_gm);
    g_announce.push_back(s);
    pthread_mutex_unlock(&g_gm);
    gate("announce", 0);
    return 1;
  }
  return __real_fputs(s, fp);
}

extern "C" int __wrap_pthread_mutex_lock(pthread_mutex_t* m)
{
  if (g_log && g_forced.load() && m == g_log->mutex_.getPthreadMutex() && isBackend()) gate("lock", 0);
  return __real_pthread_mutex_lock(m);
}

extern "C" int __wrap_pthread_cond_timedwait(pthread_cond_t* c, pthread_mutex_t* m, const struct timespec* abstime)
{
  if (g_multiShort.load() && isBackend())
  {
    struct timespec ts;
    clock_gettime(CLOCK_REALTIME, &ts);
    ts.tv_nsec += 5 * 1000 * 1000;
    if (ts.tv_nsec >= 1000000000L) { ts.tv_nsec -= 1000000000L; ts.tv_sec += 1; }
    return __real_pthread_cond_timedwait(c, m, &ts);
  }
  if (g_log && c == &g_log->cond_.pcond_ && isBackend())
  {
    if (g_forced.load())
    {
      pthread_mutex_unlock(m);
      gate("wait", 0);
      __real_pthread_mutex_lock(m);
      return ETIMEDOUT;
    }
    if (g_shortWait.load())
    {
      struct timespec ts;
      clock_gettime(CLOCK_REALTIME, &ts);
      ts.tv_nsec += 5 * 1000 * 1000;
      if (ts.tv_nsec >= 1000000000L) { ts.tv_nsec -= 1000000000L; ts.tv_sec += 1; }
      return __real_pthread_cond_timedwait(c, m, &ts);
    }
  }
  return __real_pthread_cond_timedwait(c, m, abstime);
}

// ------------------------------------------------------------------------------------ records
static const char PAT[] = "0123456789ABCDEFGHIJKLMNOPQRSTUVWXYZabcdefghijklmnopqrstuvwxyz+/";
static string g_pp;

static void makeRecord(int t, unsigned seq, int len, char* out)
{
  size_t off = (seq * 7u + static_cast<unsigned>(t) * 13u) % 64u;
  memcpy(out, g_pp.data() + off, static_cast<size_t>(len));
  out[0] = static_cast<char>('a' + t);
  if (len >= 10)
  {
    char h[16];
    snprintf(h, sizeof h, "%08x", seq);
    memcpy(out + 1, h, 8);
  }
  if (len >= 2) out[len - 1] = '\n';
}

struct LenSpec
{
  long lo, hi;
  uint32_t seed;
  explicit LenSpec(const string& s) : lo(1), hi(1), seed(0)
  {
    if (!s.empty() && s[0] == '@')
    {
      size_t a = s.find(':'), b = s.find(':', a + 1);
      lo = atol(s.substr(1, a - 1).c_str());
      hi = atol(s.substr(a + 1, b - a - 1).c_str());
      seed = static_cast<uint32_t>(atol(s.substr(b + 1).c_str()));
    }
    else lo = hi = atol(s.c_str());
  }
  int at(unsigned i) const
  {
    if (lo == hi) return static_cast<int>(lo);
    uint32_t x = (seed + i * 0x9E3779B1u) | 1u;
    x ^= x << 13;
    x ^= x >> 17;
    x ^= x << 5;
    return static_cast<int>(lo + static_cast<long>(x % static_cast<uint32_t>(hi - lo + 1)));
  }
};

// ------------------------------------------------------------------------------------ helpers
static string hdrGet(const std::vector<string>& w, const char* key, const char* dflt)
{
  string k = string(key) + "=";
  for (size_t i = 0; i < w.size(); ++i)
    if (w[i].compare(0, k.size(), k) == 0) return w[i].substr(k.size());
  return dflt;
}

static string g_scratch;

static void enterCaseDir(const string& id)
{
  string d = g_scratch + "/" + id;
  mkdir(g_scratch.c_str(), 0777);
  mkdir(d.c_str(), 0777);
  // stale files of an earlier run of the same id
  DIR* dir = opendir(d.c_str());
  if (dir)
  {
    while (struct dirent* e = readdir(dir))
      if (e->d_name[0] != '.') unlink((d + "/" + e->d_name).c_str());
    closedir(dir);
  }
  if (chdir(d.c_str()) != 0) { perror("chdir"); exit(3); }
}

static void listFiles()
{
  printf("h %s %d\n", muduo::ProcessInfo::hostname().c_str(), muduo::ProcessInfo::pid());
  std::vector<string> names;
  DIR* dir = opendir(".");
  if (dir)
  {
    while (struct dirent* e = readdir(dir))
      if (e->d_name[0] != '.') names.push_back(e->d_name);
    closedir(dir);
  }
  std::sort(names.begin(), names.end());
  std::vector<char> buf(1 << 20);
  for (size_t i = 0; i < names.size(); ++i)
  {
    FILE* f = fopen(names[i].c_str(), "rb");
    string all;
    if (f)
    {
      size_t n;
      while ((n = fread(&buf[0], 1, buf.size(), f)) > 0) all.append(&buf[0], n);
      fclose(f);
    }
    printf("f %s %zu %s\n", names[i].c_str(), all.size(), vh::fnv(all).c_str());
  }
}

// ------------------------------------------------------------------------------------ sequential cases
// disk= : what the kernel has of the current file (fstat), i.e. without what stdio still buffers; oracle only
static void showSeq(const char* op, muduo::LogFile* lf)
{
  struct stat st;
  long disk = (fstat(fileno(lf->file_->fp_), &st) == 0) ? static_cast<long>(st.st_size) : -1;
  printf("%s wb=%ld cnt=%d sop=%ld lr=%ld lf=%ld nfl=%d err=%d tc=%d disk=%ld\n", op,
         static_cast<long>(lf->file_->writtenBytes_), lf->count_, static_cast<long>(lf->startOfPeriod_),
         static_cast<long>(lf->lastRoll_), static_cast<long>(lf->lastFlush_), g_nflush, g_errSeen ? 1 : 0, g_timeCalls, disk);
}

static void runSeq(const std::vector<string>& hdr)
{
  long roll = atol(hdrGet(hdr, "roll", "1000").c_str());
  int flush = atoi(hdrGet(hdr, "flush", "3").c_str());
  int every = atoi(hdrGet(hdr, "every", "1024").c_str());
  long now = atol(hdrGet(hdr, "now", "1000").c_str());
  g_virtual.store(true);
  g_timeScript.clear();
  g_wrScript.clear();
  g_timeScript.push_back(now);
  g_timeLast = now;
  g_timeCalls = 0;
  g_nflush = 0;
  g_ferr = 0;
  g_errSeen = 0;
  std::unique_ptr<muduo::LogFile> lf(new muduo::LogFile("c16log", roll, false, flush, every));
  showSeq(("case " + hdr[1]).c_str(), lf.get());
  string line;
  while (std::getline(std::cin, line))
  {
    std::vector<string> w = vh::splitWs(line);
    if (w.empty()) continue;
    if (w[0] == "end") break;
    g_timeCalls = 0;
    g_errSeen = 0;
    g_ferr = 0;
    t_fwCalls = 0;
    if (w[0] == "A" && w.size() >= 5)
    {
      string d = vh::bytesOfSpec(w[1]);
      g_timeScript.clear();
      g_timeScript.push_back(atol(w[2].c_str()));
      g_timeScript.push_back(atol(w[3].c_str()));
      g_wrScript.clear();
      if (w[4] != "-")
      {
        std::istringstream is(w[4]);
        string item;
        while (std::getline(is, item, ','))
        {
          size_t c = item.find(':');
          g_wrScript.push_back(std::make_pair(atol(item.substr(0, c).c_str()), atoi(item.substr(c + 1).c_str())));
        }
      }
      g_ferr = 0;
      lf->append(d.data(), static_cast<int>(d.size()));
      g_wrScript.clear();
      showSeq("A", lf.get());
    }
    else if (w[0] == "F") { lf->flush(); showSeq("F", lf.get()); }
    else if (w[0] == "C")
    {
      // ~LogFile (-> ~AppendFile -> fclose): remember the bookkeeping, destroy, then look at the directory
      long wb = static_cast<long>(lf->file_->writtenBytes_), lr = static_cast<long>(lf->lastRoll_), lfl = static_cast<long>(lf->lastFlush_), sp = static_cast<long>(lf->startOfPeriod_);
      int cnt = lf->count_;
      lf.reset();
      long total = 0;
      DIR* dir = opendir(".");
      if (dir)
      {
        while (struct dirent* e = readdir(dir))
          if (e->d_name[0] != '.') { struct stat st; if (stat(e->d_name, &st) == 0) total += static_cast<long>(st.st_size); }
        closedir(dir);
      }
      printf("C wb=%ld cnt=%d sop=%ld lr=%ld lf=%ld nfl=%d err=0 tc=0 disktotal=%ld\n", wb, cnt, sp, lr, lfl, g_nflush, total);
      fflush(stdout);
      // nothing can follow a destroyed object
      string rest;
      while (std::getline(std::cin, rest)) { std::vector<string> ww = vh::splitWs(rest); if (!ww.empty() && ww[0] == "end") break; }
      break;
    }
    else if (w[0] == "R" && w.size() >= 2)
    {
      g_timeScript.clear();
      g_timeScript.push_back(atol(w[1].c_str()));
      bool r = lf->rollFile();
      showSeq(r ? "R 1" : "R 0", lf.get());
    }
    else printf("BADOP %s\n", line.c_str());
    fflush(stdout);
  }
  lf.reset();
  g_virtual.store(false);
  listFiles();
  printf("end\n");
  fflush(stdout);
}

// ------------------------------------------------------------------------------------ async cases
struct Worker
{
  int t;
  pthread_t th;
  pthread_mutex_t m;
  pthread_cond_t cv;
  bool hasJob, done, quit;
  unsigned n;
  LenSpec spec;
  unsigned seq;                       // next sequence number
  std::vector<unsigned> handovers;    // seqs whose append queued the previous buffer
  unsigned burst;                     // free mode: yield every burst records
  bool observe;
  Worker() : t(0), hasJob(false), done(false), quit(false), n(0), spec("1"), seq(0), burst(0), observe(true)
  {
    pthread_mutex_init(&m, NULL);
    pthread_cond_init(&cv, NULL);
  }
};

static void doAppends(Worker* w)
{
  std::vector<char> buf(8192);
  for (unsigned i = 0; i < w->n; ++i)
  {
    int len = w->spec.at(w->seq);
    if (len > 8000) len = 8000;
    makeRecord(w->t, w->seq, len, &buf[0]);
    size_t before = w->observe ? g_log->buffers_.size() : 0;
    g_log->append(&buf[0], len);
    if (w->observe && g_log->buffers_.size() != before) w->handovers.push_back(w->seq);
    ++w->seq;
    if (w->burst && (w->seq % w->burst) == 0) sched_yield();
  }
}

static void* workerMain(void* arg)
{
  Worker* w = static_cast<Worker*>(arg);
  __real_pthread_mutex_lock(&w->m);
  for (;;)
  {
    while (!w->hasJob && !w->quit) pthread_cond_wait(&w->cv, &w->m);
    if (w->quit) break;
    w->hasJob = false;
    pthread_mutex_unlock(&w->m);
    doAppends(w);
    __real_pthread_mutex_lock(&w->m);
    w->done = true;
    pthread_cond_broadcast(&w->cv);
  }
  pthread_mutex_unlock(&w->m);
  return NULL;
}

static void submit(Worker* w, unsigned n, const LenSpec& spec)
{
  __real_pthread_mutex_lock(&w->m);
  w->n = n;
  w->spec = spec;
  w->done = false;
  w->hasJob = true;
  pthread_cond_broadcast(&w->cv);
  pthread_mutex_unlock(&w->m);
}

static void await(Worker* w)
{
  __real_pthread_mutex_lock(&w->m);
  while (!w->done) pthread_cond_wait(&w->cv, &w->m);
  pthread_mutex_unlock(&w->m);
}

static void* stopperMain(void*)
{
  g_log->stop();
  __real_pthread_mutex_lock(&g_gm);
  g_stopReturned = true;
  pthread_cond_broadcast(&g_gcCtrl);
  pthread_mutex_unlock(&g_gm);
  return NULL;
}

static string observeLog()
{
  // the back-end is parked with the mutex free and no front-end is running: plain reads are safe
  string s = " | bufs=";
  char b[64];
  if (g_log->buffers_.empty()) s += "-";
  for (size_t i = 0; i < g_log->buffers_.size(); ++i)
  {
    snprintf(b, sizeof b, "%s%d", i ? "," : "", g_log->buffers_[i] ? g_log->buffers_[i]->length() : -1);
    s += b;
  }
  snprintf(b, sizeof b, " cur=%d next=%d run=%d", g_log->currentBuffer_ ? g_log->currentBuffer_->length() : -1,
           g_log->nextBuffer_ ? 1 : 0, g_log->running_.load() ? 1 : 0);
  s += b;
  return s;
}

static void runAsync(const std::vector<string>& hdr, bool freeMode)
{
  int T = atoi(hdrGet(hdr, "threads", "1").c_str());
  long roll = atol(hdrGet(hdr, "roll", "1000000000").c_str());
  int flush = atoi(hdrGet(hdr, "flush", "3").c_str());
  long now = atol(hdrGet(hdr, "now", "1000").c_str());
  g_virtual.store(true);
  g_vnow.store(now);
  t_fwCalls = 0;
  g_timeScript.clear();
  g_announce.clear();
  g_parkCount = 0;
  g_release = false;
  g_stopReturned = false;
  g_startGateDone = false;
  g_forced.store(!freeMode);
  g_shortWait.store(freeMode);
  g_slowWriteUs.store(freeMode ? atol(hdrGet(hdr, "slow", "0").c_str()) : 0);
  std::vector<std::unique_ptr<Worker> > ws;
  for (int t = 0; t < T; ++t)
  {
    ws.emplace_back(new Worker);
    ws.back()->t = t;
    ws.back()->observe = !freeMode;
  }
  g_log = new muduo::AsyncLogging("c16log", roll, flush);
  g_log->start();
  for (int t = 0; t < T; ++t) pthread_create(&ws[t]->th, NULL, workerMain, ws[t].get());
  pthread_t stopper;
  bool stopStarted = false, joined = false;

  if (freeMode)
  {
    unsigned n = static_cast<unsigned>(atol(hdrGet(hdr, "n", "1000").c_str()));
    LenSpec spec(hdrGet(hdr, "lens", "100"));
    unsigned burst = static_cast<unsigned>(atol(hdrGet(hdr, "burst", "0").c_str()));
    bool quiesce = hdrGet(hdr, "quiesce", "1") == "1";
    printf("case %s free\n", hdr[1].c_str());
    for (int t = 0; t < T; ++t) { ws[t]->burst = burst; LenSpec s2 = spec; s2.seed += static_cast<uint32_t>(t) * 977u; submit(ws[t].get(), n, s2); }
    // the clock ticks while the workers run
    for (;;)
    {
      bool all = true;
      for (int t = 0; t < T; ++t)
      {
        __real_pthread_mutex_lock(&ws[t]->m);
        if (!ws[t]->done) all = false;
        pthread_mutex_unlock(&ws[t]->m);
      }
      if (all) break;
      usleep(1000);
      g_vnow.fetch_add(1);
    }
    if (quiesce)
    {
      // wait until the back-end has taken everything (two consecutive empty observations one swap apart)
      for (int spins = 0; spins < 20000; ++spins)
      {
        bool empty;
        {
          muduo::MutexLockGuard lock(g_log->mutex_);
          empty = g_log->buffers_.empty() && g_log->currentBuffer_->length() == 0;
        }
        if (empty) break;
        usleep(1000);
      }
    }
    pthread_create(&stopper, NULL, stopperMain, NULL);
    stopStarted = true;
    pthread_join(stopper, NULL);
    joined = true;
    printf("J");
    for (int t = 0; t < T; ++t) printf(" t%d=%u", t, ws[t]->seq);
    printf("\n");
    string line;
    while (std::getline(std::cin, line)) { if (vh::splitWs(line).size() && vh::splitWs(line)[0] == "end") break; }
  }
  else
  {
    string g = waitFirstPark();
    printf("case %s gate=%s%s\n", hdr[1].c_str(), g.c_str(), observeLog().c_str());
    fflush(stdout);
    string line;
    bool exited = false;
    while (std::getline(std::cin, line))
    {
      std::vector<string> w = vh::splitWs(line);
      if (w.empty()) continue;
      if (w[0] == "end") break;
      if (w[0] == "A" && w.size() >= 4)
      {
        int t = atoi(w[1].c_str());
        if (t < 0 || t >= T) { printf("BADOP %s\n", line.c_str()); continue; }
        Worker* wk = ws[t].get();
        unsigned from = wk->seq;
        wk->handovers.clear();
        submit(wk, static_cast<unsigned>(atol(w[2].c_str())), LenSpec(w[3]));
        await(wk);
        string ho;
        char b[32];
        for (size_t i = 0; i < wk->handovers.size(); ++i) { snprintf(b, sizeof b, "%s%u", i ? "," : "", wk->handovers[i]); ho += b; }
        printf("A t=%d from=%u n=%s ho=%s%s\n", t, from, w[2].c_str(), ho.empty() ? "-" : ho.c_str(), observeLog().c_str());
      }
      else if (w[0] == "B")
      {
        if (exited || joined) { printf("B gate=exit arg=0%s\n", observeLog().c_str()); }
        else
        {
          string r = stepBackend();
          if (r.compare(0, 4, "exit") == 0) exited = true;
          printf("B gate=%s%s\n", r.c_str(), observeLog().c_str());
        }
      }
      else if (w[0] == "T" && w.size() >= 2) { g_vnow.store(atol(w[1].c_str())); printf("T %s\n", w[1].c_str()); }
      else if (w[0] == "S")
      {
        if (!stopStarted)
        {
          pthread_create(&stopper, NULL, stopperMain, NULL);
          stopStarted = true;
          while (g_log->running_.load()) sched_yield();
        }
        printf("S%s\n", observeLog().c_str());
      }
      else if (w[0] == "J")
      {
        if (!stopStarted)
        {
          pthread_create(&stopper, NULL, stopperMain, NULL);
          stopStarted = true;
          while (g_log->running_.load()) sched_yield();   // J without S = S ; J (deterministic)
        }
        openAllGates();
        pthread_join(stopper, NULL);
        joined = true;
        printf("J%s\n", observeLog().c_str());
      }
      else printf("BADOP %s\n", line.c_str());
      fflush(stdout);
    }
  }
  openAllGates();
  if (stopStarted && !joined) pthread_join(stopper, NULL);
  for (int t = 0; t < T; ++t)
  {
    __real_pthread_mutex_lock(&ws[t]->m);
    ws[t]->quit = true;
    pthread_cond_broadcast(&ws[t]->cv);
    pthread_mutex_unlock(&ws[t]->m);
    pthread_join(ws[t]->th, NULL);
  }
  muduo::AsyncLogging* l = g_log;
  delete l;          // ~AsyncLogging: stop() if still running
  g_log = NULL;
  g_virtual.store(false);
  g_forced.store(false);
  g_shortWait.store(false);
  g_slowWriteUs.store(0);
  listFiles();
  for (size_t i = 0; i < g_announce.size(); ++i)
  {
    string a = g_announce[i];
    while (!a.empty() && a[a.size() - 1] == '\n') a.erase(a.size() - 1);
    printf("e %s\n", a.c_str());
  }
  printf("end\n");
  fflush(stdout);
}

// ------------------------------------------------------------------------------------ thread-safe LogFile, free-running
struct LfWorker
{
  muduo::LogFile* lf;
  int t;
  unsigned n, burst, tick;
  LenSpec spec;
  std::atomic<bool> done;
  pthread_t th;
  LfWorker() : lf(NULL), t(0), n(0), burst(0), tick(16), spec("1"), done(false) {}
};

static void* lfWorkerMain(void* arg)
{
  LfWorker* w = static_cast<LfWorker*>(arg);
  std::vector<char> buf(8192);
  for (unsigned i = 0; i < w->n; ++i)
  {
    int len = w->spec.at(i);
    if (len > 8000) len = 8000;
    makeRecord(w->t, i, len, &buf[0]);
    t_fwCalls = 0;
    t_lfThread = w->t;
    t_lfIndex = static_cast<long>(i);
    w->lf->append(&buf[0], len);
    // the virtual clock advances with the work, not with real time: the amount appended per virtual second
    // (hence the size of the files and the cost of replaying them on the model) does not depend on the machine load
    if (w->tick && ((i + 1) % w->tick) == 0) g_vnow.fetch_add(1);
    if (w->burst && ((i + 1) % w->burst) == 0) sched_yield();
  }
  w->done.store(true);
  return NULL;
}

static void runLogFileFree(const std::vector<string>& hdr)
{
  int T = atoi(hdrGet(hdr, "threads", "2").c_str());
  long roll = atol(hdrGet(hdr, "roll", "100000").c_str());
  int flush = atoi(hdrGet(hdr, "flush", "3").c_str());
  int every = atoi(hdrGet(hdr, "every", "16").c_str());
  unsigned n = static_cast<unsigned>(atol(hdrGet(hdr, "n", "1000").c_str()));
  unsigned burst = static_cast<unsigned>(atol(hdrGet(hdr, "burst", "0").c_str()));
  LenSpec spec(hdrGet(hdr, "lens", "100"));
  g_virtual.store(true);
  g_atomicClock.store(true);
  g_vnow.store(atol(hdrGet(hdr, "now", "1000").c_str()));
  g_wrScript.clear();
  g_ferr = 0;
  t_fwCalls = 0;
  g_lfTrace.clear();
  g_lfTrace.reserve(static_cast<size_t>(T) * n * 2 + 16);
  g_lfRecord.store(true);
  printf("case %s free\n", hdr[1].c_str());
  {
    muduo::LogFile lf("c16log", roll, true, flush, every);
    std::vector<std::unique_ptr<LfWorker> > ws;
    for (int t = 0; t < T; ++t)
    {
      ws.emplace_back(new LfWorker);
      ws.back()->lf = &lf;
      ws.back()->t = t;
      ws.back()->n = n;
      ws.back()->burst = burst;
      ws.back()->tick = static_cast<unsigned>(atol(hdrGet(hdr, "tick", "16").c_str()));
      ws.back()->spec = spec;
      ws.back()->spec.seed += static_cast<uint32_t>(t) * 977u;
    }
    for (int t = 0; t < T; ++t) pthread_create(&ws[t]->th, NULL, lfWorkerMain, ws[t].get());
    for (;;)
    {
      bool all = true;
      for (int t = 0; t < T; ++t) if (!ws[t]->done.load()) all = false;
      if (all) break;
      usleep(5000);
      g_vnow.fetch_add(1);
    }
    for (int t = 0; t < T; ++t) pthread_join(ws[t]->th, NULL);
    printf("J");
    for (int t = 0; t < T; ++t) printf(" t%d=%u", t, n);
    printf("\n");
  }
  // the trace: "N <v>" = the constructor's time(); "L <t> <i> <k> <v1> <v2>" = thread t's append of its record #i
  // held the mutex next and read the clock k times (values v1, v2)
  {
    size_t i = 0;
    while (i < g_lfTrace.size() && g_lfTrace[i].t == -1) { printf("N %ld\n", g_lfTrace[i].a); ++i; }
    while (i < g_lfTrace.size())
    {
      int t = g_lfTrace[i].t;
      long idx = g_lfTrace[i].a;
      ++i;
      long v[2] = {0, 0};
      int k = 0;
      while (i < g_lfTrace.size() && g_lfTrace[i].t == -1) { if (k < 2) v[k] = g_lfTrace[i].a; ++k; ++i; }
      printf("L %d %ld %d %ld %ld\n", t, idx, k, v[0], k >= 2 ? v[1] : v[0]);
    }
  }
  string line;
  while (std::getline(std::cin, line)) { if (vh::splitWs(line).size() && vh::splitWs(line)[0] == "end") break; }
  g_lfRecord.store(false);
  g_atomicClock.store(false);
  g_virtual.store(false);
  listFiles();
  printf("end\n");
  fflush(stdout);
}

// ------------------------------------------------------------------------------------ several sinks in one process
//   case <id> multi sinks=<string of L|A> roll=<bytes> flush=<sec> every=<n> now=<sec>
//     W <k> <n> <lenspec>   sink k (LogFile, not thread safe / AsyncLogging, free-running) gets its next n records
//     F <k>                 LogFile k: flush()
//     P <ms>                pause (the AsyncLogging back-ends wake up every 5 ms)
//     T <sec>               set the virtual clock
//     X <k>                 destroy sink k (AsyncLogging: stop() in its destructor)
//     O <k>                 create sink k again (same basename) after X <k>; its record numbering continues
//   the remaining sinks are destroyed in index order at "end".  Sink k writes c16s<k>.* ; its records carry 'a'+k.
static void runMulti(const std::vector<string>& hdr)
{
  string kinds = hdrGet(hdr, "sinks", "LL");
  long roll = atol(hdrGet(hdr, "roll", "1000000").c_str());
  int flush = atoi(hdrGet(hdr, "flush", "3").c_str());
  int every = atoi(hdrGet(hdr, "every", "1024").c_str());
  g_virtual.store(true);
  g_atomicClock.store(true);
  g_lfRecord.store(false);
  g_multiShort.store(true);
  g_vnow.store(atol(hdrGet(hdr, "now", "1000").c_str()));
  g_wrScript.clear();
  g_ferr = 0;
  size_t K = kinds.size();
  std::vector<std::unique_ptr<muduo::LogFile> > lfs(K);
  std::vector<std::unique_ptr<muduo::AsyncLogging> > als(K);
  std::vector<unsigned> seq(K, 0);
  for (size_t k = 0; k < K; ++k)
  {
    char name[32];
    snprintf(name, sizeof name, "c16s%zu", k);
    if (kinds[k] == 'A') { als[k].reset(new muduo::AsyncLogging(name, roll, flush)); als[k]->start(); }
    else lfs[k].reset(new muduo::LogFile(name, roll, false, flush, every));
  }
  printf("case %s multi\n", hdr[1].c_str());
  std::vector<char> buf(8192);
  string line;
  while (std::getline(std::cin, line))
  {
    std::vector<string> w = vh::splitWs(line);
    if (w.empty()) continue;
    if (w[0] == "end") break;
    t_fwCalls = 0;
    size_t k = w.size() >= 2 ? static_cast<size_t>(atol(w[1].c_str())) : 0;
    if (w[0] == "W" && w.size() >= 4 && k < K && (lfs[k] || als[k]))
    {
      unsigned n = static_cast<unsigned>(atol(w[2].c_str()));
      LenSpec spec(w[3]);
      unsigned from = seq[k];
      for (unsigned i = 0; i < n; ++i)
      {
        int len = spec.at(seq[k]);
        if (len > 8000) len = 8000;
        makeRecord(static_cast<int>(k), seq[k], len, &buf[0]);
        t_fwCalls = 0;
        if (lfs[k]) lfs[k]->append(&buf[0], len); else als[k]->append(&buf[0], len);
        ++seq[k];
      }
      printf("W %zu from=%u n=%u\n", k, from, n);
    }
    else if (w[0] == "F" && k < K && lfs[k]) { lfs[k]->flush(); printf("F %zu\n", k); }
    else if (w[0] == "P" && w.size() >= 2) { usleep(static_cast<useconds_t>(atol(w[1].c_str())) * 1000); printf("P %s\n", w[1].c_str()); }
    else if (w[0] == "T" && w.size() >= 2) { g_vnow.store(atol(w[1].c_str())); printf("T %s\n", w[1].c_str()); }
    else if (w[0] == "X" && k < K && (lfs[k] || als[k])) { lfs[k].reset(); als[k].reset(); printf("X %zu\n", k); }
    else if (w[0] == "O" && k < K && !lfs[k] && !als[k])
    {
      // a new sink with the SAME basename after the old one was destroyed (a restarted logger): within the same
      // second it gets the same file name and must continue that file
      char name[32];
      snprintf(name, sizeof name, "c16s%zu", k);
      if (kinds[k] == 'A') { als[k].reset(new muduo::AsyncLogging(name, roll, flush)); als[k]->start(); }
      else lfs[k].reset(new muduo::LogFile(name, roll, false, flush, every));
      printf("O %zu\n", k);
    }
    else printf("BADOP %s\n", line.c_str());
    fflush(stdout);
  }
  for (size_t k = 0; k < K; ++k) { lfs[k].reset(); als[k].reset(); }
  g_multiShort.store(false);
  g_atomicClock.store(false);
  g_virtual.store(false);
  listFiles();
  printf("end\n");
  fflush(stdout);
}

int main(int argc, char** argv)
{
  g_scratch = argc > 1 ? argv[1] : "/verif/_work/C16/scratch";
  for (int i = 0; i < 200; ++i) g_pp += PAT;
  string line;
  while (std::getline(std::cin, line))
  {
    std::vector<string> w = vh::splitWs(line);
    if (w.size() < 3 || w[0] != "case") continue;
    enterCaseDir(w[1]);
    if (w[2] == "seq") runSeq(w);
    else if (w[2] == "async") runAsync(w, false);
    else if (w[2] == "free") runAsync(w, true);
    else if (w[2] == "lfree") runLogFileFree(w);
    else if (w[2] == "multi") runMulti(w);
    else { printf("case %s BADKIND\nend\n", w[1].c_str()); }
    fflush(stdout);
  }
  return 0;
}
