// C11 driver: the listening side and the poll call under injected faults.
//  case <id> acc
//     CONN                 a raw client completes a TCP handshake with the listener (loopback)
//     ACC ok|<errno name>  the kernel's answer to the next accept4(); then the listener is dispatched
//  case <id> loop <k> <n>
//     (one op) GO          k consecutive EINTR answers from epoll_wait/poll, n tasks + quit queued by a helper thread
//  end
// accept4 / epoll_wait / poll are interposed at link time (-Wl,--wrap=...). A fatal accept class
// (LOG_FATAL -> abort) is executed in a forked child; the parent reports ev=Abort.
#include <errno.h>
#include <fcntl.h>
#include <dirent.h>
#include <poll.h>
#include <signal.h>
#include <sys/epoll.h>
#include <sys/socket.h>
#include <sys/wait.h>
#include <netinet/in.h>
#include <arpa/inet.h>
#include <unistd.h>

#include <atomic>
#include <iostream>
#include <map>
#include <memory>
#include <thread>

#define private public
#define protected public
#include "muduo/net/Acceptor.h"
#include "muduo/net/EventLoop.h"
#include "muduo/net/Channel.h"
#include "muduo/net/InetAddress.h"
#include "muduo/base/Logging.h"
#undef private
#undef protected
#include "common.h"

using namespace muduo;
using namespace muduo::net;
using std::string;

extern "C" {
int __real_accept4(int fd, struct sockaddr* a, socklen_t* l, int flags);
int __real_epoll_wait(int epfd, struct epoll_event* ev, int max, int timeout);
int __real_poll(struct pollfd* fds, nfds_t n, int timeout);
}
static int g_accept_err = 0;          // 0 = let the kernel answer
static std::atomic<int> g_intr(0);    // number of poll calls still to be interrupted
static std::atomic<int> g_pollcalls(0);

extern "C" int __wrap_accept4(int fd, struct sockaddr* a, socklen_t* l, int flags)
{
  if (g_accept_err != 0) { errno = g_accept_err; g_accept_err = 0; return -1; }
  return __real_accept4(fd, a, l, flags);
}
extern "C" int __wrap_epoll_wait(int epfd, struct epoll_event* ev, int max, int timeout)
{
  ++g_pollcalls;
  if (g_intr.load() > 0) { --g_intr; errno = EINTR; return -1; }
  return __real_epoll_wait(epfd, ev, max, timeout);
}
extern "C" int __wrap_poll(struct pollfd* fds, nfds_t n, int timeout)
{
  if (timeout != 0) ++g_pollcalls;     // the driver's own zero-timeout probes do not count
  if (timeout != 0 && g_intr.load() > 0) { --g_intr; errno = EINTR; return -1; }
  return __real_poll(fds, n, timeout);
}

static int errnoOf(const string& s)
{
  static std::map<string, int> m = {
    {"eagain", EAGAIN}, {"econnaborted", ECONNABORTED}, {"eintr", EINTR}, {"eproto", EPROTO}, {"eperm", EPERM},
    {"emfile", EMFILE}, {"ebadf", EBADF}, {"efault", EFAULT}, {"einval", EINVAL}, {"enfile", ENFILE},
    {"enobufs", ENOBUFS}, {"enomem", ENOMEM}, {"enotsock", ENOTSOCK}, {"eopnotsupp", EOPNOTSUPP}, {"eio", EIO}};
  return m.count(s) ? m[s] : -1;
}

static int countFds()
{
  int n = 0;
  DIR* d = opendir("/proc/self/fd");
  while (readdir(d)) ++n;
  closedir(d);
  return n;
}

static void nullOutput(const char*, int) {}
static void nullFlush() {}

int main()
{
  Logger::setOutput(nullOutput);
  Logger::setFlush(nullFlush);
  signal(SIGPIPE, SIG_IGN);
  EventLoop loop;
  std::unique_ptr<Acceptor> acceptor;
  std::vector<int> clients, handedFds;
  std::vector<bool> clientEof;
  int handed = 0;
  int prevValved = 0;
  int baseFds = 0;
  uint16_t port = 0;
  string line, mode;
  int loopK = 0, loopN = 0;
  std::vector<string> events;
  while (std::getline(std::cin, line))
  {
    std::vector<string> w = vh::splitWs(line);
    if (w.empty()) continue;
    const string& k = w[0];
    events.clear();
    if (k == "case")
    {
      mode = w[2];
      printf("case %s\n", w[1].c_str());
      if (mode == "acc")
      {
        InetAddress addr(static_cast<uint16_t>(0), true);
        acceptor.reset(new Acceptor(&loop, addr, false));
        acceptor->setNewConnectionCallback([&](int fd, const InetAddress&) { handedFds.push_back(fd); ++handed; events.push_back("NewConn"); });
        acceptor->listen();
        struct sockaddr_in sa;
        socklen_t sl = sizeof sa;
        ::getsockname(acceptor->acceptSocket_.fd(), reinterpret_cast<struct sockaddr*>(&sa), &sl);
        port = ntohs(sa.sin_port);
        handed = 0;
        prevValved = 0;
        baseFds = countFds();
      }
      else { loopK = atoi(w[3].c_str()); loopN = atoi(w[4].c_str()); }
      continue;
    }
    if (k == "end")
    {
      for (int fd : clients) ::close(fd);
      for (int fd : handedFds) ::close(fd);
      clients.clear(); handedFds.clear(); clientEof.clear();
      acceptor.reset();
      printf("end\n");
      fflush(stdout);
      continue;
    }
    if (mode == "acc")
    {
      if (k == "CONN")
      {
        int fd = ::socket(AF_INET, SOCK_STREAM | SOCK_CLOEXEC, 0);
        struct sockaddr_in sa;
        memset(&sa, 0, sizeof sa);
        sa.sin_family = AF_INET;
        sa.sin_port = htons(port);
        sa.sin_addr.s_addr = htonl(INADDR_LOOPBACK);
        if (::connect(fd, reinterpret_cast<struct sockaddr*>(&sa), sizeof sa) != 0) { perror("connect"); return 3; }
        ::fcntl(fd, F_SETFL, O_NONBLOCK);
        clients.push_back(fd);
        clientEof.push_back(false);
      }
      else if (k == "ACC")
      {
        int e = (w[1] == "ok") ? 0 : errnoOf(w[1]);
        if (e < 0) { fprintf(stderr, "bad errno %s\n", w[1].c_str()); return 2; }
        bool fatalClass = (w.size() > 2 && w[2] == "fatal");
        if (fatalClass)
        {
          fflush(stdout);
          pid_t pid = fork();
          if (pid == 0)
          {
            g_accept_err = e;
            acceptor->acceptChannel_.set_revents(POLLIN);
            acceptor->acceptChannel_.handleEvent(Timestamp::now());
            _exit(0);
          }
          int status = 0;
          ::waitpid(pid, &status, 0);
          if (WIFSIGNALED(status) && WTERMSIG(status) == SIGABRT) events.push_back("Abort");
          else if (WIFEXITED(status) && WEXITSTATUS(status) != 0) events.push_back("Abort");   // ASan turns abort() into exit(1)
        }
        else
        {
          g_accept_err = e;
          acceptor->acceptChannel_.set_revents(POLLIN);
          acceptor->acceptChannel_.handleEvent(Timestamp::now());
          g_accept_err = 0;
        }
      }
      else { fprintf(stderr, "bad op %s\n", k.c_str()); return 2; }
      // observe (give a FIN a moment to cross the loopback)
      if (k == "ACC") ::usleep(1500);
      int valved = 0;
      for (size_t i = 0; i < clients.size(); ++i)
      {
        char c;
        if (!clientEof[i])
        {
          // give the FIN a moment to cross the loopback
          struct pollfd p = {clients[i], POLLIN, 0};
          if (__real_poll(&p, 1, 0) > 0 && ::recv(clients[i], &c, 1, MSG_PEEK) == 0) clientEof[i] = true;
        }
        if (clientEof[i]) ++valved;
      }
      struct pollfd lp = {acceptor->acceptSocket_.fd(), POLLIN, 0};
      int ready = __real_poll(&lp, 1, 0) > 0 ? 1 : 0;
      int idle = ::fcntl(acceptor->idleFd_, F_GETFD) != -1 ? 1 : 0;
      int fds = countFds() - baseFds - static_cast<int>(clients.size()) - static_cast<int>(handedFds.size());
      string ev;
      for (size_t i = 0; i < events.size(); ++i) { if (i) ev += ","; ev += events[i]; }
      int closedNow = valved - prevValved;
      prevValved = valved;
      if (closedNow > 0) { if (!ev.empty()) ev += ","; ev += "ValveClosed"; }
      if (ev.empty()) ev = "-";
      printf("ok ev=%s ready=%d handed=%d valved=%d idle=%d fds=%d\n", ev.c_str(), ready, handed, valved, idle, fds);
      fflush(stdout);
    }
    else
    {
      // loop mode: k interrupted polls, n tasks and a quit from a helper thread
      int64_t it0 = loop.iteration();
      int calls0 = g_pollcalls.load();
      std::atomic<int> ran(0);
      g_intr = loopK;
      std::thread helper([&]() {
        ::usleep(30 * 1000);
        for (int i = 0; i < loopN; ++i) loop.queueInLoop([&ran]() { ++ran; });
        loop.runInLoop([&loop]() { loop.quit(); });
      });
      loop.loop();
      helper.join();
      int64_t iters = loop.iteration() - it0;
      int calls = g_pollcalls.load() - calls0;
      // every interrupted poll is one silent iteration; the rest is bounded by the work: no spinning
      bool bounded = iters <= loopK + loopN + 4 && calls == iters;
      printf("ok ev=- ran=%d exited=1 interrupted_left=%d bounded=%d\n", ran.load(), g_intr.load(), bounded ? 1 : 0);
      fflush(stdout);
    }
  }
  return 0;
}
