// C11 driver: the listening side and the poll call under injected faults.
//  case <id> acc [clobber]
//     CONN                 a raw client completes a TCP handshake with the listener (loopback)
//     ACC ok|<errno name>  the kernel's answer to the next accept4(); then the listener is dispatched
//     with `clobber` the logger's output function performs a failing system call (errno := EBADF) on
//     every line it is given: a test of errno placed after a log statement then sees the wrong value
//  case <id> loop
//     one op per PASS of EventLoop::loop() (= per return of epoll_wait / poll on the loop thread):
//     I [ext..]            the poll call fails with EINTR
//     E <errno> [ext..]    the poll call fails with another errno
//     N [ext..]            the real poll call, with timeout 0
//     ext = what ANOTHER thread does while the loop thread is in the poll call, before it returns:
//       q<f>  loop.queueInLoop(functor f)     p<i>  pipe i becomes readable     quit  loop.quit()
//     functor f: f in 10..19 queues functor f-10 (from the loop thread, while the functors run);
//     functor 99 calls quit(); every other functor only records itself.  channel i (read end of pipe
//     i, i < 3): drains the pipe; channel 1 also queues functor 5 (from its handler).
//     After the script is used up the loop is told to quit.  Output, one line per op:
//       ok disp=<channels handled, sorted> ran=<functors run, in order> pend=<functors left pending>
//          quit=<quit_> it=<passes so far> log=<error-level log lines of this pass>
//       ok unused           the loop had already left its while loop
//  case <id> idle <ms> <k>
//     (one op) GO          FREE-RUNNING: the real loop() with the real epoll_wait / poll and the time-out the loop itself
//                          passes (nothing scripted); for <ms> milliseconds nothing happens except k real signals
//                          (SIGUSR1, no SA_RESTART: k genuine EINTRs at most) sent to the loop thread by a helper thread,
//                          which then calls quit().  Output: `ok idle spin=0` iff the loop made at most k + 4 passes;
//                          otherwise `ok idle spin=1 it=<passes>` - a loop that goes round without a reason (zero poll
//                          time-out, a self-sustaining wake-up ..) makes thousands (REVIEW_E E-4)
//  end
// accept4 / epoll_wait / poll are interposed at link time (-Wl,--wrap=...). A fatal accept class
// (LOG_FATAL -> abort) is executed in a forked child; the parent reports ev=Abort.
#include <errno.h>
#include <fcntl.h>
#include <dirent.h>
#include <poll.h>
#include <signal.h>
#include <sys/epoll.h>
#include <sys/socket.h>
#include <sys/wait.h>
#include <netinet/in.h>
#include <arpa/inet.h>
#include <unistd.h>

#include <algorithm>
#include <atomic>
#include <functional>
#include <iostream>
#include <map>
#include <memory>
#include <thread>

#define private public
#define protected public
#include "muduo/net/Acceptor.h"
#include "muduo/net/EventLoop.h"
#include "muduo/net/Channel.h"
#include "muduo/net/InetAddress.h"
#include "muduo/base/Logging.h"
#undef private
#undef protected
#include "common.h"

using namespace muduo;
using namespace muduo::net;
using std::string;

extern "C" {
int __real_accept4(int fd, struct sockaddr* a, socklen_t* l, int flags);
int __real_epoll_wait(int epfd, struct epoll_event* ev, int max, int timeout);
int __real_poll(struct pollfd* fds, nfds_t n, int timeout);
}
static int g_accept_err = 0;          // 0 = let the kernel answer
static int scriptedPoll(const std::function<int()>& real);
static bool g_scripting = false;      // loop mode: the loop thread's poll calls follow the script
static pthread_t g_loopThread;

extern "C" int __wrap_accept4(int fd, struct sockaddr* a, socklen_t* l, int flags)
{
  if (g_accept_err != 0) { errno = g_accept_err; g_accept_err = 0; return -1; }
  return __real_accept4(fd, a, l, flags);
}
extern "C" int __wrap_epoll_wait(int epfd, struct epoll_event* ev, int max, int timeout)
{
  if (g_scripting && pthread_equal(pthread_self(), g_loopThread))
    return scriptedPoll([=]() { return __real_epoll_wait(epfd, ev, max, 0); });
  return __real_epoll_wait(epfd, ev, max, timeout);
}
extern "C" int __wrap_poll(struct pollfd* fds, nfds_t n, int timeout)
{
  if (g_scripting && pthread_equal(pthread_self(), g_loopThread))
    return scriptedPoll([=]() { return __real_poll(fds, n, 0); });
  return __real_poll(fds, n, timeout);
}

static int errnoOf(const string& s)
{
  static std::map<string, int> m = {
    {"eagain", EAGAIN}, {"econnaborted", ECONNABORTED}, {"eintr", EINTR}, {"eproto", EPROTO}, {"eperm", EPERM},
    {"emfile", EMFILE}, {"ebadf", EBADF}, {"efault", EFAULT}, {"einval", EINVAL}, {"enfile", ENFILE},
    {"enobufs", ENOBUFS}, {"enomem", ENOMEM}, {"enotsock", ENOTSOCK}, {"eopnotsupp", EOPNOTSUPP}, {"eio", EIO}};
  return m.count(s) ? m[s] : -1;
}

static int countFds()
{
  int n = 0;
  DIR* d = opendir("/proc/self/fd");
  while (readdir(d)) ++n;
  closedir(d);
  return n;
}

static std::atomic<int> g_errlogs(0);   // error-level log lines seen by the output function
static bool g_clobber = false;
// the logger's output function: counts error-level lines; in `clobber` mode it also does what a real
// sink may do - a system call that fails - so that errno is no longer what the caller of LOG_* left
static void countingOutput(const char* msg, int len)
{
  if (memmem(msg, static_cast<size_t>(len), " ERROR ", 7) != NULL) ++g_errlogs;
  if (g_clobber) { ::close(-1); }          // EBADF
}
static void nullFlush() {}

// ---- loop mode -------------------------------------------------------------------------------
struct LoopStep { char kind; int err; std::vector<string> exts; };
struct PassRec { bool used; std::vector<int> disp, ran; size_t pend; int quit; long it; int log; };
static std::vector<LoopStep> g_steps;
static std::vector<PassRec> g_recs;
static size_t g_next = 0;
static int g_cur = -1;
static EventLoop* g_loop = NULL;
static int64_t g_it0 = 0;
static int g_log0 = 0;
static int g_pipes[3][2];

static void runFunctor(int f);
static void doExt(const string& e)
{
  if (e == "quit") g_loop->quit();
  else if (e[0] == 'q') { int f = atoi(e.c_str() + 1); g_loop->queueInLoop([f]() { runFunctor(f); }); }
  else if (e[0] == 'p') { int i = atoi(e.c_str() + 1); char c = 'x'; if (::write(g_pipes[i][1], &c, 1) != 1) perror("pipe write"); }
}
static void runFunctor(int f)
{
  if (g_cur >= 0) g_recs[static_cast<size_t>(g_cur)].ran.push_back(f);
  if (f >= 10 && f < 20) { int g = f - 10; g_loop->queueInLoop([g]() { runFunctor(g); }); }
  if (f == 99) g_loop->quit();
}
static void finishRecord(bool exited)
{
  if (g_cur < 0) return;
  PassRec& r = g_recs[static_cast<size_t>(g_cur)];
  {
    MutexLockGuard lock(g_loop->mutex_);
    r.pend = g_loop->pendingFunctors_.size();
  }
  r.quit = (exited || g_loop->quit_) ? 1 : 0;    // loop() clears quit_ after its while loop
  r.it = static_cast<long>(g_loop->iteration() - g_it0);
  r.log = g_errlogs.load() - g_log0;
  g_log0 = g_errlogs.load();
  std::sort(r.disp.begin(), r.disp.end());
  g_cur = -1;
}
// called on the loop thread in place of every epoll_wait / poll of EventLoop::loop()
static int scriptedPoll(const std::function<int()>& real)
{
  finishRecord(false);
  if (g_next >= g_steps.size())
  {
    g_loop->quit();                 // script used up: one more (unrecorded) pass, then the loop ends
    return real();
  }
  const LoopStep& st = g_steps[g_next];
  g_cur = static_cast<int>(g_next);
  g_recs[g_next].used = true;
  ++g_next;
  if (!st.exts.empty())
  {
    std::thread other([&st]() { for (const string& e : st.exts) doExt(e); });
    other.join();
  }
  if (st.kind != 'N') { errno = st.err; return -1; }
  return real();
}

int main()
{
  Logger::setOutput(countingOutput);
  Logger::setFlush(nullFlush);
  signal(SIGPIPE, SIG_IGN);
  EventLoop loop;
  std::unique_ptr<Acceptor> acceptor;
  std::vector<int> clients, handedFds;
  std::vector<bool> clientEof;
  int handed = 0;
  int prevValved = 0;
  int baseFds = 0;
  uint16_t port = 0;
  string line, mode;
  std::vector<string> events;
  int idleMs = 0, idleK = 0;
  {
    struct sigaction sa;
    memset(&sa, 0, sizeof sa);
    sa.sa_handler = [](int) {};     // no SA_RESTART: a blocked epoll_wait / poll returns EINTR
    sigemptyset(&sa.sa_mask);
    sigaction(SIGUSR1, &sa, NULL);
  }
  std::vector<std::unique_ptr<Channel> > pipeChannels;
  g_loop = &loop;
  g_loopThread = pthread_self();
  while (std::getline(std::cin, line))
  {
    std::vector<string> w = vh::splitWs(line);
    if (w.empty()) continue;
    const string& k = w[0];
    events.clear();
    if (k == "case")
    {
      mode = w[2];
      printf("case %s\n", w[1].c_str());
      if (mode == "acc")
      {
        InetAddress addr(static_cast<uint16_t>(0), true);
        acceptor.reset(new Acceptor(&loop, addr, false));
        acceptor->setNewConnectionCallback([&](int fd, const InetAddress&) { handedFds.push_back(fd); ++handed; events.push_back("NewConn"); });
        acceptor->listen();
        struct sockaddr_in sa;
        socklen_t sl = sizeof sa;
        ::getsockname(acceptor->acceptSocket_.fd(), reinterpret_cast<struct sockaddr*>(&sa), &sl);
        port = ntohs(sa.sin_port);
        handed = 0;
        prevValved = 0;
        baseFds = countFds();
      }
      g_clobber = (mode == "acc" && w.size() > 3 && w[3] == "clobber");
      if (mode == "loop") { g_steps.clear(); g_recs.clear(); }
      if (mode == "idle") { idleMs = atoi(w[3].c_str()); idleK = atoi(w[4].c_str()); }
      continue;
    }
    if (k == "end" && mode == "loop")
    {
      // three pipes watched by the loop; then run the loop: every pass follows the script
      for (int i = 0; i < 3; ++i)
      {
        if (::pipe2(g_pipes[i], O_NONBLOCK | O_CLOEXEC) != 0) { perror("pipe2"); return 3; }
        pipeChannels.emplace_back(new Channel(&loop, g_pipes[i][0]));
        pipeChannels.back()->setReadCallback([i](Timestamp) {
          char buf[64];
          while (::read(g_pipes[i][0], buf, sizeof buf) > 0) {}
          if (g_cur >= 0) g_recs[static_cast<size_t>(g_cur)].disp.push_back(i);
          if (i == 1) g_loop->queueInLoop([]() { runFunctor(5); });
        });
        pipeChannels.back()->enableReading();
      }
      g_recs.assign(g_steps.size(), PassRec());
      g_next = 0; g_cur = -1; g_it0 = loop.iteration(); g_log0 = g_errlogs.load();
      g_scripting = true;
      loop.loop();
      g_scripting = false;
      finishRecord(true);
      {
        // whatever is still queued belongs to this case only
        MutexLockGuard lock(loop.mutex_);
        loop.pendingFunctors_.clear();
      }
      for (int i = 0; i < 3; ++i)
      {
        pipeChannels[static_cast<size_t>(i)]->disableAll();
        pipeChannels[static_cast<size_t>(i)]->remove();
        ::close(g_pipes[i][0]); ::close(g_pipes[i][1]);
      }
      pipeChannels.clear();
      for (const PassRec& r : g_recs)
      {
        if (!r.used) { printf("ok unused\n"); continue; }
        string d, f;
        for (size_t i = 0; i < r.disp.size(); ++i) { if (i) d += ","; d += "c" + std::to_string(r.disp[i]); }
        for (size_t i = 0; i < r.ran.size(); ++i) { if (i) f += ","; f += "f" + std::to_string(r.ran[i]); }
        printf("ok disp=%s ran=%s pend=%zu quit=%d it=%ld log=%d\n", d.empty() ? "-" : d.c_str(), f.empty() ? "-" : f.c_str(),
               r.pend, r.quit, r.it, r.log);
      }
      printf("end\n");
      fflush(stdout);
      continue;
    }
    if (k == "end")
    {
      for (int fd : clients) ::close(fd);
      for (int fd : handedFds) ::close(fd);
      clients.clear(); handedFds.clear(); clientEof.clear();
      acceptor.reset();
      printf("end\n");
      fflush(stdout);
      continue;
    }
    if (mode == "acc")
    {
      if (k == "CONN")
      {
        int fd = ::socket(AF_INET, SOCK_STREAM | SOCK_CLOEXEC, 0);
        struct sockaddr_in sa;
        memset(&sa, 0, sizeof sa);
        sa.sin_family = AF_INET;
        sa.sin_port = htons(port);
        sa.sin_addr.s_addr = htonl(INADDR_LOOPBACK);
        if (::connect(fd, reinterpret_cast<struct sockaddr*>(&sa), sizeof sa) != 0) { perror("connect"); return 3; }
        ::fcntl(fd, F_SETFL, O_NONBLOCK);
        clients.push_back(fd);
        clientEof.push_back(false);
      }
      else if (k == "ACC")
      {
        int e = (w[1] == "ok") ? 0 : errnoOf(w[1]);
        if (e < 0) { fprintf(stderr, "bad errno %s\n", w[1].c_str()); return 2; }
        bool fatalClass = (w.size() > 2 && w[2] == "fatal");
        if (fatalClass)
        {
          fflush(stdout);
          pid_t pid = fork();
          if (pid == 0)
          {
            g_accept_err = e;
            acceptor->acceptChannel_.set_revents(POLLIN);
            acceptor->acceptChannel_.handleEvent(Timestamp::now());
            _exit(0);
          }
          int status = 0;
          ::waitpid(pid, &status, 0);
          if (WIFSIGNALED(status) && WTERMSIG(status) == SIGABRT) events.push_back("Abort");
          else if (WIFEXITED(status) && WEXITSTATUS(status) != 0) events.push_back("Abort");   // ASan turns abort() into exit(1)
        }
        else
        {
          g_accept_err = e;
          acceptor->acceptChannel_.set_revents(POLLIN);
          acceptor->acceptChannel_.handleEvent(Timestamp::now());
          g_accept_err = 0;
        }
      }
      else { fprintf(stderr, "bad op %s\n", k.c_str()); return 2; }
      // observe (give a FIN a moment to cross the loopback)
      if (k == "ACC") ::usleep(1500);
      int valved = 0;
      for (size_t i = 0; i < clients.size(); ++i)
      {
        char c;
        if (!clientEof[i])
        {
          // give the FIN a moment to cross the loopback
          struct pollfd p = {clients[i], POLLIN, 0};
          if (__real_poll(&p, 1, 0) > 0 && ::recv(clients[i], &c, 1, MSG_PEEK) == 0) clientEof[i] = true;
        }
        if (clientEof[i]) ++valved;
      }
      struct pollfd lp = {acceptor->acceptSocket_.fd(), POLLIN, 0};
      int ready = __real_poll(&lp, 1, 0) > 0 ? 1 : 0;
      int idle = ::fcntl(acceptor->idleFd_, F_GETFD) != -1 ? 1 : 0;
      int fds = countFds() - baseFds - static_cast<int>(clients.size()) - static_cast<int>(handedFds.size());
      string ev;
      for (size_t i = 0; i < events.size(); ++i) { if (i) ev += ","; ev += events[i]; }
      int closedNow = valved - prevValved;
      prevValved = valved;
      if (closedNow > 0) { if (!ev.empty()) ev += ","; ev += "ValveClosed"; }
      if (ev.empty()) ev = "-";
      printf("ok ev=%s ready=%d handed=%d valved=%d idle=%d fds=%d\n", ev.c_str(), ready, handed, valved, idle, fds);
      fflush(stdout);
    }
    else if (mode == "idle")
    {
      int64_t it0 = loop.iteration();
      std::thread helper([&]() {
        int slice = idleMs * 1000 / (idleK + 1);
        for (int i = 0; i < idleK; ++i) { ::usleep(slice); pthread_kill(g_loopThread, SIGUSR1); }
        ::usleep(slice);
        loop.quit();
      });
      loop.loop();
      helper.join();
      long iters = static_cast<long>(loop.iteration() - it0);
      if (iters <= idleK + 4) printf("ok idle spin=0\n");
      else printf("ok idle spin=1 it=%ld\n", iters);
      fflush(stdout);
    }
    else
    {
      // loop mode: collect the script; it is executed at `end`
      LoopStep st;
      st.kind = k[0];
      st.err = EINTR;
      size_t from = 1;
      if (k == "E") { st.err = errnoOf(w[1]); from = 2; if (st.err < 0) { fprintf(stderr, "bad errno %s\n", w[1].c_str()); return 2; } }
      else if (k != "I" && k != "N") { fprintf(stderr, "bad op %s\n", k.c_str()); return 2; }
      for (size_t i = from; i < w.size(); ++i) st.exts.push_back(w[i]);
      g_steps.push_back(st);
    }
  }
  return 0;
}
