// C08: instantiation TU for the header-only templates named in the property's file list, so
// that clang produces concrete method bodies (ClassTemplateSpecializationDecl) from which
// lib/gen_C08.py extracts access summaries.  Only parsed (-fsyntax-only), never linked.
#include "muduo/base/BlockingQueue.h"
#include "muduo/base/BoundedBlockingQueue.h"
#include "muduo/base/Atomic.h"

namespace muduo
{
template class BlockingQueue<int>;
template class BoundedBlockingQueue<int>;
}  // namespace muduo
