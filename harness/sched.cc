// sched.cc: controlled cooperative scheduler (docs/sched.md).
// Exactly one managed thread runs at a time.  A managed thread gives up the turn only inside a
// wrapped call ("park"); the parking thread itself computes the enabled set from the scheduler's
// bookkeeping, consults the schedule and hands the turn to the chosen thread through that
// thread's semaphore.  Managed mutexes / condition variables are never passed to the real
// pthread functions: ownership and wait sets are virtual, so nothing ever really blocks and a
// state without an enabled thread is reported as DEADLOCK.
#include "sched.h"

#include <assert.h>
#include <errno.h>
#include <pthread.h>
#include <semaphore.h>
#include <stdarg.h>
#include <stdint.h>
#include <stdlib.h>
#include <string.h>
#include <unistd.h>
#include <map>
#include <vector>

#ifdef SCHED_WRAP_IO
#include <poll.h>
#include <sys/epoll.h>
#endif

extern "C" {
int __real_pthread_mutex_lock(pthread_mutex_t*);
int __real_pthread_mutex_unlock(pthread_mutex_t*);
int __real_pthread_mutex_init(pthread_mutex_t*, const pthread_mutexattr_t*);
int __real_pthread_mutex_destroy(pthread_mutex_t*);
int __real_pthread_cond_init(pthread_cond_t*, const pthread_condattr_t*);
int __real_pthread_cond_destroy(pthread_cond_t*);
int __real_pthread_cond_wait(pthread_cond_t*, pthread_mutex_t*);
int __real_pthread_cond_timedwait(pthread_cond_t*, pthread_mutex_t*, const struct timespec*);
int __real_pthread_cond_signal(pthread_cond_t*);
int __real_pthread_cond_broadcast(pthread_cond_t*);
int __real_pthread_create(pthread_t*, const pthread_attr_t*, void* (*)(void*), void*);
int __real_pthread_join(pthread_t, void**);
#ifdef SCHED_WRAP_IO
ssize_t __real_read(int, void*, size_t);
ssize_t __real_write(int, const void*, size_t);
int __real_poll(struct pollfd*, nfds_t, int);
int __real_epoll_wait(int, struct epoll_event*, int, int);
#endif
}

namespace
{
using sched::Kind;

const char* kKindName[sched::K_NKINDS] = {"begin", "exit", "create", "join", "lock", "unlock", "wait", "wake",
                                          "sig", "bcast", "point", "spur", "tmo", "after", "write", "read", "poll"};

enum Pend { P_NONE, P_BEGIN, P_LOCK, P_WAKE, P_JOIN, P_POINT, P_BEFORE, P_AFTER, P_POLL };

struct Th
{
  int idx;
  sem_t sem;
  pthread_t handle;
  bool has_handle;
  Pend pend;
  int pmx;            // mutex index (P_LOCK, P_WAKE)
  int pcv;            // cond index (P_WAKE)
  int ptarget;        // P_JOIN
  Kind pkind;         // P_BEFORE / P_AFTER
  const char* pname;  // P_POINT
  bool waiting;       // in a wait set
  bool signalled;     // released from the wait set, needs the mutex
  bool timed;
  int wakeres;        // 0 sig, 1 spur, 2 tmo
  bool done;
  void* (*fn)(void*);
  void* arg;
  std::function<void()> body;  // sched::spawn
#ifdef SCHED_WRAP_IO
  struct pollfd* pfds; nfds_t pnfds; int pepfd; int ptimeout;
#endif
};

struct G
{
  bool active;
  sched::Config cfg;
  FILE* out;
  std::vector<Th*> th;
  std::map<const void*, int> mxidx, cvidx;
  std::vector<int> owner;                   // per mutex: thread idx or -1
  std::vector<std::vector<int> > waiters;   // per cond: arrival order
  std::vector<long> list;                   // explicit choices
  size_t listpos;
  bool randmode;
  uint64_t rng;
  int pswitch, pspur;                       // percent
  std::vector<int> realised;
  int spur_used;
  long step;
  int cur;                                  // thread holding the turn
  std::function<void(std::string&)> observer;
  std::function<void()> on_deadlock;
  G() : active(false), out(NULL), listpos(0), randmode(false), rng(0), pswitch(50), pspur(10), spur_used(0), step(0), cur(-1) {}
};

G g;
__thread int t_self = -1;

inline bool managed() { return g.active && t_self >= 0; }
inline Th& me() { return *g.th[static_cast<size_t>(t_self)]; }

uint64_t rnd()
{
  // splitmix64
  uint64_t z = (g.rng += 0x9E3779B97F4A7C15ull);
  z = (z ^ (z >> 30)) * 0xBF58476D1CE4E5B9ull;
  z = (z ^ (z >> 27)) * 0x94D049BB133111EBull;
  return z ^ (z >> 31);
}

int mx_index(const void* m)
{
  std::map<const void*, int>::iterator it = g.mxidx.find(m);
  if (it != g.mxidx.end()) return it->second;
  int i = static_cast<int>(g.owner.size());
  g.owner.push_back(-1);
  g.mxidx[m] = i;
  return i;
}

int cv_index(const void* c)
{
  std::map<const void*, int>::iterator it = g.cvidx.find(c);
  if (it != g.cvidx.end()) return it->second;
  int i = static_cast<int>(g.waiters.size());
  g.waiters.push_back(std::vector<int>());
  g.cvidx[c] = i;
  return i;
}

void trace(int t, Kind k, const std::string& obj, const std::string& res)
{
  std::string line;
  char buf[64];
  snprintf(buf, sizeof buf, "t %ld T%d %s ", g.step++, t, kKindName[k]);
  line = buf;
  line += obj.empty() ? "-" : obj;
  line += " ";
  line += res.empty() ? "-" : res;
  if (g.observer) g.observer(line);
  line += "\n";
  fputs(line.c_str(), g.out);
}

std::string nm(char c, int i)
{
  char buf[24];
  snprintf(buf, sizeof buf, "%c%d", c, i);
  return buf;
}

std::string pending_text(const Th& t)
{
  if (t.done) return "done";
  switch (t.pend)
  {
    case P_BEGIN: return "begin";
    case P_LOCK: return "lock " + nm('m', t.pmx) + " owner=" + (g.owner[static_cast<size_t>(t.pmx)] < 0 ? std::string("-") : nm('T', g.owner[static_cast<size_t>(t.pmx)]));
    case P_WAKE:
      if (t.waiting) return std::string(t.timed ? "timedwait " : "wait ") + nm('c', t.pcv) + " " + nm('m', t.pmx);
      return "reacquire " + nm('m', t.pmx) + " after " + nm('c', t.pcv);
    case P_JOIN: return "join " + nm('T', t.ptarget);
    case P_POINT: return std::string("point ") + (t.pname ? t.pname : "?");
    case P_BEFORE: return std::string("before ") + kKindName[t.pkind];
    case P_AFTER: return std::string("after ") + kKindName[t.pkind];
    case P_POLL: return "poll";
    default: return "running";
  }
}

void print_schedule()
{
  std::string s = "schedule";
  char buf[16];
  for (size_t i = 0; i < g.realised.size(); ++i)
  {
    snprintf(buf, sizeof buf, "%s%d", i ? "," : " ", g.realised[i]);
    s += buf;
  }
  if (g.realised.empty()) s += " -";
  s += "\n";
  fputs(s.c_str(), g.out);
}

void die(const char* what)
{
  fprintf(g.out, "%s step=%ld\n", what, g.step);
  for (size_t i = 0; i < g.th.size(); ++i)
    fprintf(g.out, "d T%zu %s\n", i, pending_text(*g.th[i]).c_str());
  if (g.on_deadlock) g.on_deadlock();
  print_schedule();
  fprintf(g.out, "end\n");
  fflush(g.out);
  _exit(0);
}

#ifdef SCHED_WRAP_IO
bool poll_ready(Th& t)
{
  if (t.pepfd >= 0)
  {
    struct epoll_event ev[1];
    // peeking with maxevents=1 and timeout 0 does not consume level-triggered readiness
    return __real_epoll_wait(t.pepfd, ev, 1, 0) > 0;
  }
  std::vector<struct pollfd> c(t.pfds, t.pfds + t.pnfds);
  return __real_poll(c.data(), t.pnfds, 0) > 0;
}
#endif

bool enabled(Th& t)
{
  if (t.done) return false;
  switch (t.pend)
  {
    case P_BEGIN: case P_POINT: case P_BEFORE: case P_AFTER: return true;
    case P_LOCK: return g.owner[static_cast<size_t>(t.pmx)] < 0;
    case P_WAKE: return t.signalled && g.owner[static_cast<size_t>(t.pmx)] < 0;
    case P_JOIN: return g.th[static_cast<size_t>(t.ptarget)]->done;
#ifdef SCHED_WRAP_IO
    case P_POLL: return t.signalled || poll_ready(t);
#endif
    default: return false;
  }
}

// One choice among n >= 1 options; option 0 is the default.  `preemptible` = option 0 continues
// the thread that holds the turn.  Emits a "c" line for n > 1.
int next_choice(size_t n, bool preemptible, const std::string& labels, size_t nspur_from)
{
  if (n <= 1) return 0;
  int pick = 0;
  if (g.listpos < g.list.size())
    pick = static_cast<int>(static_cast<unsigned long>(g.list[g.listpos++]) % n);
  else if (g.randmode)
  {
    // spurious / time-out options (from index nspur_from on) only with probability pspur
    size_t nrun = nspur_from < n ? nspur_from : n;
    if (nspur_from < n && static_cast<int>(rnd() % 100) < g.pspur)
      pick = static_cast<int>(nspur_from + rnd() % (n - nspur_from));
    else if (nrun > 1 && (!preemptible || static_cast<int>(rnd() % 100) < g.pswitch))
      pick = static_cast<int>(preemptible ? 1 + rnd() % (nrun - 1) : rnd() % nrun);
    else
      pick = 0;
  }
  g.realised.push_back(pick);
  fprintf(g.out, "c %zu %d %d %s\n", n, pick, preemptible ? 1 : 0, labels.c_str());
  return pick;
}

void unwait(Th& t)
{
  std::vector<int>& w = g.waiters[static_cast<size_t>(t.pcv)];
  for (size_t i = 0; i < w.size(); ++i)
    if (w[i] == t.idx) { w.erase(w.begin() + static_cast<long>(i)); break; }
  t.waiting = false;
  t.signalled = true;
}

// Decide who runs next.  Applies injected events (spurious wake-up, time-out) on the way.
// Returns the thread index, or -1 when every managed thread is done.
int choose()
{
  for (;;)
  {
    if (g.step > g.cfg.max_steps) die("STEPLIMIT");
    std::vector<int> runs, tmos, spurs;
    bool cur_enabled = false, alldone = true;
    for (size_t i = 0; i < g.th.size(); ++i)
    {
      Th& t = *g.th[i];
      if (t.done) continue;
      alldone = false;
      if (enabled(t))
      {
        if (static_cast<int>(i) == g.cur) cur_enabled = true;
        else runs.push_back(static_cast<int>(i));
      }
      if (t.pend == P_WAKE && t.waiting)
      {
        if (t.timed) tmos.push_back(static_cast<int>(i));
        if (g.spur_used < g.cfg.max_spurious) spurs.push_back(static_cast<int>(i));
      }
#ifdef SCHED_WRAP_IO
      if (t.pend == P_POLL && !t.signalled && t.ptimeout >= 0 && !enabled(t)) tmos.push_back(static_cast<int>(i));
#endif
    }
    if (alldone) return -1;
    if (cur_enabled) runs.insert(runs.begin(), g.cur);
    std::vector<std::pair<char, int> > opts;
    for (size_t i = 0; i < runs.size(); ++i) opts.push_back(std::make_pair('r', runs[i]));
    size_t nrun = opts.size();
    if (runs.empty())
    {
      if (tmos.empty()) die("DEADLOCK");
      for (size_t i = 0; i < tmos.size(); ++i) opts.push_back(std::make_pair('t', tmos[i]));
      nrun = opts.size();   // a forced time-out is the default here, not an injected event
    }
    else if (g.cfg.timeouts)
      for (size_t i = 0; i < tmos.size(); ++i) opts.push_back(std::make_pair('t', tmos[i]));
    for (size_t i = 0; i < spurs.size(); ++i) opts.push_back(std::make_pair('s', spurs[i]));
    std::string labels;
    for (size_t i = 0; i < opts.size(); ++i)
    {
      if (i) labels += ",";
      labels += nm(opts[i].first, opts[i].second);
    }
    int pick = next_choice(opts.size(), cur_enabled, labels, nrun);
    std::pair<char, int> o = opts[static_cast<size_t>(pick)];
    if (o.first == 'r') return o.second;
    Th& t = *g.th[static_cast<size_t>(o.second)];
#ifdef SCHED_WRAP_IO
    if (t.pend == P_POLL) { t.signalled = true; t.wakeres = 2; trace(t.idx, sched::K_TMO, "poll", ""); continue; }
#endif
    std::string cv = nm('c', t.pcv);
    unwait(t);
    if (o.first == 's') { t.wakeres = 1; ++g.spur_used; trace(t.idx, sched::K_SPUR, cv, ""); }
    else { t.wakeres = 2; trace(t.idx, sched::K_TMO, cv, ""); }
  }
}

// Give up the turn until the schedule picks this thread's pending action.
void park()
{
  Th& m = me();
  int next = choose();
  assert(next >= 0);
  if (next != m.idx)
  {
    g.cur = next;
    sem_post(&g.th[static_cast<size_t>(next)]->sem);
    sem_wait(&m.sem);
  }
  g.cur = m.idx;
  m.pend = P_NONE;
}

void pre(Kind k)
{
  if (g.cfg.pre_mask & sched::bit(k))
  {
    Th& m = me();
    m.pend = P_BEFORE;
    m.pkind = k;
    park();
  }
}

void post(Kind k)
{
  if (g.cfg.post_mask & sched::bit(k))
  {
    Th& m = me();
    m.pend = P_AFTER;
    m.pkind = k;
    park();
    trace(m.idx, sched::K_AFTER, kKindName[k], "");
  }
}

// the calling managed thread is finished: hand the turn on (or wake T0 when everything is done)
void finish_thread()
{
  Th& m = me();
  trace(m.idx, sched::K_EXIT, "", "");
  m.done = true;
  m.pend = P_NONE;
  int self = m.idx;
  g.cur = -1;
  t_self = -1;
  int next = choose();
  if (next < 0)
  {
    if (self != 0) sem_post(&g.th[0]->sem);   // T0 waits in run()
    return;
  }
  g.cur = next;
  sem_post(&g.th[static_cast<size_t>(next)]->sem);
}

void* trampoline(void* p)
{
  Th* t = static_cast<Th*>(p);
  t_self = t->idx;
  sem_wait(&t->sem);   // parked as P_BEGIN
  g.cur = t->idx;
  t->pend = P_NONE;
  trace(t->idx, sched::K_BEGIN, "", "");
  void* r = NULL;
  if (t->fn) r = t->fn(t->arg);
  else t->body();
  finish_thread();
  return r;
}

Th* new_thread()
{
  Th* t = new Th();
  t->idx = static_cast<int>(g.th.size());
  sem_init(&t->sem, 0, 0);
  t->has_handle = false;
  t->pend = P_NONE;
  t->pmx = t->pcv = t->ptarget = -1;
  t->pname = NULL;
  t->waiting = t->signalled = t->timed = t->done = false;
  t->wakeres = 0;
  t->fn = NULL;
  t->arg = NULL;
#ifdef SCHED_WRAP_IO
  t->pfds = NULL; t->pnfds = 0; t->pepfd = -1; t->ptimeout = -1;
#endif
  g.th.push_back(t);
  return t;
}

int do_create(pthread_t* out, const pthread_attr_t* attr, Th* t)
{
  pre(sched::K_CREATE);
  t->pend = P_BEGIN;
  pthread_t h;
  int rc = __real_pthread_create(&h, attr, trampoline, t);
  if (rc != 0) { t->done = true; return rc; }
  t->handle = h;
  t->has_handle = true;
  if (out) *out = h;
  trace(t_self, sched::K_CREATE, "", nm('T', t->idx));
  post(sched::K_CREATE);
  return 0;
}

int do_join(Th* t, void** ret)
{
  Th& m = me();
  m.pend = P_JOIN;
  m.ptarget = t->idx;
  park();
  int rc = __real_pthread_join(t->handle, ret);
  t->has_handle = false;
  trace(m.idx, sched::K_JOIN, nm('T', t->idx), "");
  post(sched::K_JOIN);
  return rc;
}

int do_wait(pthread_cond_t* c, pthread_mutex_t* mu, bool timed)
{
  Th& m = me();
  int ci = cv_index(c), mi = mx_index(mu);
  pre(sched::K_WAIT);
  if (g.owner[static_cast<size_t>(mi)] != m.idx)
  {
    trace(m.idx, sched::K_WAIT, nm('c', ci), "ERROR-not-owner-of-" + nm('m', mi));
    return EPERM;
  }
  g.owner[static_cast<size_t>(mi)] = -1;
  g.waiters[static_cast<size_t>(ci)].push_back(m.idx);
  m.waiting = true;
  m.signalled = false;
  m.timed = timed;
  m.wakeres = 0;
  m.pmx = mi;
  m.pcv = ci;
  trace(m.idx, sched::K_WAIT, nm('c', ci), nm('m', mi) + (timed ? ":timed" : ""));
  m.pend = P_WAKE;
  park();
  g.owner[static_cast<size_t>(mi)] = m.idx;
  m.signalled = false;
  static const char* const why[3] = {"sig", "spur", "tmo"};
  trace(m.idx, sched::K_WAKE, nm('c', ci), why[m.wakeres]);
  int res = m.wakeres == 2 ? ETIMEDOUT : 0;
  post(sched::K_WAKE);
  return res;
}
}  // namespace

// ----------------------------------------------------------------------------- wrapped calls
extern "C" {

int __wrap_pthread_mutex_init(pthread_mutex_t* m, const pthread_mutexattr_t* a)
{
  if (g.active) g.mxidx.erase(m);
  return __real_pthread_mutex_init(m, a);
}

int __wrap_pthread_mutex_destroy(pthread_mutex_t* m)
{
  if (g.active) g.mxidx.erase(m);   // a later object at the same address gets a fresh number
  return __real_pthread_mutex_destroy(m);
}

int __wrap_pthread_cond_init(pthread_cond_t* c, const pthread_condattr_t* a)
{
  if (g.active) g.cvidx.erase(c);
  return __real_pthread_cond_init(c, a);
}

int __wrap_pthread_cond_destroy(pthread_cond_t* c)
{
  if (g.active) g.cvidx.erase(c);
  return __real_pthread_cond_destroy(c);
}

int __wrap_pthread_mutex_lock(pthread_mutex_t* mu)
{
  if (!managed()) return __real_pthread_mutex_lock(mu);
  Th& m = me();
  int mi = mx_index(mu);
  m.pend = P_LOCK;
  m.pmx = mi;
  park();
  g.owner[static_cast<size_t>(mi)] = m.idx;
  trace(m.idx, sched::K_LOCK, nm('m', mi), "");
  post(sched::K_LOCK);
  return 0;
}

int __wrap_pthread_mutex_unlock(pthread_mutex_t* mu)
{
  if (!managed()) return __real_pthread_mutex_unlock(mu);
  Th& m = me();
  int mi = mx_index(mu);
  pre(sched::K_UNLOCK);
  if (g.owner[static_cast<size_t>(mi)] != m.idx)
  {
    trace(m.idx, sched::K_UNLOCK, nm('m', mi), "ERROR-not-owner");
    return EPERM;
  }
  g.owner[static_cast<size_t>(mi)] = -1;
  trace(m.idx, sched::K_UNLOCK, nm('m', mi), "");
  post(sched::K_UNLOCK);
  return 0;
}

int __wrap_pthread_cond_wait(pthread_cond_t* c, pthread_mutex_t* mu)
{
  if (!managed()) return __real_pthread_cond_wait(c, mu);
  return do_wait(c, mu, false);
}

int __wrap_pthread_cond_timedwait(pthread_cond_t* c, pthread_mutex_t* mu, const struct timespec* ts)
{
  if (!managed()) return __real_pthread_cond_timedwait(c, mu, ts);
  return do_wait(c, mu, true);
}

int __wrap_pthread_cond_signal(pthread_cond_t* c)
{
  if (!managed()) return __real_pthread_cond_signal(c);
  Th& m = me();
  int ci = cv_index(c);
  pre(sched::K_SIGNAL);
  std::vector<int>& w = g.waiters[static_cast<size_t>(ci)];
  if (w.empty())
    trace(m.idx, sched::K_SIGNAL, nm('c', ci), "none");
  else
  {
    std::string labels;
    for (size_t i = 0; i < w.size(); ++i) labels += (i ? "," : "") + nm('w', w[i]);
    int pick = next_choice(w.size(), false, labels, w.size());
    Th& t = *g.th[static_cast<size_t>(w[static_cast<size_t>(pick)])];
    unwait(t);
    t.wakeres = 0;
    trace(m.idx, sched::K_SIGNAL, nm('c', ci), nm('T', t.idx));
  }
  post(sched::K_SIGNAL);
  return 0;
}

int __wrap_pthread_cond_broadcast(pthread_cond_t* c)
{
  if (!managed()) return __real_pthread_cond_broadcast(c);
  Th& m = me();
  int ci = cv_index(c);
  pre(sched::K_BCAST);
  std::vector<int> w = g.waiters[static_cast<size_t>(ci)];
  std::string res;
  for (size_t i = 0; i < w.size(); ++i)
  {
    Th& t = *g.th[static_cast<size_t>(w[i])];
    unwait(t);
    t.wakeres = 0;
    res += (i ? "," : "") + nm('T', t.idx);
  }
  trace(m.idx, sched::K_BCAST, nm('c', ci), w.empty() ? "none" : res);
  post(sched::K_BCAST);
  return 0;
}

int __wrap_pthread_create(pthread_t* out, const pthread_attr_t* attr, void* (*fn)(void*), void* arg)
{
  if (!managed()) return __real_pthread_create(out, attr, fn, arg);
  Th* t = new_thread();
  t->fn = fn;
  t->arg = arg;
  return do_create(out, attr, t);
}

int __wrap_pthread_join(pthread_t h, void** ret)
{
  if (managed())
    for (size_t i = 0; i < g.th.size(); ++i)
      if (g.th[i]->has_handle && pthread_equal(g.th[i]->handle, h)) return do_join(g.th[i], ret);
  return __real_pthread_join(h, ret);
}

#ifdef SCHED_WRAP_IO
// File descriptors keep their real kernel state (eventfd counters, pipes, socketpairs): the
// scheduler only decides WHEN a call happens.  A poll/epoll_wait with nothing ready never
// sleeps: the thread is parked as "blocked in poll" and is enabled again as soon as a
// zero-time-out re-poll reports something; a finite time-out is a separate schedulable event.
ssize_t __wrap_write(int fd, const void* b, size_t n)
{
  if (!managed()) return __real_write(fd, b, n);
  pre(sched::K_IOWRITE);
  ssize_t r = __real_write(fd, b, n);
  int e = errno;
  char buf[32]; snprintf(buf, sizeof buf, "%zd", r);
  if (fd > 2) trace(t_self, sched::K_IOWRITE, nm('f', fd), buf);
  if (fd > 2) post(sched::K_IOWRITE);
  errno = e;
  return r;
}

ssize_t __wrap_read(int fd, void* b, size_t n)
{
  if (!managed()) return __real_read(fd, b, n);
  pre(sched::K_IOREAD);
  ssize_t r = __real_read(fd, b, n);
  int e = errno;
  char buf[32]; snprintf(buf, sizeof buf, "%zd", r);
  if (fd > 2) trace(t_self, sched::K_IOREAD, nm('f', fd), buf);
  if (fd > 2) post(sched::K_IOREAD);
  errno = e;
  return r;
}

static int do_poll(struct pollfd* fds, nfds_t nfds, int epfd, struct epoll_event* evs, int maxev, int timeout)
{
  Th& m = me();
  m.pfds = fds; m.pnfds = nfds; m.pepfd = epfd; m.ptimeout = timeout;
  m.signalled = (timeout == 0);   // a zero time-out never blocks
  m.wakeres = 0;
  m.pend = P_POLL;
  park();
  m.signalled = false;
  int r = epfd >= 0 ? __real_epoll_wait(epfd, evs, maxev, 0) : __real_poll(fds, nfds, 0);
  int e = errno;
  char buf[32]; snprintf(buf, sizeof buf, "%d", r);
  trace(m.idx, sched::K_POLL, epfd >= 0 ? "epoll" : "poll", buf);
  post(sched::K_POLL);
  errno = e;
  return r;
}

int __wrap_poll(struct pollfd* fds, nfds_t nfds, int timeout)
{
  if (!managed()) return __real_poll(fds, nfds, timeout);
  return do_poll(fds, nfds, -1, NULL, 0, timeout);
}

int __wrap_epoll_wait(int epfd, struct epoll_event* evs, int maxev, int timeout)
{
  if (!managed()) return __real_epoll_wait(epfd, evs, maxev, timeout);
  return do_poll(NULL, 0, epfd, evs, maxev, timeout);
}
#endif
}  // extern "C"

// ----------------------------------------------------------------------------- driver API
namespace sched
{
bool parse_token(Config& cfg, const std::string& tok)
{
  size_t eq = tok.find('=');
  if (eq == std::string::npos) return false;
  std::string k = tok.substr(0, eq), v = tok.substr(eq + 1);
  if (k == "sched") cfg.source = v;
  else if (k == "spur") cfg.max_spurious = atoi(v.c_str());
  else if (k == "tmo") cfg.timeouts = atoi(v.c_str()) != 0;
  else if (k == "pre") cfg.pre_mask = static_cast<unsigned>(strtoul(v.c_str(), NULL, 0));
  else if (k == "post") cfg.post_mask = static_cast<unsigned>(strtoul(v.c_str(), NULL, 0));
  else if (k == "steps") cfg.max_steps = atoi(v.c_str());
  else return false;
  return true;
}

int run(const Config& cfg, const std::function<void()>& body)
{
  assert(!g.active);
  g.cfg = cfg;
  g.out = cfg.out ? cfg.out : stdout;
  g.list.clear();
  g.listpos = 0;
  g.randmode = false;
  g.realised.clear();
  g.spur_used = 0;
  g.step = 0;
  const std::string& s = cfg.source;
  if (s.compare(0, 5, "list:") == 0)
  {
    const char* p = s.c_str() + 5;
    while (*p)
    {
      char* e;
      long v = strtol(p, &e, 10);
      if (e == p) break;
      g.list.push_back(v);
      p = (*e == ',') ? e + 1 : e;
    }
  }
  else if (s.compare(0, 5, "rand:") == 0)
  {
    g.randmode = true;
    unsigned long long seed = 0;
    int a = 50, b = 10;
    sscanf(s.c_str() + 5, "%llu:%d:%d", &seed, &a, &b);
    g.rng = seed * 0x9E3779B97F4A7C15ull + 12345;
    g.pswitch = a;
    g.pspur = b;
  }
  Th* t0 = new_thread();
  t_self = t0->idx;
  g.cur = 0;
  g.active = true;
  body();
  // T0 is finished; keep scheduling the others until all are done
  {
    Th& m = *t0;
    trace(0, K_EXIT, "", "");
    m.done = true;
    m.pend = P_NONE;
    g.cur = -1;
    t_self = -1;
    int next = choose();
    if (next >= 0)
    {
      g.cur = next;
      sem_post(&g.th[static_cast<size_t>(next)]->sem);
      sem_wait(&m.sem);
    }
  }
  g.active = false;
  print_schedule();
  for (size_t i = 0; i < g.th.size(); ++i)
    if (g.th[i]->has_handle) { /* never joined by the program: left to exit on its own */ }
  g.th.clear();   // Th objects are leaked on purpose (exiting threads may still touch their own)
  g.mxidx.clear();
  g.cvidx.clear();
  g.owner.clear();
  g.waiters.clear();
  g.observer = nullptr;
  g.on_deadlock = nullptr;
  return 0;
}

void point(const char* name)
{
  if (!managed()) return;
  Th& m = me();
  m.pend = P_POINT;
  m.pname = name;
  park();
  trace(m.idx, K_POINT, name, "");
}

void log(const char* fmt, ...)
{
  char buf[512];
  va_list ap;
  va_start(ap, fmt);
  vsnprintf(buf, sizeof buf, fmt, ap);
  va_end(ap);
  FILE* o = g.out ? g.out : stdout;
  fprintf(o, "e T%d %s\n", t_self, buf);
}

int self() { return g.active ? t_self : -1; }
bool active() { return g.active; }
int name_mutex(const void* a) { return mx_index(a); }
int name_cond(const void* a) { return cv_index(a); }
int owner_of(int mi) { return mi >= 0 && static_cast<size_t>(mi) < g.owner.size() ? g.owner[static_cast<size_t>(mi)] : -1; }
void set_observer(const std::function<void(std::string&)>& f) { g.observer = f; }
void set_deadlock_handler(const std::function<void()>& f) { g.on_deadlock = f; }

handle spawn(const std::function<void()>& f)
{
  assert(managed());
  Th* t = new_thread();
  t->body = f;
  int rc = do_create(NULL, NULL, t);
  assert(rc == 0);
  (void)rc;
  return t->idx;
}

void join(handle h)
{
  assert(managed());
  do_join(g.th[static_cast<size_t>(h)], NULL);
}

void wait_exit(int idx)
{
  if (!managed() || idx < 0 || static_cast<size_t>(idx) >= g.th.size()) return;
  Th& m = me();
  m.pend = P_JOIN;          // enabled exactly when the target thread is done; no real join
  m.ptarget = idx;
  park();
  trace(m.idx, K_POINT, "waited", nm('T', idx));
}
}  // namespace sched
