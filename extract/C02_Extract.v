(* extraction of the owners model: ExtrOcamlBasic only *)
From Coq Require Extraction.
From Coq Require Import ExtrOcamlBasic.
From Coq Require Import List ZArith NArith.
From Coq.Strings Require Import Byte.
From Muduo Require Import Base_Bytes Conn_Model C02_Model.
Extraction "model.ml" C02_Model.step C02_Model.init_sys C02_Model.holders C02_Model.k_inset C02_Model.q_all C02_Model.quitting C02_Model.gone
  Base_Bytes.xbyte_of_N Base_Bytes.xN_of_byte Base_Bytes.xanchor.
