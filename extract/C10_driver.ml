(* C10 driver: reads cases (see harness/C10_driver.cc for the format), prints one line per op *)
let show_state (st: state) : string =
  let b = fst st in
  let c = readable b in
  Printf.sprintf "r=%d w=%d p=%d h=%s" (int_of_nat (readableBytes b)) (int_of_nat (writableBytes b))
    (int_of_nat (prependableBytes b)) (fnv_of_bytes c)
let show_out (o: out) : string = match o with
  | OUnit -> "-"
  | ONat n -> string_of_int (int_of_nat n)
  | OBytes l -> "b:" ^ fnv_of_bytes l ^ ":" ^ string_of_int (List.length l)
  | OInt z -> "i:" ^ string_of_z z
  | OIdx None -> "none"
  | OIdx (Some i) -> "at:" ^ string_of_int (int_of_nat i)
let parse_op (w: string list) : op = match w with
  | ["A"; d] -> Append (bytes_of_spec d)
  | ["P"; d] -> Prepend (bytes_of_spec d)
  | ["R"; n] -> Retrieve (nat_of_int (int_of_string n))
  | ["RA"] -> RetrieveAll
  | ["RS"; n] -> RetrieveAsString (nat_of_int (int_of_string n))
  | ["EW"; n] -> EnsureWritable (nat_of_int (int_of_string n))
  | ["HW"; d] -> HasWritten (bytes_of_spec d)
  | ["UW"; n] -> Unwrite (nat_of_int (int_of_string n))
  | ["SH"; n] -> Shrink (nat_of_int (int_of_string n))
  | ["SW"] -> Swap
  | ["RF"; d] -> ReadFd (bytes_of_spec d)
  | ["AI"; k; x] -> AppendInt (nat_of_int (int_of_string k), z_of_string x)
  | ["PI"; k; x] -> PrependInt (nat_of_int (int_of_string k), z_of_string x)
  | ["KI"; k] -> PeekInt (nat_of_int (int_of_string k))
  | ["RI"; k] -> ReadInt (nat_of_int (int_of_string k))
  | ["FC"; n] -> FindCRLF (nat_of_int (int_of_string n))
  | ["FE"; n] -> FindEOL (nat_of_int (int_of_string n))
  | _ -> failwith ("bad op: " ^ String.concat " " w)
let () =
  let st = ref (new_buf O, new_buf O) in
  let dead = ref false in
  (try while true do
    let line = input_line stdin in
    match split_ws line with
    | [] -> ()
    | "case" :: id :: n :: m :: _ ->
        st := (new_buf (nat_of_int (int_of_string n)), new_buf (nat_of_int (int_of_string m)));
        dead := false;
        Printf.printf "case %s %s\n" id (show_state !st); flush stdout
    | ["end"] -> print_string "end\n"; flush stdout
    | w ->
        if !dead then print_string "skipped\n" else
        (match step !st (parse_op w) with
         | Ok (st', o) -> st := st'; Printf.printf "ok %s %s\n" (show_out o) (show_state st')
         | Rejected -> Printf.printf "rejected - %s\n" (show_state !st)
         | Fault -> dead := true; print_string "FAULT\n");
        flush stdout
  done with End_of_file -> ())
