(* C10 driver: reads cases (see harness/C10_driver.cc for the format), prints one line per op *)
let show_state (st: state) : string =
  let b = fst st in
  let c = readable b in
  Printf.sprintf "r=%d w=%d p=%d h=%s" (int_of_nat (readableBytes b)) (int_of_nat (writableBytes b))
    (int_of_nat (prependableBytes b)) (fnv_of_bytes c)
let show_out (o: out) : string = match o with
  | OUnit -> "-"
  | ONat n -> string_of_int (int_of_nat n)
  | OBytes l -> "b:" ^ fnv_of_bytes l ^ ":" ^ string_of_int (List.length l)
  | OInt z -> "i:" ^ string_of_z z
  | OIdx None -> "none"
  | OIdx (Some i) -> "at:" ^ string_of_int (int_of_nat i)
  | ORead r -> Printf.sprintf "rd:%s:%d:%d:%s" (string_of_z r.rf_n) (int_of_nat r.rf_iovcnt) (int_of_nat r.rf_len0)
                 (match r.rf_errno with None -> "-" | Some e -> string_of_z e)
let width_of (k: string) : width = match k with
  | "1" -> W8 | "2" -> W16 | "4" -> W32 | "8" -> W64 | _ -> failwith ("bad width " ^ k)
let parse_op (w: string list) : op = match w with
  | ["A"; d] -> Append (bytes_of_spec d)
  | ["P"; d] -> Prepend (bytes_of_spec d)
  | ["R"; n] -> Retrieve (nat_of_int (int_of_string n))
  | ["RU"; n] -> RetrieveUntil (z_of_string n)
  | ["RN"; k] -> RetrieveInt (width_of k)
  | ["RAS"] -> RetrieveAllAsString
  | ["TS"] -> ToStringPiece
  | ["IC"] -> InternalCapacity
  | ["AS"] -> Assign
  | ["RFE"; e] -> ReadFd (KErr (z_of_string e))
  | ["FC0"] -> FindCRLF0
  | ["FE0"] -> FindEOL0
  | ["RA"] -> RetrieveAll
  | ["RS"; n] -> RetrieveAsString (nat_of_int (int_of_string n))
  | ["EW"; n] -> EnsureWritable (nat_of_int (int_of_string n))
  | ["HW"; d] -> HasWritten (bytes_of_spec d)
  | ["UW"; n] -> Unwrite (nat_of_int (int_of_string n))
  | ["SH"; n] -> Shrink (nat_of_int (int_of_string n))
  | ["SW"] -> Swap
  | ["RF"; d] -> ReadFd (KData (bytes_of_spec d))
  | ["AI"; k; x] -> AppendInt (width_of k, z_of_string x)
  | ["PI"; k; x] -> PrependInt (width_of k, z_of_string x)
  | ["KI"; k] -> PeekInt (width_of k)
  | ["RI"; k] -> ReadInt (width_of k)
  | ["FC"; n] -> FindCRLF (z_of_string n)
  | ["FE"; n] -> FindEOL (z_of_string n)
  | _ -> failwith ("bad op: " ^ String.concat " " w)
let () =
  let st = ref (new_buf O, new_buf O) in
  let dead = ref false in
  (try while true do
    let line = input_line stdin in
    match split_ws line with
    | [] -> ()
    | "case" :: id :: n :: m :: _ ->
        st := (new_buf (nat_of_int (int_of_string n)), new_buf (nat_of_int (int_of_string m)));
        dead := false;
        Printf.printf "case %s %s\n" id (show_state !st); flush stdout
    | ["end"] -> print_string "end\n"; flush stdout
    | ["RF2"; da; db] when not !dead ->
        (* both buffers read their own descriptor (the implementation does it concurrently on two threads): the model is
           the product -- first buffer, then (swap) the second, independently *)
        let sw (s: state) : state = (snd s, fst s) in
        (match step_c !st (ReadFd (KData (bytes_of_spec da))) with
         | Ok (st1, ORead r1) ->
             (match step_c (sw st1) (ReadFd (KData (bytes_of_spec db))) with
              | Ok (st2, ORead r2) ->
                  st := sw st2;
                  let c2 = readable (snd !st) in
                  Printf.printf "ok rd2:%s:%s:%d:%s %s\n" (string_of_z r1.rf_n) (string_of_z r2.rf_n)
                    (int_of_nat (readableBytes (snd !st))) (fnv_of_bytes c2) (show_state !st)
              | _ -> dead := true; print_string "FAULT\n")
         | _ -> dead := true; print_string "FAULT\n");
        flush stdout
    | w ->
        if !dead then print_string "skipped\n" else
        (let cap = int_of_nat (readFd_capacity (fst !st)) in
         match step_c !st (parse_op w) with
         | Ok (st', (ORead _ as o)) -> st := st'; Printf.printf "ok %s:cap=%d %s\n" (show_out o) cap (show_state st')
         | Ok (st', o) -> st := st'; Printf.printf "ok %s %s\n" (show_out o) (show_state st')
         | Rejected -> Printf.printf "rejected - %s\n" (show_state !st)
         | Fault -> dead := true; print_string "FAULT\n");
        flush stdout
  done with End_of_file -> ())
