From Coq Require Extraction.
From Coq Require Import ExtrOcamlBasic.
From Coq Require Import List ZArith NArith.
From Muduo Require Import Base_Bytes Gen_C11 C11_Model.
Extraction "model.ml" C11_Model.astep C11_Model.acc_init C11_Model.accept_class
  C11_Model.loop_run C11_Model.iter C11_Model.epoll_src C11_Model.ppoll_src C11_Model.k_intr C11_Model.k_timeout
  Gen_C11.errno_EAGAIN Gen_C11.errno_ECONNABORTED Gen_C11.errno_EINTR Gen_C11.errno_EPROTO Gen_C11.errno_EPERM
  Gen_C11.errno_EMFILE Gen_C11.errno_EBADF Gen_C11.errno_EFAULT Gen_C11.errno_EINVAL Gen_C11.errno_ENFILE
  Gen_C11.errno_ENOBUFS Gen_C11.errno_ENOMEM Gen_C11.errno_ENOTSOCK Gen_C11.errno_EOPNOTSUPP
  Base_Bytes.xbyte_of_N Base_Bytes.xN_of_byte Base_Bytes.xanchor.
