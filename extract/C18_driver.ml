(* C18 driver: runs the extracted codec / HTTP / Adler-32 models on the case format of
   harness/C18_driver.cc and prints the same canonical line per op.
     case <id> <kind> <tag-spec>        kind = raw | rpc | http | adler
     F <chunk-spec>                     deliver one chunk (append + decode loop)
     E <msg-spec>                       (raw) encode one message
     E <type> <id> <svc> <meth> <req> <resp> <err>   (rpc) encode; "~" = field absent
     PT <payload-hex> <ok:hex|fail>     (rpc) what protobuf's ParseFromArray says (environment)
     AD <spec>                          Adler-32
     end
   spec = hex | "-" | "@len:seed" | "#hh*count" *)
let spec2 (s:string) : byte list =
  if String.length s > 0 && s.[0] = '#' then begin
    let i = String.index s '*' in
    let b = byte_of_int (hv s.[1] * 16 + hv s.[2]) in
    let n = int_of_string (String.sub s (i+1) (String.length s - i - 1)) in
    List.init n (fun _ -> b)
  end else bytes_of_spec s
let hex_or_dash (l: byte list) : string = if l = [] then "-" else hex_of_bytes l
let err_name (e: err) : string = match e with
  | KInvalidLength -> "InvalidLength" | KCheckSumError -> "CheckSumError"
  | KInvalidNameLen -> "InvalidNameLen" | KUnknownMessageType -> "UnknownMessageType"
  | KParseError -> "ParseError"
let show_cev (e: byte list cevent) : string = match e with
  | CMsg m -> "msg:" ^ hex_or_dash m
  | CErr x -> "err:" ^ err_name x
  | CFault -> "fault"
let join sep f l = if l = [] then "-" else String.concat sep (List.map f l)
let b01 b = if b then "1" else "0"
let method_name (m: method0) = match m with
  | KInvalid -> "UNKNOWN" | KGet -> "GET" | KPost -> "POST" | KHead -> "HEAD" | KPut -> "PUT" | KDelete -> "DELETE"
let version_num (v: version) = match v with KUnknown -> "0" | KHttp10 -> "1" | KHttp11 -> "2"
let show_hev (e: hevent) : string = match e with
  | HBad -> "bad"
  | HReq r ->
      let hs = List.sort (fun (a,_) (b,_) -> compare (hex_of_bytes a) (hex_of_bytes b)) r.q_headers in
      Printf.sprintf "req:%s:%s:%s:%s:%s" (method_name r.q_method) (version_num r.q_version)
        (hex_or_dash r.q_path) (hex_or_dash r.q_query)
        (join "," (fun (k,v) -> hex_or_dash k ^ "=" ^ hex_or_dash v) hs)
let state_num (s: hstate) = match s with
  | KExpectRequestLine -> 0 | KExpectHeaders -> 1 | KExpectBody -> 2 | KGotAll -> 3
let opt_field (s:string) : byte list option = if s = "~" then None else Some (spec2 s)
let () =
  let kind = ref "raw" in
  let tag = ref [] in
  let cst = ref codec_init in
  let hst = ref http_init in
  let table : (string, byte list option) Hashtbl.t = Hashtbl.create 64 in
  let missing = ref false in
  let parse (p: byte list) : byte list option =
    if !kind = "raw" then raw_parse p
    else match Hashtbl.find_opt table (hex_or_dash p) with
      | Some r -> r
      | None -> missing := true; None in
  (try while true do
    let line = input_line stdin in
    (match split_ws line with
    | [] -> ()
    | "case" :: id :: k :: rest ->
        kind := k;
        tag := (match rest with t :: _ -> spec2 t | [] -> []);
        cst := codec_init; hst := http_init; Hashtbl.reset table; missing := false;
        Printf.printf "case %s %s\n" id k
    | ["end"] -> print_string "end\n"
    | ["F"; d] when !kind = "http" ->
        let (evs, st') = http_feed !hst (spec2 d) in
        hst := st';
        Printf.printf "F %s r=%d ab=%s st=%d%s\n" (join ";" show_hev evs) (List.length st'.d_buf)
          (b01 st'.d_abandoned) (state_num st'.d_st.h_state) (if st'.d_oof then " OOF" else "")
    | ["F"; d] ->
        missing := false;
        let (evs, st') = codec_feed parse !tag !cst (spec2 d) in
        cst := st';
        Printf.printf "F %s r=%d ab=%s%s%s\n" (join ";" show_cev evs) (List.length st'.d_buf)
          (b01 st'.d_abandoned) (if st'.d_oof then " OOF" else "") (if !missing then " MISSING-PT" else "")
    | ["E"; d] -> Printf.printf "E %s\n" (hex_of_bytes (encode !tag (raw_ser (spec2 d))))
    | ["E"; ty; id; svc; meth; req; resp; er] ->
        let m = { rpc_type = z_of_string ty; rpc_id = z_of_string id; rpc_service = opt_field svc;
                  rpc_method = opt_field meth; rpc_request = opt_field req; rpc_response = opt_field resp;
                  rpc_error = (if er = "~" then None else Some (z_of_string er)) } in
        Printf.printf "E %s\n" (hex_of_bytes (encode !tag (rpc_ser m)))
    | "PT" :: p :: r :: _ ->
        let v = if r = "fail" || r = "?" then None
                else Some (spec2 (String.sub r 3 (String.length r - 3))) in
        Hashtbl.replace table (hex_or_dash (spec2 p)) v;
        Printf.printf "PT %s\n" r
    | ["AD"; d] -> Printf.printf "AD %s\n" (string_of_z (adler32 (spec2 d)))
    | w -> failwith ("bad op: " ^ String.concat " " w));
    flush stdout
  done with End_of_file -> ())
