(* C18 driver: runs the extracted codec / HTTP / Adler-32 models on the case format of
   harness/C18_driver.cc and prints the same canonical line per op.
     case <id> <kind> <tag-spec>        kind = raw | pb | rpc | old | http | adler | conn | hsrv
                                        (old = the OLD codec of examples/protobuf/codec/codec.cc: frames carry a type
                                         name; the only type the harness links is muduo.net.RpcMessage)
     F <chunk-spec>                     deliver one chunk (append + decode loop)
     E <msg-spec>                       (raw) encode one message
     E <type> <id> <svc> <meth> <req> <resp> <err>   (rpc) encode; "~" = field absent
     PT <payload-hex> <ok:hex|fail>     (rpc) what protobuf's ParseFromArray says (environment)
     AD <spec>                          Adler-32
     D <chunk-spec>                     (conn) one delivery on the connection: Buffer model + onMessage_buf +
                                        defaultErrorCallback; (hsrv) HttpServer::onMessage with demo_callback
     RESP <code> <msg> <close> <body> <k=v,...|->   HttpResponse::appendToBuffer
     end
   spec = hex | "-" | "@len:seed" | "#hh*count" *)
let spec2 (s:string) : byte list =
  if String.length s > 0 && s.[0] = '#' then begin
    let i = String.index s '*' in
    let b = byte_of_int (hv s.[1] * 16 + hv s.[2]) in
    let n = int_of_string (String.sub s (i+1) (String.length s - i - 1)) in
    List.init n (fun _ -> b)
  end else bytes_of_spec s
let hex_or_dash (l: byte list) : string = if l = [] then "-" else hex_of_bytes l
let err_name (e: err) : string = match e with
  | KInvalidLength -> "InvalidLength" | KCheckSumError -> "CheckSumError"
  | KInvalidNameLen -> "InvalidNameLen" | KUnknownMessageType -> "UnknownMessageType"
  | KParseError -> "ParseError"
let show_cev (e: byte list cevent) : string = match e with
  | CMsg m -> "msg:" ^ hex_or_dash m
  | CErr x -> "err:" ^ err_name x
  | CFault -> "fault"
let join sep f l = if l = [] then "-" else String.concat sep (List.map f l)
let b01 b = if b then "1" else "0"
let method_name (m: method0) = match m with
  | KInvalid -> "UNKNOWN" | KGet -> "GET" | KPost -> "POST" | KHead -> "HEAD" | KPut -> "PUT" | KDelete -> "DELETE"
let version_num (v: version) = match v with KUnknown -> "0" | KHttp10 -> "1" | KHttp11 -> "2"
let show_req (r: request) : string =
  let hs = List.sort (fun (a,_) (b,_) -> compare (hex_of_bytes a) (hex_of_bytes b)) r.q_headers in
  Printf.sprintf "req:%s:%s:%s:%s:%s" (method_name r.q_method) (version_num r.q_version)
    (hex_or_dash r.q_path) (hex_or_dash r.q_query)
    (join "," (fun (k,v) -> hex_or_dash k ^ "=" ^ hex_or_dash v) hs)
let show_hev (e: hevent) : string = match e with
  | HBad -> "bad"
  | HReq r -> show_req r
let state_num (s: hstate) = match s with
  | KExpectRequestLine -> 0 | KExpectHeaders -> 1 | KExpectBody -> 2 | KGotAll -> 3
let opt_field (s:string) : byte list option = if s = "~" then None else Some (spec2 s)
let crc_len (l: byte list) : string = if l = [] then "-" else Printf.sprintf "%s:%d" (fnv_of_bytes l) (List.length l)
(* RpcMessage payloads: C19_Wire.wire_parse; the canonical form of a parsed message is wire_ser of it *)
let rpc_parse (p: byte list) : byte list option = match wire_parse p with Some m -> Some (wire_ser m) | None -> None
let rpc_of_fields ty id svc meth req resp er : rpcmsg option =
  match mtype_of_num (z_of_string ty) with
  | None -> None
  | Some t ->
    let e = if er = "~" then Some None else (match err_of_num (z_of_string er) with Some x -> Some (Some x) | None -> None) in
    (match e with
     | None -> None
     | Some eo -> Some { m_type = t; m_id = z_of_string id; m_service = opt_field svc; m_method = opt_field meth;
                         m_request = opt_field req; m_response = opt_field resp; m_error = eo })
let show_fill (r: buf res) : string = match r with
  | Ok b -> Printf.sprintf "%s p=%d w=%d" (hex_of_bytes (readable b)) (int_of_nat (prependableBytes b)) (int_of_nat (writableBytes b))
  | Rejected -> "rejected"
  | Fault -> "FAULT"
(* headers_ is a std::map<string,string>: iteration in key order (bytes compared as unsigned chars), keys unique
   (addHeader = operator[] assignment: the last value of a key wins) *)
let kv_list (s: string) : (byte list * byte list) list =
  if s = "-" then [] else
  let l = List.map (fun kv -> match String.split_on_char '=' kv with
              | [k; v] -> (spec2 k, spec2 v) | _ -> failwith "bad k=v") (String.split_on_char ',' s) in
  let key (k, _) = List.map int_of_byte k in
  let rec last_wins acc = function
    | [] -> List.rev acc
    | (k, v) :: t -> if List.exists (fun (k', _) -> k' = k) t then last_wins acc t else last_wins ((k, v) :: acc) t in
  List.stable_sort (fun a b -> compare (key a) (key b)) (last_wins [] l)
let () =
  let kind = ref "raw" in
  let tag = ref [] in
  let cst = ref codec_init in
  let hst = ref http_init in
  let conn = ref (conn0 (nat_of_int 1024)) in
  let sconn = ref sconn0 in
  let dead = ref false in
  let parse (p: byte list) : byte list option = if !kind = "raw" || !kind = "conn" then raw_parse p else rpc_parse p in
  (* the OLD codec: createMessage(typeName) finds exactly the message types linked into the harness *)
  let old_name = "muduo.net.RpcMessage" in
  let old_type = List.map (fun c -> byte_of_int (Char.code c)) (List.init (String.length old_name) (String.get old_name)) in
  let old_create (tn: byte list) : bool = (tn = old_type) in
  let old_parse (_: byte list) (d: byte list) : byte list option = rpc_parse d in
  let ocst = ref ocodec_init in
  (try while true do
    let line = input_line stdin in
    (match split_ws line with
    | [] -> ()
    | "case" :: id :: k :: rest ->
        kind := k;
        tag := (match rest with t :: _ -> spec2 t | [] -> []);
        cst := codec_init; ocst := ocodec_init; hst := http_init; conn := conn0 (nat_of_int 1024); sconn := sconn0; dead := false;
        Printf.printf "case %s %s\n" id k
    | ["end"] -> print_string "end\n"
    | ["F"; d] when !kind = "http" ->
        let (evs, st') = http_feed !hst (spec2 d) in
        hst := st';
        Printf.printf "F %s r=%d ab=%s st=%d%s\n" (join ";" show_hev evs) (List.length st'.d_buf)
          (b01 st'.d_abandoned) (state_num st'.d_st.h_state) (if st'.d_oof then " OOF" else "")
    | ["F"; d] when !kind = "old" ->
        let (evs, st') = ocodec_feed old_create old_parse !ocst (spec2 d) in
        ocst := st';
        Printf.printf "F %s r=%d ab=%s%s\n" (join ";" show_cev evs) (List.length st'.d_buf)
          (b01 st'.d_abandoned) (if st'.d_oof then " OOF" else "")
    | ["F"; d] ->
        let (evs, st') = codec_feed parse !tag !cst (spec2 d) in
        cst := st';
        Printf.printf "F %s r=%d ab=%s%s\n" (join ";" show_cev evs) (List.length st'.d_buf)
          (b01 st'.d_abandoned) (if st'.d_oof then " OOF" else "")
    | ["D"; d] when !kind = "conn" ->
        if !dead then print_string "D skipped\n" else
        (match deliver parse !tag !conn (spec2 d) with
         | Ok (evs, c') ->
             conn := c';
             Printf.printf "D %s r=%d conn=%s sh=%d\n" (join ";" show_cev evs) (List.length (readable c'.c_in))
               (b01 c'.c_connected) (min 1 (int_of_nat c'.c_shutdowns))
         | _ -> dead := true; print_string "D FAULT\n")
    | ["D"; d] when !kind = "hsrv" && (!sconn).s_aborted -> print_string "D skipped (aborted)\n"
    | ["D"; d] when !kind = "hsrv" ->
        let (evs, c') = srv_deliver demo_callback !sconn (spec2 d) in
        sconn := c';
        let reqs = List.filter_map (fun e -> match e with SRequest r -> Some (show_req r) | _ -> None) evs in
        let sent = List.concat (List.filter_map (fun e -> match e with SSend x -> Some x | _ -> None) evs) in
        let oof = List.exists (fun e -> e = SOof) evs in
        let asrt = List.exists (fun e -> e = SAssert) evs in
        if asrt then print_string "D ASSERT HttpRequest::setMethod method_ == kInvalid\n"
        else if c'.s_aborted then print_string "D skipped (aborted)\n"
        else
        Printf.printf "D %s sent=%s r=%d conn=%s sh=%d st=%d%s\n" (if reqs = [] then "-" else String.concat ";" reqs)
          (hex_or_dash sent) (List.length c'.s_buf) (b01 c'.s_connected) (min 1 (int_of_nat c'.s_shutdowns))
          (state_num c'.s_ctx.h_state) (if oof then " OOF" else "")
    | ["E"; d] -> Printf.printf "E %s\n" (show_fill (fillEmptyBuffer raw_ser !tag (spec2 d) (new_buf (nat_of_int 1024))))
    | ["E"; ty; id; svc; meth; req; resp; er] when !kind = "old" ->
        (match rpc_of_fields ty id svc meth req resp er with
         | Some m -> Printf.printf "E %s\n" (hex_of_bytes (oencode old_type (wire_ser m)))
         | None -> print_string "E not-an-enumerator\n")
    | ["E"; ty; id; svc; meth; req; resp; er] ->
        (match rpc_of_fields ty id svc meth req resp er with
         | Some m -> Printf.printf "E %s\n" (show_fill (fillEmptyBuffer wire_ser !tag m (new_buf (nat_of_int 1024))))
         | None -> print_string "E not-an-enumerator\n")
    | "PT" :: p :: _ ->
        (match rpc_parse (spec2 p) with
         | Some c -> Printf.printf "PT ok:%s\n" (hex_or_dash c)
         | None -> print_string "PT fail\n")
    | ["AD"; d] -> Printf.printf "AD %s\n" (string_of_z (adler32 (spec2 d)))
    | "RESP" :: code :: msg :: close :: body :: hs :: flags ->
        let r = { rs_code = nat_of_int (int_of_string code); rs_msg = spec2 msg; rs_close = (close = "1");
                  rs_headers = kv_list hs; rs_body = spec2 body } in
        let bytes = response_bytes r in
        (* a response the generator marks well-formed (no flag) must parse back under the reference grammar
           to its own fields (C18_http_response_parses_back) *)
        let ok = (match ref_parse_response bytes with
                  | Some p -> p.pr_code = r.rs_code && p.pr_reason = r.rs_msg && p.pr_body = r.rs_body
                  | None -> false) in
        Printf.printf "RESP %s%s\n" (hex_of_bytes bytes) (if flags = [] && not ok then " REF-GRAMMAR-REJECTS" else "")
    | w -> failwith ("bad op: " ^ String.concat " " w));
    flush stdout
  done with End_of_file -> ())
