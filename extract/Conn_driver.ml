(* Conn driver: same case format and output line as harness/Conn_driver.cc *)
let st_code = function Disconnected -> 0 | Connecting -> 1 | Connected -> 2 | Disconnecting -> 3
let b2i b = if b then 1 else 0
let show_ev = function
  | EvUp -> Some "Up" | EvDown -> Some "Down" | EvMsg n -> Some ("Msg:" ^ string_of_int (int_of_nat n))
  | EvWC -> Some "WC" | EvHWM n -> Some ("HWM:" ^ string_of_int (int_of_nat n))
  | EvGiveUp | EvFin | EvErrorLogged -> None   (* log lines / kernel effects: observed through fin= and wire= *)
let extra_ev = ref []
let show status evs (x: xconn) =
  let c = x.xbase in
  let es = List.filter_map show_ev evs @ !extra_ev in
  extra_ev := [];
  Printf.printf "%s ev=%s st=%d out=%d:%s in=%d:%s wr=%d rd=%d reg=%d pend=%d wire=%d:%s fin=%d\n" status
    (if es = [] then "-" else String.concat "," es) (st_code c.st)
    (List.length c.outb) (fnv_of_bytes c.outb) (List.length c.inb) (fnv_of_bytes c.inb)
    (b2i c.writing) (b2i c.rd_chan) (b2i c.registered) (List.length c.pending + List.length x.xtimers)
    (List.length c.wire) (fnv_of_bytes c.wire) (b2i c.fin);
  flush stdout
let parse_k s =
  if s = "all" then AcceptAll
  else if s.[0] = 'a' && s <> "all" then Accept (nat_of_int (int_of_string (String.sub s 1 (String.length s - 1))))
  else Err (match s with "eagain" -> EAGAIN | "eintr" -> EINTR | "epipe" -> EPIPE | "econnreset" -> ECONNRESET | _ -> EOTHER)
let i s = nat_of_int (int_of_string s)
let () =
  let c = ref (xinit N0 false false) in
  let dead = ref false in
  (try while true do
    let line = input_line stdin in
    match split_ws line with
    | [] -> ()
    | "case" :: id :: mark :: wc :: hw :: _ ->
        c := xinit (n_of_int (int_of_string mark)) (wc = "1") (hw = "1"); dead := false;
        Printf.printf "case %s\n" id; flush stdout
    | ["end"] ->
        let dump l = if List.length l <= 16384 then hex_of_bytes l else "crc:" ^ fnv_of_bytes l in
        Printf.printf "stream=%s inbuf=%s\nend\n" (dump (!c.xbase.wire @ !c.xbase.outb)) (dump !c.xbase.inb); flush stdout
    | w ->
        if !dead then (print_string "skipped\n"; flush stdout) else
        let steps = ref [] in
        (match w with
         | ["SEND"; d; _; "b"] when !c.xbase.st <> Connecting ->
             extra_ev := ["BufLeft:" ^ string_of_int (if !c.xbase.st = Connected then 0 else List.length (bytes_of_spec d))]
         | _ -> ());
        let r = match w with
          | "RUN" :: ks ->
              (* one RunOne per functor present at batch start; a scripted answer is consumed only
                 by a functor that really calls write() *)
              let n = List.length !c.xbase.pending + List.length !c.xtimers in
              let ks = ref (List.map parse_k ks) in
              let cur = ref !c and evs = ref [] and res = ref None in
              for _ = 1 to n do
                if !res = None then begin
                  if timer_due !cur.xtimers then begin
                    (* the oldest functor of the real queue is the addTimerInLoop of a foreign forceCloseWithDelay() *)
                    match xstep !cur XRunTimer with
                    | Ok (x', e) ->
                        let c' = x'.xbase in
                        cur := x';
                        steps := !steps @ [Printf.sprintf "-/%d/%d/%d/%d/%d"
                                   (List.length c'.outb) (b2i c'.writing) (st_code c'.st) (List.length c'.wire) (b2i c'.fin)]
                    | Rejected -> res := Some Rejected
                    | Fault -> res := Some Fault
                  end else
                  match !cur.xbase.pending with
                  | [] -> ()
                  | f :: _ ->
                    let k = if uses_kernel !cur.xbase f then (match !ks with k :: r -> ks := r; k | [] -> AcceptAll) else AcceptAll in
                    (match xstep !cur (Base (RunOne k)) with
                     | Ok (x', e) ->
                        let c' = x'.xbase in
                        cur := x'; evs := !evs @ e;
                        let es = List.filter_map show_ev e in
                        steps := !steps @ [Printf.sprintf "%s/%d/%d/%d/%d/%d" (if es = [] then "-" else String.concat "," es)
                                   (List.length c'.outb) (b2i c'.writing) (st_code c'.st) (List.length c'.wire) (b2i c'.fin)]
                     | Rejected -> res := Some Rejected
                     | Fault -> res := Some Fault)
                end
              done;
              (match !res with Some r -> r | None -> Ok (!cur, !evs))
          | ["XRC"; t; r] -> xstep !c (XCheck (i t, (match r with "shut" -> RShutdown | "fc" -> RForceClose | _ -> RForceCloseDelay)))
          | ["XRS"; t] -> xstep !c (XSet (i t))
          | ["XRE"; t] -> xstep !c (XEnq (i t))
          | _ ->
            let o = match w with
              | ["EST"] -> Establish
              | ["SEND"; d; k] | ["SEND"; d; k; _] -> Send (bytes_of_spec d, parse_k k)
              | ["FSC"; t; _] | ["FSC"; t; _; _] -> FSendCheck (i t)
              | ["FSE"; t; d] -> FSendEnq (i t, bytes_of_spec d)
              | ["EVW"; k] -> EvWritable (parse_k k)
              | ["RD"; d] -> EvReadData (bytes_of_spec d)
              | ["EOF"] -> EvReadEOF
              | ["RERR"] -> EvReadErr
              | ["HUP"] -> EvHup
              | ["ERR"] -> EvError
              | ["RET"; n] -> Retrieve (i n)
              | ["SHUT"] -> Shutdown
              | ["XSHUT"] -> XShutdown
              | ["FC"] -> ForceClose
              | ["FCD"] -> ForceCloseDelay
              | ["DFIRE"] -> DelayFire
              | ["SR"] -> StartRead | ["SP"] -> StopRead
              | ["XSR"] -> XStartRead | ["XSP"] -> XStopRead
              | ["ODESTROY"] -> OwnerDestroy
              | _ -> failwith ("bad op: " ^ line) in
            xstep !c (Base o) in
        (match w with "RUN" :: _ -> Printf.printf "steps=%s " (if !steps = [] then "-" else String.concat ";" !steps) | _ -> ());
        (match r with
         | Ok (c', evs) -> c := c'; show "ok" evs c'
         | Rejected -> show "rejected" [] !c
         | Fault -> dead := true; print_string "FAULT\n"; flush stdout)
  done with End_of_file -> ())
