(* C20 driver: same case/op format as harness/C20_driver.cc (documented there); prints the
   model's answer for every op, one canonical line per result.  Text after " # " on a line is
   side information (not compared): here the model's well-formedness verdict of a table. *)
let zi = z_of_string
let si = string_of_z
let str_of_bytes (l: byte list) : string =
  let b = Buffer.create 32 in List.iter (fun x -> Buffer.add_char b (Char.chr (int_of_byte x))) l; Buffer.contents b
let bytes_of_str (s: string) : byte list =
  List.init (String.length s) (fun i -> byte_of_int (Char.code s.[i]))
let unhex (s: string) : byte list = if s = "-" then [] else bytes_of_spec s
let split_on c s = if s = "-" || s = "" then [] else String.split_on_char c s
let show_dt (d: dateTime) : string =
  Printf.sprintf "%s %s %s %s %s %s" (si d.year) (si d.month) (si d.day) (si d.hour) (si d.minute) (si d.second)
let parse_tab offs_s trans_s : tzdata =
  let offs = List.map zi (split_on ',' offs_s) in
  let trans = List.map (fun e -> match String.split_on_char ':' e with
      | [u; i] -> { tutc = zi u; tidx = nat_of_int (int_of_string i) }
      | _ -> failwith "bad transition") (split_on ',' trans_s) in
  { trans = trans; offs = offs }
let show_sa (ntop6: string) (sa: sockaddr) : string =
  let n6 = (fun _ -> bytes_of_str ntop6) in
  let txt o = match o with Some l -> str_of_bytes l | None -> "ASSERT" in
  Printf.sprintf "fam=%s addr=%s port=%s toIp=%s toIpPort=%s port()=%s"
    (if sa.sa_family = aF_INET6 then "6" else "4")
    (hex_of_bytes sa.sa_addr) (hex_of_bytes sa.sa_port)
    (txt (inet_toIp n6 sa)) (txt (inet_toIpPort n6 sa)) (si (inet_port sa))
let show_table (tb: tzdata) : string =
  let o = String.concat "," (List.map si tb.offs) in
  let t = String.concat "," (List.map (fun tr -> si tr.tutc ^ ":" ^ string_of_int (int_of_nat tr.tidx)) tb.trans) in
  (if o = "" then "-" else o) ^ " " ^ (if t = "" then "-" else t)
let () =
  let tb = ref { trans = []; offs = [Z0] } in
  (try while true do
    let line = input_line stdin in
    (match split_ws line with
    | [] -> ()
    | "case" :: id :: _ -> Printf.printf "case %s\n" id
    | ["end"] -> print_string "end\n"
    | ["D"; lo; hi] ->
        let lo = int_of_string lo and hi = int_of_string hi in
        for j = lo to hi do
          let zj = z_of_int j in
          let ((y, m), d) = getYearMonthDay zj in
          Printf.printf "D %d %s %s %s %s %s\n" j (si y) (si m) (si d) (si (weekDay zj)) (si (getJulianDayNumber y m d))
        done
    | ["U"; t] ->
        let d = break_utc (zi t) in
        Printf.printf "U %s %s %s\n" t (show_dt d) (si (fromUtc d))
    | ["V"; y; m; d; h; mi; s] ->
        Printf.printf "V %s\n" (si (fromUtc { year = zi y; month = zi m; day = zi d; hour = zi h; minute = zi mi; second = zi s }))
    | ["TAB"; o; t] ->
        tb := parse_tab o t;
        Printf.printf "tab n=%d k=%d # wf=%d su=%d\n" (List.length !tb.trans) (List.length !tb.offs)
          (if wf !tb then 1 else 0) (if sorted_utc !tb.trans then 1 else 0)
    | ["L"; t] ->
        let (d, off) = toLocalTime_g !tb (zi t) in
        Printf.printf "L %s %s %s\n" t (show_dt d) (si off)
    | ["F"; y; m; d; h; mi; s; post] ->
        let dt = { year = zi y; month = zi m; day = zi d; hour = zi h; minute = zi mi; second = zi s } in
        Printf.printf "F %s\n" (si (fromLocalTime_g !tb dt (post = "1")))
    | ["R"; t] ->
        let (d, off) = toLocalTime_g !tb (zi t) in
        Printf.printf "R %s %s %s %s %s\n" t (show_dt d) (si off) (si (fromLocalTime_g !tb d false)) (si (fromLocalTime_g !tb d true))
    | ["TS"; us] ->
        let u = zi us in
        Printf.printf "TS %s|%s|%s\n" (str_of_bytes (ts_toString_g u)) (str_of_bytes (ts_toFormatted_g u true)) (str_of_bytes (ts_toFormatted_g u false))
    | ["DI"; lo; hi] ->
        for j = int_of_string lo to int_of_string hi do
          Printf.printf "DI %d %s\n" j (str_of_bytes (date_toIsoString_g (z_of_int j)))
        done
    | ["TA"; us; t; m; _secs; delta; hi; lo] ->
        Printf.printf "TA %s %s %s %s\n" (si (timestamp_secondsSinceEpoch (zi us))) (si (timestamp_fromUnixTime (zi t) (zi m)))
          (si (timestamp_addTime (zi us) (zi delta))) (si (timestamp_timeDifference_diff (zi hi) (zi lo)))
    | ["BE"; k; x] ->
        let k = int_of_string k in
        let (e, d) = be_op (nat_of_int k) (zi x) in
        Printf.printf "BE %s %s %s\n" (hex_of_bytes e) (si d) (si (to_signed (nat_of_int k) d))
    | ["TZB"; hex] ->
        (match tzif_parse_g (unhex hex) with
         | TzOk tb -> Printf.printf "tzif ok %s\n" (show_table tb)
         | TzFail -> print_string "tzif fail\n"
         | TzUndefined -> print_string "tzif undefined\n")
    | ["IP"; texthex; port; flag; p6; n6] ->
        let text = unhex texthex in
        let pton6 = (fun _ -> if p6 = "-" then None else Some (unhex p6)) in
        let sa = inet_make pton6 text (zi port) (flag = "1") in
        Printf.printf "IP %s\n" (show_sa (if n6 = "-" then "" else str_of_bytes (unhex n6)) sa)
    | ["IPS"; texthex; port; flag; scope; p6; n6] ->
        let text = unhex texthex in
        let pton6 = (fun _ -> if p6 = "-" then None else Some (unhex p6)) in
        let sa = set_scope_id (inet_make pton6 text (zi port) (flag = "1")) (zi scope) in
        Printf.printf "IPS %s scope=%s\n" (show_sa (if n6 = "-" then "" else str_of_bytes (unhex n6)) sa)
          (if sa.sa_family = aF_INET6 then si sa.sa_scope else "-")
    | ["IPP"; port; lo; v6; n6] ->
        let sa = inet_port_only (zi port) (lo = "1") (v6 = "1") in
        Printf.printf "IPP %s\n" (show_sa (if n6 = "-" then "" else str_of_bytes (unhex n6)) sa)
    | ["N6"; hex] -> Printf.printf "N6 %s\n" (str_of_bytes (ntop6 (unhex hex)))
    | ["P6"; texthex] ->
        (match pton6 (unhex texthex) with
         | None -> print_string "P6 none\n"
         | Some a -> Printf.printf "P6 %s\n" (hex_of_bytes a))
    | ["P4"; texthex] ->
        (match pton4 (unhex texthex) with
         | None -> print_string "P4 none\n"
         | Some a -> Printf.printf "P4 %s %s\n" (hex_of_bytes a) (str_of_bytes (ntop4 a)))
    | w -> failwith ("bad op: " ^ String.concat " " w));
    flush stdout
  done with End_of_file -> ())
