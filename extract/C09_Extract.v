(* extraction of the C09 model: ExtrOcamlBasic only (DESIGN section 7) *)
From Coq Require Extraction.
From Coq Require Import ExtrOcamlBasic.
From Coq Require Import List ZArith NArith.
From Muduo Require Import Base_Bytes Gen_C09 C09_Model.
Extraction "model.ml" C09_Model.ep_step C09_Model.ep_step_current C09_Model.pp_step C09_Model.pp_step_current
  C09_Model.ep_init C09_Model.pp_init C09_Model.ep_full C09_Model.callbacks C09_Model.dispatch
  C09_Model.handle_event C09_Model.handle_runs C09_Model.ep_loop_iter C09_Model.pp_loop_iter_current
  C09_Model.ep_loop_iter_full C09_Model.pp_loop_iter_full_current
  C09_Model.loop_iter_full_env C09_Model.loop_effects C09_Model.handleRead_env C09_Model.timerRead_env
  C09_Model.env_ready C09_Model.eventfd_ready C09_Model.timerfd_ready C09_Model.wake_add
  C09_Model.ep_hasChannel C09_Model.pp_hasChannel
  Gen_C09.EventLoop_queueInLoop_wake_guard Gen_C09.EventLoop_handleRead_reads_wakeupfd Gen_C09.EventLoop_eventfd_semaphore
  Gen_C09.EventLoop_handleRead_read_size Gen_C09.TimerQueue_handleRead_reads_timerfd Gen_C09.TimerQueue_readTimerfd_read_size
  C09_Model.callbacks_g
  Gen_C09.PollPoller_remove_resets_index Gen_C09.EPollPoller_add_skips_empty_interest
  Gen_C09.PollPoller_new_entry_negates_empty
  Base_Bytes.xbyte_of_N Base_Bytes.xN_of_byte.
