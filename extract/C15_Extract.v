(* extraction of the ThreadPool model over the generic monitor semantics: ExtrOcamlBasic only *)
From Coq Require Extraction.
From Coq Require Import ExtrOcamlBasic.
From Coq Require Import List ZArith NArith.
From Muduo Require Import Base_Bytes Conc_Model C15_Model.
Extraction "model.ml" Conc_Model.step Conc_Model.init_sys Conc_Model.is_waiting
  C15_Model.pstep C15_Model.pinit C15_Model.pool_body C15_Model.psome_move C15_Model.pc_at C15_Model.joined
  Base_Bytes.xbyte_of_N Base_Bytes.xN_of_byte Base_Bytes.xanchor.
