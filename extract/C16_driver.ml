(* C16 runner: reads the cases of harness/C16_driver.cc and prints the same (model-comparable) lines.
   Trusted glue: parsing, printing, and the mapping between park points of the model's back-end and
   the gates of the real driver:
     PStart "start" | PLock, PFinalLock "lock" | PWait "wait" | PAnn "announce" | PWriteAnn "write arg=ann"
     PWrite (b :: _) "write arg=<blen b>" -- but a park in front of an EMPTY buffer is not observable
     (AppendFile::append of 0 bytes never calls fwrite_unlocked), so the runner steps over it;
     PWrite [] "flush" | PDone "exit".                                                             *)
let hdr_get (w: string list) (key: string) (dflt: string) : string =
  let k = key ^ "=" in
  let kl = String.length k in
  let rec go = function
    | [] -> dflt
    | x :: r -> if String.length x >= kl && String.sub x 0 kl = k then String.sub x kl (String.length x - kl) else go r in
  go w

(* ---- sequential ---- *)
let show_seq (tag: string) (s: byte lf) (err: bool) : unit =
  Printf.printf "%s wb=%s cnt=%s sop=%s lr=%s lf=%s nfl=%d err=%d\n" tag (string_of_z s.wb) (string_of_z s.cnt)
    (string_of_z s.sop) (string_of_z s.lastRoll) (string_of_z s.lastFlush) (int_of_nat s.nflush) (if err then 1 else 0)

(* a file: creation second, size, checksum, and the time stamp the model computes for its name *)
let string_of_bytes (l: byte list) : string = String.concat "" (List.map (fun b -> String.make 1 (Char.chr (int_of_byte b))) l)
let print_file ((nm, d): z * byte list) : unit =
  Printf.printf "f %s %d %s %s\n" (string_of_z nm) (List.length d) (fnv_of_bytes d) (string_of_bytes (xstamp nm))

let parse_script (s: string) : wres list =
  if s = "-" then [] else
  List.map (fun item ->
    let i = String.index item ':' in
    (nat_of_int (int_of_string (String.sub item 0 i)), int_of_string (String.sub item (i+1) (String.length item - i - 1)) <> 0))
    (String.split_on_char ',' s)

let run_seq (w: string list) : unit =
  let id = List.nth w 1 in
  let c = { rollSize = z_of_string (hdr_get w "roll" "1000"); flushInterval = z_of_string (hdr_get w "flush" "3");
            checkEveryN = z_of_string (hdr_get w "every" "1024") } in
  let s = ref (lf_new (z_of_string (hdr_get w "now" "1000"))) in
  show_seq ("case " ^ id) !s false; flush stdout;
  let fin = ref false in
  while not !fin do
    let line = input_line stdin in
    (match split_ws line with
     | [] -> ()
     | ["end"] -> fin := true
     | ["A"; d; now; now2; script] ->
         let (s', err) = lf_append c (bytes_of_spec d) (parse_script script) (z_of_string now) (z_of_string now2) !s in
         s := s'; show_seq "A" !s err
     | ["F"] -> s := do_flush !s; show_seq "F" !s false
     | ["C"] -> s := do_close !s; show_seq "C" !s false     (* ~LogFile *)
     | ["R"; now] ->
         let (s', r) = roll (z_of_string now) !s in
         s := s'; show_seq (if r then "R 1" else "R 0") !s false
     | _ -> Printf.printf "BADOP %s\n" line);
    flush stdout
  done;
  List.iter print_file (files_in_order !s);
  print_string "end\n"; flush stdout

(* ---- async ---- *)
let len_at (spec: string) (i: int) : int =
  if String.length spec > 0 && spec.[0] = '@' then begin
    match String.split_on_char ':' (String.sub spec 1 (String.length spec - 1)) with
    | [lo; hi; seed] ->
        let lo = int_of_string lo and hi = int_of_string hi and seed = int_of_string seed in
        if lo = hi then lo else begin
          let x = ref (((seed + i * 0x9E3779B1) land 0xffffffff) lor 1) in
          x := !x lxor ((!x lsl 13) land 0xffffffff);
          x := !x lxor (!x lsr 17);
          x := !x lxor ((!x lsl 5) land 0xffffffff);
          lo + (!x mod (hi - lo + 1))
        end
    | _ -> failwith "bad lenspec"
  end else int_of_string spec

let observe (s: xrec ast) : string =
  let bl = List.map (fun b -> string_of_z b.blen) s.sh.bufs in
  Printf.sprintf " | bufs=%s cur=%s next=%d run=%d" (if bl = [] then "-" else String.concat "," bl)
    (string_of_z s.sh.cur.blen) (if s.sh.nxt then 1 else 0) (if s.sh.running then 1 else 0)

let is_zero (x: z) : bool = match x with Z0 -> true | _ -> false

let gate_of (s: xrec ast) : string option =
  match s.be.pc with
  | PStart -> Some "start arg=0"
  | PLock | PFinalLock -> Some "lock arg=0"
  | PWait -> Some "wait arg=0"
  | PAnn _ -> Some "announce arg=0"
  | PWriteAnn _ -> Some "write arg=ann"
  | PWrite (b :: _, _) -> if is_zero b.blen then None else Some ("write arg=" ^ string_of_z b.blen)
  | PWrite ([], _) -> Some "flush arg=0"
  | PDone -> Some "exit arg=0"

(* one observable back-end step *)
let rec back (p: params) (s: xrec ast) : xrec ast * string =
  match xback p s with
  | None -> (s, "exit arg=0")
  | Some s' -> (match gate_of s' with Some g -> (s', g) | None -> back p s')

let rec settle (p: params) (s: xrec ast) : xrec ast * string =
  match gate_of s with Some g -> (s, g) | None -> (match xback p s with Some s' -> settle p s' | None -> (s, "exit arg=0"))

let run_async (w: string list) : unit =
  let id = List.nth w 1 in
  let p = current_params in
  let threads = int_of_string (hdr_get w "threads" "1") in
  let seqs = Array.make (max threads 1) 0 in
  let s = ref xinit in
  let (s0, g0) = settle p !s in
  s := s0;
  Printf.printf "case %s gate=%s%s\n" id g0 (observe !s); flush stdout;
  let fin = ref false in
  let stopped = ref false in
  while not !fin do
    let line = input_line stdin in
    (match split_ws line with
     | [] -> ()
     | ["end"] -> fin := true
     | ["A"; t; n; spec] ->
         let t = int_of_string t and n = int_of_string n in
         if t < 0 || t >= threads then Printf.printf "BADOP %s\n" line else begin
           let from = seqs.(t) in
           let ho = ref [] in
           for _ = 1 to n do
             let sq = seqs.(t) in
             let len = min (len_at spec sq) 8000 in
             let before = List.length !s.sh.bufs in
             s := xappend p ((O, O), z_of_int len) !s;
             if List.length !s.sh.bufs <> before then ho := string_of_int sq :: !ho;
             seqs.(t) <- sq + 1
           done;
           Printf.printf "A t=%d from=%d n=%d ho=%s%s\n" t from n
             (if !ho = [] then "-" else String.concat "," (List.rev !ho)) (observe !s)
         end
     | ["B"] ->
         let (s', g) = back p !s in
         s := s'; Printf.printf "B gate=%s%s\n" g (observe !s)
     | ["T"; sec] -> Printf.printf "T %s\n" sec
     | ["S"] ->
         (match xstop p !s with Some s' -> s := s' | None -> ());
         stopped := true;
         Printf.printf "S%s\n" (observe !s)
     | ["J"] ->
         (match xstop p !s with Some s' -> s := s' | None -> ());
         let continue = ref true in
         while !continue do
           match xback p !s with Some s' -> s := s' | None -> continue := false
         done;
         (match xjoin p !s with Some s' -> s := s' | None -> ());
         Printf.printf "J%s\n" (observe !s)
     | _ -> Printf.printf "BADOP %s\n" line);
    flush stdout
  done;
  if !s.be.fault then print_string "FAULT\n";
  print_string "end\n"; flush stdout

(* ---- trace validation of the thread-safe LogFile runs: the sections the real threads executed, in the order
   in which they held LogFile's mutex (with the clock values they read), replayed on the monitor model ---- *)
let pat = "0123456789ABCDEFGHIJKLMNOPQRSTUVWXYZabcdefghijklmnopqrstuvwxyz+/"
let make_record (t: int) (seq: int) (len: int) : byte list =
  let off = (seq * 7 + t * 13) mod 64 in
  let b = Bytes.init len (fun i -> pat.[(off + i) mod 64]) in
  Bytes.set b 0 (Char.chr (97 + t));
  if len >= 10 then Bytes.blit_string (Printf.sprintf "%08x" seq) 0 b 1 8;
  if len >= 2 then Bytes.set b (len - 1) '\n';
  List.init len (fun i -> byte_of_int (Char.code (Bytes.get b i)))

let run_lftrace (w: string list) : unit =
  let id = List.nth w 1 in
  let threads = int_of_string (hdr_get w "threads" "1") in
  let n = int_of_string (hdr_get w "n" "0") in
  let spec = hdr_get w "lens" "100" in
  let c = { rollSize = z_of_string (hdr_get w "roll" "1000"); flushInterval = z_of_string (hdr_get w "flush" "3");
            checkEveryN = z_of_string (hdr_get w "every" "1024") } in
  let now0 = z_of_string (hdr_get w "now" "1000") in
  (* read the trace *)
  let trace = ref [] in
  let fin = ref false in
  while not !fin do
    match split_ws (input_line stdin) with
    | ["end"] -> fin := true
    | ["L"; t; i; _; v1; v2] -> trace := (int_of_string t, int_of_string i, z_of_string v1, z_of_string v2) :: !trace
    | _ -> ()
  done;
  let trace = List.rev !trace in
  (* the programs: thread t's k-th call is the append of its k-th record, with the clock values of its k-th section *)
  let times = Array.make (max threads 1) [] in
  List.iter (fun (t, _, v1, v2) -> if t >= 0 && t < threads then times.(t) <- (v1, v2) :: times.(t)) trace;
  let lens_spec t = if String.length spec > 0 && spec.[0] = '@' then
      (match String.split_on_char ':' (String.sub spec 1 (String.length spec - 1)) with
       | [lo; hi; seed] -> Printf.sprintf "@%s:%s:%d" lo hi ((int_of_string seed + t * 977) land 0xffffffff)
       | _ -> spec) else spec in
  let progs = List.init threads (fun t ->
    let tm = Array.of_list (List.rev times.(t)) in
    List.init (min n (Array.length tm)) (fun i ->
      let (v1, v2) = tm.(i) in
      MApp (make_record t i (min (len_at (lens_spec t) i) 8000), [], v1, v2))) in
  let s = ref (xm_init now0 progs) in
  let next = Array.make (max threads 1) 0 in
  let ok = ref true and k = ref 0 in
  List.iter (fun (t, i, _, _) ->
    if !ok then begin
      if t < 0 || t >= threads || i <> next.(t) then ok := false
      else (match xm_section c (nat_of_int t) !s with
            | Some s' -> s := s'; next.(t) <- i + 1; incr k
            | None -> ok := false)
    end) trace;
  Printf.printf "case %s lftrace\n" id;
  if !ok then Printf.printf "ACCEPT sections=%d left=%d\n" !k (int_of_nat (xm_left !s))
  else Printf.printf "REJECT at=%d\n" !k;
  List.iter print_file (xm_files !s);
  print_string "end\n"; flush stdout

(* several sinks in one process: the system is the PRODUCT of the sinks' models (C16_sinks_independent, justified
   by the regenerated fact Sinks_share_no_state); the runner echoes the operations, the per-sink file contents are
   checked by the oracle against each sink's own records *)
let run_multi (w: string list) : unit =
  let id = List.nth w 1 in
  let kinds = hdr_get w "sinks" "LL" in
  let k_n = String.length kinds in
  let seqs = Array.make (max k_n 1) 0 in
  let alive = Array.make (max k_n 1) true in
  Printf.printf "case %s multi\n" id; flush stdout;
  let fin = ref false in
  while not !fin do
    let line = input_line stdin in
    (match split_ws line with
     | [] -> ()
     | ["end"] -> fin := true
     | ["W"; k; n; _] when int_of_string k >= 0 && int_of_string k < k_n && alive.(int_of_string k) ->
         let k = int_of_string k and n = int_of_string n in
         Printf.printf "W %d from=%d n=%d\n" k seqs.(k) n; seqs.(k) <- seqs.(k) + n
     | ["F"; k] when int_of_string k >= 0 && int_of_string k < k_n && alive.(int_of_string k) && kinds.[int_of_string k] <> 'A' ->
         Printf.printf "F %s\n" k
     | ["P"; ms] -> Printf.printf "P %s\n" ms
     | ["T"; sec] -> Printf.printf "T %s\n" sec
     | ["X"; k] when int_of_string k >= 0 && int_of_string k < k_n && alive.(int_of_string k) ->
         alive.(int_of_string k) <- false; Printf.printf "X %s\n" k
     | ["O"; k] when int_of_string k >= 0 && int_of_string k < k_n && not alive.(int_of_string k) ->
         alive.(int_of_string k) <- true; Printf.printf "O %s\n" k
     | _ -> Printf.printf "BADOP %s\n" line);
    flush stdout
  done;
  print_string "end\n"; flush stdout

let run_free (w: string list) : unit =
  let id = List.nth w 1 in
  let threads = int_of_string (hdr_get w "threads" "1") in
  let n = int_of_string (hdr_get w "n" "1000") in
  Printf.printf "case %s free\n" id;
  print_string "J";
  for t = 0 to threads - 1 do Printf.printf " t%d=%d" t n done;
  print_string "\n";
  let fin = ref false in
  while not !fin do
    match split_ws (input_line stdin) with ["end"] -> fin := true | _ -> ()
  done;
  print_string "end\n"; flush stdout

let () =
  (try while true do
    let line = input_line stdin in
    match split_ws line with
    | "case" :: id :: "seq" :: _ as w -> run_seq w
    | "case" :: id :: "async" :: _ as w -> run_async w
    | "case" :: id :: "free" :: _ as w -> run_free w
    | "case" :: id :: "lfree" :: _ as w -> run_free w
    | "case" :: id :: "lftrace" :: _ as w -> run_lftrace w
    | "case" :: id :: "multi" :: _ as w -> run_multi w
    | "case" :: id :: _ -> Printf.printf "case %s BADKIND\nend\n" id; flush stdout
    | _ -> ()
  done with End_of_file -> ())
