(* extraction of the connector/client model: ExtrOcamlBasic only *)
From Coq Require Extraction.
From Coq Require Import ExtrOcamlBasic.
From Coq Require Import List ZArith NArith.
From Muduo Require Import Base_Bytes Gen_C12 C12_Model.
Extraction "model.ml" C12_Model.step C12_Model.init C12_Model.run C12_Model.contract C12_Model.text_contract
  Base_Bytes.xbyte_of_N Base_Bytes.xN_of_byte Base_Bytes.xanchor.
