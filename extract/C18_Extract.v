(* extraction of the C18 models: ExtrOcamlBasic only (DESIGN section 7) *)
From Coq Require Extraction.
From Coq Require Import ExtrOcamlBasic.
From Coq Require Import List ZArith NArith.
From Coq.Strings Require Import Byte.
From Muduo Require Import Base_Bytes C10_Model C18_Model C18_EncModel C18_OldCodec C18_HttpSrvModel C19_Model C19_Wire.
Extraction "model.ml" C18_Model.codec_feed C18_Model.codec_init C18_Model.encode
  C18_Model.raw_ser C18_Model.raw_parse C18_Model.adler32
  C18_Model.http_feed C18_Model.http_init
  C18_EncModel.fillEmptyBuffer C18_EncModel.deliver C18_EncModel.conn0
  C18_OldCodec.ocodec_feed C18_OldCodec.ocodec_init C18_OldCodec.oencode
  C10_Model.new_buf C10_Model.readable C10_Model.readableBytes C10_Model.writableBytes C10_Model.prependableBytes
  C18_HttpSrvModel.srv_deliver C18_HttpSrvModel.sconn0 C18_HttpSrvModel.demo_callback
  C18_HttpSrvModel.response_bytes C18_HttpSrvModel.ref_parse_response
  C19_Wire.wire_parse C19_Wire.wire_ser C19_Wire.mtype_of_num C19_Wire.err_of_num
  Base_Bytes.xbyte_of_N Base_Bytes.xN_of_byte Base_Bytes.xanchor.
