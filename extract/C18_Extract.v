(* extraction of the C18 models: ExtrOcamlBasic only (DESIGN section 7) *)
From Coq Require Extraction.
From Coq Require Import ExtrOcamlBasic.
From Coq Require Import List ZArith NArith.
From Coq.Strings Require Import Byte.
From Muduo Require Import Base_Bytes C18_Model.
Extraction "model.ml" C18_Model.codec_feed C18_Model.codec_init C18_Model.encode
  C18_Model.raw_ser C18_Model.raw_parse C18_Model.rpc_ser C18_Model.adler32
  C18_Model.http_feed C18_Model.http_init
  Base_Bytes.xbyte_of_N Base_Bytes.xN_of_byte.
