(* extraction of the LoopModel with the shape regenerated from the current /repo: ExtrOcamlBasic only *)
From Coq Require Extraction.
From Coq Require Import ExtrOcamlBasic.
From Coq Require Import List ZArith NArith.
From Muduo Require Import Base_Bytes C04_Model Gen_C04.
Extraction "model.ml" C04_Model.step C04_Model.step_o Gen_C04.quit_stores_before_wakeup C04_Model.init C04_Model.poll_ready C04_Model.quiescent
  C04_Model.pinned_shape C04_Model.repaired_shape C04_Model.fixed_shape Gen_C04.gen_shape
  Base_Bytes.xbyte_of_N Base_Bytes.xN_of_byte Base_Bytes.xanchor.
