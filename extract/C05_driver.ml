(* C05 runner: (1) trace validator for kind=elt cases of harness/C04_driver.cc (real EventLoopThread
   under the controlled scheduler) against C05_Model.estep with the shapes generated from the
   current source; (2) the pool functions (model and generated) on kind=pool cases.
   Input per case:
     case <id> kind=elt|pool pts=0|1 [n=<N> calls=<k>] ...
     P start ; <acts> ; destroy        (kind=elt: the owner's program)
     S <id> <acts>
     H <hashes> / O <ops>              (kind=pool)
     trace
     <the implementation's output lines>     (kind=elt)
     end
   kind=elt: T0 is the owner, T1 the child.  Every trace line is mapped to a label of estep; steps
   without a visible system call are taken as soon as the thread's previous visible step is done
   (they stop at the instrumentation points loop_entry / queue_mid / quit_mid when pts=1 and at the
   driver's "call destroy" event); observers (queue size, eventfd counter, quit_, calling, looping,
   loop_ != NULL, loop object alive) are compared after every visible step.
   Output: "case <id>", then for elt "accepted <steps> uaf=<0|1>" or "REJECT <line>: <why> | <line>";
   for pool "next ..", "hash ..", "ops .." (model) and "gnext ..", "ghash ..", "gops .." (generated). *)
exception Reject of string
let rej fmt = Printf.ksprintf (fun s -> raise (Reject s)) fmt

let parse_acts (w : string list) : string list * act list =
  (* returns the control words (start/destroy) seen and the loop acts between them *)
  let ctl = ref [] in
  let rec go = function
    | [] -> []
    | (";" | "-") :: r -> go r
    | "q" :: t :: r -> AQueue (nat_of_int (int_of_string t)) :: go r
    | "r" :: t :: r -> ARun (nat_of_int (int_of_string t)) :: go r
    | "ev" :: k :: r -> AOffer (nat_of_int (int_of_string k)) :: go r
    | "quit" :: r -> AQuit :: go r
    | ("start" | "destroy") as c :: r -> ctl := c :: !ctl; go r
    | ("pt" | "wx") :: r -> go r   (* pt: a schedule point of the driver; wx: wait for the end of the thread function: no model step *)
    | x :: _ -> failwith ("bad act " ^ x) in
  let a = go w in
  (List.rev !ctl, a)

let tnum s = int_of_string (String.sub s 1 (String.length s - 1))
let obs_of (w : string list) key =
  let p = key ^ "=" in
  let n = String.length p in
  let rec go = function
    | [] -> None
    | x :: r -> if String.length x >= n && String.sub x 0 n = p then Some (String.sub x n (String.length x - n)) else go r in
  go w
let tok_after (tok : string) (key : string) =
  let n = String.length key in
  if String.length tok > n && String.sub tok 0 n = key then Some (String.sub tok n (String.length tok - n)) else None

type vk = VSection | VWriteEv | VWritePipe | VSilent | VOther

(* one EventLoopThread being validated: `get` reads its model state, `stepf` performs a model step (false = not
   enabled); lines are fed with the owner called T0 and the child T1 *)
type comp = { handle : string -> unit; finish : unit -> int * bool; give_destroy_token : unit -> unit; owner_done : unit -> bool }

let mk_comp (pts : bool) (es : eshape) (sh : shape) (scr : nat -> act list) (get : unit -> elt) (stepf : elabel -> bool)
    (any_enabled : unit -> bool) : comp =
  let steps = ref 0 in
  let expected : string Queue.t = Queue.create () in
  let passed = [| false; false |] in
  let destroy_tok = ref 0 in
  let cb_wait = ref false in
  let stuck = ref false in
  let m_latch = ref "?" and c_latch = ref "?" and m_elt = ref "?" and c_elt = ref "?" and m_loop = ref "?" and wakefd = ref "?" in
  let notified = ref false in
  let crashed_dead = ref false in
  let do_step lab =
    let before = List.length (get ()).ls.sg.log in
    (if not (stepf lab) then
       rej "model: step %s not enabled (owner %s)" (match lab with EO -> "EO" | EC -> "EC" | ECRead -> "ECRead" | ESpur -> "ESpur")
                 (match (get ()).eo with OInit -> "OInit" | OLatch -> "OLatch" | OLock -> "OLock" | OTest -> "OTest" | OWait -> "OWait"
                                    | OUnlock -> "OUnlock" | OUser -> "OUser" | ODtor -> "ODtor" | OQuit -> "OQuit" | OJoin -> "OJoin"
                                    | ODone -> "ODone"));
    incr steps;
    (match lab with EO -> passed.(0) <- false | EC | ECRead -> passed.(1) <- false | ESpur -> ());
    let rec drop n l = if n = 0 then l else match l with [] -> [] | _ :: r -> drop (n - 1) r in
    List.iter (function
        | EExecQ t | EExecI t -> Queue.add (Printf.sprintf "x %d" (int_of_nat t)) expected
        | _ -> ()) (drop before (get ()).ls.sg.log) in
  let mop_kind il m : vk * string option =
    let g = (get ()).ls.sg in
    match m with
    | MQueue _ -> (VSection, None)
    | MWakeTest -> ((if sh.wake il g.calling g.looping then VWriteEv else VSilent), Some "queue_mid")
    | MExec _ -> (VSilent, None)
    | MQuitStore -> (VSilent, None)
    | MQuitWake -> ((if sh.qwake il then VWriteEv else VSilent), Some "quit_mid")
    | MOffer _ -> (VWritePipe, None) in
  (* the owner's next step: its kind and the instrumentation point in front of it *)
  let next_owner () : vk * string option =
    let e = (get ()) in
    match e.eo with
    | OTest -> if e.ptr then (VSilent, None) else (VOther, None)
    | OUser -> (match fcode_at e.ls O with m :: _ -> mop_kind false m | [] -> (VSilent, None))
    | ODtor -> (VSilent, None)
    | OQuit -> (match fcode_at e.ls (S O) with m :: _ -> mop_kind false m | [] -> (VSilent, None))
    | _ -> (VOther, None) in
  let owner_gated () =
    let e = (get ()) in
    (match e.eo, fcode_at e.ls O with OUser, [] -> !destroy_tok <= 0 | _ -> false) ||
    (match snd (next_owner ()) with Some _ -> pts && not passed.(0) | None -> false) in
  let next_child () : vk * string option =
    let e = (get ()) in
    match e.ec with
    | CCallback | CPublish | CClear | CDestroy -> (VSilent, None)
    | CLoop ->
        let s = e.ls in
        (match s.pc, s.lcode with
         | (LPre | LHandle _ | LRun _), m :: _ -> mop_kind true m
         | LPre, [] -> (VSilent, Some "loop_entry")
         | LTest, _ -> (VSilent, None)
         | LPoll, _ -> (VOther, None)
         | LHandle true, [] -> (VOther, None)
         | LHandle false, [] -> (VSilent, None)
         | LSwap, _ -> (VSection, None)
         | LRun _, [] -> (VSilent, None)
         | LExit, _ -> (VSilent, None)
         | LDone, _ -> (VSilent, None))
    | _ -> (VOther, None) in
  let child_gated () =
    (!cb_wait && (get ()).ec = CLoop) ||
    (match snd (next_child ()) with Some _ -> pts && not passed.(1) | None -> false) in
  let rec eager x =
    if x = 0 then begin
      if not (owner_gated ()) && fst (next_owner ()) = VSilent then begin
        (match (get ()).eo, fcode_at (get ()).ls O with OUser, [] -> decr destroy_tok | _ -> ());
        do_step EO; eager 0 end end
    else if not (child_gated ()) && fst (next_child ()) = VSilent then begin do_step EC; eager 1 end in
  let check_obs w =
    let e = (get ()) in
    let g = e.ls.sg in
    let chk key v = match obs_of w key with
      | Some s when s <> string_of_int v -> rej "observer %s: implementation %s, model %d" key s v
      | _ -> () in
    let dead = List.mem "dead" w in
    let observed = dead || obs_of w "q" <> None in
    if observed && dead && e.alive then rej "the implementation's loop does not exist, the model's does";
    if observed && (not dead) && not e.alive then rej "the implementation's loop exists, the model's does not";
    if observed && not dead then begin
      chk "q" (List.length g.pending);
      chk "ev" (int_of_nat g.evfd);
      chk "quit" (if g.quit then 1 else 0);
      chk "call" (if g.calling then 1 else 0);
      chk "loop" (if g.looping then 1 else 0) end;
    (match obs_of w "lp" with Some "9" -> () | _ -> chk "lp" (if e.ptr then 1 else 0)) in
  (* instrumentation points are optional (see extract/C04_driver.ml): a visible step of the thread
     releases a point the implementation did not pass *)
  let rec skip_point x =
    let nx = if x = 0 then next_owner () else next_child () in
    match snd nx with
    | Some _ when pts && not passed.(x) -> passed.(x) <- true; eager x; skip_point x
    | _ -> () in
  let check_obs w =
    try check_obs w with Reject _ -> (skip_point 0; skip_point 1; check_obs w) in
  let need_owner k what =
    skip_point 0;
    if owner_gated () then rej "the owner performs %s but the model's owner is held before ~EventLoopThread" what;
    if fst (next_owner ()) <> k then rej "the owner performs %s, the model's owner is elsewhere" what in
  let need_child k what =
    skip_point 1;
    if child_gated () then rej "the child performs %s but the model's child is held" what;
    if fst (next_child ()) <> k then rej "the child performs %s, the model's child is elsewhere" what in
  let handle (line : string) =
    let w = split_ws line in
    match w with
    | "e" :: "T0" :: "elt" :: "created" :: rest ->
        List.iter (fun tok ->
            (match tok_after tok "latch=" with
             | Some v -> (match String.split_on_char ',' v with [a; b] -> m_latch := a; c_latch := b | _ -> ()) | None -> ());
            (match tok_after tok "elt=" with
             | Some v -> (match String.split_on_char ',' v with [a; b] -> m_elt := a; c_elt := b | _ -> ()) | None -> ())) rest
    | "e" :: "T1" :: "loop" :: "created" :: rest ->
        List.iter (fun tok ->
            (match tok_after tok "wake=" with Some v -> wakefd := v | None -> ());
            (match tok_after tok "qm=" with Some v -> m_loop := v | None -> ())) rest;
        (match (get ()).ec with CCons -> do_step EC | _ -> rej "loop constructed, the model's child is not at that point");
        eager 1
    | "e" :: "T0" :: "started" :: rest ->
        (match (get ()).eo with OUser | ODtor | OQuit -> () | _ -> rej "startLoop() returned, the model's owner is still inside it");
        if not (List.mem "nonnull=1" rest) then rej "startLoop() returned NULL";
        (match (get ()).got with Some true -> () | _ -> rej "startLoop() returned non-null, the model's result differs")
    | ["e"; "T0"; "call"; "destroy"] -> skip_point 0; incr destroy_tok; eager 0
    | ["e"; "T0"; "ret"; "destroy"] ->
        (match (get ()).eo with ODone -> () | _ -> rej "~EventLoopThread returned, the model's owner is not done")
    | ["e"; tx; "x"; t] ->
        if tnum tx <> 1 then rej "task %s executed on T%d, not on the loop's thread" t (tnum tx);
        if Queue.is_empty expected then skip_point 1;
        if Queue.is_empty expected then rej "implementation runs task %s, the model runs none here" t;
        let e = Queue.pop expected in
        if e <> "x " ^ t then rej "implementation runs task %s, the model runs '%s'" t e
    | "e" :: _ :: "UAF" :: _ ->
        if not ((get ()).uaf_dtor || (get ()).uaf_user || not (get ()).alive) then rej "use of the destroyed loop, the model's loop is alive"
    | "e" :: _ -> ()
    | "t" :: _ :: tx :: kind :: obj :: res :: obs when not !stuck ->
        let x = tnum tx in
        if x > 1 then rej "unknown thread T%d" x;
        (match kind, x with
         | "create", 0 -> (match (get ()).eo with OInit -> do_step EO | _ -> rej "thread created twice"); check_obs obs
         | "begin", _ -> ()
         (* ---- Thread::start latch *)
         | ("lock" | "wait" | "wake" | "bcast" | "sig"), _ when obj = !m_latch || obj = !c_latch -> ()
         | "unlock", 1 when obj = !m_latch ->
             (match (get ()).ec with CStart -> do_step EC | _ -> rej "child counts the latch down twice"); check_obs obs; eager 1
         | "unlock", 0 when obj = !m_latch ->
             (match (get ()).eo with OLatch -> do_step EO | _ -> rej "owner leaves Thread::start() at an unexpected point"); check_obs obs
         (* ---- mutex_ / cond_ of the EventLoopThread *)
         | "lock", 0 when obj = !m_elt ->
             (match (get ()).eo with OLock -> do_step EO | _ -> rej "owner locks mutex_ outside startLoop()"); check_obs obs; eager 0
         | "wait", 0 when obj = !c_elt ->
             (match (get ()).eo, (get ()).ptr with
              | OTest, false -> do_step EO
              | _ -> rej "owner waits although the model's loop_ is set / it is not at the test"); check_obs obs
         | "wake", 0 when obj = !c_elt ->
             (match (get ()).eo with OWait -> () | _ -> rej "owner woken outside its wait");
             if res = "spur" then (if not (get ()).signalled then do_step ESpur)
             else if not (get ()).signalled then rej "owner woken by a notification, the model sent none";
             do_step EO; check_obs obs; eager 0
         | "unlock", 0 when obj = !m_elt ->
             (match (get ()).eo with OUnlock -> do_step EO | _ -> rej "owner unlocks mutex_ at an unexpected point"); check_obs obs; eager 0
         | "lock", 1 when obj = !m_elt ->
             skip_point 1;
             (match (get ()).ec with
              | CLock1 | CLock2 -> do_step EC
              | _ -> rej "child locks mutex_ at an unexpected point");
             notified := false; check_obs obs; eager 1
         | ("sig" | "bcast"), 1 when obj = !c_elt ->
             if not es.tf_notifies then rej "child notifies, the generated shape says it does not";
             (match (get ()).ec with CUnlock1 -> () | _ -> rej "child notifies at an unexpected point");
             notified := true; check_obs obs
         | "unlock", 1 when obj = !m_elt ->
             (match (get ()).ec with
              | CUnlock1 -> if es.tf_notifies && not !notified then rej "the generated shape notifies after publishing, the implementation did not";
                  do_step EC
              | CUnlock2 -> do_step EC
              | _ -> rej "child unlocks mutex_ at an unexpected point");
             check_obs obs; eager 1
         (* ---- the loop's queue mutex *)
         | "lock", _ when obj = !m_loop ->
             if x = 0 then need_owner VSection "lock of the queue mutex" else need_child VSection "lock of the queue mutex";
             check_obs obs
         | "unlock", _ when obj = !m_loop ->
             if x = 0 then (need_owner VSection "unlock of the queue mutex"; do_step EO)
             else (need_child VSection "unlock of the queue mutex"; do_step EC);
             check_obs obs; eager x
         | "point", _ when obj = "user" || obj = "tf_exit" || obj = "before_pool_destroy" -> ()
         | "point", 0 when obj = "waited" ->
             (* sched::wait_exit: the owner has waited for the end of the thread function *)
             (match (get ()).ec with CExited -> () | _ -> rej "the owner saw the thread function return, the model's child has not exited")
         | "point", _ ->
             if not pts then rej "point %s in a run without points" obj;
             (match snd (if x = 0 then next_owner () else next_child ()) with
              | Some p when p <> obj && not passed.(x) -> skip_point x | _ -> ());
             let nx = if x = 0 then next_owner () else next_child () in
             (match snd nx with
              | Some p when p = obj -> passed.(x) <- true
              | _ -> rej "T%d is at point %s, the model's thread is not" x obj);
             check_obs obs; eager x
         | "write", 0 ->
             (* a wake-up write by the owner; on a destroyed loop the descriptor is garbage *)
             need_owner VWriteEv "a wake-up write";
             if (get ()).alive && (obj <> !wakefd || res <> "8") then rej "wake-up write on %s returned %s" obj res;
             do_step EO; check_obs obs; eager 0
         | "write", 1 when obj = !wakefd ->
             if res <> "8" then rej "wake-up write returned %s" res;
             need_child VWriteEv "a wake-up write"; do_step EC; check_obs obs; eager 1
         | "read", 1 when obj = !wakefd ->
             (match (get ()).ec, (get ()).ls.pc with CLoop, LHandle true -> () | _ -> rej "handleRead() although the model's wake-up channel is not active");
             do_step ECRead; check_obs obs; eager 1
         | "read", _ -> ()
         | "poll", 1 ->
             skip_point 1;
             (match (get ()).ec, (get ()).ls.pc with CLoop, LPoll -> () | _ -> rej "child polls, the model's child is not in poll");
             if child_gated () then rej "child polls but the model's child is held at a point";
             let n = int_of_string res in
             let g = (get ()).ls.sg in
             let exp = (if int_of_nat g.evfd > 0 then 1 else 0) + (if g.evq <> [] then 1 else 0) in
             if n <> exp then rej "poll returned %d ready descriptors, the model has %d" n exp;
             if n = 0 then rej "poll returned 0 (time-out / interrupt), which the handshake model does not offer";
             do_step EC; check_obs obs; eager 1
         | "tmo", 1 ->
             (match (get ()).ec, (get ()).ls.pc with CLoop, LPoll -> () | _ -> rej "time-out although the model's child is not in poll");
             if poll_ready (get ()).ls.sg then rej "the implementation is stuck in poll, the model's poll is ready";
             check_obs obs; stuck := true
         | "join", 0 ->
             skip_point 0;
             (match (get ()).eo with OJoin -> do_step EO | _ -> rej "owner joins at an unexpected point"); check_obs obs
         | "exit", 1 -> (match (get ()).ec with CExited -> () | _ -> rej "child exits, the model's child has not finished")
         | "exit", 0 -> ()
         | ("after" | "spur"), _ -> ()
         | k, _ -> rej "unexpected trace line %s %s by T%d" k obj x)
    | "t" :: _ -> ()
    | "DEADLOCK" :: _ ->
        (* nothing can run in the implementation: the model must be stuck too *)
        if any_enabled () then rej "DEADLOCK in the implementation, the model can still step"
    | "STEPLIMIT" :: _ -> rej "step limit (livelock) in the implementation"
    | "CRASH" :: _ ->
        (* the sanitizer stops the implementation at its first access to the destroyed loop: the
           model's owner must be about to make (or have made) such an access *)
        if (get ()).uaf_dtor || (get ()).uaf_user then ()
        else if (not (get ()).alive) && (match (get ()).eo with OQuit -> fcode_at (get ()).ls (S O) <> [] | OUser -> fcode_at (get ()).ls O <> [] | _ -> false)
        then crashed_dead := true
        else rej "implementation crashed"
    | _ -> () in
  { handle = handle;
    finish = (fun () ->
        if not (Queue.is_empty expected) then
          raise (Reject (Printf.sprintf "the model ran '%s' which the implementation never did | -" (Queue.peek expected)));
        (!steps, (get ()).uaf_dtor || (get ()).uaf_user || !crashed_dead));
    give_destroy_token = (fun () -> skip_point 0; incr destroy_tok; eager 0);
    owner_done = (fun () -> match (get ()).eo with ODone -> true | _ -> false) }

let run_lines (f : string -> unit) (lines : string list) =
  let lineno = ref 0 in
  List.iter (fun l ->
      incr lineno;
      try f l with Reject s -> raise (Reject (Printf.sprintf "%d: %s | %s" !lineno s l))) lines

let validate_elt (pts : bool) (uacts : act list) (scripts : (int * act list) list) (lines : string list) : int * bool =
  let es = gen_eshape and sh = gen_shape in
  let scr (t : nat) = try List.assoc (int_of_nat t) scripts with Not_found -> [] in
  let st = ref (einit [] uacts) in
  let c = mk_comp pts es sh scr (fun () -> !st)
      (fun lab -> match estep es sh scr !st lab with Some e' -> st := e'; true | None -> false)
      (fun () -> enabled_any es sh scr !st) in
  run_lines c.handle lines;
  c.finish ()

(* ------------------------------------------------------------------ the pool as a system (C05_PoolSysModel.pstep) *)
(* kind=pool: T0 is the owner, T(i+1) the child of pool thread i.  Every line is routed to the component it
   belongs to (by thread, by the names of the latch / mutex_ / cond_ / queue mutex / wake-up descriptor of that
   thread, which the driver prints after start()), renamed to the component's view (owner T0, child T1) and
   validated by the same mapper as a single EventLoopThread -- but every model step is a step of the extracted
   pstep on the whole pool state, so the discipline of start() / user code / ~EventLoopThreadPool (owner_guard) is
   checked as well.  Thread i's user code is the one task the driver gives to loop i: runInLoop(task i). *)
let validate_pool (n : int) (lines : string list) : int =
  let es = gen_eshape and sh = gen_shape in
  let scr (_ : nat) = [] in
  let specs = List.init n (fun i -> ([], [ARun (nat_of_int i)])) in
  let els = ref (pinit specs) in
  let nth i = match List.nth_opt !els i with Some e -> e | None -> failwith "component" in
  let pool_enabled () =
    let r = ref false in
    for i = 0 to n - 1 do
      let ni = nat_of_int i in
      List.iter (fun l -> if pstep es sh scr !els l <> None then r := true) [PO ni; PC ni; PCRead ni]
    done; !r in
  let comps = Array.init n (fun i ->
      let ni = nat_of_int i in
      mk_comp false es sh scr (fun () -> nth i)
        (fun lab ->
           let pl = match lab with EO -> PO ni | EC -> PC ni | ECRead -> PCRead ni | ESpur -> PSpur ni in
           match pstep es sh scr !els pl with Some p' -> els := p'; true | None -> false)
        pool_enabled) in
  (* names of thread i's objects *)
  let names = Array.make n [] in
  let wake = Array.make n "?" and qm = Array.make n "?" in
  List.iter (fun l ->
      match split_ws l with
      | "e" :: "T0" :: "pool" :: "thread" :: i :: rest ->
          let i = int_of_string i in
          if i < n then begin
            List.iter (fun tok ->
                List.iter (fun key ->
                    match tok_after tok key with
                    | Some v -> names.(i) <- String.split_on_char ',' v @ names.(i)
                    | None -> ()) ["latch="; "elt="]) rest;
            comps.(i).handle ("e T0 elt created " ^ String.concat " " rest) end
      | "e" :: tx :: "loop" :: "created" :: rest ->
          let i = tnum tx - 1 in
          if i >= 0 && i < n then
            List.iter (fun tok ->
                (match tok_after tok "wake=" with Some v -> wake.(i) <- v | None -> ());
                (match tok_after tok "qm=" with Some v -> qm.(i) <- v | None -> ())) rest
      | _ -> ()) lines;
  let owner_comp obj =
    let r = ref (-1) in
    for i = 0 to n - 1 do
      if List.mem obj names.(i) || obj = wake.(i) || obj = qm.(i) then r := i done;
    !r in
  (* the observers of component i: token P<i>=q:ev:quit:call:loop:lp | P<i>=dead:lp *)
  let obs_for i (obs : string list) : string list =
    let key = Printf.sprintf "P%d=" i in
    let rec go = function
      | [] -> []
      | t :: r ->
          (match tok_after t key with
           | Some v ->
               (match String.split_on_char ':' v with
                | ["dead"; lp] -> ["dead"; "lp=" ^ lp]
                | [q; ev; quit; call; loop; lp] -> ["q=" ^ q; "ev=" ^ ev; "quit=" ^ quit; "call=" ^ call; "loop=" ^ loop; "lp=" ^ lp]
                | _ -> [])
           | None -> go r) in
    go obs in
  let feed i (w : string list) = comps.(i).handle (String.concat " " w) in
  let handle (line : string) =
    match split_ws line with
    | "e" :: "T0" :: "pool" :: "thread" :: _ -> ()
    | ["e"; "T0"; "pool"; "started"] ->
        Array.iteri (fun i c -> if not (o_past_start (nth i)) then rej "start() returned, thread %d of the model has not been started" i; ignore c) comps
    | ["e"; "T0"; "pool"; "destroying"] -> if n > 0 then comps.(0).give_destroy_token ()
    | "e" :: tx :: rest when tnum tx >= 1 && tnum tx <= n -> feed (tnum tx - 1) ("e" :: "T1" :: rest)
    | "e" :: _ -> ()
    | "t" :: step :: tx :: kind :: obj :: res :: obs ->
        let x = tnum tx in
        if x > n then rej "unknown thread T%d" x;
        if x >= 1 then feed (x - 1) ("t" :: step :: "T1" :: kind :: obj :: res :: obs_for (x - 1) obs)
        else begin
          let i = if kind = "join" then tnum obj - 1 else if kind = "create" then tnum res - 1 else owner_comp obj in
          if kind = "point" || kind = "exit" || kind = "begin" then ()
          else if i < 0 || i >= n then rej "owner line on an object of no pool thread: %s %s" kind obj
          else begin
            feed i ("t" :: step :: "T0" :: kind :: (if kind = "join" then "T1" else obj) :: (if kind = "create" then "T1" else res) :: obs_for i obs);
            (* ~EventLoopThreadPool destroys its threads in order: the next destructor starts when this one is done *)
            if kind = "join" && comps.(i).owner_done () && i + 1 < n then comps.(i + 1).give_destroy_token ()
          end
        end
    | "DEADLOCK" :: _ -> if pool_enabled () then rej "DEADLOCK in the implementation, the pool model can still step"
    | "STEPLIMIT" :: _ -> rej "step limit (livelock) in the implementation"
    | "CRASH" :: _ -> rej "implementation crashed"
    | _ -> () in
  run_lines handle lines;
  let total = ref 0 in
  Array.iter (fun c -> let (k, _) = c.finish () in total := !total + k) comps;
  Array.iteri (fun i _ -> if List.mem "pool destroyed" lines && not (o_done (nth i)) then
                  raise (Reject (Printf.sprintf "0: the pool was destroyed, thread %d of the model is not done | -" i))) comps;
  !total

let show_loop = function None -> "-1" | Some i -> string_of_int (int_of_nat i)
let show_zloop = function None -> "-1" | Some i -> string_of_int (int_of_z i)

(* the generated getNextLoop far from the start: cursor after k calls by extrapolation of the cursor
   sequence the GENERATED function produces from 0 (a cycle through 0, or a constant increment with the
   int wrap-around), then the generated function itself on the next m calls *)
let gen_tail (n : int) (k : int) (m : int) : string =
  let zn = z_of_int n in
  let b = 4 * n + 16 in
  let cur = Array.make (b + 1) 0 in
  let c = ref Z0 in
  for i = 1 to b do
    let (_, c') = gen_get_next zn !c in
    c := c'; cur.(i) <- int_of_z c' done;
  let wrap32 x = ((x + 0x80000000) land 0xffffffff) - 0x80000000 in
  let start =
    let period = ref 0 in
    (try for p = 1 to b do if cur.(p) = 0 then (period := p; raise Exit) done with Exit -> ());
    if !period > 0 then Some cur.(k mod !period)
    else begin
      let d = cur.(1) - cur.(0) in
      let affine = ref true in
      for i = 1 to b - 1 do if cur.(i + 1) - cur.(i) <> d then affine := false done;
      if !affine then Some (wrap32 (k * d)) else None end in
  match start with
  | None -> "unknown"
  | Some s ->
      let c = ref (z_of_int s) in
      let out = Buffer.create 64 in
      for _ = 1 to m do
        let (x, c') = gen_get_next zn !c in
        Buffer.add_string out (" " ^ show_zloop x); c := c' done;
      Buffer.contents out

let pool_case (n : int) (calls : int) (hashes : int list) (ops : string list) (big : int) (tail : int) =
  let nn = nat_of_int n in
  let nexts = List.init calls (fun _ -> PNext) in
  let hs = List.concat_map (fun h -> [PHash (nat_of_int h); PHash (nat_of_int h)]) hashes in
  let mixed = List.map (fun o -> if o = "n" then PNext else PHash (nat_of_int (int_of_string (String.sub o 1 (String.length o - 1))))) ops in
  let out tag show f start =
    (* the C++ driver makes the getNextLoop calls first, then each hash code twice *)
    let (r1, cur) = f start nexts in
    Printf.printf "%snext%s\n" tag (String.concat "" (List.map (fun x -> " " ^ show x) r1));
    let (r2, cur2) = f cur hs in
    let rec pairs = function a :: b :: r -> (if a = b then show a else "-3") :: pairs r | _ -> [] in
    Printf.printf "%shash%s\n" tag (String.concat "" (List.map (fun x -> " " ^ x) (pairs r2)));
    if ops <> [] then begin
      let (r3, _) = f cur2 mixed in
      Printf.printf "%sops%s\n" tag (String.concat "" (List.map (fun x -> " " ^ show x) r3)) end in
  out "" show_loop (fun c o -> pool_run pinned_pshape nn c o) O;
  out "g" show_zloop (fun c o -> gen_pool_run (z_of_int n) c o) Z0;
  if big > 0 then begin
    let before = calls + List.length (List.filter (fun o -> o = "n") ops) + big in
    (* model: the closed form of C05_pool_any_sequence *)
    Printf.printf "tail %d%s\n" before
      (String.concat "" (List.init tail (fun i -> if n = 0 then " -1" else " " ^ string_of_int ((before + i) mod n))));
    Printf.printf "gtail %d%s\n" before (gen_tail n before tail) end

let () =
  let cur_id = ref "" and pts = ref true and prog = ref [] and scripts = ref [] in
  let in_trace = ref false and lines = ref [] and kind = ref "elt" in
  let n = ref 0 and calls = ref 0 and hashes = ref [] and ops = ref [] and big = ref 0 and tail = ref 0 in
  let finish () =
    Printf.printf "case %s\n" !cur_id;
    (if !kind = "pool" then begin
        (try pool_case !n !calls !hashes !ops !big !tail with Failure s -> Printf.printf "REJECT 0: %s | -\n" s);
        if !lines <> [] then
          (try Printf.printf "accepted %d uaf=0\n" (validate_pool !n (List.rev !lines))
           with Reject s -> Printf.printf "REJECT %s\n" s
              | Failure s -> Printf.printf "REJECT 0: validator failure %s | -\n" s) end
     else if !kind <> "elt" then print_string "accepted 0 uaf=0\n"
     else
       try
         let (ctl, uacts) = parse_acts !prog in
         if ctl <> ["start"; "destroy"] then failwith "the owner's program must be start ; <acts> ; destroy";
         let (k, uaf) = validate_elt !pts uacts !scripts (List.rev !lines) in
         Printf.printf "accepted %d uaf=%d\n" k (if uaf then 1 else 0)
       with Reject s -> Printf.printf "REJECT %s\n" s
          | Failure s -> Printf.printf "REJECT 0: validator failure %s | -\n" s);
    print_string "end\n"; flush stdout in
  (try
     while true do
       let line = input_line stdin in
       let w = split_ws line in
       if !in_trace then begin
         if line = "end" then begin in_trace := false; finish () end else lines := line :: !lines
       end else
         match w with
         | "case" :: id :: rest ->
             cur_id := id; prog := []; scripts := []; lines := []; pts := true; kind := "elt";
             n := 0; calls := 0; hashes := []; ops := []; big := 0; tail := 0;
             List.iter (fun t ->
                 if t = "pts=0" then pts := false;
                 (match tok_after t "kind=" with Some v -> kind := v | None -> ());
                 (match tok_after t "n=" with Some v -> n := int_of_string v | None -> ());
                 (match tok_after t "calls=" with Some v -> calls := int_of_string v | None -> ());
                 (match tok_after t "big=" with Some v -> big := int_of_string v | None -> ());
                 (match tok_after t "tail=" with Some v -> tail := int_of_string v | None -> ())) rest
         | "P" :: r -> prog := r
         | "S" :: id :: r -> scripts := (int_of_string id, snd (parse_acts r)) :: !scripts
         | "H" :: r -> hashes := List.map int_of_string r
         | "O" :: r -> ops := r
         | ["trace"] -> in_trace := true
         | ["end"] -> finish ()
         | _ -> ()
     done
   with End_of_file -> ())
