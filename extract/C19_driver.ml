(* C19 runner: same case format and output format as harness/C19_driver.cc (see there).
   Every op is a short list of labels of C19_Model.step; externally invisible events (EFetch,
   ERegister) are not printed: their effect shows in the next= / outs= columns. *)
let bytes_of_text (s:string) : byte list =
  if s = "-" then [] else List.init (String.length s) (fun i -> byte_of_int (Char.code s.[i]))
let text_of_bytes (l: byte list) : string =
  if l = [] then "-" else String.concat "" (List.map (fun b -> String.make 1 (Char.chr (int_of_byte b))) l)
let hex_or_dash l = if l = [] then "-" else hex_of_bytes l
let err_name = function
  | NO_ERROR -> "NO_ERROR" | WRONG_PROTO -> "WRONG_PROTO" | NO_SERVICE -> "NO_SERVICE" | NO_METHOD -> "NO_METHOD"
  | INVALID_REQUEST -> "INVALID_REQUEST" | INVALID_RESPONSE -> "INVALID_RESPONSE" | TIMEOUT -> "TIMEOUT"
let err_of_name = function
  | "NO_ERROR" -> NO_ERROR | "WRONG_PROTO" -> WRONG_PROTO | "NO_SERVICE" -> NO_SERVICE | "NO_METHOD" -> NO_METHOD
  | "INVALID_REQUEST" -> INVALID_REQUEST | "INVALID_RESPONSE" -> INVALID_RESPONSE | "TIMEOUT" -> TIMEOUT
  | s -> failwith ("bad error code " ^ s)
let burst_base = 5000
let tag_label (c: nat) : string =
  let i = int_of_nat c in if i >= burst_base then "B" ^ string_of_int (i - burst_base) else string_of_int i
let payload_of_spec (s:string) : payload option =
  if s = "-" then None
  else if s.[0] = 'V' then Some (Valid (bytes_of_spec (String.sub s 1 (String.length s - 1))))
  else if s.[0] = 'X' then Some (Corrupt (bytes_of_spec (String.sub s 1 (String.length s - 1))))
  else failwith ("bad payload " ^ s)
let starts p s = String.length s >= String.length p && String.sub s 0 (String.length p) = p
let body_of (toks: string list) : rbody =
  List.fold_left (fun b t ->
    if starts "p=" t then (match payload_of_spec (String.sub t 2 (String.length t - 2)) with
                           | Some p -> { rb_resp = Some p; rb_err = b.rb_err } | None -> b)
    else if starts "e=" t then { rb_resp = b.rb_resp; rb_err = Some (err_of_name (String.sub t 2 (String.length t - 2))) }
    else failwith ("bad body token " ^ t)) { rb_resp = None; rb_err = None } toks
let show_seen = function Untouched -> "untouched" | Parsed m -> "parsed:" ^ hex_or_dash m | Garbage -> "garbage"
let show_event (e: event) : string option = match e with
  | EFetch _ | ERegister _ -> None
  | ESendRequest (i, svc, meth, req) ->
      Some (Printf.sprintf "send:%s:%s:%s:%s" (string_of_z i) (text_of_bytes svc) (text_of_bytes meth) (hex_or_dash req))
  | ERun (c, s) -> Some ("run:" ^ tag_label c ^ ":" ^ show_seen s)
  | EDelete c -> Some ("del:" ^ tag_label c)
  | ELeak c -> Some ("leak:" ^ tag_label c)
  | EDispatch (k, _, _, meth, req) ->
      Some (Printf.sprintf "dispatch:%d:%s:%s" (int_of_nat k) (text_of_bytes meth) (hex_or_dash req))
  | ESendResponse (i, RReply m) -> Some (Printf.sprintf "reply:%s:p=%s" (string_of_z i) (hex_or_dash m))
  | ESendResponse (i, RError e) -> Some (Printf.sprintf "reply:%s:e=%s" (string_of_z i) (err_name e))
  | EDrop c -> Some ("drop:" ^ tag_label c)
  | EUseAfterFree k -> Some (Printf.sprintf "uaf:%d" (int_of_nat k))
let join l = if l = [] then "-" else String.concat "," l
(* ---- RpcMessage wire format (C19_Wire) ---- *)
let opt_of_spec s = if s = "~" then None else Some (bytes_of_spec s)
let show_opt = function None -> "~" | Some b -> hex_or_dash b
let mtype_of_int = function 1 -> MT_REQUEST | 2 -> MT_RESPONSE | 3 -> MT_ERROR | n -> failwith ("bad type " ^ string_of_int n)
let int_of_mtype = function MT_REQUEST -> 1 | MT_RESPONSE -> 2 | MT_ERROR -> 3
let err_of_int = function 0 -> NO_ERROR | 1 -> WRONG_PROTO | 2 -> NO_SERVICE | 3 -> NO_METHOD | 4 -> INVALID_REQUEST
  | 5 -> INVALID_RESPONSE | 6 -> TIMEOUT | n -> failwith ("bad error " ^ string_of_int n)
let int_of_err = function NO_ERROR -> 0 | WRONG_PROTO -> 1 | NO_SERVICE -> 2 | NO_METHOD -> 3 | INVALID_REQUEST -> 4
  | INVALID_RESPONSE -> 5 | TIMEOUT -> 6
let wire_op (w: string list) : string option =
  match w with
  | ["SER"; t; id; svc; meth; req; resp; err] ->
      let m = { m_type = mtype_of_int (int_of_string t); m_id = z_of_string id; m_service = opt_of_spec svc;
                m_method = opt_of_spec meth; m_request = opt_of_spec req; m_response = opt_of_spec resp;
                m_error = (if err = "~" then None else Some (err_of_int (int_of_string err))) } in
      Some ("wire:" ^ hex_or_dash (wire_ser m))
  | ["WIRE"; h] ->
      (match wire_parse (bytes_of_spec h) with
       | None -> Some "parsed:reject"
       | Some m -> Some (Printf.sprintf "parsed:%d:%s:%s:%s:%s:%s:%s" (int_of_mtype m.m_type) (string_of_z m.m_id)
                           (show_opt m.m_service) (show_opt m.m_method) (show_opt m.m_request) (show_opt m.m_response)
                           (match m.m_error with None -> "~" | Some e -> string_of_int (int_of_err e))))
  | _ -> None
let show_state (ch: chan) : string =
  let s = ch.core in
  let o = List.map (fun (i, c) -> Printf.sprintf "%s:r%dd%d" (string_of_z i) (if c.c_resp then 1 else 0) (if c.c_done then 1 else 0)) s.outs in
  let p = List.sort compare (List.map (fun (k, _) -> int_of_nat k) s.pending) in
  Printf.sprintf "next=%s outs=%s pend=%s" (string_of_z s.next_id) (join o) (join (List.map string_of_int p))
let svc_name = "c19.TestService"
let svc_table = Some [ (bytes_of_text svc_name, [bytes_of_text "Echo"; bytes_of_text "Defer"]) ]
let mk_call c r d meth req : call =
  { c_tag = nat_of_int c; c_resp = (r = "1"); c_done = (d = "1");
    c_svc = bytes_of_text (if meth = "Ping" then "c19.OtherService" else svc_name);
    c_meth = bytes_of_text meth; c_req = req }
(* obs=1 in the case header: the machine without the CallMethod precondition (C19_Model.step_code);
   otherwise C19_Model.step, which rejects a call made with response == NULL *)
let lax = ref false
(* run labels; after a request dispatched to Echo the service answers at once (user code of the test) *)
let rec run_labels (s: chan) (ls: clabel list) : (chan * event list) option =
  match ls with
  | [] -> Some (s, [])
  | l :: r ->
    (match (if !lax then cstep_code s l else cstep s l) with
     | None -> None
     | Some (s', ev) ->
        let extra = List.concat (List.map (function
          | EDispatch (k, _, _, meth, q) when text_of_bytes meth = "Echo" -> [CL (LDone (k, q))]
          | _ -> []) ev) in
        (match run_labels s' (extra @ r) with
         | None -> None
         | Some (s'', ev') -> Some (s'', ev @ ev')))
(* ---- two channels (C19_Sys): header sys=1 ---- *)
let sys_wire (b: byte list) = b
let sys_content (b: byte list) = Valid b
let show_sys_event (e: event) : string option = match e with
  | ESendRequest _ | ESendResponse _ -> None        (* consumed by the other channel, not seen by a peer *)
  | _ -> show_event e
let sys_state (y: sys) : string =
  let o = List.map (fun (i, c) -> Printf.sprintf "%s:r%dd%d" (string_of_z i) (if c.c_resp then 1 else 0) (if c.c_done then 1 else 0)) y.cl.outs in
  let p = List.sort compare (List.map (fun (k, _) -> int_of_nat k) y.sv.pending) in
  Printf.sprintf "next=%s outs=%s pend=%s" (string_of_z y.cl.next_id) (join o) (join (List.map string_of_int p))
let evs_of (st: sstep) : event list =
  (match st.ss_cl with Some (_, ev) -> ev | None -> []) @ (match st.ss_sv with Some (_, ev) -> ev | None -> [])
(* labels one after the other; a request dispatched to Echo is answered at once by the service *)
let rec sys_run (y: sys) (ls: slabel list) : (sys * event list) option =
  match ls with
  | [] -> Some (y, [])
  | l :: r ->
    (match sys_step sys_wire sys_content y l with
     | None -> None
     | Some (y', st) ->
        let ev = evs_of st in
        let extra = List.concat (List.map (function
          | EDispatch (k, _, _, meth, q) when text_of_bytes meth = "Echo" -> [SDone (k, q)]
          | _ -> []) ev) in
        (match sys_run y' (extra @ r) with
         | None -> None
         | Some (y'', ev') -> Some (y'', ev @ ev')))
let rec sys_pump (y: sys) (server: bool) (acc: event list) : sys * event list =
  if (if server then y.c2s else y.s2c) = [] then (y, acc)
  else match sys_run y [if server then SReq else SResp] with
       | Some (y', ev) -> sys_pump y' server (acc @ ev)
       | None -> (y, acc)
let sys_op (y: sys) (w: string list) : (sys * event list) option =
  let callm c r d meth req = mk_call (int_of_string c) r d meth (bytes_of_spec req) in
  match w with
  | ["CALL"; c; r; d; meth; req] -> sys_run y (List.map (fun l -> SCall l) (call_labels O (callm c r d meth req)))
  | ["F"; t; c; r; d; meth; req] -> sys_run y [SCall (LFetch (nat_of_int (int_of_string t), callm c r d meth req))]
  | ["R"; t] -> sys_run y [SCall (LRegister (nat_of_int (int_of_string t)))]
  | ["S"; t] -> sys_run y [SCall (LSend (nat_of_int (int_of_string t)))]
  | ["DONE"; k; d] -> sys_run y [SDone (nat_of_int (int_of_string k), bytes_of_spec d)]
  | ["PUMPS"] -> Some (sys_pump y true [])
  | ["PUMPC"] -> Some (sys_pump y false [])
  | _ -> None

(* ---- both ends calling and serving, each end's connection going DOWN (C19_Sys.bstep): header sys=2 ----
   end A = the client's channel (user-owned, with the service table), end B = the channel RpcServer made (owned) *)
let show_b_event (w: side) (e: event) : string option = match e with
  | ESendRequest _ | ESendResponse _ -> None
  | EDispatch (k, _, _, meth, req) ->
      Some (Printf.sprintf "%s:%d:%s:%s" (match w with SA -> "adispatch" | SB -> "dispatch") (int_of_nat k) (text_of_bytes meth) (hex_or_dash req))
  | _ -> show_event e
let chan_outs (c: chan) = join (List.map (fun (i, c) -> Printf.sprintf "%s:r%dd%d" (string_of_z i) (if c.c_resp then 1 else 0) (if c.c_done then 1 else 0)) c.core.outs)
let chan_pend (c: chan) = join (List.map string_of_int (List.sort compare (List.map (fun (k, _) -> int_of_nat k) c.core.pending)))
let b_state (y: bsys) : string =
  Printf.sprintf "next=%s outs=%s pend=%s b:next=%s outs=%s pend=%s" (string_of_z y.ea.core.next_id) (chan_outs y.ea) (chan_pend y.eb)
    (string_of_z y.eb.core.next_id) (chan_outs y.eb) (chan_pend y.ea)
let rec b_run (y: bsys) (ls: blabel list) : (bsys * (side * event) list) option =
  match ls with
  | [] -> Some (y, [])
  | l :: r ->
    (match bstep sys_wire sys_content y l with
     | None -> None
     | Some (y', st) ->
        let ev = List.map (fun e -> (st.bs_side, e)) st.bs_events in
        let extra = List.concat (List.map (function
          | (w, EDispatch (k, _, _, meth, q)) when text_of_bytes meth = "Echo" -> [BDone (w, k, q)]
          | _ -> []) ev) in
        (match b_run y' (extra @ r) with
         | None -> None
         | Some (y'', ev') -> Some (y'', ev @ ev')))
let rec b_pump (y: bsys) (w: side) (acc: (side * event) list) : bsys * (side * event) list =
  if (match w with SA -> y.toa | SB -> y.tob) = [] then (y, acc)
  else match b_run y [BDeliver w] with
       | Some (y', ev) -> b_pump y' w (acc @ ev)
       | None -> (y, acc)
let b_op (y: bsys) (w: string list) : (bsys * (side * event) list) option =
  let callm c r d meth req = mk_call (int_of_string c) r d meth (bytes_of_spec req) in
  match w with
  | ["CALL"; c; r; d; meth; req] -> b_run y (List.map (fun l -> BCall (SA, l)) (call_labels O (callm c r d meth req)))
  | ["CALLB"; c; r; d; meth; req] -> b_run y (List.map (fun l -> BCall (SB, l)) (call_labels O (callm c r d meth req)))
  | ["F"; t; c; r; d; meth; req] -> b_run y [BCall (SA, LFetch (nat_of_int (int_of_string t), callm c r d meth req))]
  | ["R"; t] -> b_run y [BCall (SA, LRegister (nat_of_int (int_of_string t)))]
  | ["S"; t] -> b_run y [BCall (SA, LSend (nat_of_int (int_of_string t)))]
  | ["DONE"; k; d] -> b_run y [BDone (SB, nat_of_int (int_of_string k), bytes_of_spec d)]
  | ["ADONE"; k; d] -> b_run y [BDone (SA, nat_of_int (int_of_string k), bytes_of_spec d)]
  | ["PUMPS"] | ["PUMPB"] -> Some (b_pump y SB [])
  | ["PUMPC"] | ["PUMPA"] -> Some (b_pump y SA [])
  | ["DOWNA"] -> b_run y [BDown SA]
  | ["DOWNB"] -> b_run y [BDown SB]
  | _ -> None

let () =
  let sy : sys option ref = ref None in
  let sb : bsys option ref = ref None in
  let st = ref (cinit false None) in
  let leaked = ref [] in
  (try while true do
    let line = input_line stdin in
    match split_ws line with
    | [] -> ()
    | "case" :: id :: rest ->
        let svc = List.mem "svc=1" rest in
        let svc2 = List.mem "svc=2" rest in
        lax := List.mem "obs=1" rest;
        sy := (if List.mem "sys=1" rest then Some (sys_init svc_table) else None);
        sb := (if List.mem "sys=2" rest then Some (binit false true svc_table svc_table) else None);
        (* svc=1: made and owned by RpcServer::onConnection; svc=2: user-owned channel with the service table *)
        st := cinit svc (if svc || svc2 then svc_table else None);
        leaked := [];
        Printf.printf "case %s services=%s\n" id (if !sb <> None then "SYS2" else if !sy <> None then "SYS" else if svc || svc2 then svc_name ^ ":Echo+Defer" else "NULL"); flush stdout
    | ["end"] when !sb <> None ->
        let y = (match !sb with Some y -> y | None -> assert false) in
        let fin = List.concat (List.map (fun (t, ts) -> match ts with
            | TIdle -> [] | TFetched _ -> [BCall (SA, LRegister t); BCall (SA, LSend t)] | TRegistered _ -> [BCall (SA, LSend t)]) y.ea.core.threads) in
        let y = (match b_run y fin with Some (y, _) -> y | None -> y) in
        let dt (c: chan) = List.concat (List.map (fun (_, c) -> if c.c_done then [tag_label c.c_tag] else []) c.core.outs) in
        Printf.printf "final dtor=%s leaked=- respleak=-\nend\n" (join (List.sort compare (dt y.ea @ dt y.eb))); flush stdout
    | w when !sb <> None && wire_op w = None ->
        let y = (match !sb with Some y -> y | None -> assert false) in
        (match b_op y w with
         | None -> Printf.printf "rejected ev=- %s\n" (b_state y)
         | Some (y', ev) ->
             sb := Some y';
             let late = function (_, (EDelete _ | ELeak _ | EDrop _)) -> true | _ -> false in
             let tag_of = function (_, (EDelete c | ELeak c | EDrop c)) -> int_of_nat c | _ -> 0 in
             let first = List.filter (fun e -> not (late e)) ev in
             let last = List.stable_sort (fun a b -> compare (tag_of a) (tag_of b)) (List.filter late ev) in
             let shown = List.concat (List.map (fun (sd, e) -> match show_b_event sd e with Some x -> [x] | None -> []) (first @ last)) in
             Printf.printf "ok ev=%s %s\n" (join shown) (b_state y'));
        flush stdout
    | ["end"] when !sy <> None ->
        let y = (match !sy with Some y -> y | None -> assert false) in
        let fin = List.concat (List.map (fun (t, ts) -> match ts with
            | TIdle -> [] | TFetched _ -> [SCall (LRegister t); SCall (LSend t)] | TRegistered _ -> [SCall (LSend t)]) y.cl.threads) in
        let y = (match sys_run y fin with Some (y, _) -> y | None -> y) in
        let dtor = List.sort compare (List.concat (List.map (fun (_, c) -> if c.c_done then [tag_label c.c_tag] else []) y.cl.outs)) in
        Printf.printf "final dtor=%s leaked=- respleak=-\nend\n" (join dtor); flush stdout
    | w when !sy <> None && wire_op w = None ->
        let y = (match !sy with Some y -> y | None -> assert false) in
        (match sys_op y w with
         | None -> Printf.printf "rejected ev=- %s\n" (sys_state y)
         | Some (y', ev) ->
             sy := Some y';
             (* the driver sees a deleted response object / a dropped closure when it scans its calls after the op:
                those events come last, in the order the calls were made (= by tag) *)
             let late = function EDelete _ | ELeak _ | EDrop _ -> true | _ -> false in
             let tag_of = function EDelete c | ELeak c | EDrop c -> int_of_nat c | _ -> 0 in
             let first = List.filter (fun e -> not (late e)) ev in
             let last = List.stable_sort (fun a b -> compare (tag_of a) (tag_of b)) (List.filter late ev) in
             let shown = List.concat (List.map (fun e -> match show_sys_event e with Some x -> [x] | None -> []) (first @ last)) in
             Printf.printf "ok ev=%s %s\n" (join shown) (sys_state y'));
        flush stdout
    | ["end"] ->
        (* parked helper threads are released and finish their calls; then ~RpcChannel deletes what is registered *)
        let fin = List.concat (List.map (fun (t, ts) -> match ts with
            | TIdle -> [] | TFetched _ -> [CL (LRegister t); CL (LSend t)] | TRegistered _ -> [CL (LSend t)]) !st.core.threads) in
        let s = (match run_labels !st fin with Some (s, _) -> s | None -> !st) in
        let dtor = List.sort compare (List.concat (List.map (fun (_, c) -> if c.c_done then [tag_label c.c_tag] else []) s.core.outs)) in
        Printf.printf "final dtor=%s leaked=%s respleak=-\nend\n" (join dtor) (join (List.sort compare !leaked)); flush stdout
    | w when wire_op w <> None ->
        (match wire_op w with Some e -> Printf.printf "ok ev=%s %s\n" e (show_state !st) | None -> ()); flush stdout
    | w ->
        let s = !st in
        let next_id = s.core.next_id in
        let labels0 : label list option = (match w with
          | ["CALL"; c; r; d; meth; req] -> Some (call_labels O (mk_call (int_of_string c) r d meth (bytes_of_spec req)))
          | "CALLA" :: c :: r :: d :: meth :: req :: body ->
              let b = body_of body in
              if b.rb_resp = None && b.rb_err = None then None
              else Some (call_labels O (mk_call (int_of_string c) r d meth (bytes_of_spec req)) @ [LResponse (Z.add next_id (z_of_int 1), b)])
          | ["F"; t; c; r; d; meth; req] -> Some [LFetch (nat_of_int (int_of_string t), mk_call (int_of_string c) r d meth (bytes_of_spec req))]
          | ["R"; t] -> Some [LRegister (nat_of_int (int_of_string t))]
          | ["S"; t] -> Some [LSend (nat_of_int (int_of_string t))]
          | "BURST" :: n :: k :: _ ->
              let total = int_of_string n * int_of_string k in
              let base = int_of_z next_id in
              Some (List.concat (List.init total (fun j ->
                call_labels O (mk_call (burst_base + base + j + 1) "1" "1" "Echo" (bytes_of_text (string_of_int j))))))
          | "RESP" :: id :: body -> Some [LResponse (z_of_string id, body_of body)]
          | ["REQ"; id; svc; meth; p] ->
              Some [LRequest { rq_id = z_of_string id; rq_svc = bytes_of_text svc; rq_meth = bytes_of_text meth;
                               rq_req = (match payload_of_spec p with Some x -> x | None -> Valid []) }]
          | ["DONE"; k; d] -> Some [LDone (nat_of_int (int_of_string k), bytes_of_spec d)]
          | ["OTHER"; id] -> Some [LOther (z_of_string id)]
          | ["DOWN"] -> Some []
          | _ -> failwith ("bad op: " ^ line)) in
        let labels : clabel list option =
          if w = ["DOWN"] then Some [CDown]
          else (match labels0 with None -> None | Some ls -> Some (List.map (fun l -> CL l) ls)) in
        let res = (match labels with None -> None | Some ls -> run_labels s ls) in
        (match res with
         | None -> Printf.printf "rejected ev=- %s\n" (show_state s)
         | Some (s', ev) ->
             st := s';
             List.iter (function ELeak c -> leaked := tag_label c :: !leaked | _ -> ()) ev;
             let shown =
               if List.hd w = "BURST" then begin
                 let ids = List.concat (List.map (function ESendRequest (i, _, _, _) -> [int_of_z i] | _ -> []) ev) in
                 let d = List.sort_uniq compare ids in
                 let lo = List.fold_left min max_int ids and hi = List.fold_left max min_int ids in
                 [Printf.sprintf "burst:sent=%d:distinct=%d:ids=%d..%d" (List.length ids) (List.length d)
                    (if ids = [] then 0 else lo) (if ids = [] then 0 else hi)]
               end else List.concat (List.map (fun e -> match show_event e with Some x -> [x] | None -> []) ev) in
             Printf.printf "ok ev=%s %s\n" (join shown) (show_state s'));
        flush stdout
  done with End_of_file -> ())
