(* extraction of the EventLoopThread / pool models with the shapes and functions regenerated from
   the current /repo: ExtrOcamlBasic only *)
From Coq Require Extraction.
From Coq Require Import ExtrOcamlBasic.
From Coq Require Import List ZArith NArith.
From Muduo Require Import Base_Bytes C04_Model C05_Model C05_PoolSysModel Gen_C04 Gen_C05 C05_GenRun.
Extraction "model.ml" C05_Model.estep C05_Model.einit C05_Model.enabled_any C05_Model.fcode_at
  C04_Model.poll_ready C05_PoolSysModel.pstep C05_PoolSysModel.pinit C05_PoolSysModel.o_past_start
  C05_PoolSysModel.o_done C05_Model.pool_run C05_Model.pinned_pshape C05_Model.pinned_eshape
  Gen_C04.gen_shape Gen_C05.gen_eshape C05_GenRun.gen_pool_run
  Base_Bytes.xbyte_of_N Base_Bytes.xN_of_byte Base_Bytes.xanchor.
