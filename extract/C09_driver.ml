(* C09 runner: same case format as harness/C09_driver.cc; one canonical line per op.
   Both back-end models run the same history; a Fault of one side is printed and that side is
   dead for the rest of the case ("FAULT-P"/"FAULT-E" lines).  The epoll choice is "the first
   min(n,cap) ready entries"; for a truncated poll the checker compares sets (see lib/props/C09.py). *)
let maxch = 400 and maxfd = 400
let soi = string_of_int
let sz z = string_of_z z
let sn x = soi (int_of_n x)
let cat = String.concat ","
let range n = List.init n (fun i -> i)
let crc_of_string (s:string) : string =
  let c = ref 0xffffffff in
  String.iter (fun ch -> c := crc_tab.((!c lxor (Char.code ch)) land 255) lxor (!c lsr 8)) s;
  Printf.sprintf "%08x" (!c lxor 0xffffffff)
let idx_string (objs : nat -> chan option) (hi:int) : string =
  cat (List.filter_map (fun c -> match objs (nat_of_int c) with
    | Some ch -> Some (soi c ^ ":" ^ sz ch.index ^ "/" ^ sn ch.events) | None -> None) (range hi))
let map_string (m : nat -> nat option) (hi:int) : string =
  cat (List.filter_map (fun f -> match m (nat_of_int f) with
    | Some c -> Some (soi f ^ ">" ^ soi (int_of_nat c)) | None -> None) (range hi))
let state_string (e: ep option) (p: pp option) (hic:int) (hif:int) : string =
  let es = match e with None -> "E{dead}" | Some e ->
    let kern = List.sort compare (List.map (fun k -> (int_of_nat k.k_fd, int_of_n k.k_ev)) e.e_kern) in
    "E{idx=" ^ idx_string e.e_objs hic ^ " map=" ^ map_string e.e_map hif ^ " kern=" ^
    cat (List.map (fun (f,v) -> soi f ^ ":" ^ soi v) kern) ^ " cap=" ^ soi (int_of_nat e.e_cap) ^
    " kerr=" ^ soi (int_of_nat e.e_kerr) ^ "}" in
  let ps = match p with None -> "P{dead}" | Some p ->
    "P{idx=" ^ idx_string p.p_objs hic ^ " map=" ^ map_string p.p_map hif ^ " pfds=" ^
    cat (List.map (fun q -> sz q.p_fd ^ ":" ^ sn q.p_ev) p.p_pfds) ^ "}" in
  es ^ " " ^ ps
let cbname = function CbClose -> "close" | CbError -> "error" | CbRead -> "read" | CbWrite -> "write"
let act_string (a : (nat * n) list) : string =
  let l = List.sort compare (List.map (fun (c, r) -> (int_of_nat c, int_of_n r)) a) in
  cat (List.map (fun (c, r) -> soi c ^ ":" ^ soi r) l)
let cb_string (a : (nat * n) list) : string =
  let l = List.sort (fun (c1,_) (c2,_) -> compare (int_of_nat c1) (int_of_nat c2)) a in
  cat (List.map (fun (c, k) -> soi (int_of_nat c) ^ ":" ^ cbname k) (callbacks l))
let parse_ready (ws : string list) : (int * int) list =
  List.map (fun w -> match String.split_on_char ':' w with
    | [k; b] -> (int_of_string k, int_of_string b) | _ -> failwith "bad POLL entry") ws
let () =
  let e = ref (Some ep_init) and p = ref (Some pp_init) in
  let alive = ref 0 and hic = ref 0 and hif = ref 0 in
  let loopcase = ref false in
  let bad = ref false in
  (try while true do
    let line = input_line stdin in
    match split_ws line with
    | [] -> ()
    | "case" :: id :: rest ->
        e := Some ep_init; p := Some pp_init; alive := 0; hic := 0; hif := 0; bad := false;
        Printf.printf "case %s abi=1,2,4,8,16,32,8192 epoll_eq_poll=1\n" id;
        (match rest with
         | ["loop"; b] -> loopcase := true;
             Printf.printf "loop backend=%s poller=%s idle1=blocked wake=ok idle2=blocked task=ok idle3=blocked timer=ok idle4=blocked\n"
               b (if b = "poll" then "PollPoller" else "EPollPoller")
         | _ -> loopcase := false);
        flush stdout
    | ["end"] -> print_string "end\n"; flush stdout
    | _ when !loopcase -> ()
    | _ when !bad -> print_string "skipped\n"; flush stdout
    | ("open" | "wr" | "drain" | "hc" | "pc" | "fill" | "unfill" | "close") :: _ -> print_string "env\n"; flush stdout
    | ["INJ"; _; bits] ->
        let ks = dispatch (n_of_int (int_of_string bits)) in
        let c = (match split_ws line with _ :: c :: _ -> c | _ -> "?") in
        Printf.printf "inj cb=%s\n" (cat (List.map (fun k -> c ^ ":" ^ cbname k) ks)); flush stdout
    | "POLL" :: ws ->
        let rd = parse_ready ws in
        let ready (f:nat) : n = (match List.assoc_opt (int_of_nat f) rd with Some b -> n_of_int b | None -> N0) in
        let env = cat (List.map (fun (k,b) -> soi k ^ ":" ^ soi b) (List.sort compare (List.filter (fun (_,b) -> b <> 0) rd))) in
        let es = (match !e with None -> "E dead" | Some st ->
          let full = ep_full st ready in
          (match ep_step st (Poll (ready, [])) with
           | Ok (st', act) -> e := Some st';
               Printf.sprintf "E n=%d cap=%d [%s] cb=%s" (List.length act) (int_of_nat st'.e_cap) (act_string full) (cb_string full)
           | Rejected -> "E rejected"
           | Fault -> e := None; "E FAULT")) in
        let ps = (match !p with None -> "P dead" | Some st ->
          (match pp_step_current st (Poll (ready, [])) with
           | Ok (st', act) -> p := Some st';
               Printf.sprintf "P n=%d [%s] cb=%s" (List.length act) (act_string act) (cb_string act)
           | Rejected -> "P rejected"
           | Fault -> p := None; "P FAULT")) in
        Printf.printf "poll env=%s %s | %s\n" env es ps; flush stdout
    | [k; a] | [k; a; _] as w ->
        let c = int_of_string a in
        let o = (match k, w with
          | "NEW", [_; _; f] -> hif := max !hif (int_of_string f + 1); Some (New (nat_of_int c, nat_of_int (int_of_string f)))
          | "DEL", _ -> Some (Del (nat_of_int c))
          | "ER", _ -> Some (Upd (UEnableR, nat_of_int c))
          | "DR", _ -> Some (Upd (UDisableR, nat_of_int c))
          | "EW", _ -> Some (Upd (UEnableW, nat_of_int c))
          | "DW", _ -> Some (Upd (UDisableW, nat_of_int c))
          | "DA", _ -> Some (Upd (UDisableAll, nat_of_int c))
          | "RM", _ -> Some (Remove (nat_of_int c))
          | _ -> None) in
        (match o with
         | None -> print_string "invalid unknown op\n"; bad := true
         | Some o ->
           if c < 0 || c >= maxch then (print_string "invalid\n"; bad := true) else begin
           hic := max !hic (c + 1);
           (* the two sides are independent; a precondition violation rejects on both *)
           let re = (match !e with None -> `Dead | Some st -> (match ep_step st o with
               | Ok (st', _) -> `Ok (Some st') | Rejected -> `Rej | Fault -> `Fault)) in
           let rp = (match !p with None -> `Dead | Some st -> (match pp_step_current st o with
               | Ok (st', _) -> `Ok st' | Rejected -> `Rej | Fault -> `Fault)) in
           let status = (match re, rp with
             | `Rej, (`Rej | `Dead) | `Dead, `Rej -> "rejected"
             | `Fault, _ -> e := None; (match rp with `Ok st' -> p := Some st' | `Fault -> p := None | _ -> ()); "FAULT-E"
             | _, `Fault -> p := None; (match re with `Ok st' -> e := st' | _ -> ()); "FAULT-P"
             | _, _ ->
               (match re with `Ok st' -> e := st' | _ -> ());
               (match rp with `Ok st' -> p := Some st' | _ -> ());
               (match re, rp with
                | `Rej, `Ok _ | `Ok _, `Rej -> "MIXED"
                | _ -> "ok")) in
           (if status = "ok" then (match o with New _ -> incr alive | Del _ -> decr alive | _ -> ()));
           if String.length status >= 5 && String.sub status 0 5 = "FAULT" then Printf.printf "%s\n" status
           else if !alive > 16 then Printf.printf "%s big\n" status
           else Printf.printf "%s %s\n" status (state_string !e !p !hic !hif)
           end);
        flush stdout
    | _ -> print_string "invalid unknown op\n"; bad := true; flush stdout
  done with End_of_file -> ())
