(* C09 runner: same case format as harness/C09_driver.cc; one canonical line per op.
   Both back-end models run the same history; a Fault of one side is printed and that side is
   dead for the rest of the case ("FAULT-P"/"FAULT-E" lines).  The epoll choice is "the first
   min(n,cap) ready entries"; for a truncated poll the checker compares sets (see lib/props/C09.py).
   LOOP = one iteration of EventLoop::loop() (extracted loop_iter_full: poll, dispatch of the snapshot
   with the scripted callbacks, doPendingFunctors with the functors the callbacks queued); the epoll
   dispatch order is the kernel's: it is taken from the implementation's line (order=c1,c2,.. appended
   by the checker), validated to be a min(n,cap)-part of the model's ready set and turned into the
   [choice] argument (trace validation).  Tie state is per side (a callback may construct a fresh,
   untied Channel object on one side only). *)
let maxch = 400 and maxfd = 400
let soi = string_of_int
let sz z = string_of_z z
let sn x = soi (int_of_n x)
let cat = String.concat ","
let range n = List.init n (fun i -> i)
let idx_string (objs : nat -> chan option) (hi:int) : string =
  cat (List.filter_map (fun c -> match objs (nat_of_int c) with
    | Some ch -> Some (soi c ^ ":" ^ sz ch.index ^ "/" ^ sn ch.events) | None -> None) (range hi))
let map_string (m : nat -> nat option) (hi:int) : string =
  cat (List.filter_map (fun f -> match m (nat_of_int f) with
    | Some c -> Some (soi f ^ ">" ^ soi (int_of_nat c)) | None -> None) (range hi))
let state_string (e: ep option) (p: pp option) (hic:int) (hif:int) : string =
  let es = match e with None -> "E{dead}" | Some e ->
    let kern = List.sort compare (List.map (fun k -> (int_of_nat k.k_fd, int_of_n k.k_ev)) e.e_kern) in
    "E{idx=" ^ idx_string e.e_objs hic ^ " map=" ^ map_string e.e_map hif ^ " kern=" ^
    cat (List.map (fun (f,v) -> soi f ^ ":" ^ soi v) kern) ^ " cap=" ^ soi (int_of_nat e.e_cap) ^
    " kerr=" ^ soi (int_of_nat e.e_kerr) ^ "}" in
  let ps = match p with None -> "P{dead}" | Some p ->
    "P{idx=" ^ idx_string p.p_objs hic ^ " map=" ^ map_string p.p_map hif ^ " pfds=" ^
    cat (List.map (fun q -> sz q.p_fd ^ ":" ^ sn q.p_ev) p.p_pfds) ^ "}" in
  es ^ " " ^ ps
let alive_count (e: ep option) (p: pp option) (hic:int) : int =
  List.length (List.filter (fun c ->
    (match e with Some st -> st.e_objs (nat_of_int c) <> None | None -> false) ||
    (match p with Some st -> st.p_objs (nat_of_int c) <> None | None -> false)) (range hic))
let cbname = function CbClose -> "close" | CbError -> "error" | CbRead -> "read" | CbWrite -> "write"
let act_string (a : (nat * n) list) : string =
  let l = List.sort compare (List.map (fun (c, r) -> (int_of_nat c, int_of_n r)) a) in
  cat (List.map (fun (c, r) -> soi c ^ ":" ^ soi r) l)
let cb_string (runs : nat -> bool) (a : (nat * n) list) : string =
  let l = List.sort (fun (c1,_) (c2,_) -> compare (int_of_nat c1) (int_of_nat c2)) a in
  cat (List.map (fun (c, k) -> soi (int_of_nat c) ^ ":" ^ cbname k) (callbacks_g runs l))
let parse_ready (ws : string list) : (int * int) list =
  List.map (fun w -> match String.split_on_char ':' w with
    | [k; b] -> (int_of_string k, int_of_string b) | _ -> failwith "bad POLL entry") ws
let act_string_ordered (a : (nat * n) list) : string =
  cat (List.map (fun (c, r) -> soi (int_of_nat c) ^ ":" ^ soi (int_of_n r)) a)
let log_string (l : (nat * cb) list) : string =
  cat (List.map (fun (c, k) -> soi (int_of_nat c) ^ ":" ^ cbname k) l)
let cb_of_name = function "read" -> CbRead | "write" -> CbWrite | "close" -> CbClose | _ -> CbError
let uop_of_name = function "ER" -> UEnableR | "DR" -> UDisableR | "EW" -> UEnableW | "DW" -> UDisableW | _ -> UDisableAll
let op_of (name : string) (c : int) (arg : int) : op option =
  let c' = nat_of_int c in
  match name with
  | "NEW" -> Some (New (c', nat_of_int arg))
  | "DEL" -> Some (Del c')
  | "RM" -> Some (Remove c')
  | "ER" | "DR" | "EW" | "DW" | "DA" -> Some (Upd (uop_of_name name, c'))
  | _ -> None
(* indices that make [pick] return the entries of [full] in the given channel order *)
let choice_of_order (order : int list) (full : (nat * n) list) : nat list option =
  let rec go order l = match order with
    | [] -> Some []
    | c :: t ->
      let rec idx i = function [] -> None | (c', _) :: r -> if int_of_nat c' = c then Some i else idx (i + 1) r in
      (match idx 0 l with
       | None -> None
       | Some i ->
         let l' = List.filteri (fun j _ -> j <> i) l in
         (match go t l' with None -> None | Some rest -> Some (nat_of_int i :: rest))) in
  go order full
type script = { s_c : int; s_kind : cb; s_queued : int; s_op : op; s_active : bool }    (* s_queued: 0 direct, 1 Q, 2 QQ *)
let () =
  let e = ref (Some ep_init) and p = ref (Some pp_init) in
  let hic = ref 0 and hif = ref 0 in
  (* tie state per side: index 0 = epoll side, 1 = poll side *)
  let tied = [| Array.make maxch false; Array.make maxch false |]
  and owner = [| Array.make maxch false; Array.make maxch false |] in
  let scripts : script list ref = ref [] in
  let runs side (c : nat) : bool =
    let i = int_of_nat c in if i < maxch then handle_runs tied.(side).(i) owner.(side).(i) else true in
  let handler (c : nat) (k : cb) : op list =
    List.filter_map (fun s -> if s.s_active && s.s_c = int_of_nat c && s.s_kind = k && s.s_queued = 0 then Some s.s_op else None) !scripts in
  let hq (c : nat) (k : cb) : nat list =
    List.concat (List.mapi (fun i s -> if s.s_active && s.s_c = int_of_nat c && s.s_kind = k && s.s_queued > 0 then [nat_of_int i] else []) !scripts) in
  (* functor i (< 1000) = what script i queues; a QQ functor only queues functor 1000+i, which makes the call *)
  let fb (i : nat) : op list * nat list =
    let i = int_of_nat i in
    if i >= 1000 then (match List.nth_opt !scripts (i - 1000) with Some s -> ([s.s_op], []) | None -> ([], []))
    else (match List.nth_opt !scripts i with
          | Some s -> if s.s_queued = 2 then ([], [nat_of_int (1000 + i)]) else ([s.s_op], [])
          | None -> ([], [])) in
  (* the loop's own descriptors (open k W / open k T): environment, channels constructed on them, pending functors per side *)
  let wdesc = ref 99999 and tdesc = ref 99999 and wch = ref 99999 and tch = ref 99999 in
  let special = ref false in
  let kw = ref 0 and kt = ref 0 and armed = ref 0 in
  let pending = [| ref ([] : nat list); ref ([] : nat list) |] in
  let wake_rd = handleRead_env eventLoop_handleRead_reads_wakeupfd eventLoop_eventfd_semaphore eventLoop_handleRead_read_size in
  let timer_rd = timerRead_env timerQueue_handleRead_reads_timerfd timerQueue_readTimerfd_read_size in
  let qw = eventLoop_queueInLoop_wake_guard in
  (* a fresh Channel object is untied: after every step, forget the tie of every id that is not alive on that side *)
  let sync_ties () =
    for c = 0 to !hic - 1 do
      (match !e with Some st -> if st.e_objs (nat_of_int c) = None then (tied.(0).(c) <- false; owner.(0).(c) <- false) | None -> ());
      (match !p with Some st -> if st.p_objs (nat_of_int c) = None then (tied.(1).(c) <- false; owner.(1).(c) <- false) | None -> ())
    done in
  (* a NEW executed inside a batch (its callback / functor ran and the iteration succeeded) made a fresh, untied object *)
  let untie_created side (log : (nat * cb) list) (ran : nat list) =
    let created = List.concat (List.map (fun (c, k) -> handler c k) log) @ List.concat (List.map (fun i -> fst (fb i)) ran) in
    List.iter (fun o -> match o with
      | New (c, _) -> let ci = int_of_nat c in if ci < maxch then (tied.(side).(ci) <- false; owner.(side).(ci) <- false)
      | _ -> ()) created in
  let note_op (o : op) = (match o with
    | New (c, f) -> hic := max !hic (int_of_nat c + 1); hif := max !hif (int_of_nat f + 1);
        if int_of_nat f = !wdesc then wch := int_of_nat c;
        if int_of_nat f = !tdesc then tch := int_of_nat c
    | _ -> ()) in
  let loopcase = ref false in
  let bad = ref false in
  (try while true do
    let line = input_line stdin in
    match split_ws line with
    | [] -> ()
    | "case" :: id :: rest ->
        e := Some ep_init; p := Some pp_init; hic := 0; hif := 0; bad := false;
        wdesc := 99999; tdesc := 99999; wch := 99999; tch := 99999; special := false; kw := 0; kt := 0; armed := 0;
        pending.(0) := []; pending.(1) := [];
        List.iter (fun w -> if w = "only=E" then p := None else if w = "only=P" then e := None) rest;
        Array.iter (fun a -> Array.fill a 0 maxch false) tied; Array.iter (fun a -> Array.fill a 0 maxch false) owner;
        scripts := [];
        Printf.printf "case %s abi=1,2,4,8,16,32,8192 epoll_eq_poll=1\n" id;
        (match rest with
         | ["loop"; b] -> loopcase := true;
             Printf.printf "loop backend=%s poller=%s idle1=blocked wake=ok idle2=blocked task=ok idle3=blocked nested=ok idle3b=blocked timer=ok idle4=blocked\n"
               b (if b = "poll" then "PollPoller" else "EPollPoller")
         | _ -> loopcase := false);
        flush stdout
    | ["end"] -> print_string "end\n"; flush stdout
    | _ when !loopcase -> ()
    | _ when !bad -> print_string "skipped\n"; flush stdout
    | ["open"; k; "W"] -> wdesc := int_of_string k; special := true; print_string "env\n"; flush stdout
    | ["open"; k; "T"] -> tdesc := int_of_string k; special := true; print_string "env\n"; flush stdout
    | ("open" | "wr" | "drain" | "hc" | "pc" | "fill" | "unfill" | "close") :: _ -> print_string "env\n"; flush stdout
    | ["WAKE"] -> incr kw; print_string "wake\n"; flush stdout
    | ["TIMER"] -> incr kt; incr armed; print_string "timer\n"; flush stdout
    | ["HAS"; cs] ->
        let c = nat_of_int (int_of_string cs) in
        let b x = if x then "1" else "0" in
        Printf.printf "has E=%s P=%s\n" (match !e with None -> "-" | Some st -> b (ep_hasChannel st c))
          (match !p with None -> "-" | Some st -> b (pp_hasChannel st c)); flush stdout
    | "FOREIGN" :: _ -> print_string "FAULT-NOT-IN-LOOP-THREAD (abortNotInLoopThread)\n"; flush stdout
    | ["INJ"; cs; bits] ->
        let ci = int_of_string cs in
        let ks = if ci >= 0 && ci < maxch then handle_event tied.(0).(ci) owner.(0).(ci) (n_of_int (int_of_string bits))
                 else dispatch (n_of_int (int_of_string bits)) in
        Printf.printf "inj cb=%s\n" (cat (List.map (fun k -> cs ^ ":" ^ cbname k) ks)); flush stdout
    | ["TIE"; cs] ->
        let ci = int_of_string cs in
        (match !e with Some st when st.e_objs (nat_of_int ci) <> None -> tied.(0).(ci) <- true; owner.(0).(ci) <- true | _ -> ());
        (match !p with Some st when st.p_objs (nat_of_int ci) <> None -> tied.(1).(ci) <- true; owner.(1).(ci) <- true | _ -> ());
        print_string "tie\n"; flush stdout
    | ["DROP"; cs] -> let ci = int_of_string cs in owner.(0).(ci) <- false; owner.(1).(ci) <- false; print_string "drop\n"; flush stdout
    | "ON" :: cs :: kind :: rest ->
        let queued, rest = (match rest with "Q" :: r -> 1, r | "QQ" :: r -> 2, r | r -> 0, r) in
        (match rest with
         | opn :: c2s :: more ->
           let arg = (match more with a :: _ -> int_of_string a | [] -> 0) in
           (match op_of opn (int_of_string c2s) arg with
            | Some o -> note_op o;
                scripts := !scripts @ [{ s_c = int_of_string cs; s_kind = cb_of_name kind; s_queued = queued; s_op = o; s_active = true }];
                print_string "on\n"
            | None -> print_string "invalid ON\n"; bad := true)
         | _ -> print_string "invalid ON\n"; bad := true);
        flush stdout
    | ["OFF"] -> scripts := List.map (fun s -> { s with s_active = false }) !scripts; print_string "off\n"; flush stdout
    | "LOOP" :: ws ->
        let order = List.fold_left (fun acc w ->
          if String.length w >= 6 && String.sub w 0 6 = "order=" then
            Some (List.filter_map (fun x -> if x = "" then None else Some (int_of_string x))
                    (String.split_on_char ',' (String.sub w 6 (String.length w - 6))))
          else acc) None ws in
        let ws = List.filter (fun w -> not (String.length w >= 6 && String.sub w 0 6 = "order=")) ws in
        let rd = List.filter (fun (k, _) -> k <> !wdesc && k <> !tdesc) (parse_ready ws) in
        let k_rd (f:nat) : n = (match List.assoc_opt (int_of_nat f) rd with Some b -> n_of_int b | None -> N0) in
        let wfd = nat_of_int !wdesc and tfd = nat_of_int !tdesc in
        let env0 = { k_wake = n_of_int !kw; k_texp = n_of_int !kt; k_rd = k_rd } in
        (* what a raw poll of every open descriptor shows before the iteration (the loop's own ones from the model's environment) *)
        (* the driver queues quit() before loop() is entered: in the loop thread, not calling functors, NOT looping;
           with the loop's own descriptors open it does so before it observes the descriptors *)
        let env1 = if qw true false false then wake_add (nat_of_int 1) env0 else env0 in
        let all = rd @ (if !wdesc < 99999 then [(!wdesc, int_of_n (env_ready wfd tfd env1 wfd))] else [])
                     @ (if !tdesc < 99999 then [(!tdesc, int_of_n (env_ready wfd tfd env1 tfd))] else []) in
        let env = cat (List.map (fun (k,b) -> soi k ^ ":" ^ soi b) (List.sort compare (List.filter (fun (_,b) -> b <> 0) all))) in
        let ready = env_ready wfd tfd env1 in
        let eff = loop_effects wake_rd timer_rd (nat_of_int !wch) (nat_of_int !tch) (fun _ _ x -> x) in
        let fn_string l = cat (List.map (fun i -> soi (int_of_nat i)) l) in
        let after = ref None in
        let tail side (e' : kenv) (log : (nat * cb) list) =
          after := Some e';
          if not !special then "" else begin
            let fired = List.exists (fun (c, k) -> int_of_nat c = !tch && k = CbRead) log in
            let tf = if fired then !armed else 0 in
            ignore side;
            Printf.sprintf " w=%d t=%d tf=%d" (int_of_n e'.k_wake) (if int_of_n e'.k_texp > 0 then 1 else 0) tf end in
        let es = (match !e with None -> "E dead" | Some st ->
          let full = ep_full st ready in
          let n = min (List.length full) (int_of_nat st.e_cap) in
          let choice = (match order with
            | None -> Some []
            | Some ord -> if List.length ord <> n then None else choice_of_order ord full) in
          (match choice with
           | None -> "E order-not-a-part-of-the-ready-set full=[" ^ act_string full ^ "]"
           | Some ch ->
             (match loop_iter_full_env ep_step_current handler hq fb (runs 0) eff qw wfd tfd st env1 !(pending.(0)) ch with
              | Ok (((st', e'), pend'), ((act, log), ran)) -> e := Some st'; untie_created 0 log ran; pending.(0) := pend';
                  Printf.sprintf "E ok n=%d cap=%d [%s] cb=%s fn=%s%s" (List.length act) (int_of_nat st'.e_cap)
                    (act_string_ordered act) (log_string log) (fn_string ran) (tail 0 e' log)
              | Rejected ->
                  (* the batch hit a violated precondition: show what was polled, the side is dead *)
                  let s = (match ep_step_current st (Poll (ready, ch)) with
                    | Ok (st', act) -> Printf.sprintf "E rejected n=%d cap=%d [%s]" (List.length act) (int_of_nat st'.e_cap) (act_string_ordered act)
                    | _ -> "E rejected") in
                  e := None; s
              | Fault -> e := None; "E FAULT"))) in
        let ps = (match !p with None -> "P dead" | Some st ->
          (match loop_iter_full_env pp_step_current handler hq fb (runs 1) eff qw wfd tfd st env1 !(pending.(1)) [] with
           | Ok (((st', e'), pend'), ((act, log), ran)) -> p := Some st'; untie_created 1 log ran; pending.(1) := pend';
               Printf.sprintf "P ok n=%d [%s] cb=%s fn=%s%s" (List.length act) (act_string_ordered act) (log_string log) (fn_string ran) (tail 1 e' log)
           | Rejected ->
               let s = (match pp_step_current st (Poll (ready, [])) with
                 | Ok (_, act) -> Printf.sprintf "P rejected n=%d [%s]" (List.length act) (act_string_ordered act)
                 | _ -> "P rejected") in
               p := None; s
           | Fault -> p := None; "P FAULT")) in
        (* the loop's own descriptors exist once: with them open a case runs on one side only *)
        (match !after with
         | Some e' -> kw := int_of_n e'.k_wake; kt := int_of_n e'.k_texp;
             if int_of_n e'.k_texp = 0 then armed := 0
         | None -> kw := int_of_n env1.k_wake);
        sync_ties ();
        Printf.printf "loop env=%s %s | %s || %s\n" env es ps
          (if alive_count !e !p !hic > 16 then "big" else state_string !e !p !hic !hif);
        if !e = None && !p = None then bad := true;
        flush stdout
    | "POLL" :: _ when !special -> print_string "invalid POLL with the loop's own descriptors open: use LOOP\n"; bad := true; flush stdout
    | "POLL" :: ws ->
        let rd = parse_ready ws in
        let ready (f:nat) : n = (match List.assoc_opt (int_of_nat f) rd with Some b -> n_of_int b | None -> N0) in
        let env = cat (List.map (fun (k,b) -> soi k ^ ":" ^ soi b) (List.sort compare (List.filter (fun (_,b) -> b <> 0) rd))) in
        let es = (match !e with None -> "E dead [] cb=" | Some st ->
          let full = ep_full st ready in
          (match ep_step_current st (Poll (ready, [])) with
           | Ok (st', act) -> e := Some st';
               Printf.sprintf "E n=%d cap=%d [%s] cb=%s" (List.length act) (int_of_nat st'.e_cap) (act_string full) (cb_string (runs 0) full)
           | Rejected -> "E rejected"
           | Fault -> e := None; "E FAULT")) in
        let ps = (match !p with None -> "P dead [] cb=" | Some st ->
          (match pp_step_current st (Poll (ready, [])) with
           | Ok (st', act) -> p := Some st';
               Printf.sprintf "P n=%d [%s] cb=%s" (List.length act) (act_string act) (cb_string (runs 1) act)
           | Rejected -> "P rejected"
           | Fault -> p := None; "P FAULT")) in
        Printf.printf "poll env=%s %s | %s\n" env es ps; flush stdout
    | [k; a] | [k; a; _] as w ->
        let c = int_of_string a in
        let arg = (match w with [_; _; f] -> int_of_string f | _ -> 0) in
        (match (if c < 0 || c >= maxch then None else op_of k c arg) with
         | None -> print_string "invalid unknown op\n"; bad := true
         | Some o ->
           note_op o; hic := max !hic (c + 1);
           (* the two sides are independent; a precondition violation rejects on both *)
           let re = (match !e with None -> `Dead | Some st -> (match ep_step_current st o with
               | Ok (st', _) -> `Ok (Some st') | Rejected -> `Rej | Fault -> `Fault)) in
           let rp = (match !p with None -> `Dead | Some st -> (match pp_step_current st o with
               | Ok (st', _) -> `Ok st' | Rejected -> `Rej | Fault -> `Fault)) in
           let status = (match re, rp with
             | `Rej, (`Rej | `Dead) | `Dead, `Rej -> "rejected"
             | `Fault, _ -> e := None; (match rp with `Ok st' -> p := Some st' | `Fault -> p := None | _ -> ()); "FAULT-E"
             | _, `Fault -> p := None; (match re with `Ok st' -> e := st' | _ -> ()); "FAULT-P"
             | `Rej, `Ok _ | `Ok _, `Rej -> "MIXED"
             | _, _ ->
               (match re with `Ok st' -> e := st' | _ -> ());
               (match rp with `Ok st' -> p := Some st' | _ -> ());
               "ok") in
           sync_ties ();
           if status = "MIXED" then (print_string "MIXED\n"; bad := true)
           else if String.length status >= 5 && String.sub status 0 5 = "FAULT" then Printf.printf "%s\n" status
           else if alive_count !e !p !hic > 16 then Printf.printf "%s big\n" status
           else Printf.printf "%s %s\n" status (state_string !e !p !hic !hif));
        flush stdout
    | _ -> print_string "invalid unknown op\n"; bad := true; flush stdout
  done with End_of_file -> ())
