(* C14 trace validator.  Input per case (see harness/C14_driver.cc):
     case <id> kind=bq|bbq|latch [cap=N] [count=N] ...
     <program lines>            ops separated by ';'
     trace
     <the implementation's output lines: t ... / c ... / e ... / DEADLOCK / d ... / final ...>
     end
   Every relevant trace line is mapped to a label of Conc_Model.step and must be enabled in the
   model and produce the same result / observers; the first disagreement is reported.
   Output: "case <id>", then "accepted <n>" or "REJECT <line no>: <reason> | <line>", "end". *)
exception Reject of string
let rej fmt = Printf.ksprintf (fun s -> raise (Reject s)) fmt

type ('s, 'o) mon = {
  body : 'o -> 's -> ('s, qres) outcome;
  parse_op : string list -> 'o;
  show_op : 'o -> string;
  size : 's -> int;
  show_state : 's -> string;
  nconds : int;
}

let show_list l = if l = [] then "-" else String.concat "," (List.map string_of_z l)
let show_res (r : qres) : string = match r with
  | RUnit -> "-"
  | RVal v -> string_of_z v
  | RList l -> show_list l
  | RSize n -> string_of_int (int_of_nat n)
  | RBool b -> if b then "1" else "0"
  | RInt z -> string_of_z z

let bq_mon = {
  body = bq_body;
  parse_op = (function ["put"; v] -> BPut (z_of_string v) | ["take"] -> BTake | ["drain"] -> BDrain
                     | ["size"] -> BSize | w -> failwith ("bad bq op " ^ String.concat " " w));
  show_op = (function BPut v -> "put" | BTake -> "take" | BDrain -> "drain" | BSize -> "size");
  size = List.length; show_state = (fun q -> "queue=" ^ show_list q); nconds = 1 }
let bbq_mon cap = {
  body = bbq_body (nat_of_int cap);
  parse_op = (function ["put"; v] -> QPut (z_of_string v) | ["take"] -> QTake | ["size"] -> QSize
                     | ["empty"] -> QEmpty | ["full"] -> QFull | ["capacity"] -> QCapacity
                     | w -> failwith ("bad bbq op " ^ String.concat " " w));
  show_op = (function QPut _ -> "put" | QTake -> "take" | QSize -> "size" | QEmpty -> "empty" | QFull -> "full"
                    | QCapacity -> "capacity");
  size = List.length; show_state = (fun q -> "queue=" ^ show_list q); nconds = 2 }
let latch_mon = {
  body = latch_body;
  parse_op = (function ["cd"] -> LCountDown | ["wait"] -> LWait | ["count"] -> LGetCount
                     | w -> failwith ("bad latch op " ^ String.concat " " w));
  show_op = (function LCountDown -> "cd" | LWait -> "wait" | LGetCount -> "count");
  size = int_of_z; show_state = (fun c -> "count=" ^ string_of_z c); nconds = 1 }

let split_prog (w : string list) : string list list =
  let rec go cur acc = function
    | [] -> List.rev (if cur = [] then acc else List.rev cur :: acc)
    | ";" :: r -> go [] (if cur = [] then acc else List.rev cur :: acc) r
    | x :: r -> go (x :: cur) acc r in
  if w = ["-"] then [] else go [] [] w

let tnum s = int_of_string (String.sub s 1 (String.length s - 1))   (* "T3" -> 3, "c1" -> 1 *)
let obs_of (w : string list) key =
  let p = key ^ "=" in
  let n = String.length p in
  match List.find_opt (fun t -> String.length t >= n && String.sub t 0 n = p) w with
  | Some t -> Some (String.sub t n (String.length t - n)) | None -> None

type pend = PSig of int * int option | PBcast of int * int list

let validate (m : ('s, 'o) mon) (s0 : 's) (progs : string list list list) (lines : string list) : unit =
  let sys = ref (init_sys s0 (List.map (List.map m.parse_op) progs)) in
  let nthreads = List.length progs in
  let pending : (int, pend list) Hashtbl.t = Hashtbl.create 8 in
  let lastres : (int, string) Hashtbl.t = Hashtbl.create 8 in
  let nsteps = ref 0 in
  let relevant_cond c = String.length c > 1 && c.[0] = 'c' && tnum c < m.nconds in
  let thread_of t = let i = tnum t - 1 in if i < 0 || i >= nthreads then rej "thread %s is not a program thread" t else i in
  let th i = List.nth !sys.threads i in
  let do_step l what = match step m.body !sys l with
    | Some s' -> sys := s'; incr nsteps
    | None -> rej "model: %s is not enabled" what in
  let check_n w = match obs_of w "n" with
    | Some n when int_of_string n <> m.size !sys.shared -> rej "observer n=%s but the model has %s" n (m.show_state !sys.shared)
    | _ -> () in
  let check_h w expect = match obs_of w "h" with
    | Some h when h <> expect -> rej "holder_ observed %s, model says %s" h expect
    | _ -> () in
  let waiting_on c i = is_waiting (nat_of_int c) (th i) in
  let all_waiters c = List.filter (waiting_on c) (List.init nthreads (fun i -> i)) in
  let handle (w : string list) = match w with
    | "t" :: _ :: t :: "lock" :: "m0" :: _ ->
        let i = thread_of t in do_step (LAcquire (nat_of_int i)) ("lock by " ^ t); check_n w
    | "t" :: _ :: t :: "sig" :: c :: res :: _ when relevant_cond c ->
        let i = thread_of t in
        (match !sys.owner with Some o when int_of_nat o = i -> () | _ -> rej "%s notifies %s without holding the mutex in the model" t c);
        check_h w t;
        let pick = if res = "none" then None else Some (thread_of res) in
        Hashtbl.replace pending i ((try Hashtbl.find pending i with Not_found -> []) @ [PSig (tnum c, pick)])
    | "t" :: _ :: t :: "bcast" :: c :: res :: _ when relevant_cond c ->
        let i = thread_of t in
        (match !sys.owner with Some o when int_of_nat o = i -> () | _ -> rej "%s notifies %s without holding the mutex in the model" t c);
        check_h w t;
        let l = if res = "none" then [] else List.map thread_of (String.split_on_char ',' res) in
        Hashtbl.replace pending i ((try Hashtbl.find pending i with Not_found -> []) @ [PBcast (tnum c, List.sort compare l)])
    | "t" :: _ :: t :: (("unlock" | "wait") as k) :: o1 :: o2 :: _ when (k = "unlock" && o1 = "m0") || (k = "wait" && o2 = "m0") ->
        let i = thread_of t in
        let thr = th i in
        (match thr.st, thr.prog with
         | InCS, o :: _ ->
             let pend = (try Hashtbl.find pending i with Not_found -> []) in
             Hashtbl.remove pending i;
             (match m.body o !sys.shared with
              | Block c ->
                  if k <> "wait" then rej "%s unlocks, the model's %s waits on c%d" t (m.show_op o) (int_of_nat c);
                  if o1 <> "c" ^ string_of_int (int_of_nat c) then rej "%s waits on %s, the model on c%d" t o1 (int_of_nat c);
                  if pend <> [] then rej "%s notified before waiting, the model does not" t;
                  do_step (LBody (nat_of_int i, [])) "wait"
              | Ret (_, r, sg) ->
                  if k <> "unlock" then rej "%s waits on %s, the model's %s returns" t o1 (m.show_op o);
                  if List.length sg <> List.length pend then
                    rej "%s issued %d notification(s), the model %d" t (List.length pend) (List.length sg);
                  let picks = List.concat (List.map2 (fun s p -> match s, p with
                    | Notify c, PSig (c', pick) when int_of_nat c = c' ->
                        (match pick with
                         | None -> if all_waiters c' <> [] then rej "notify c%d released nobody although the model has waiters" c'; [O]
                         | Some j -> if not (waiting_on c' j) then rej "notify c%d released T%d which does not wait on it in the model" c' (j + 1);
                                     [nat_of_int j])
                    | NotifyAll c, PBcast (c', l) when int_of_nat c = c' ->
                        if all_waiters c' <> l then rej "notifyAll c%d released a different set than the model's wait set" c'; []
                    | _ -> rej "%s: notification kind/condition differs from the model's" t) sg pend) in
                  do_step (LBody (nat_of_int i, picks)) "unlock";
                  Hashtbl.replace lastres i (m.show_op o ^ " " ^ show_res r));
             check_n w; check_h w "-"
         | _ -> rej "%s %ss but is not inside the critical section in the model" t k)
    | "t" :: _ :: t :: "spur" :: c :: _ when relevant_cond c ->
        let i = thread_of t in
        if not (waiting_on (tnum c) i) then rej "spurious wake-up of %s which does not wait on %s in the model" t c;
        do_step (LSpurious (nat_of_int i)) "spurious wake-up"
    | "t" :: _ :: t :: "tmo" :: c :: _ when relevant_cond c -> rej "time-out on %s: the C14 monitors have no timed wait" c
    | "t" :: _ :: t :: "wake" :: c :: _ when relevant_cond c ->
        let i = thread_of t in do_step (LReacquire (nat_of_int i)) ("wake of " ^ t); check_n w
    | "t" :: _ :: _ :: k :: o :: r :: _ when (o = "m0" || r = "m0") -> rej "unexpected action %s on the monitor's mutex" k
    | "e" :: t :: "r" :: _ :: rest ->
        let i = thread_of t in
        let got = String.concat " " rest in
        let exp = (try Hashtbl.find lastres i with Not_found -> "?") in
        (* the driver logs "put <v>"; put() itself returns nothing *)
        let got' = (match rest with ["put"; _] -> "put -" | _ -> got) in
        if got' <> exp then rej "%s returned '%s', the model '%s'" t got exp;
        Hashtbl.remove lastres i
    | "DEADLOCK" :: _ | "STEPLIMIT" :: _ ->
        for i = 0 to nthreads - 1 do
          if step m.body !sys (LAcquire (nat_of_int i)) <> None || step m.body !sys (LReacquire (nat_of_int i)) <> None
             || step m.body !sys (LBody (nat_of_int i, [])) <> None
          then rej "implementation is stuck but the model can still move T%d" (i + 1)
        done
    | ["final"; st] -> if st <> m.show_state !sys.shared then rej "final %s, the model has %s" st (m.show_state !sys.shared)
    | _ -> () in
  let lineno = ref 0 in
  (try
     List.iter (fun l -> incr lineno; handle (split_ws l)) lines;
     Printf.printf "accepted %d\n" !nsteps
   with
   | Reject r -> Printf.printf "REJECT %d: %s | %s\n" !lineno r (List.nth lines (!lineno - 1))
   | Failure r -> Printf.printf "REJECT %d: glue failure %s | %s\n" !lineno r (List.nth lines (!lineno - 1))
   | Invalid_argument r -> Printf.printf "REJECT %d: glue failure %s | %s\n" !lineno r (List.nth lines (!lineno - 1)))

let () =
  let kind = ref "bq" and cap = ref 1 and count = ref 1 in
  let progs = ref [] and lines = ref [] and intrace = ref false in
  (try while true do
    let line = input_line stdin in
    match split_ws line with
    | [] -> ()
    | "case" :: id :: rest ->
        progs := []; lines := []; intrace := false;
        List.iter (fun t -> match String.split_on_char '=' t with
          | ["kind"; v] -> kind := v | ["cap"; v] -> cap := int_of_string v
          | ["count"; v] -> count := int_of_string v | _ -> ()) rest;
        Printf.printf "case %s\n" id
    | ["trace"] -> intrace := true
    | ["end"] ->
        let ls = List.rev !lines in
        let ps = List.rev !progs in
        (match !kind with
         | "bq" -> validate bq_mon [] ps ls
         | "bbq" -> validate (bbq_mon !cap) [] ps ls
         | _ -> validate latch_mon (z_of_int !count) ps ls);
        print_string "end\n"; flush stdout; intrace := false
    | w -> if !intrace then lines := line :: !lines else progs := split_prog w :: !progs
  done with End_of_file -> ())
