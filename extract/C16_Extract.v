(* extraction of the C16 models: ExtrOcamlBasic only (DESIGN section 7) *)
From Coq Require Extraction.
From Coq Require Import ExtrOcamlBasic.
From Coq Require Import List ZArith NArith.
From Coq.Strings Require Import Byte.
From Muduo Require Import Base_Bytes C16_Model C16_MonModel C16_NamesModel.
Extraction "model.ml" C16_Model.lf_new C16_Model.lf_append C16_Model.do_flush C16_Model.roll
  C16_Model.files_in_order C16_Model.current_params C16_Model.params_ok
  C16_Model.do_close C16_MonModel.xm_init C16_MonModel.xm_section C16_MonModel.xm_files C16_MonModel.xm_left
  C16_NamesModel.xstamp
  C16_Model.xinit C16_Model.xappend C16_Model.xback C16_Model.xstop C16_Model.xjoin
  Base_Bytes.xbyte_of_N Base_Bytes.xN_of_byte Base_Bytes.xanchor.
