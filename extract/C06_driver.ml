(* C06/C07 model runner: same case format and output as harness/C06_driver.cc.
   Timers are named by tags in the case file; the runner keeps tag -> (addr, seq) exactly as
   the C++ driver keeps tag -> TimerId.  Addresses are the environment's choice: they come
   from `addr <tag> <n>` lines (the real allocator's addresses, order-preserving renamed). *)
let zi = z_of_int
let iz = int_of_z
let addr_tab : (int, int) Hashtbl.t = Hashtbl.create 64
let ids : (int, int * int) Hashtbl.t = Hashtbl.create 64
let show_event (e: event) : string = match e with
  | ERun (s, d, n, t) -> Printf.sprintf "run(%d,%d,%d,%d)" (iz s) (iz d) (iz n) (iz t)
  | EArm (a, r) -> Printf.sprintf "arm(%d,%d)" (iz a) (iz r)
  | EAdd (s, _, _, _) -> Printf.sprintf "add(%d)" (iz s)
  | ERejected -> "rejected"
let show_events evs = if evs = [] then "-" else String.concat " " (List.map show_event evs)
let show_state (st: state) : string =
  Printf.sprintf "n=%d a=%d c=%d p=%d arm=%s" (List.length st.timers) (List.length st.active)
    (List.length st.canceling) (List.length st.pending)
    (match st.armed with None -> "-" | Some a -> string_of_int (iz a))
(* split a token list on a separator token *)
let split_on (sep: string) (l: string list) : string list list =
  let rec go cur acc = function
    | [] -> List.rev (List.rev cur :: acc)
    | x :: r -> if x = sep then go [] (List.rev cur :: acc) r else go (x :: cur) acc r in
  go [] [] l
(* ids of timers whose foreign add is between its two micro-steps (FN done, FQ not yet): the id is not
   known to anybody else before addTimer returns *)
let inflight_ids : (int, int * int) Hashtbl.t = Hashtbl.create 16
let pending_infl : (int * (int * int)) list ref = ref []   (* FN ops of the step being executed: confirmed when it is Ok *)
(* adds inside the body of a user functor (Q { ... }) execute later, when doPendingFunctors runs the
   functor: their sequence numbers are learnt from the EAdd events of that step (matched by address) *)
let qadds : (int * int * bool) list ref = ref []      (* (addr, tag, in-flight only), oldest first *)
let learn_adds (evs: event list) : unit =
  List.iter (fun e -> match e with
    | EAdd (s, a, _, _) ->
        let a = iz a in
        let rec go acc = function
          | [] -> ()
          | (a', tag, infl) :: r when a' = a ->
              Hashtbl.replace (if infl then inflight_ids else ids) tag (a, iz s); qadds := List.rev_append acc r
          | x :: r -> go (x :: acc) r in
        go [] !qadds
    | _ -> ()) evs
(* an in-flight add whose Timer has left the in-flight set has been handed off (CFEnq is the only way out):
   addTimer has returned, the id is public *)
let publish (st: state) : unit =
  let gone = Hashtbl.fold (fun tag (a, s) acc -> if List.exists (fun x -> iz x = a) st.inflight then acc else (tag, (a, s)) :: acc)
               inflight_ids [] in
  List.iter (fun (tag, id) -> Hashtbl.remove inflight_ids tag; Hashtbl.replace ids tag id) gone
(* the interval token: an integer = microseconds (<= 0: not repeating), "<n>ns" = the double n/1e9 seconds that
   Timer::restart turns into static_cast<int64_t>(interval * 1e6) microseconds, exactly as addTime does it
   (IEEE double product, truncation).  Model encoding: -1 = not repeating, delta >= 0 = repeating *)
let iv_of (t: string) : int =
  let n = String.length t in
  if n > 2 && String.sub t (n - 2) 2 = "ns" then begin
    let ns = float_of_string (String.sub t 0 (n - 2)) in
    if ns > 0.0 then Int64.to_int (Int64.of_float ((ns /. 1e9) *. 1000000.0)) else -1
  end else (let v = int_of_string t in if v > 0 then v else -1)
(* resolve one cbop; [seqc] = the sequence counter the model will have when the op executes
   (adds that are statically acceptable consume one number); [deferred] = inside a Q body *)
let rec resolve ?(deferred=false) (seqc: int ref) (w: string list) : cbop =
  let id_of tag = try Hashtbl.find ids tag with Not_found -> (0, 0) in
  let add tag wh iv =
    let a = try Hashtbl.find addr_tab tag with Not_found -> 0 in
    if wh > 0 && a > 0 then begin
      if deferred then qadds := !qadds @ [(a, tag, false)]
      else begin incr seqc; Hashtbl.replace ids tag (a, !seqc) end
    end;
    (zi wh, zi iv, zi a) in
  match w with
  | ["T"; d] -> CTick (zi (int_of_string d))
  | ["A"; tag; wh; iv] -> let (x, y, z) = add (int_of_string tag) (int_of_string wh) (iv_of iv) in CAdd (x, y, z)
  | ["FA"; tag; wh; iv] -> let (x, y, z) = add (int_of_string tag) (int_of_string wh) (iv_of iv) in CFAdd (x, y, z)
  | ["C"; tag] -> let (a, s) = id_of (int_of_string tag) in CCancel (zi a, zi s)
  | ["FC"; tag] -> let (a, s) = id_of (int_of_string tag) in CFCancel (zi a, zi s)
  | ["FN"; tag; wh; iv] ->
      let tag = int_of_string tag and wh = int_of_string wh in
      let a = try Hashtbl.find addr_tab tag with Not_found -> 0 in
      if wh > 0 && a > 0 then begin
        if deferred then qadds := !qadds @ [(a, tag, true)]
        else begin incr seqc; pending_infl := (tag, (a, !seqc)) :: !pending_infl end
      end;
      CFNew (zi wh, zi (iv_of iv), zi a)
  | ["FQ"; tag] ->
      (* the Timer the tag's in-flight add constructed (the allocation may still lie ahead when this is a Q body) *)
      let tag = int_of_string tag in
      let known = Hashtbl.mem inflight_ids tag || List.mem_assoc tag !pending_infl
                  || List.exists (fun (_, t, infl) -> t = tag && infl) !qadds in
      (* executed now (top level / callback script): the id is public for the ops that follow in the same script;
         inside a Q body it becomes public when the functor has run (publish) *)
      (if not deferred then begin
         (match (try Some (Hashtbl.find inflight_ids tag) with Not_found -> None) with
          | Some id -> Hashtbl.remove inflight_ids tag; Hashtbl.replace ids tag id
          | None ->
              (match (try Some (List.assoc tag !pending_infl) with Not_found -> None) with
               | Some id -> pending_infl := List.remove_assoc tag !pending_infl; Hashtbl.replace ids tag id
               | None -> ()))
       end);
      CFEnq (zi (if known then (try Hashtbl.find addr_tab tag with Not_found -> 0) else 0))
  | "Q" :: "{" :: rest when not deferred ->
      let body = (match List.rev rest with "}" :: r -> List.rev r | _ -> failwith "bad Q") in
      CQueue (List.map (resolve ~deferred:true seqc) (List.filter (fun x -> x <> []) (split_on "|" body)))
  | _ -> failwith ("bad op: " ^ String.concat " " w)
let rec take n l = if n <= 0 then [] else match l with [] -> [] | x :: r -> x :: take (n-1) r
let () =
  let st = ref (init (zi 0)) in
  let dead = ref false in
  (try while true do
    let line = input_line stdin in
    match split_ws line with
    | [] -> ()
    | "case" :: id :: clk0 :: _ ->
        st := init (zi (int_of_string clk0)); dead := false;
        Hashtbl.reset addr_tab; Hashtbl.reset ids; Hashtbl.reset inflight_ids; qadds := []; pending_infl := [];
        Printf.printf "case %s\n" id; flush stdout
    | ["addr"; tag; a] -> Hashtbl.replace addr_tab (int_of_string tag) (int_of_string a)
    | ["end"] ->
        (if !dead then print_string "destroy skipped\n" else
         match destroy !st with
         | Ok n -> Printf.printf "destroy n=%d\n" (int_of_nat n)
         | _ -> print_string "destroy FAULT\n");
        print_string "end\n"; flush stdout
    | w ->
        if !dead then print_string "skipped\n" else begin
          let seqc = ref (iz !st.next_seq) in
          let o : op = match w with
            | "F" :: "[" :: rest ->
                let body = (match List.rev rest with "]" :: r -> List.rev r | _ -> failwith "bad F") in
                (* number of callbacks that will run = number of expired entries now *)
                let n = List.length (fst (ksplit (!st.clk, pTR_MAX) !st.timers)) in
                let groups = List.map (split_on ",") (split_on ";" body) in
                let groups = take n groups in
                Fire (List.map (fun g -> List.map (resolve seqc) (List.filter (fun x -> x <> []) g)) groups)
            | ["P"] -> RunPending
            | _ -> Cb (resolve seqc w) in
          (match step !st o with
           | Ok (st', evs) ->
               st := st';
               List.iter (fun (tag, id) -> Hashtbl.replace inflight_ids tag id) (List.rev !pending_infl); pending_infl := [];
               (match o with RunPending -> learn_adds evs | _ -> ());
               publish st';
               Printf.printf "ok %s | %s\n" (show_events evs) (show_state st')
           | Rejected -> pending_infl := []; Printf.printf "rejected - | %s\n" (show_state !st)
           | Fault -> dead := true; print_string "FAULT\n")
        end;
        flush stdout
  done with End_of_file -> ())
