(* C11 model runner: same case format / output as harness/C11_driver.cc *)
let errno_of = function
  | "eagain" -> errno_EAGAIN | "econnaborted" -> errno_ECONNABORTED | "eintr" -> errno_EINTR
  | "eproto" -> errno_EPROTO | "eperm" -> errno_EPERM | "emfile" -> errno_EMFILE | "ebadf" -> errno_EBADF
  | "efault" -> errno_EFAULT | "einval" -> errno_EINVAL | "enfile" -> errno_ENFILE | "enobufs" -> errno_ENOBUFS
  | "enomem" -> errno_ENOMEM | "enotsock" -> errno_ENOTSOCK | "eopnotsupp" -> errno_EOPNOTSUPP
  | "eio" -> z_of_int 5
  | s -> failwith ("errno " ^ s)
let show_ev = function NewConn -> "NewConn" | ValveClosed -> "ValveClosed" | Abort -> "Abort"
let () =
  let a = ref acc_init and mode = ref "" and lk = ref 0 and ln = ref 0 in
  (try while true do
    let line = input_line stdin in
    match split_ws line with
    | [] -> ()
    | "case" :: id :: m :: rest ->
        a := acc_init; mode := m;
        (match rest with k :: n :: _ -> lk := int_of_string k; ln := int_of_string n | _ -> ());
        Printf.printf "case %s\n" id; flush stdout
    | ["end"] -> print_string "end\n"; flush stdout
    | w ->
      if !mode = "acc" then begin
        let o = match w with
          | ["CONN"] -> Connect
          | "ACC" :: "ok" :: _ -> Dispatch AOk
          | "ACC" :: e :: _ -> Dispatch (AErr (errno_of e))
          | _ -> failwith ("bad op " ^ line) in
        let (a', evs) = astep !a o in
        a := a';
        let es = List.map show_ev evs in
        Printf.printf "ok ev=%s ready=%d handed=%d valved=%d idle=%d fds=%d\n"
          (if es = [] then "-" else String.concat "," es)
          (if int_of_nat a'.pendq > 0 then 1 else 0) (int_of_nat a'.handed) (int_of_nat a'.valved)
          (if a'.idle_ok then 1 else 0) (int_of_nat a'.open_fds - 2);
        flush stdout
      end else begin
        (* k interrupted polls dispatch nothing and keep the loop going; the n tasks run; quit ends it *)
        let alive = ref true and dispatched = ref 0 in
        for _ = 1 to !lk do
          let (n, go) = poll_iteration (PErr errno_EINTR) in
          dispatched := !dispatched + int_of_nat n; alive := !alive && go
        done;
        Printf.printf "ok ev=- ran=%d exited=%d interrupted_left=0 bounded=%d\n" !ln (if !alive then 1 else 0)
          (if !dispatched = 0 then 1 else 0);
        flush stdout
      end
  done with End_of_file -> ())
