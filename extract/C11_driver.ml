(* C11 model runner: same case format / output as harness/C11_driver.cc *)
let errno_of = function
  | "eagain" -> errno_EAGAIN | "econnaborted" -> errno_ECONNABORTED | "eintr" -> errno_EINTR
  | "eproto" -> errno_EPROTO | "eperm" -> errno_EPERM | "emfile" -> errno_EMFILE | "ebadf" -> errno_EBADF
  | "efault" -> errno_EFAULT | "einval" -> errno_EINVAL | "enfile" -> errno_ENFILE | "enobufs" -> errno_ENOBUFS
  | "enomem" -> errno_ENOMEM | "enotsock" -> errno_ENOTSOCK | "eopnotsupp" -> errno_EOPNOTSUPP
  | "eio" -> z_of_int 5
  | s -> failwith ("errno " ^ s)
let show_ev = function NewConn -> "NewConn" | ValveClosed -> "ValveClosed" | Abort -> "Abort"
(* ---- loop mode: the environment of the scripted scenario (what the handlers / functors of
   harness/C11_driver.cc do), given to the extracted C11_Model.loop_run.  User state = unread
   bytes of the three pipes. *)
let set_nth l i v = List.mapi (fun j x -> if j = i then v else x) l
let hnd c u = let i = int_of_nat c in ((set_nth u i 0, (if i = 1 then [nat_of_int 5] else [])), false)
let fnb f u = let i = int_of_nat f in ((u, (if i >= 10 && i < 20 then [nat_of_int (i - 10)] else [])), i = 99)
let show_ids pre l = if l = [] then "-" else String.concat "," (List.map (fun x -> pre ^ string_of_int (int_of_nat x)) l)
let () =
  let a = ref acc_init and mode = ref "" in
  let src = if (try Sys.getenv "MUDUO_USE_POLL" <> "" with Not_found -> false) then ppoll_src else epoll_src in
  let l = ref { l_user = [0; 0; 0]; l_pending = []; l_quit = false; l_iter = O; l_active = [] } in
  (try while true do
    let line = input_line stdin in
    match split_ws line with
    | [] -> ()
    | "case" :: id :: m :: _ ->
        a := acc_init; mode := m;
        l := { l_user = [0; 0; 0]; l_pending = []; l_quit = false; l_iter = O; l_active = [] };
        Printf.printf "case %s\n" id; flush stdout
    | ["end"] -> print_string "end\n"; flush stdout
    | w ->
      if !mode = "acc" then begin
        let o = match w with
          | ["CONN"] -> Connect
          | "ACC" :: "ok" :: _ -> Dispatch AOk
          | "ACC" :: e :: _ -> Dispatch (AErr (errno_of e))
          | _ -> failwith ("bad op " ^ line) in
        let (a', evs) = astep !a o in
        a := a';
        let es = List.map show_ev evs in
        Printf.printf "ok ev=%s ready=%d handed=%d valved=%d idle=%d fds=%d\n"
          (if es = [] then "-" else String.concat "," es)
          (if int_of_nat a'.pendq > 0 then 1 else 0) (int_of_nat a'.handed) (int_of_nat a'.valved)
          (if a'.idle_ok then 1 else 0) (int_of_nat a'.open_fds - 2);
        flush stdout
      end else if !mode = "idle" then begin
        (* free-running idle loop: one pass per signal delivery and one for quit() - never more (C11_poll_eintr_no_spin,
           C11_poll_timeout_positive + kernel) *)
        print_string "ok idle spin=0\n"; flush stdout
      end else begin
        (* one pass of the loop: what another thread did, then how the poll call returned *)
        let (kind, exts) = match w with
          | "I" :: r -> (`Fail errno_EINTR, r)
          | "E" :: e :: r -> (`Fail (errno_of e), r)
          | "N" :: r -> (`Normal, r)
          | _ -> failwith ("bad op " ^ line) in
        if !l.l_quit then print_string "ok unused\n"
        else begin
          let xs = List.concat (List.map (fun e ->
            if e = "quit" then [XQuit]
            else if e.[0] = 'q' then [XQueue (nat_of_int (int_of_string (String.sub e 1 (String.length e - 1))))]
            else begin
              (* a pipe becomes readable: the kernel's state, kept in the user component *)
              let i = int_of_string (String.sub e 1 (String.length e - 1)) in
              l := { !l with l_user = set_nth !l.l_user i (List.nth !l.l_user i + 1) }; []
            end) exts) in
          let ready = List.concat (List.mapi (fun i n -> if n > 0 then [nat_of_int i] else []) !l.l_user) in
          let k = match kind with
            | `Fail e -> k_intr e ready
            | `Normal -> { k_n = z_of_int (List.length ready); k_errno = z_of_int 0; k_ready = ready } in
          let ((l', ts), ab) = loop_run hnd fnb src !l [(xs, k)] in
          l := l';
          (match ts with
           | [t] when not ab ->
               Printf.printf "ok disp=%s ran=%s pend=%d quit=%d it=%d log=%d\n"
                 (show_ids "c" (List.sort compare t.t_disp)) (show_ids "f" t.t_ran)
                 (List.length l'.l_pending) (if l'.l_quit then 1 else 0) (int_of_nat l'.l_iter)
                 (if t.t_errlog then 1 else 0)
           | _ -> print_string "ok ABORT\n")
        end;
        flush stdout
      end
  done with End_of_file -> ())
