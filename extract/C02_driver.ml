(* C02 owners driver: same case format and output lines as harness/C02_sys.cc
   case <id> <nio> <readd> <strict> <wc>
     ACC | SDESTROY | CCONN | CDESTROY | SWAP l | RUN l full | END l | EV c DATA|EOF|RERR|HUP|ERR|OUT drained
     DFIRE c | LSHUT c | LFC c | LFCD c | LSEND c full | LSR c | LSP c | UGRAB c | UDROP c
     XB u c api | XS u | XE u pin          api ::= shutdown | force | forcedelay | send | startread | stopread | dtor (~TcpClient, c = its connection)
   end *)
let st_code = function Disconnected -> 0 | Connecting -> 1 | Connected -> 2 | Disconnecting -> 3
let b2i b = if b then 1 else 0
let i s = nat_of_int (int_of_string s)
let n2s n = string_of_int (int_of_nat n)
let show_obs = function
  | OUp (t, c) -> "Up@" ^ n2s t ^ "#" ^ n2s c
  | ODown (t, c) -> "Down@" ^ n2s t ^ "#" ^ n2s c
  | OMsg (t, c) -> "Msg@" ^ n2s t ^ "#" ^ n2s c
  | ODtor (t, c, _) -> "Dtor@" ^ n2s t ^ "#" ^ n2s c
let show_conn (s : sys) idx (k : lc) =
  if not k.k_alive then "dead" else
  Printf.sprintf "L%dS%dw%dr%df%da%de%sh%dd%dn%d" (int_of_nat k.k_loop) (st_code k.k_st) (b2i k.k_wr) (b2i k.k_rd) (b2i k.k_rflag) (b2i k.k_added)
    (if k_inset k then (let m = (if k.k_rd then "r" else "") ^ (if k.k_wr then "w" else "") in if m = "" then "0" else m) else "-")
    (int_of_nat (holders s (nat_of_int idx))) (int_of_nat k.k_delayed) (b2i k.k_fin)
let show status obs (s : sys) =
  let es = List.map show_obs obs in
  let cs = List.mapi (fun idx k -> show_conn s idx k) s.s_conns in
  (* per loop: pending/batch/spent, 'd' = inside a drain (callingPendingFunctors_), 'q' = quit_ stored by the pool's tear-down;
     "gone" = the io loop has left loop() and its EventLoop is destroyed *)
  let qs = List.mapi (fun i l ->
    if gone s (nat_of_int i) then "gone" else
    Printf.sprintf "%d/%d/%d%s%s" (List.length l.q_pend) (List.length l.q_batch) (List.length l.q_spent)
      (if l.q_drain then "d" else "") (if quitting s (nat_of_int i) then "q" else "")) s.s_loops in
  let mapped = List.length (List.filter (fun k -> k.k_mapped && k.k_ccb = CbServer) s.s_conns) in
  Printf.printf "%s ev=%s | %s | q=%s srv=%s:%d cli=%d:%s\n" status
    (if es = [] then "-" else String.concat "," es)
    (if cs = [] then "-" else String.concat " " cs) (String.concat ";" qs)
    (if s.s_dying then "D" else if s.s_srv then "1" else "0") mapped (b2i s.s_cli) (match s.s_cliconn with Some c -> n2s c | None -> "-");
  flush stdout
let parse_api = function
  | "shutdown" -> AShutdown | "force" -> AForceClose | "forcedelay" -> AForceCloseDelay
  | "send" -> ASend | "startread" -> AStartRead | "stopread" -> AStopRead | "dtor" -> ADtor
  | a -> failwith ("bad api " ^ a)
let () =
  let s = ref (init_sys O false) in
  let strict = ref true and wc = ref false in
  let dead = ref false in
  (try while true do
    let line = input_line stdin in
    match split_ws line with
    | [] -> ()
    | "case" :: id :: nio :: readd :: st :: w :: _ ->
        s := init_sys (i nio) (readd = "1"); strict := (st = "1"); wc := (w = "1"); dead := false;
        Printf.printf "case %s\n" id; flush stdout
    | ["end"] -> print_string "end\n"; flush stdout
    | w ->
        if !dead then (print_string "skipped\n"; flush stdout) else
        let b x = (x = "1") in
        let o = match w with
          | ["ACC"] -> Accept | ["SDESTROY"] -> SrvDestroy | ["CCONN"] -> CliConnect | ["CDESTROY"] -> CliDestroy
          | ["SWAP"; l] -> Swap (i l)
          | ["RUN"; l; f] -> Run (i l, b f, !wc)
          | ["END"; l] -> EndBatch (i l)
          | ["EV"; c; "DATA"] -> Ev (i c, KData) | ["EV"; c; "EOF"] -> Ev (i c, KEof)
          | ["EV"; c; "RERR"] -> Ev (i c, KRdErr) | ["EV"; c; "HUP"] -> Ev (i c, KHup)
          | ["EV"; c; "ERR"] -> Ev (i c, KErr) | ["EV"; c; "OUT"; d] -> Ev (i c, KOut (b d, !wc))
          | ["DFIRE"; c] -> DelayFire (i c)
          | ["LSHUT"; c] -> LShutdown (i c) | ["LFC"; c] -> LForceClose (i c) | ["LFCD"; c] -> LForceCloseDelay (i c)
          | ["LSEND"; c; f] -> LSend (i c, b f, !wc)
          | ["LSR"; c] -> LStartRead (i c) | ["LSP"; c] -> LStopRead (i c)
          | ["UGRAB"; c] -> UGrab (i c) | ["UDROP"; c] -> UDrop (i c)
          | ["XB"; u; c; a] -> XBegin (i u, i c, parse_api a)
          | ["XS"; u] -> XStore (i u)
          | ["XE"; u; p] -> XEnq (i u, b p)
          | _ -> failwith ("bad op: " ^ line) in
        (match step !strict !s o with
         | Ok (s', obs) -> s := s'; show "ok" obs s'
         | Rejected -> show (if !strict && (match step false !s o with Rejected -> false | _ -> true) then "rejected-strict" else "rejected") [] !s
         | Fault -> dead := true; print_string "FAULT\n"; flush stdout)
  done with End_of_file -> ())
