(* extraction of the C19 model: ExtrOcamlBasic only (DESIGN section 7) *)
From Coq Require Extraction.
From Coq Require Import ExtrOcamlBasic.
From Coq Require Import List ZArith NArith.
From Coq.Strings Require Import Byte.
From Muduo Require Import Base_Bytes C19_Model C19_Wire C19_Sys.
Extraction "model.ml" C19_Model.step C19_Model.step_code C19_Model.exec C19_Model.exec_code C19_Model.cstep C19_Model.cstep_code C19_Model.cexec C19_Model.cinit C19_Wire.wire_ser C19_Wire.wire_parse C19_Sys.sys_step C19_Sys.sys_init C19_Sys.bstep C19_Sys.binit C19_Model.init C19_Model.call_labels C19_Model.events
  Base_Bytes.xbyte_of_N Base_Bytes.xN_of_byte Base_Bytes.xanchor.
