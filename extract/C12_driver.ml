(* C12 driver: same case format and output line as harness/C12_driver.cc *)
let b2s b = if b then "1" else "0"
let ni n = string_of_int (int_of_nat n)
let zi z = string_of_int (int_of_z z)
let errno_of s = match s with
  | "EINPROGRESS" -> 115 | "EINTR" -> 4 | "EISCONN" -> 106 | "EAGAIN" -> 11 | "EADDRINUSE" -> 98
  | "EADDRNOTAVAIL" -> 99 | "ECONNREFUSED" -> 111 | "ENETUNREACH" -> 101 | "EACCES" -> 13 | "EPERM" -> 1
  | "EAFNOSUPPORT" -> 97 | "EALREADY" -> 114 | "EBADF" -> 9 | "EFAULT" -> 14 | "ENOTSOCK" -> 88
  | "ETIMEDOUT" -> 110 | "EHOSTUNREACH" -> 113 | "ECONNRESET" -> 104 | "ENOBUFS" -> 105
  | _ -> int_of_string s
let show_ev = function
  | EvAttempt (s, e) -> Some ("att:" ^ ni s ^ ":" ^ zi e)
  | EvArm _ -> None
  | EvClose s -> Some ("close:" ^ ni s)
  | EvHandOver s -> Some ("hand:" ^ ni s)
  | EvUp c -> Some ("up:" ^ ni c) | EvDown c -> Some ("down:" ^ ni c)
  | EvFin c -> Some ("fin:" ^ ni c)
  | EvConnClose s -> Some ("cclose:" ^ ni s)
  | EvHack _ -> None
  | EvWant | EvStopReq | EvCycle _ -> None
let kst_code = function KDisconnected -> 0 | KConnecting -> 1 | KConnected -> 2
let cst_code = function CDisconnected -> 0 | CConnecting -> 1 | CConnected -> 2 | CDisconnecting -> 3
let join l = if l = [] then "-" else String.concat "," l
let show status evs (s: st) =
  let es = List.filter_map show_ev evs in
  let arms = List.filter_map (function EvArm d | EvHack d -> Some (zi d) | _ -> None) evs in
  let k = if s.k_dead then "dead" else
    Printf.sprintf "%d/%s/%s/%s" (kst_code s.k_state) (b2s s.k_connect)
      (match s.k_chan with None -> "-" | Some (i, r) -> ni i ^ ":" ^ b2s r) (zi s.k_delay) in
  let now = int_of_z s.now in
  let tm = List.sort compare (List.map (fun (d, _) -> int_of_z d - now) s.timers) in
  let socks = List.map (function Open -> "o" | HandedOver -> "H" | Closed n -> "c" ^ ni n | HandedClosed n -> "Hc" ^ ni n) s.socks in
  let cl = if not s.alive then "x" else if s.dsnap <> None then "dying" else
    Printf.sprintf "%s/%s/%s" (b2s s.c_connect) (b2s s.c_retry) (match s.connection with None -> "-" | Some c -> ni c) in
  let cs = List.map (fun o -> if not o.calive then "x" else
    Printf.sprintf "%d/%s/%s/%s" (cst_code o.cst) (b2s o.creg) (b2s o.cfin) (if int_of_nat o.cuser > 0 then "1" else "0")) s.conns in
  Printf.printf "%s t=%d ev=%s arm=%s k=%s tm=%s pend=%d socks=%s cl=%s cs=%s\n" status now (join es) (join arms) k
    (join (List.map string_of_int tm)) (List.length s.pending) (join socks) cl (join cs);
  flush stdout
(* ---- enumeration mode: `modelrun enum <depth> [text|contract]`
   breadth-first over the op alphabet from `init`, states identified up to a shift of the clock; prints
   one case per (state reached within depth-1 ops, next op that is neither rejected nor outside the
   chosen contract): its shortest history followed by that op.  Used by lib/props/C12.py as generator. *)
let alphabet = [ "CONNECT", Connect; "DISCONNECT", Disconnect; "STOP", Stop; "RETRY", EnableRetry; "DESTROY", Destroy;
  "XCF", XConnectFlags; "XCE", XConnectEnq; "XSF", XStopFlags; "XSE", XStopEnq; "XDF", XDisconnectFlag; "XDR", XDisconnectRest;
  "XYR", XDestroyRead; "XYD", XDestroyRest; "EVWY", XDestroyInWrite;
  "CR ECONNREFUSED", ConnectResult (z_of_int 111); "CR EACCES", ConnectResult (z_of_int 13); "CR 0", ConnectResult (z_of_int 0);
  "EVW 0 0", EvWritable (z_of_int 0, false); "EVW ECONNREFUSED 0", EvWritable (z_of_int 111, false); "EVW 0 1", EvWritable (z_of_int 0, true);
  "EVE", EvError; "TF", TimerFire; "RUN", RunPending; "RUN1", RunOne; "DOWN", Down; "HOLD", UserHold; "REL", UserRelease;
  "LOOPEND", LoopEnd ]
let norm (s: st) = { s with now = z_of_int 0; timers = List.map (fun (d, k) -> (z_of_int (int_of_z d - int_of_z s.now), k)) s.timers }
let enumerate depth use_text =
  let ok s o = if use_text then text_contract s o else contract s o in
  let seen = Hashtbl.create 100000 in
  Hashtbl.replace seen (norm init) ();
  let frontier = ref [ (init, []) ] in
  let n = ref 0 in
  for d = 1 to depth do
    let next = ref [] in
    List.iter (fun (s, path) ->
      List.iter (fun (name, o) ->
        if ok s o then
          match step s o with
          | Rejected -> ()
          | r ->
            incr n;
            Printf.printf "case e%d\n%s\nend\n" !n (String.concat "\n" (List.rev (name :: path)));
            (match r with
             | Ok (s', _) ->
               let k = norm s' in
               if not (Hashtbl.mem seen k) then begin Hashtbl.replace seen k (); next := (s', name :: path) :: !next end
             | _ -> ())) alphabet) !frontier;
    frontier := List.rev !next
  done
(* ---- random mode: `modelrun random <seed> <count> <maxlen>`: histories drawn op by op, an op is kept when the
   model neither rejects it nor the chosen contract excludes it (6 of 10 cases: the theorems' contract, the
   others: what the property text allows); profiles bias the kernel and the user *)
let errs = [| 0; 115; 4; 106; 11; 98; 99; 111; 101; 13; 1; 97; 114; 9; 14; 88; 110; 113; 104; 105 |]
let err_name e = if e = 0 then "0" else string_of_int e
let pick profile =
  let w = match profile with
    | 1 -> (* kernel refuses: long back-off chains up to the cap *)
      [ 6, `CRr; 1, `CRany; 8, `TF; 5, `EVWe; 4, `EVE; 1, `EVWs; 2, `CONNECT; 1, `STOP; 3, `RUN; 1, `RETRY; 1, `EVW0 ]
    | 2 -> (* churn: connections come up and go down, retry mostly on *)
      [ 4, `RETRY; 5, `CONNECT; 8, `EVW0; 8, `RUN; 6, `DOWN; 2, `DISCONNECT; 2, `STOP; 2, `TF; 1, `CRr; 1, `EVWe; 1, `HOLD; 1, `REL; 1, `RUN1 ]
    | 3 -> (* destruction at every point, user references *)
      [ 4, `CONNECT; 5, `EVW0; 5, `RUN; 3, `DOWN; 4, `DESTROY; 3, `HOLD; 3, `REL; 2, `TF; 2, `CRr; 1, `EVE; 1, `STOP; 1, `DISCONNECT; 1, `RETRY; 2, `RUN1; 2, `LOOPEND ]
    | 4 -> (* foreign threads *)
      [ 3, `XCF; 4, `XCE; 3, `XSF; 4, `XSE; 3, `XDF; 4, `XDR; 2, `XYR; 3, `XYD; 1, `EVWY; 4, `EVW0; 5, `RUN; 3, `RUN1; 2, `DOWN; 2, `TF; 2, `CRr; 1, `RETRY; 1, `CONNECT; 1, `EVWe ]
    | _ ->
      [ 3, `CONNECT; 2, `DISCONNECT; 2, `STOP; 1, `RETRY; 1, `DESTROY; 1, `XCF; 1, `XCE; 1, `XSF; 1, `XSE; 1, `XDF; 1, `XDR; 1, `XYR; 1, `XYD;
        2, `CRr; 1, `CRany; 3, `EVW0; 2, `EVWe; 1, `EVWs; 1, `EVE; 3, `TF; 4, `RUN; 1, `RUN1; 2, `DOWN; 1, `HOLD; 1, `REL; 1, `LOOPEND ] in
  let tot = List.fold_left (fun a (x, _) -> a + x) 0 w in
  let r = ref (Random.int tot) in
  let k = ref (snd (List.hd w)) in
  (try List.iter (fun (x, t) -> if !r < x then begin k := t; raise Exit end else r := !r - x) w with Exit -> ());
  match !k with
  | `CONNECT -> "CONNECT", Connect | `DISCONNECT -> "DISCONNECT", Disconnect | `STOP -> "STOP", Stop | `RETRY -> "RETRY", EnableRetry
  | `DESTROY -> "DESTROY", Destroy | `XCF -> "XCF", XConnectFlags | `XCE -> "XCE", XConnectEnq | `XSF -> "XSF", XStopFlags
  | `XSE -> "XSE", XStopEnq | `XDF -> "XDF", XDisconnectFlag | `XDR -> "XDR", XDisconnectRest | `XYR -> "XYR", XDestroyRead
  | `XYD -> "XYD", XDestroyRest | `EVWY -> "EVWY", XDestroyInWrite | `EVE -> "EVE", EvError | `TF -> "TF", TimerFire | `RUN -> "RUN", RunPending | `RUN1 -> "RUN1", RunOne
  | `DOWN -> "DOWN", Down | `HOLD -> "HOLD", UserHold | `REL -> "REL", UserRelease | `LOOPEND -> "LOOPEND", LoopEnd
  | `EVW0 -> "EVW 0 0", EvWritable (z_of_int 0, false)
  | `EVWs -> "EVW 0 1", EvWritable (z_of_int 0, true)
  | `EVWe -> let e = errs.(1 + Random.int (Array.length errs - 1)) in "EVW " ^ err_name e ^ " 0", EvWritable (z_of_int e, false)
  | `CRr -> let e = [| 11; 98; 99; 111; 101 |].(Random.int 5) in "CR " ^ err_name e, ConnectResult (z_of_int e)
  | `CRany -> let e = errs.(Random.int (Array.length errs)) in "CR " ^ err_name e, ConnectResult (z_of_int e)
let random_cases seed count maxlen =
  Random.init seed;
  for ci = 1 to count do
    let profile = Random.int 6 in
    let strict = Random.int 10 < 6 in
    let len = 1 + Random.int maxlen in
    let s = ref init and ops = ref [] and dead = ref false and n = ref 0 and tries = ref 0 in
    while !n < len && !tries < 40 * len && not !dead do
      incr tries;
      let (name, o) = pick profile in
      if (if strict then contract !s o else text_contract !s o) then
        match step !s o with
        | Rejected -> ()
        | Fault -> ops := name :: !ops; dead := true
        | Ok (s', _) -> s := s'; ops := name :: !ops; incr n
    done;
    Printf.printf "case r%d_%d\n%s\nend\n" seed ci (String.concat "\n" (List.rev !ops))
  done
let run_cases () =
  let s = ref init in
  let dead = ref false in
  (try while true do
    let line = input_line stdin in
    match split_ws line with
    | [] -> ()
    | "case" :: id :: _ -> s := init; dead := false; Printf.printf "case %s\n" id; flush stdout
    | ["end"] -> print_string "end\n"; flush stdout
    | w ->
      if !dead then () else
      let o = match w with
        | ["CONNECT"] -> Connect | ["DISCONNECT"] -> Disconnect | ["STOP"] -> Stop | ["RETRY"] -> EnableRetry
        | ["DESTROY"] -> Destroy
        | ["XCF"] -> XConnectFlags | ["XCE"] -> XConnectEnq | ["XSF"] -> XStopFlags | ["XSE"] -> XStopEnq
        | ["XDF"] -> XDisconnectFlag | ["XDR"] -> XDisconnectRest | ["XYR"] -> XDestroyRead | ["XYD"] -> XDestroyRest | ["EVWY"] -> XDestroyInWrite
        | ["CR"; e] -> ConnectResult (z_of_int (errno_of e))
        | ["EVW"; e; sc] -> EvWritable (z_of_int (errno_of e), sc = "1")
        | ["EVE"] -> EvError | ["TF"] -> TimerFire | ["RUN"] -> RunPending | ["RUN1"] -> RunOne
        | ["DOWN"] -> Down | ["HOLD"] -> UserHold | ["REL"] -> UserRelease | ["LOOPEND"] -> LoopEnd
        | _ -> failwith ("bad op: " ^ line) in
      (match step !s o with
       | Ok (s', evs) -> s := s'; show "ok" evs s'
       | Rejected -> show "rejected" [] !s
       | Fault -> dead := true; print_string "FAULT\n"; flush stdout)
  done with End_of_file -> ())
let () =
  if Array.length Sys.argv >= 3 && Sys.argv.(1) = "enum" then
    enumerate (int_of_string Sys.argv.(2)) (not (Array.length Sys.argv >= 4 && Sys.argv.(3) = "contract"))
  else if Array.length Sys.argv >= 5 && Sys.argv.(1) = "random" then
    random_cases (int_of_string Sys.argv.(2)) (int_of_string Sys.argv.(3)) (int_of_string Sys.argv.(4))
  else run_cases ()
