(* C12 driver: same case format and output line as harness/C12_driver.cc *)
let b2s b = if b then "1" else "0"
let ni n = string_of_int (int_of_nat n)
let zi z = string_of_int (int_of_z z)
let errno_of s = match s with
  | "EINPROGRESS" -> 115 | "EINTR" -> 4 | "EISCONN" -> 106 | "EAGAIN" -> 11 | "EADDRINUSE" -> 98
  | "EADDRNOTAVAIL" -> 99 | "ECONNREFUSED" -> 111 | "ENETUNREACH" -> 101 | "EACCES" -> 13 | "EPERM" -> 1
  | "EAFNOSUPPORT" -> 97 | "EALREADY" -> 114 | "EBADF" -> 9 | "EFAULT" -> 14 | "ENOTSOCK" -> 88
  | "ETIMEDOUT" -> 110 | "EHOSTUNREACH" -> 113 | "ECONNRESET" -> 104 | "ENOBUFS" -> 105
  | _ -> int_of_string s
let show_ev = function
  | EvAttempt (s, e) -> Some ("att:" ^ ni s ^ ":" ^ zi e)
  | EvArm _ -> None
  | EvClose s -> Some ("close:" ^ ni s)
  | EvHandOver s -> Some ("hand:" ^ ni s)
  | EvUp c -> Some ("up:" ^ ni c) | EvDown c -> Some ("down:" ^ ni c)
  | EvFin c -> Some ("fin:" ^ ni c)
  | EvConnClose s -> Some ("cclose:" ^ ni s)
  | EvHack _ -> None
let kst_code = function KDisconnected -> 0 | KConnecting -> 1 | KConnected -> 2
let cst_code = function CDisconnected -> 0 | CConnecting -> 1 | CConnected -> 2 | CDisconnecting -> 3
let join l = if l = [] then "-" else String.concat "," l
let show status evs (s: st) =
  let es = List.filter_map show_ev evs in
  let arms = List.filter_map (function EvArm d | EvHack d -> Some (zi d) | _ -> None) evs in
  let k = if s.k_dead then "dead" else
    Printf.sprintf "%d/%s/%s/%s" (kst_code s.k_state) (b2s s.k_connect)
      (match s.k_chan with None -> "-" | Some (i, r) -> ni i ^ ":" ^ b2s r) (zi s.k_delay) in
  let now = int_of_z s.now in
  let tm = List.sort compare (List.map (fun (d, _) -> int_of_z d - now) s.timers) in
  let socks = List.map (function Open -> "o" | HandedOver -> "H" | Closed n -> "c" ^ ni n | HandedClosed n -> "Hc" ^ ni n) s.socks in
  let cl = if not s.alive then "x" else if s.dsnap <> None then "dying" else
    Printf.sprintf "%s/%s/%s" (b2s s.c_connect) (b2s s.c_retry) (match s.connection with None -> "-" | Some c -> ni c) in
  let cs = List.map (fun o -> if not o.calive then "x" else
    Printf.sprintf "%d/%s/%s/%s" (cst_code o.cst) (b2s o.creg) (b2s o.cfin) (if int_of_nat o.cuser > 0 then "1" else "0")) s.conns in
  Printf.printf "%s ev=%s arm=%s k=%s tm=%s pend=%d socks=%s cl=%s cs=%s\n" status (join es) (join arms) k
    (join (List.map string_of_int tm)) (List.length s.pending) (join socks) cl (join cs);
  flush stdout
let () =
  let s = ref init in
  let dead = ref false in
  (try while true do
    let line = input_line stdin in
    match split_ws line with
    | [] -> ()
    | "case" :: id :: _ -> s := init; dead := false; Printf.printf "case %s\n" id; flush stdout
    | ["end"] -> print_string "end\n"; flush stdout
    | w ->
      if !dead then () else
      let o = match w with
        | ["CONNECT"] -> Connect | ["DISCONNECT"] -> Disconnect | ["STOP"] -> Stop | ["RETRY"] -> EnableRetry
        | ["DESTROY"] -> Destroy
        | ["XCF"] -> XConnectFlags | ["XCE"] -> XConnectEnq | ["XSF"] -> XStopFlags | ["XSE"] -> XStopEnq
        | ["XDF"] -> XDisconnectFlag | ["XDR"] -> XDisconnectRest | ["XYR"] -> XDestroyRead | ["XYD"] -> XDestroyRest
        | ["CR"; e] -> ConnectResult (z_of_int (errno_of e))
        | ["EVW"; e; sc] -> EvWritable (z_of_int (errno_of e), sc = "1")
        | ["EVE"] -> EvError | ["TF"] -> TimerFire | ["RUN"] -> RunPending | ["RUN1"] -> RunOne
        | ["DOWN"] -> Down | ["HOLD"] -> UserHold | ["REL"] -> UserRelease
        | _ -> failwith ("bad op: " ^ line) in
      (match step !s o with
       | Ok (s', evs) -> s := s'; show "ok" evs s'
       | Rejected -> show "rejected" [] !s
       | Fault -> dead := true; print_string "FAULT\n"; flush stdout)
  done with End_of_file -> ())
