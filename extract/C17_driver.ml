(* C17 driver: same case format and output lines as harness/C17_driver.cc *)
let bytes_of_ocaml_string (s:string) : byte list =
  let acc = ref [] in
  for i = String.length s - 1 downto 0 do acc := byte_of_int (Char.code s.[i]) :: !acc done; !acc
let int64_of_z (x:z) : int64 = Int64.of_string ("0u" ^ string_of_z x)
(* the %.12g text: the MODEL's fmt_g12 (extracted; proved <= 19 characters and correctly rounded), no library oracle *)
let fmt_g (bits:z) : byte list = fmt_g12 bits
let ity_of = function
  | "s" -> TShort | "us" -> TUShort | "i" -> TInt | "u" -> TUInt | "l" -> TLong | "ul" -> TULong
  | "ll" -> TLongLong | "ull" -> TULongLong | t -> failwith ("bad type " ^ t)
let parse_item (w: string list) : item = match w with
  | ["B"; v] -> IBool (v = "1")
  | ["C"; v] -> IChar (byte_of_int (int_of_string v))
  | ["S"; d] -> ICStr (Some (bytes_of_spec d))
  | ["SN"] -> ICStr None
  | ["STR"; d] -> IStr (bytes_of_spec d)
  | ["SP"; d] -> IStr (bytes_of_spec d)
  | ["I"; t; v] -> IInt (ity_of t, z_of_string v)
  | ["P"; v] -> IPtr (z_of_string v)
  | ["D"; v] -> IDouble (z_of_string v)
  | ["F"; v] ->
      (* operator<<(float) widens to double first: exact *)
      if String.length v > 10 || Int64.of_string v > 4294967295L || Int64.of_string v < 0L
      then IInt (TUInt, z_of_string "4294967296")  (* not a float bit pattern: rejected *)
      else
        let f = Int32.float_of_bits (Int32.of_string ("0u" ^ v)) in
        IDouble (z_of_string (Printf.sprintf "%Lu" (Int64.bits_of_float f)))
  | ["FMI"; v] ->
      (* Fmt("%07d", int): the text is snprintf's (an oracle, like the errno text); not a value of int: rejected *)
      let x = (try Some (Int64.of_string v) with _ -> None) in
      (match x with
       | Some x when String.length v <= 11 && x >= -2147483648L && x <= 2147483647L ->
           IFmt (bytes_of_ocaml_string (Printf.sprintf "%07Ld" x))
       | _ -> IInt (TUInt, z_of_string "4294967296"))
  | ["FMD"; v] ->
      if String.length v > 20 || (String.length v = 20 && v > "18446744073709551615") then IInt (TUInt, z_of_string "4294967296")
      else IFmt (bytes_of_ocaml_string (Printf.sprintf "%10.4f" (Int64.float_of_bits (int64_of_z (z_of_string v)))))
  | _ -> failwith ("bad item: " ^ String.concat " " w)
let crc_update (c:int) (l: byte list) : int =
  List.fold_left (fun c x -> crc_tab.((c lxor (int_of_byte x)) land 255) lxor (c lsr 8)) c l
let show_stream (status:string) (b:fbuf) (before:int) : string =
  let len = int_of_nat (flen b) in
  let rec drop n l = if n <= 0 then l else match l with [] -> [] | _ :: r -> drop (n-1) r in
  let added = drop before b.data in
  let n = List.length added in
  Printf.sprintf "%s len=%d avail=%d h=%s t=%s" status len (int_of_nat (avail b)) (fnv_of_bytes b.data)
    (if n = 0 then "-" else if n <= 64 then hex_of_bytes added else "crc:" ^ fnv_of_bytes added)
let kv_of (w: string list) : (string * string) list =
  List.filter_map (fun t -> match String.index_opt t '=' with
    | Some i -> Some (String.sub t 0 i, String.sub t (i+1) (String.length t - i - 1)) | None -> None) w
let rec split_on (sep:string) (w:string list) : string list list =
  let rec go cur acc = function
    | [] -> List.rev (List.rev cur :: acc)
    | x :: r when x = sep -> go [] (List.rev cur :: acc) r
    | x :: r -> go (x :: cur) acc r in
  List.filter (fun l -> l <> []) (go [] [] w)
let level_of_int = function 0 -> TRACE | 1 -> DEBUG | 2 -> INFO | 3 -> WARN | 4 -> ERROR | _ -> FATAL
let macro_of_int = function 0 -> LOG_TRACE | 1 -> LOG_DEBUG | 2 -> LOG_INFO | 3 -> LOG_WARN | 4 -> LOG_ERROR
  | 5 -> LOG_FATAL | 6 -> LOG_SYSERR | _ -> LOG_SYSFATAL
(* broken-down time: the C library's gmtime (an independent implementation of C20's toUtcTime) *)
let dt_of (sec:int) (east:int option) : datetime =
  let tm = Unix.gmtime (float_of_int (sec + (match east with Some e -> e | None -> 0))) in
  { dt_year = z_of_int (tm.Unix.tm_year + 1900); dt_month = z_of_int (tm.Unix.tm_mon + 1); dt_day = z_of_int tm.Unix.tm_mday;
    dt_hour = z_of_int tm.Unix.tm_hour; dt_minute = z_of_int tm.Unix.tm_min; dt_second = z_of_int tm.Unix.tm_sec }
let show_line (l: byte list) : string =
  let n = List.length l in
  Printf.sprintf "ok n=%d h=%s line=%s" n (fnv_of_bytes l) (if n <= 300 then hex_of_bytes l else "long")
let () =
  let cap = kSmallBuffer in
  let st = ref (empty cap) in
  let dead = ref false in
  let cfg = ref INFO in
  let zone : int option ref = ref None in
  let th = ref tls0 in
  let do_log (r:logreq) (keep_tls:bool) : byte list option =
    let (th', res) = log_line fmt_g !th r in
    if keep_tls then th := th';
    match res with Ok b -> Some b.data | _ -> None in
  (try while true do
    let line = input_line stdin in
    (match split_ws line with
    | [] -> ()
    | "case" :: id :: _ ->
        st := empty cap; dead := false; cfg := INFO; zone := None; th := tls0;
        Printf.printf "case %s cap=%d max=%d\n" id (int_of_nat cap) (int_of_nat kMaxNumericSize)
    | ["end"] -> print_string "end\n"
    | ["DS"] ->
        if !dead then print_string "skipped\n" else
        (match debugString !st with
         | Ok b -> print_string (show_stream "ok" b (int_of_nat (flen !st))); print_newline (); st := b
         | _ -> dead := true; print_string "FAULT\n")
    | ["RST"] -> st := empty cap; dead := false; print_string (show_stream "ok" !st 0); print_newline ()
    | "IR" :: _ | "PRX" :: _ as w ->
        let ptr = List.hd w = "PRX" in
        let (mk, lo, hi, step) = (match w with
          | ["IR"; t; lo; hi; step] -> ((fun v -> IInt (ity_of t, v)), lo, hi, step)
          | ["PRX"; lo; hi; step] -> ((fun v -> IPtr v), lo, hi, step)
          | _ -> failwith "bad range") in
        ignore ptr;
        let lo = z_of_string lo and hi = z_of_string hi and step = z_of_string step in
        let v = ref lo and n = ref 0 and crc = ref 0xffffffff and fault = ref false in
        while Z.leb !v hi do
          (match put fmt_g (empty cap) (mk !v) with
           | Ok b -> crc := crc_update !crc b.data
           | _ -> fault := true);
          crc := crc_update !crc [byte_of_int 10];
          incr n; v := Z.add !v step
        done;
        if !fault then print_string "FAULT\n"
        else Printf.printf "ok n=%d h=%08x bad=-\n" !n (!crc lxor 0xffffffff)
    | "FM" :: _ -> print_string "ok\n"
    | "SE" :: _ -> print_string "ok\n"
    | ["NOW"] ->
        (* the tid cache along the five lineages of the NOW op, with arbitrary distinct kernel tids: does each
           logged line carry its own thread's id?  (interprets the regenerated afterFork / atfork registration) *)
        let k n = z_of_int n in
        let last_ok kk h = (match List.rev (lineage kk tidc0 h) with
          | (kt, txt) :: _ -> if txt = tid_text kt then 1 else 0 | [] -> 0) in
        Printf.printf "ok main=%d main2=%d thread=%d child=%d childthread=%d\n"
          (last_ok (k 100) [HLog]) (last_ok (k 100) [HLog; HLog]) (last_ok (k 100) [HLog; HLog; HSpawn (k 101); HLog])
          (last_ok (k 100) [HLog; HLog; HFork (k 200); HLog]) (last_ok (k 100) [HLog; HLog; HFork (k 200); HLog; HSpawn (k 201); HLog])
    | [("SI" | "IEC") as k; n] ->
        let v = z_of_string n in
        if Z.ltb v Z0 || not (Z.ltb v (z_of_string "9223372036854775808")) then print_string "rejected\n"
        else Printf.printf "ok %s\n" (hex_of_bytes (if k = "SI" then formatSI v else formatIEC v))
    | ["LV"; l] -> cfg := level_of_int (int_of_string l); print_string "ok\n"
    | ["TZ"; z] -> zone := (if z = "none" then None else Some (int_of_string z)); print_string "ok\n"
    | "LOG" :: lv :: rest ->
        let parts = split_on "|" rest in
        let kv = kv_of (List.hd parts) in
        let items = (match parts with _ :: m :: _ -> List.map parse_item (split_on ";" m) | _ -> []) in
        let t = int_of_string (List.assoc "t" kv) in
        let sec = t / 1000000 and us = t mod 1000000 in
        let e = int_of_string (List.assoc "errno" kv) in
        let func = List.assoc "func" kv in
        let r = { lq_seconds = z_of_int sec; lq_micros = z_of_int us; lq_zone = (!zone <> None); lq_dt = dt_of sec !zone;
                  lq_tid = z_of_int (int_of_string (List.assoc "tid" kv));
                  lq_level = (if e <> 0 then ERROR else level_of_int (int_of_string lv));
                  lq_errno = (if e <> 0 then Some (z_of_int e, bytes_of_spec (List.assoc "errtxt" kv)) else None);
                  lq_func = (if e <> 0 || func = "-" then None else Some (bytes_of_spec func));
                  lq_path = bytes_of_spec (List.assoc "path" kv); lq_line = z_of_int (int_of_string (List.assoc "line" kv));
                  lq_msg = items } in
        (match do_log r true with
         | Some l -> print_string (show_line l); print_newline ()
         | None ->
             (* Rejected (an item outside its type) or Fault *)
             let (_, res) = log_line fmt_g tls0 r in
             print_string (match res with Rejected -> "rejected\n" | _ -> "FAULT\n"))
    | ["M"; m] ->
        let mi = int_of_string m in
        let mac = macro_of_int mi in
        if not (macro_emits mac !cfg) then print_string "ok emitted=0 line=-\n" else begin
          let sec = 1700000000 and us = 123456 in
          let r = { lq_seconds = z_of_int sec; lq_micros = z_of_int us; lq_zone = (!zone <> None); lq_dt = dt_of sec !zone;
                    lq_tid = z_of_int 4711; lq_level = macro_level mac;
                    lq_errno = (if mi >= 6 then Some (z_of_int 2, bytes_of_ocaml_string "No such file or directory") else None);
                    lq_func = (if macro_has_func mac then Some (bytes_of_ocaml_string "macroSite") else None);
                    lq_path = bytes_of_ocaml_string "/some/dir/sub/C17_site.cc"; lq_line = z_of_int (4244 + mi);
                    lq_msg = [ICStr (Some (bytes_of_ocaml_string "m")); IInt (TInt, z_of_int 42)] } in
          (* the FATAL macros run in a forked child: the parent's time cache is not touched *)
          match do_log r (mi <> 5 && mi <> 7) with
          | Some l -> Printf.printf "ok emitted=1 line=%s\n" (hex_of_bytes l)
          | None -> print_string "FAULT\n"
        end
    | w ->
        if !dead then print_string "skipped\n" else
        (match put fmt_g !st (parse_item w) with
         | Ok b -> print_string (show_stream "ok" b (int_of_nat (flen !st))); print_newline (); st := b
         | Rejected -> print_string "rejected\n"
         | Fault -> dead := true; print_string "FAULT\n"));
    flush stdout
  done with End_of_file -> ())
