(* extraction of the C17 model: ExtrOcamlBasic only (DESIGN section 7) *)
From Coq Require Extraction.
From Coq Require Import ExtrOcamlBasic.
From Coq Require Import List ZArith NArith.
From Coq.Strings Require Import Byte.
From Muduo Require Import Base_Bytes C17_Model.
Extraction "model.ml" C17_Model.convert C17_Model.convertHex C17_Model.empty C17_Model.flen
  C17_Model.avail C17_Model.put C17_Model.run C17_Model.debugString C17_Model.kSmallBuffer
  C17_Model.kMaxNumericSize C17_Model.item_text C17_Model.log_line C17_Model.tls0
  C17_Model.macro_emits C17_Model.macro_level C17_Model.macro_has_func C17_Model.basename
  C17_Model.formatSI C17_Model.formatIEC C17_Model.fmt_g12 C17_Model.lineage C17_Model.tidc0 C17_Model.tid_text
  BinInt.Z.add BinInt.Z.leb BinInt.Z.ltb
  Base_Bytes.xbyte_of_N Base_Bytes.xN_of_byte.
