(* extraction of the TimerModel (C06/C07): ExtrOcamlBasic only (DESIGN section 7) *)
From Coq Require Extraction.
From Coq Require Import ExtrOcamlBasic.
From Coq Require Import List ZArith NArith.
From Coq.Strings Require Import Byte.
From Muduo Require Import Base_Bytes C06_Model.
Extraction "model.ml" C06_Model.step C06_Model.init C06_Model.destroy C06_Model.ksplit
  C06_Model.PTR_MAX Base_Bytes.xbyte_of_N Base_Bytes.xN_of_byte.
