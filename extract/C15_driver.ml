(* C15 trace validator.  Input per case (see harness/C15_driver.cc):
     case <id> nw=N maxq=M ...
     <client program lines>     ops separated by ';' : run <k> | stop | size
     trace
     <the implementation's output lines>
     end
   Every relevant line is mapped to a label of C15_Model.pstep and must be enabled in the model and
   agree with the observers (queue size, running_, holder_); the first disagreement is reported.
   The unguarded read of running_ in runInThread has no line of its own: it happens between the
   worker's previous own line and its next one, and its value is visible in what the worker does
   next (lock m0 = read true, exit = read false).  Because running_ only ever goes from true to
   false, "read true" is replayed at the EARLIEST possible point (right after the previous own line)
   and "read false" at the LATEST (the exit line): if the model refuses there, no placement works.
   Output: "case <id>", then "accepted <n>" or "REJECT <line no>: <reason> | <line>", "end". *)
exception Reject of string
let rej fmt = Printf.ksprintf (fun s -> raise (Reject s)) fmt

let split_prog (w : string list) : string list list =
  let rec go cur acc = function
    | [] -> List.rev (if cur = [] then acc else List.rev cur :: acc)
    | ";" :: r -> go [] (if cur = [] then acc else List.rev cur :: acc) r
    | x :: r -> go (x :: cur) acc r in
  if w = ["-"] then [] else go [] [] w

let parse_uop = function
  | ["run"; k] -> URun (nat_of_int (int_of_string k))
  | ["stop"] -> UStop
  | ["size"] -> USize
  | w -> failwith ("bad op " ^ String.concat " " w)

let tnum s = int_of_string (String.sub s 1 (String.length s - 1))
let obs_of (w : string list) key =
  let p = key ^ "=" in
  let n = String.length p in
  match List.find_opt (fun t -> String.length t >= n && String.sub t 0 n = p) w with
  | Some t -> Some (String.sub t n (String.length t - n)) | None -> None

type pend = PSig of int * int option | PBcast of int * int list

let show_pc = function
  | WLoop -> "WLoop" | WTake -> "WTake" | WGot k -> "WGot " ^ string_of_int (int_of_nat k) | WDone -> "WDone"
  | CIdle ops -> "CIdle/" ^ string_of_int (List.length ops) | CCall _ -> "CCall" | CStopping _ -> "CStopping"
  | CJoin (i, _) -> "CJoin " ^ string_of_int (int_of_nat i)
  | WInit -> "WInit" | CFault _ -> "CFault"
let show_op = function PRun k -> "run " ^ string_of_int (int_of_nat k) | PTake -> "take" | PStop -> "stop" | PSize -> "size"

let validate (nw : int) (maxq : int) (progs : uop list list) (lines : string array) : unit =
  let any_stop = List.exists (List.exists (fun o -> o = UStop)) progs in
  let allprogs = progs @ [if any_stop then [] else [UStop]] in
  let nthreads = nw + List.length allprogs in
  let cnw = nat_of_int nw and cmaxq = nat_of_int maxq in
  let sys = ref (pinit cnw allprogs) in
  let nsteps = ref 0 in
  let model_of t = let ti = tnum t in
    if ti = 0 then nthreads - 1 else if ti >= nthreads then rej "thread %s is not a thread of the case" t else ti - 1 in
  let pc i = match pc_at !sys (nat_of_int i) with Some p -> p | None -> rej "no thread %d in the model" i in
  let th i = List.nth !sys.mon.threads i in
  let do_step l what = match pstep cnw cmaxq !sys l with
    | Some s' -> sys := s'; incr nsteps
    | None -> rej "model: %s is not enabled" what in
  let pending : (int, pend list) Hashtbl.t = Hashtbl.create 8 in
  let lastres : (int, pop * pres) Hashtbl.t = Hashtbl.create 8 in
  let inline_expect : (int, int) Hashtbl.t = Hashtbl.create 8 in
  let relevant_cond c = String.length c > 1 && c.[0] = 'c' && tnum c < 2 in
  let waiting_on c i = is_waiting (nat_of_int c) (th i) in
  let all_waiters c = List.filter (waiting_on c) (List.init nthreads (fun i -> i)) in
  let check_obs w =
    (match obs_of w "n" with
     | Some n when int_of_string n <> List.length !sys.mon.shared.queue ->
         rej "observer n=%s but the model's queue holds %d" n (List.length !sys.mon.shared.queue)
     | _ -> ());
    (match obs_of w "r" with
     | Some r when (r = "1") <> !sys.mon.shared.running -> rej "observer r=%s but the model has running=%b" r !sys.mon.shared.running
     | _ -> ()) in
  let check_h w expect = match obs_of w "h" with
    | Some h when h <> expect -> rej "holder_ observed %s, model says %s" h expect
    | _ -> () in
  (* own-line lookahead: for each line, the next t-line of the same thread *)
  let n = Array.length lines in
  let words = Array.map split_ws lines in
  let next_own = Array.make n (-1) in
  let last : (string, int) Hashtbl.t = Hashtbl.create 8 in
  for a = n - 1 downto 0 do
    (match words.(a) with
     | "t" :: _ :: t :: _ -> (next_own.(a) <- (try Hashtbl.find last t with Not_found -> -1)); Hashtbl.replace last t a
     | "e" :: t :: _ -> next_own.(a) <- (try Hashtbl.find last t with Not_found -> -1)
     | _ -> ())
  done;
  let maybe_load i a =
    if i < nw && pc i = WLoop && next_own.(a) >= 0 then
      match words.(next_own.(a)) with
      | "t" :: _ :: _ :: "lock" :: "m0" :: _ ->
          do_step (LLoad (nat_of_int i)) "read of running_";
          if pc i <> WTake then rej "T%d enters take() next, but running_ is already false in the model when it can first have read it" (i + 1)
      | _ -> () in
  let handle a (w : string list) = match w with
    | "t" :: _ :: t :: "lock" :: "m0" :: _ ->
        let i = model_of t in do_step (LMon (LAcquire (nat_of_int i))) ("lock by " ^ t); check_obs w
    | "t" :: _ :: t :: "sig" :: c :: res :: _ when relevant_cond c ->
        let i = model_of t in
        (match !sys.mon.owner with Some o when int_of_nat o = i -> () | _ -> rej "%s notifies %s without holding the mutex in the model" t c);
        check_h w t;
        let pick = if res = "none" then None else Some (model_of res) in
        Hashtbl.replace pending i ((try Hashtbl.find pending i with Not_found -> []) @ [PSig (tnum c, pick)])
    | "t" :: _ :: t :: "bcast" :: c :: res :: _ when relevant_cond c ->
        let i = model_of t in
        (match !sys.mon.owner with Some o when int_of_nat o = i -> () | _ -> rej "%s notifies %s without holding the mutex in the model" t c);
        check_h w t;
        let l = if res = "none" then [] else List.map model_of (String.split_on_char ',' res) in
        Hashtbl.replace pending i ((try Hashtbl.find pending i with Not_found -> []) @ [PBcast (tnum c, List.sort compare l)])
    | "t" :: _ :: t :: (("unlock" | "wait") as k) :: o1 :: o2 :: _ when (k = "unlock" && o1 = "m0") || (k = "wait" && o2 = "m0") ->
        let i = model_of t in
        let thr = th i in
        (match thr.st, thr.prog with
         | InCS, o :: _ ->
             let pend = (try Hashtbl.find pending i with Not_found -> []) in
             Hashtbl.remove pending i;
             (match pool_body cmaxq o !sys.mon.shared with
              | Block c ->
                  if k <> "wait" then rej "%s unlocks, the model's %s waits on c%d" t (show_op o) (int_of_nat c);
                  if o1 <> "c" ^ string_of_int (int_of_nat c) then rej "%s waits on %s, the model on c%d" t o1 (int_of_nat c);
                  if pend <> [] then rej "%s notified before waiting, the model does not" t;
                  do_step (LMon (LBody (nat_of_int i, []))) "wait"
              | Ret (_, r, sg) ->
                  if k <> "unlock" then rej "%s waits on %s, the model's %s returns" t o1 (show_op o);
                  if List.length sg <> List.length pend then
                    rej "%s issued %d notification(s) in %s, the model %d" t (List.length pend) (show_op o) (List.length sg);
                  let picks = List.concat (List.map2 (fun s p -> match s, p with
                    | Notify c, PSig (c', pick) when int_of_nat c = c' ->
                        (match pick with
                         | None -> if all_waiters c' <> [] then rej "notify c%d released nobody although the model has waiters" c'; [O]
                         | Some j -> if not (waiting_on c' j) then rej "notify c%d released a thread that does not wait on it in the model" c';
                                     [nat_of_int j])
                    | NotifyAll c, PBcast (c', l) when int_of_nat c = c' ->
                        if all_waiters c' <> l then rej "notifyAll c%d released a different set than the model's wait set" c'; []
                    | _ -> rej "%s: notification kind/condition differs from the model's in %s" t (show_op o)) sg pend) in
                  do_step (LMon (LBody (nat_of_int i, picks))) "unlock";
                  Hashtbl.replace lastres i (o, r));
             check_obs w; check_h w "-"
         | _ -> rej "%s %ss but is not inside the critical section in the model" t k)
    | "t" :: _ :: t :: "spur" :: c :: _ when relevant_cond c ->
        let i = model_of t in
        if not (waiting_on (tnum c) i) then rej "spurious wake-up of %s which does not wait on %s in the model" t c;
        do_step (LMon (LSpurious (nat_of_int i))) "spurious wake-up"
    | "t" :: _ :: _ :: "tmo" :: c :: _ when relevant_cond c -> rej "time-out on %s: ThreadPool has no timed wait" c
    | "t" :: _ :: t :: "wake" :: c :: _ when relevant_cond c ->
        let i = model_of t in do_step (LMon (LReacquire (nat_of_int i))) ("wake of " ^ t); check_obs w
    | "t" :: _ :: _ :: k :: o :: r :: _ when (o = "m0" || r = "m0") -> rej "unexpected action %s on the pool's mutex" k
    | "t" :: _ :: t :: "join" :: tw :: _ when tnum tw >= 1 && tnum tw <= nw ->
        let i = model_of t in
        (match pc i with
         | CJoin (j, _) when int_of_nat j = tnum tw - 1 -> do_step (LJoin (nat_of_int i)) ("join of " ^ tw)
         | p -> rej "%s joined %s, the model is at %s" t tw (show_pc p));
        check_obs w
    | "t" :: _ :: t :: "exit" :: _ when tnum t >= 1 && tnum t <= nw ->
        let i = model_of t in
        (match pc i with
         | WLoop -> do_step (LLoad (nat_of_int i)) "read of running_";
                    if pc i <> WDone then rej "%s left runInThread although running_ is still true in the model" t
         | p -> rej "%s left runInThread, the model is at %s" t (show_pc p));
        check_obs w
    | "t" :: _ -> check_obs w
    | "e" :: t :: "call" :: "run" :: k :: _ ->
        let i = model_of t in
        (match pc i with
         | CIdle (URun k' :: _) when int_of_nat k' = int_of_string k -> ()
         | p -> rej "%s calls run(%s), the model is at %s" t k (show_pc p));
        do_step (LNext (nat_of_int i)) "run()";
        if nw = 0 then Hashtbl.replace inline_expect i (int_of_string k)
    | "e" :: t :: "init" :: _ ->
        let i = model_of t in
        if i >= nw then rej "%s ran the thread-init callback but is not a pool thread" t;
        (match pc i with
         | WInit -> do_step (LInit (nat_of_int i)) "thread-init callback"
         | p -> rej "%s ran the thread-init callback, the model is at %s" t (show_pc p))
    | "CRASH" :: _ ->
        (* the only abort the model knows: Thread::join of a thread that was joined before (second stop()) *)
        let faulting = List.filter (fun i -> match pc i with
          | CJoin (j, _) -> int_of_nat j < nw && joined j !sys.evs
          | _ -> false) (List.init nthreads (fun i -> i)) in
        (match faulting with
         | i :: _ -> do_step (LJoin (nat_of_int i)) "assertion in Thread::join";
                     (match pc i with CFault _ -> () | p -> rej "the model does not fault (at %s)" (show_pc p))
         | [] -> rej "implementation crashed, the model predicts no fault")
    | "e" :: t :: "x" :: k :: _ ->
        let i = model_of t in
        if i < nw then
          (match pc i with
           | WGot k' when int_of_nat k' = int_of_string k -> do_step (LExec (nat_of_int i)) "task call"
           | p -> rej "%s executes task %s, the model is at %s" t k (show_pc p))
        else
          (match Hashtbl.find_opt inline_expect i with
           | Some k' when k' = int_of_string k -> Hashtbl.remove inline_expect i
           | _ -> rej "%s (not a pool thread) executes task %s, the model does not run it inline there" t k)
    | "e" :: t :: "ret" :: "run" :: k :: _ ->
        let i = model_of t in
        if Hashtbl.mem inline_expect i then rej "%s: run(%s) returned without executing the task inline" t k;
        (match pc i with CIdle _ -> () | p -> rej "%s returned from run(%s), the model is at %s" t k (show_pc p))
    | "e" :: t :: "call" :: "stop" :: _ ->
        let i = model_of t in
        (match pc i with CIdle (UStop :: _) -> () | p -> rej "%s calls stop(), the model is at %s" t (show_pc p));
        do_step (LNext (nat_of_int i)) "stop()"
    | "e" :: t :: "ret" :: "stop" :: _ ->
        let i = model_of t in
        (match pc i with
         | CJoin (j, _) when int_of_nat j >= nw -> do_step (LJoin (nat_of_int i)) "return of stop()"
         | p -> rej "%s returned from stop(), the model is at %s" t (show_pc p))
    | "e" :: t :: "call" :: "size" :: _ ->
        let i = model_of t in
        (match pc i with CIdle (USize :: _) -> () | p -> rej "%s calls queueSize(), the model is at %s" t (show_pc p));
        do_step (LNext (nat_of_int i)) "queueSize()"
    | "e" :: t :: "ret" :: "size" :: v :: _ ->
        let i = model_of t in
        (match pc i, Hashtbl.find_opt lastres i with
         | CIdle _, Some (PSize, RSize m) when int_of_nat m = int_of_string v -> ()
         | p, _ -> rej "%s: queueSize() returned %s, the model disagrees (at %s)" t v (show_pc p))
    | "e" :: _ -> rej "unknown event line"
    | "DEADLOCK" :: _ | "STEPLIMIT" :: _ ->
        (match psome_move cnw cmaxq !sys with
         | None -> ()
         | Some _ -> rej "implementation is stuck but the model can still move")
    | ["final"; q; r] ->
        let qn = int_of_string (String.sub q 6 (String.length q - 6)) in
        let rn = String.sub r 8 (String.length r - 8) = "1" in
        if qn <> List.length !sys.mon.shared.queue then rej "final %s, the model's queue holds %d" q (List.length !sys.mon.shared.queue);
        if rn <> !sys.mon.shared.running then rej "final %s, the model has running=%b" r !sys.mon.shared.running
    | "schedule" :: _ ->
        (* regular end of the run: everybody must be finished in the model too *)
        List.iteri (fun i p -> match p with
          | WDone | CIdle [] -> ()
          | p -> rej "the run ended, the model's thread %d is at %s" i (show_pc p)) !sys.pcs
    | _ -> () in
  let lineno = ref 0 in
  let deadlocked = ref false in
  (try
     Array.iteri (fun a w ->
       lineno := a + 1;
       (match w with ("DEADLOCK" | "STEPLIMIT") :: _ -> deadlocked := true | _ -> ());
       (match w with
        | "schedule" :: _ when !deadlocked -> ()
        | _ -> handle a w);
       (match w with
        | "t" :: _ :: t :: _ | "e" :: t :: _ ->
            let ti = tnum t in if ti >= 1 && ti <= nw then maybe_load (ti - 1) a
        | _ -> ())) words;
     Printf.printf "accepted %d\n" !nsteps
   with
   | Reject r -> Printf.printf "REJECT %d: %s | %s\n" !lineno r lines.(!lineno - 1)
   | Failure r -> Printf.printf "REJECT %d: glue failure %s | %s\n" !lineno r lines.(!lineno - 1)
   | Not_found -> Printf.printf "REJECT %d: glue failure Not_found | %s\n" !lineno lines.(!lineno - 1)
   | Invalid_argument r -> Printf.printf "REJECT %d: glue failure %s | %s\n" !lineno r lines.(!lineno - 1))

let () =
  let nw = ref 1 and maxq = ref 0 in
  let progs = ref [] and lines = ref [] and intrace = ref false in
  (try while true do
    let line = input_line stdin in
    match split_ws line with
    | [] -> ()
    | "case" :: id :: rest ->
        progs := []; lines := []; intrace := false; nw := 1; maxq := 0;
        List.iter (fun t -> match String.split_on_char '=' t with
          | ["nw"; v] -> nw := int_of_string v | ["maxq"; v] -> maxq := int_of_string v | _ -> ()) rest;
        Printf.printf "case %s\n" id
    | ["trace"] -> intrace := true
    | ["end"] ->
        let ls = Array.of_list (List.rev !lines) in
        let ps = List.rev !progs in
        (try validate !nw !maxq (List.map (List.map parse_uop) ps) ls
         with Failure r -> Printf.printf "REJECT 0: %s\n" r);
        print_string "end\n"; flush stdout; intrace := false
    | w -> if !intrace then lines := line :: !lines else progs := split_prog w :: !progs
  done with End_of_file -> ())
