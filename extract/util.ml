(* util.ml: glue between OCaml ints/strings and the extracted inductive numbers.
   Concatenated after `open Model` in front of every driver. Part of the trusted base. *)
let rec nat_of_int_acc (i:int) (acc:nat) : nat = if i <= 0 then acc else nat_of_int_acc (i-1) (S acc)
let nat_of_int (i:int) : nat = nat_of_int_acc i O
let int_of_nat (n:nat) : int = let rec go n acc = match n with O -> acc | S m -> go m (acc+1) in go n 0
let rec pos_of_int (i:int) : positive =
  if i = 1 then XH else if i land 1 = 1 then XI (pos_of_int (i lsr 1)) else XO (pos_of_int (i lsr 1))
let rec int_of_pos (p:positive) : int = match p with XH -> 1 | XO q -> 2 * int_of_pos q | XI q -> 2 * int_of_pos q + 1
let n_of_int (i:int) : n = if i = 0 then N0 else Npos (pos_of_int i)
let int_of_n (x:n) : int = match x with N0 -> 0 | Npos p -> int_of_pos p
let z_of_int (i:int) : z = if i = 0 then Z0 else if i > 0 then Zpos (pos_of_int i) else Zneg (pos_of_int (-i))
let int_of_z (x:z) : int = match x with Z0 -> 0 | Zpos p -> int_of_pos p | Zneg p -> - (int_of_pos p)
(* arbitrary-precision decimal <-> z, for 64-bit values that do not fit OCaml's 63-bit int *)
let z_of_string (s:string) : z =
  let neg = String.length s > 0 && s.[0] = '-' in
  let s' = if neg then String.sub s 1 (String.length s - 1) else s in
  (* digits -> binary via repeated division by 2 on a decimal digit array *)
  let d = Array.init (String.length s') (fun i -> Char.code s'.[i] - 48) in
  let is_zero () = Array.for_all (fun x -> x = 0) d in
  let div2 () = let r = ref 0 in Array.iteri (fun i x -> let v = !r * 10 + x in d.(i) <- v / 2; r := v mod 2) d; !r in
  let bits = ref [] in
  while not (is_zero ()) do bits := div2 () :: !bits done;
  (* bits: most significant first *)
  match !bits with
  | [] -> Z0
  | _ :: rest -> let p = List.fold_left (fun acc b -> if b = 1 then XI acc else XO acc) XH rest in
                 if neg then Zneg p else Zpos p
let string_of_z (x:z) : string =
  let mag p =
    (* collect bits msb first *)
    let rec bits p acc = match p with XH -> 1 :: acc | XO q -> bits q (0 :: acc) | XI q -> bits q (1 :: acc) in
    let bs = bits p [] in
    let d = ref [0] in  (* decimal digits, least significant first *)
    List.iter (fun b ->
      let carry = ref b in
      d := List.map (fun x -> let v = 2*x + !carry in carry := v / 10; v mod 10) !d;
      if !carry > 0 then d := !d @ [!carry]) bs;
    String.concat "" (List.rev_map string_of_int !d) in
  match x with Z0 -> "0" | Zpos p -> mag p | Zneg p -> "-" ^ mag p
let byte_tab : byte array =
  Array.init 256 (fun i -> xbyte_of_N (n_of_int i))
let byte_of_int (i:int) : byte = byte_tab.(i land 255)
let int_of_byte (b:byte) : int = int_of_n (xN_of_byte b)
let hexd = "0123456789abcdef"
let hex_of_bytes (l: byte list) : string =
  let b = Buffer.create 64 in
  List.iter (fun x -> let i = int_of_byte x in Buffer.add_char b hexd.[i lsr 4]; Buffer.add_char b hexd.[i land 15]) l;
  Buffer.contents b
(* CRC-32 (zlib polynomial), 8 hex digits; same function in harness/common.h and Python's zlib.crc32 *)
let crc_tab : int array = Array.init 256 (fun i ->
  let c = ref i in
  for _ = 0 to 7 do c := if !c land 1 = 1 then 0xEDB88320 lxor (!c lsr 1) else !c lsr 1 done; !c)
let fnv_of_bytes (l: byte list) : string =
  let c = ref 0xffffffff in
  List.iter (fun x -> c := crc_tab.((!c lxor (int_of_byte x)) land 255) lxor (!c lsr 8)) l;
  Printf.sprintf "%08x" (!c lxor 0xffffffff)
let hv c = if c >= '0' && c <= '9' then Char.code c - 48 else Char.code c - 87
(* payload syntax: plain hex, "-" for empty, or "@len:seed" = len bytes from xorshift32(seed) *)
let bytes_of_spec (s:string) : byte list =
  if s = "-" then []
  else if String.length s > 0 && s.[0] = '@' then begin
    let i = String.index s ':' in
    let len = int_of_string (String.sub s 1 (i-1)) in
    let seed = int_of_string (String.sub s (i+1) (String.length s - i - 1)) in
    let x = ref ((seed land 0xffffffff) lor 1) in
    let acc = ref [] in
    for _ = 1 to len do
      x := !x lxor ((!x lsl 13) land 0xffffffff);
      x := !x lxor (!x lsr 17);
      x := !x lxor ((!x lsl 5) land 0xffffffff);
      acc := byte_of_int (!x land 255) :: !acc
    done;
    List.rev !acc
  end else begin
    let n = String.length s / 2 in
    let acc = ref [] in
    for i = n - 1 downto 0 do acc := byte_of_int (hv s.[2*i] * 16 + hv s.[2*i+1]) :: !acc done;
    !acc
  end
let split_ws (s:string) : string list = List.filter (fun x -> x <> "") (String.split_on_char ' ' s)
