(* extraction of the C20 model: ExtrOcamlBasic only (DESIGN section 7) *)
From Coq Require Extraction.
From Coq Require Import ExtrOcamlBasic.
From Coq Require Import List ZArith NArith.
From Coq.Strings Require Import Byte.
From Muduo Require Import Base_Bytes Gen_C20 Gen_C20Net Gen_C20Tz Gen_C20Ts C20_Model C20_TzGen C20_TsGen C20_NetModel C20_Ip6Model C20_TzifModel Gen_C20Tzif.
Extraction "model.ml" Gen_C20.getYearMonthDay Gen_C20.getJulianDayNumber Gen_C20.weekDay
  C20_Model.break_utc C20_Model.fromUtc C20_TzGen.toLocalTime_g C20_TzGen.fromLocalTime_g
  C20_Model.wf C20_Model.sorted_utc C20_TsGen.ts_toString_g C20_TsGen.ts_toFormatted_g C20_TsGen.date_toIsoString_g
  Gen_C20Ts.Timestamp_secondsSinceEpoch Gen_C20Ts.Timestamp_fromUnixTime Gen_C20Ts.Timestamp_addTime Gen_C20Ts.Timestamp_timeDifference_diff
  C20_NetModel.inet_make C20_NetModel.inet_port_only C20_NetModel.inet_toIp C20_NetModel.inet_toIpPort C20_NetModel.inet_port C20_NetModel.set_scope_id
  C20_NetModel.pton4 C20_NetModel.ntop4 C20_NetModel.be_op C20_NetModel.AF_INET6
  Gen_C20Tzif.tzif_parse_g C20_Ip6Model.ntop6 C20_Ip6Model.pton6
  Base_Bytes.to_signed
  Base_Bytes.xbyte_of_N Base_Bytes.xN_of_byte.
