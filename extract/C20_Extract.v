(* extraction of the C20 model: ExtrOcamlBasic only (DESIGN section 7) *)
From Coq Require Extraction.
From Coq Require Import ExtrOcamlBasic.
From Coq Require Import List ZArith NArith.
From Coq.Strings Require Import Byte.
From Muduo Require Import Base_Bytes Gen_C20 C20_Model.
Extraction "model.ml" Gen_C20.getYearMonthDay Gen_C20.getJulianDayNumber Gen_C20.weekDay
  C20_Model.break_utc C20_Model.fromUtc C20_Model.toLocalTime C20_Model.fromLocalTime
  C20_Model.wf C20_Model.sorted_utc C20_Model.ts_toString C20_Model.ts_toFormatted
  C20_Model.inet_make C20_Model.inet_port_only C20_Model.toIp C20_Model.toIpPort C20_Model.port_load
  C20_Model.pton4 C20_Model.ntop4
  Base_Bytes.be_encode Base_Bytes.be_decode Base_Bytes.be_decode_signed
  Base_Bytes.xbyte_of_N Base_Bytes.xN_of_byte.
