(* extraction of the C14 models over the generic monitor semantics: ExtrOcamlBasic only *)
From Coq Require Extraction.
From Coq Require Import ExtrOcamlBasic.
From Coq Require Import List ZArith NArith.
From Muduo Require Import Base_Bytes Conc_Model C14_Model.
Extraction "model.ml" Conc_Model.step Conc_Model.init_sys Conc_Model.nwaiting Conc_Model.is_waiting
  C14_Model.bq_body C14_Model.bbq_body C14_Model.latch_body C14_Model.isLockedByThisThread
  Base_Bytes.xbyte_of_N Base_Bytes.xN_of_byte.
