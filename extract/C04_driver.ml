(* C04/C05 trace validator for kind=loop cases (harness/C04_driver.cc).  Input per case:
     case <id> kind=loop pts=0|1 ...
     P <acts> / L <acts> (one per further call of loop()) / T <acts> / S <id> <acts>
     trace
     <the implementation's output lines>
     end
   The loop thread is T0, foreign thread i is T(i+1).  Every trace line is mapped to a label of
   C04_Model.step (with the shape generated from the current source); steps without a visible
   system call (flag stores, tests, starting a functor) are taken as soon as the thread's previous
   visible step is done, except that they stop at the instrumentation points, at the driver's
   "enter" / "loop-returned" events (entry and return of loop()) and, after a poll that dispatches
   an I/O callback, at the "cb k" event (the wake-up channel may be handled before or after the
   callback: PollPoller reports in registration order, epoll in readiness order); observers
   (queue size, eventfd counter, quit_, callingPendingFunctors_, looping_) are compared after every
   visible step and the order of functor / callback starts with the model's log.
   Output: "case <id>", "accepted <steps>" or "REJECT <line no>: <reason> | <line>", "end". *)
exception Reject of string
let rej fmt = Printf.ksprintf (fun s -> raise (Reject s)) fmt

let timers : int list ref = ref []
let parse_acts (w : string list) : act list =
  let rec go = function
    | [] -> []
    | (";" | "-") :: r -> go r
    | "q" :: t :: r -> AQueue (nat_of_int (int_of_string t)) :: go r
    | "r" :: t :: r -> ARun (nat_of_int (int_of_string t)) :: go r
    | "ev" :: k :: r -> AOffer (nat_of_int (int_of_string k)) :: go r
    | "ta" :: k :: r ->
        (* loop->runAfter(0, callback k): TimerQueue::addTimer = runInLoop(addTimerInLoop); addTimerInLoop
           arms the timerfd = makes event k ready: the internal functor is task 1000+k with script [AOffer k] *)
        timers := int_of_string k :: !timers; ARun (nat_of_int (1000 + int_of_string k)) :: go r
    | "pt" :: r -> go r
    | "quit" :: r -> AQuit :: go r
    | x :: _ -> failwith ("bad act " ^ x) in
  go w

let tnum s = int_of_string (String.sub s 1 (String.length s - 1))
let obs_of (w : string list) key =
  let p = key ^ "=" in
  let n = String.length p in
  let rec go = function
    | [] -> None
    | x :: r -> if String.length x >= n && String.sub x 0 n = p then Some (String.sub x n (String.length x - n)) else go r in
  go w

type kind = KSection | KWriteEv | KWritePipe | KTimerArm | KReadEv | KPoll | KSilent | KEnd

(* header token post=<mask>: the scheduler parks a thread AFTER a write as well ("after write" line): what the
   thread does silently after its wake-up write then happens when that line appears, not at the write *)
let postw = ref false

let validate (pts : bool) (prefix : act list) (later : act list list) (progs : act list list)
    (scripts : (int * act list) list) (lines : string list) : int =
  let sh = gen_shape in
  let qsf = quit_stores_before_wakeup in     (* order of the two halves of quit() in the current source *)
  let step sh scr s lab = step_o qsf sh scr s lab in
  let scr (t : nat) = try List.assoc (int_of_nat t) scripts with Not_found -> [] in
  let st = ref (init prefix later progs) in
  let nthreads = 1 + List.length progs in
  let passed = Array.make nthreads false in
  let started = Array.make nthreads false in
  let expected : string Queue.t = Queue.create () in
  let steps = ref 0 in
  let wakefd = ref "" and pipew = ref "" and piper = ref "" in
  let stuck = ref false in
  let enter_tok = ref 0 and ret_tok = ref 0 and cb_wait = ref false in
  let mop_kind il m =
    let g = !st.sg in
    match m with
    | MQueue _ -> (KSection, None)
    | MWakeTest -> ((if sh.wake il g.calling g.looping then KWriteEv else KSilent), Some "queue_mid")
    | MExec _ -> (KSilent, None)
    (* first / second half of quit(): store then wake-up test, or (qsf = false) wake-up test then store;
       the instrumentation point quit_mid is the entry of isInLoopThread(), i.e. in front of the wake-up test *)
    | MQuitStore -> if qsf then (KSilent, None) else ((if sh.qwake il then KWriteEv else KSilent), Some "quit_mid")
    | MQuitWake -> if qsf then ((if sh.qwake il then KWriteEv else KSilent), Some "quit_mid") else (KSilent, None)
    | MOffer k -> ((if int_of_nat k >= 500 then KTimerArm else KWritePipe), None) in
  let next x : kind * string option =
    let s = !st in
    if x = 0 then
      match s.pc, s.lcode with
      | (LPre | LHandle _ | LRun _), m :: _ -> mop_kind true m
      | LPre, [] -> (KSilent, Some "loop_entry")
      | LTest, _ -> (KSilent, None)
      | LPoll, _ -> (KPoll, None)
      | LHandle true, [] -> (KReadEv, None)
      | LHandle false, [] -> (KSilent, None)
      | LSwap, _ -> (KSection, None)
      | LRun _, [] -> (KSilent, None)
      | LExit, _ -> (KSilent, None)
      | LDone, _ -> (match s.lnext with [] -> (KEnd, None) | _ -> (KSilent, None))
    else
      match List.nth_opt s.fcode (x - 1) with
      | Some (m :: _) -> mop_kind false m
      | _ -> (KEnd, None) in
  let do_step x lab =
    let before = List.length !st.sg.log in
    (if x = 0 && lab = TLoop then
       match !st.pc, !st.lcode with
       | LPre, [] -> decr enter_tok
       | LDone, _ -> decr ret_tok
       | _ -> ());
    (match step sh scr !st lab with
     | Some s' -> st := s'
     | None -> rej "model: step of T%d not enabled" x);
    incr steps;
    passed.(x) <- false;
    let rec drop n l = if n = 0 then l else match l with [] -> [] | _ :: r -> drop (n - 1) r in
    List.iter (function
        | EExecQ t | EExecI t ->
            (* tasks >= 1000 are muduo's own functors (addTimerInLoop): they log nothing *)
            if int_of_nat t < 1000 then Queue.add (Printf.sprintf "x %d" (int_of_nat t)) expected
        | _ -> ()) (drop before !st.sg.log) in
  let lab_of x = if x = 0 then TLoop else TF (nat_of_int (x - 1)) in
  let blocked x =
    (x = 0 && (!cb_wait ||
               (match !st.pc, !st.lcode with
                | LPre, [] -> !enter_tok <= 0
                | LDone, _ -> !ret_tok <= 0
                | _ -> false))) ||
    (match snd (next x) with Some _ -> pts && not passed.(x) | None -> false) in
  let rec eager x =
    if started.(x) && not (blocked x) then
      match fst (next x) with
      | KSilent -> do_step x (lab_of x); eager x
      | _ -> () in
  let check_obs w =
    let g = !st.sg in
    let chk key v = match obs_of w key with
      | Some s when s <> string_of_int v -> rej "observer %s: implementation %s, model %d" key s v
      | _ -> () in
    chk "q" (List.length g.pending);
    chk "ev" (int_of_nat g.evfd);
    chk "quit" (if g.quit then 1 else 0);
    chk "call" (if g.calling then 1 else 0);
    chk "loop" (if g.looping then 1 else 0) in
  (* an instrumentation point is a place where the scheduler MAY switch, not an event of the program:
     when the implementation did not pass it (e.g. `!looping_ || ... || !isInLoopThread()` short-circuits
     before the instrumented call) the thread's next visible step releases the model's thread as well *)
  let rec skip_point x =
    match snd (next x) with
    | Some _ when pts && not passed.(x) -> passed.(x) <- true; eager x; skip_point x
    | _ -> () in
  (* a thread may have run silently past a point the implementation does not have (no instrumented call
     on that path): before giving up on an observer mismatch release all pending points and compare again;
     a point the implementation does pass later is then rejected at its own line *)
  let check_obs w =
    try check_obs w with Reject _ -> (for x = 0 to nthreads - 1 do skip_point x done; check_obs w) in
  let need x k what =
    skip_point x;
    if blocked x then rej "T%d performs %s but the model is held before loop() is entered / has returned / a callback starts" x what;
    if fst (next x) <> k then rej "T%d performs %s, the model's next visible step of that thread is different" x what in
  let handle (line : string) =
    let w = split_ws line in
    match w with
    | "e" :: tx :: "loop" :: "created" :: rest ->
        List.iter (fun tok ->
            if String.length tok > 5 && String.sub tok 0 5 = "wake=" then wakefd := String.sub tok 5 (String.length tok - 5)
            else if String.length tok > 5 && String.sub tok 0 5 = "pipe=" then begin
              match String.split_on_char ',' (String.sub tok 5 (String.length tok - 5)) with
              | [a; b] -> piper := a; pipew := b
              | _ -> () end) rest
    | ["e"; "T0"; "go"] -> started.(0) <- true; eager 0
    | ["e"; tx; "x"; t] ->
        if tnum tx <> 0 then rej "task %s executed on T%d, not on the loop thread" t (tnum tx);
        if Queue.is_empty expected then skip_point 0;
        if Queue.is_empty expected then rej "implementation runs task %s, the model runs none here" t;
        let e = Queue.pop expected in
        if e <> "x " ^ t then rej "implementation runs task %s, the model runs '%s'" t e
    | ["e"; tx; "timer-armed"] ->
        let x = tnum tx in
        skip_point x;
        if x = 0 && fst (next 0) <> KTimerArm && !st.sg.evq <> [] then ()
        (* TimerQueue::reset re-arms the timerfd for a timer that is already pending: no new event *)
        else begin need x KTimerArm "arming the timer"; do_step x (lab_of x); eager x end
    | ["e"; "T0"; "enter"] -> incr enter_tok; eager 0
    | ["e"; "T0"; "loop-returned"] ->
        (match !st.pc with LDone -> () | _ -> skip_point 0);
        (match !st.pc with LDone -> () | _ -> rej "loop() returned, the model's loop thread has not reached its exit");
        incr ret_tok; eager 0
    | ["e"; "T0"; "cb"; _] -> cb_wait := false; eager 0
    | "e" :: _ -> ()
    | "t" :: _ :: tx :: kind :: obj :: res :: obs when not !stuck ->
        let x = tnum tx in
        if x >= nthreads then rej "unknown thread T%d" x;
        (match kind with
         | "begin" -> started.(x) <- true; eager x
         | "lock" when obj = "m0" -> need x KSection "lock of the queue mutex"; check_obs obs
         | "unlock" when obj = "m0" ->
             need x KSection "unlock of the queue mutex"; do_step x (lab_of x); check_obs obs; eager x
         | "point" when obj = "user" || obj = "before_pool_destroy" -> ()
         | "point" ->
             if not pts then rej "point %s in a run without points" obj;
             (match snd (next x) with Some p when p <> obj && not passed.(x) -> skip_point x | _ -> ());
             (match snd (next x) with
              | Some p when p = obj -> passed.(x) <- true
              | _ -> rej "T%d is at point %s, the model's thread is not" x obj);
             check_obs obs; eager x
         | "write" when obj = !wakefd ->
             if res <> "8" then rej "wake-up write returned %s" res;
             need x KWriteEv "a wake-up write"; do_step x (lab_of x); check_obs obs; if not !postw then eager x
         | "after" when obj = "write" -> check_obs obs; eager x
         | "write" when obj = !pipew -> need x KWritePipe "an event write"; do_step x (lab_of x); check_obs obs; if not !postw then eager x
         | "read" when obj = !wakefd ->
             if x <> 0 then rej "T%d reads the wake-up descriptor" x;
             (match !st.pc with LHandle true -> () | _ -> rej "handleRead() although the model's wake-up channel is not active");
             do_step 0 TRead; check_obs obs; eager 0
         | "read" when obj = !piper -> ()
         | "read" when x = 0 -> ()      (* TimerQueue::handleRead reads the (emulated) timerfd *)
         | "poll" ->
             if x <> 0 then rej "T%d polls" x;
             need 0 KPoll "poll";
             let n = int_of_string res in
             let g = !st.sg in
             let exp = (if int_of_nat g.evfd > 0 then 1 else 0) + (if g.evq <> [] then 1 else 0) in
             if n <> exp then rej "poll returned %d ready descriptors, the model has %d" n exp;
             (match g.evq with k :: _ -> Queue.add (Printf.sprintf "cb %d" (int_of_nat k)) expected; cb_wait := true | [] -> ());
             do_step 0 (if n = 0 then TSpur else TLoop);
             (* the callback start is logged by the implementation as "cb k": matched loosely *)
             check_obs obs; eager 0
         | "tmo" ->
             if x <> 0 then rej "time-out of T%d" x;
             need 0 KPoll "a poll time-out";
             if poll_ready !st.sg then rej "the implementation is stuck in poll, the model's poll is ready";
             check_obs obs; stuck := true
         | "exit" -> if x > 0 then skip_point x; if x > 0 && fst (next x) <> KEnd then rej "T%d exits, the model's thread has code left" x
         | "create" | "join" | "lock" | "unlock" | "after" -> ()
         | k -> rej "unexpected trace kind %s" k)
    | "t" :: _ -> ()
    | "DEADLOCK" :: _ -> rej "DEADLOCK in the implementation (the model has no blocking lock cycle)"
    | "STEPLIMIT" :: _ -> rej "step limit (livelock) in the implementation"
    | "CRASH" :: _ -> rej "implementation crashed"
    | _ -> () in
  let lineno = ref 0 in
  List.iter (fun l ->
      incr lineno;
      (* "cb k" events consume the expectation queued by the poll step *)
      (match split_ws l with
       | ["e"; _; "cb"; k] ->
           if Queue.is_empty expected || Queue.peek expected <> "cb " ^ k then
             raise (Reject (Printf.sprintf "%d: callback %s dispatched, the model expects %s | %s" !lineno k
                              (if Queue.is_empty expected then "nothing" else Queue.peek expected) l))
           else ignore (Queue.pop expected)
       | _ -> ());
      try handle l with Reject s -> raise (Reject (Printf.sprintf "%d: %s | %s" !lineno s l))) lines;
  if not (Queue.is_empty expected) then
    raise (Reject (Printf.sprintf "%d: the model ran '%s' which the implementation never did | -" !lineno (Queue.peek expected)));
  !steps

let () =
  let cur_id = ref "" and pts = ref true and prefix = ref [] and later = ref [] and progs = ref [] and scripts = ref [] in
  let in_trace = ref false and lines = ref [] and kind = ref "loop" in
  (try
     while true do
       let line = input_line stdin in
       let w = split_ws line in
       if !in_trace then begin
         if line = "end" then begin
           in_trace := false;
           Printf.printf "case %s\n" !cur_id;
           (if !kind <> "loop" then print_string "accepted 0\n"
            else
              try
                let tscripts = List.map (fun k -> (1000 + k, [AOffer (nat_of_int k)])) !timers in
                let n = validate !pts !prefix (List.rev !later) (List.rev !progs) (tscripts @ !scripts) (List.rev !lines) in
                Printf.printf "accepted %d\n" n
              with Reject s -> Printf.printf "REJECT %s\n" s
                 | Failure s -> Printf.printf "REJECT 0: validator failure %s | -\n" s);
           print_string "end\n"; flush stdout
         end else lines := line :: !lines
       end else
         match w with
         | "case" :: id :: rest ->
             cur_id := id; prefix := []; later := []; progs := []; scripts := []; lines := []; pts := true; kind := "loop";
             timers := []; postw := false;
             List.iter (fun t ->
                 if t = "pts=0" then pts := false;
                 if String.length t > 5 && String.sub t 0 5 = "post=" && t <> "post=0" then postw := true;
                 if String.length t > 5 && String.sub t 0 5 = "kind=" then kind := String.sub t 5 (String.length t - 5)) rest
         | "P" :: r -> prefix := parse_acts r
         | "L" :: r -> later := parse_acts r :: !later
         | "T" :: r -> progs := parse_acts r :: !progs
         | "S" :: id :: r -> scripts := (int_of_string id, parse_acts r) :: !scripts
         | ["trace"] -> in_trace := true
         | _ -> ()
     done
   with End_of_file -> ())
