(* extraction of the connection model: ExtrOcamlBasic only *)
From Coq Require Extraction.
From Coq Require Import ExtrOcamlBasic.
From Coq Require Import List ZArith NArith.
From Coq.Strings Require Import Byte.
From Muduo Require Import Base_Bytes Conn_Model.
Extraction "model.ml" Conn_Model.step Conn_Model.init Conn_Model.run_batch Conn_Model.uses_kernel
  Conn_Model.xstep Conn_Model.xinit Conn_Model.timer_due
  Base_Bytes.xbyte_of_N Base_Bytes.xN_of_byte Base_Bytes.xanchor.
