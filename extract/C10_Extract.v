(* extraction of the C10 model: ExtrOcamlBasic only (DESIGN section 7) *)
From Coq Require Extraction.
From Coq Require Import ExtrOcamlBasic.
From Coq Require Import List ZArith NArith.
From Coq.Strings Require Import Byte.
From Muduo Require Import Base_Bytes C10_Model.
Extraction "model.ml" C10_Model.step_c C10_Model.new_buf C10_Model.readable
  C10_Model.readableBytes C10_Model.writableBytes C10_Model.prependableBytes C10_Model.readFd_capacity
  Base_Bytes.xbyte_of_N Base_Bytes.xN_of_byte Base_Bytes.xanchor.
