"""clang JSON AST access for the translator (L0): constants, array sizes, enum values,
switch tables and small integer expressions/functions, read from /repo's *current*
sources.  Everything here is in the trusted base (DESIGN.md section 7): it is kept
small, and each generated fact echoes the matched source text as a comment."""
import json, os, subprocess, hashlib

REPO = os.environ.get("VERIF_REPO", "/repo")
ROOT = os.path.dirname(os.path.dirname(os.path.abspath(__file__)))
_cache = {}


def dump(relfile, filt, extra_args=()):
    """All top-level decls clang prints for -ast-dump-filter=<filt> in REPO/relfile."""
    path = os.path.join(REPO, relfile)
    key = (path, filt, tuple(extra_args))
    if key in _cache:
        return _cache[key]
    cmd = ["clang++", "-std=c++11", "-I" + REPO, "-fsyntax-only", "-w",
           "-Xclang", "-ast-dump=json", "-Xclang", "-ast-dump-filter=" + filt] + list(extra_args) + [path]
    p = subprocess.run(cmd, stdout=subprocess.PIPE, stderr=subprocess.PIPE, timeout=120)
    txt = p.stdout.decode("utf-8", "replace")
    out = []
    dec = json.JSONDecoder()
    i = 0
    n = len(txt)
    while i < n:
        while i < n and txt[i] != "{":
            i += 1
        if i >= n:
            break
        obj, j = dec.raw_decode(txt, i)
        out.append(obj)
        i = j
    _cache[key] = out
    return out


def walk(node):
    yield node
    for c in node.get("inner", []) or []:
        if isinstance(c, dict):
            yield from walk(c)


def find(node, kind=None, name=None):
    for n in walk(node):
        if (kind is None or n.get("kind") == kind) and (name is None or n.get("name") == name):
            yield n


def src_text(node, relfile_hint=None):
    """Source text of a node (needs offsets; best effort)."""
    rng = node.get("range", {})
    b, e = rng.get("begin", {}), rng.get("end", {})
    f = b.get("file") or (b.get("spellingLoc", {}) or {}).get("file")
    if "offset" not in b or "offset" not in e:
        return ""
    path = f or (os.path.join(REPO, relfile_hint) if relfile_hint else None)
    if not path or not os.path.exists(path):
        return ""
    data = open(path, "rb").read()
    return data[b["offset"]: e["offset"] + e.get("tokLen", 1)].decode("utf-8", "replace")


class Untranslatable(Exception):
    pass


def strip(node):
    """Skip casts, parens, cleanups and other transparent wrappers."""
    while node.get("kind") in ("ImplicitCastExpr", "ParenExpr", "CStyleCastExpr", "CXXStaticCastExpr",
                               "ExprWithCleanups", "ConstantExpr", "CXXFunctionalCastExpr",
                               "MaterializeTemporaryExpr", "CXXBindTemporaryExpr"):
        if node.get("kind") == "ConstantExpr" and "value" in node:
            return node
        inner = [c for c in node.get("inner", []) if isinstance(c, dict)]
        if len(inner) != 1:
            break
        node = inner[0]
    return node


def const_eval(node, env=None):
    """Evaluate an integer constant expression (Python int)."""
    env = env or {}
    node = strip(node)
    k = node.get("kind")
    if k == "ConstantExpr" and "value" in node:
        return int(node["value"])
    if k == "IntegerLiteral":
        return int(node["value"])
    if k == "CharacterLiteral":
        return int(node["value"])
    if k == "CXXBoolLiteralExpr":
        return 1 if node["value"] else 0
    if k == "UnaryOperator":
        v = const_eval(node["inner"][0], env)
        op = node["opcode"]
        if op == "-":
            return -v
        if op == "+":
            return v
        if op == "!":
            return 0 if v else 1
        if op == "~":
            return ~v
    if k == "BinaryOperator":
        a = const_eval(node["inner"][0], env)
        b = const_eval(node["inner"][1], env)
        op = node["opcode"]
        if op == "+": return a + b
        if op == "-": return a - b
        if op == "*": return a * b
        if op == "/": return int(a / b) if b else (_ for _ in ()).throw(Untranslatable("div0"))
        if op == "%": return a - b * int(a / b)
        if op == "<<": return a << b
        if op == ">>": return a >> b
        if op == "|": return a | b
        if op == "&": return a & b
    if k == "DeclRefExpr":
        nm = node.get("referencedDecl", {}).get("name")
        if nm in env:
            return env[nm]
        # follow to a constant we can look up by name in the same dump set
        raise Untranslatable("unresolved name " + str(nm))
    if k == "UnaryExprOrTypeTraitExpr" and node.get("name") == "sizeof":
        t = node.get("argType", {}).get("qualType")
        sizes = {"char": 1, "int8_t": 1, "int16_t": 2, "int32_t": 4, "int64_t": 8, "int": 4,
                 "uint32_t": 4, "uint64_t": 8, "uint16_t": 2, "long": 8}
        if t in sizes:
            return sizes[t]
        inner = [c for c in node.get("inner", []) if isinstance(c, dict)]
        if inner:
            qt = strip(inner[0]).get("type", {}).get("qualType", "")
            if qt in sizes:
                return sizes[qt]
            import re
            m = re.match(r"(?:const )?char\[(\d+)\]", qt)
            if m:
                return int(m.group(1))
    raise Untranslatable("const_eval: %s" % k)


def var_const(relfile, name, env=None):
    """Value of a `const T name = <integer constant expr>` (static member or namespace scope)."""
    last = None
    for d in dump(relfile, name):
        for v in find(d, "VarDecl", name):
            inner = [c for c in v.get("inner", []) if isinstance(c, dict) and c.get("kind", "").endswith(("Expr", "Literal", "Operator"))]
            if inner:
                try:
                    return const_eval(inner[0], env), src_text(v)
                except Untranslatable as e:
                    last = e
    raise Untranslatable("no initialised VarDecl %s in %s (%s)" % (name, relfile, last))


def array_size(relfile, func, var):
    """N of a local `T var[N]` inside function `func`."""
    import re
    for d in dump(relfile, func):
        for v in find(d, "VarDecl", var):
            qt = v.get("type", {}).get("qualType", "")
            m = re.search(r"\[(\d+)\]", qt)
            if m:
                return int(m.group(1)), src_text(v)
    raise Untranslatable("no array %s in %s" % (var, func))


def enum_const(relfile, enumerator):
    for d in dump(relfile, enumerator):
        for e in find(d, "EnumConstantDecl", enumerator):
            for c in walk(e):
                if c.get("kind") == "ConstantExpr" and "value" in c:
                    return int(c["value"]), src_text(e)
    raise Untranslatable("enum constant %s" % enumerator)


def function_decl(relfile, qualname):
    """The FunctionDecl/CXXMethodDecl with a body for a (possibly qualified) name."""
    short = qualname.split("::")[-1]
    best = None
    for d in dump(relfile, qualname):
        for n in walk(d):
            if n.get("kind") in ("FunctionDecl", "CXXMethodDecl", "CXXConstructorDecl", "CXXDestructorDecl") \
               and n.get("name") == short:
                if any(isinstance(c, dict) and c.get("kind") == "CompoundStmt" for c in n.get("inner", [])):
                    best = n
    if best is None:
        raise Untranslatable("no body for %s in %s" % (qualname, relfile))
    return best


def body(fn):
    for c in fn.get("inner", []):
        if isinstance(c, dict) and c.get("kind") == "CompoundStmt":
            return c
    raise Untranslatable("no body")


def switch_table(relfile, qualname, nth=0):
    """For the nth switch in a function: list of (case constants..., 'default') groups in
    source order, each with the source text of the statements that follow the labels."""
    fn = function_decl(relfile, qualname)
    sw = [n for n in walk(fn) if n.get("kind") == "SwitchStmt"]
    if nth >= len(sw):
        raise Untranslatable("no switch #%d in %s" % (nth, qualname))
    comp = [c for c in sw[nth]["inner"] if isinstance(c, dict) and c.get("kind") == "CompoundStmt"][0]
    groups = []
    cur_labels = []
    cur_body = []

    def flush():
        nonlocal cur_labels, cur_body
        if cur_labels:
            groups.append((cur_labels, cur_body))
        cur_labels, cur_body = [], []

    def eat(node):
        nonlocal cur_labels, cur_body
        k = node.get("kind")
        if k in ("CaseStmt", "DefaultStmt"):
            if cur_body:
                flush()
            inner = [c for c in node.get("inner", []) if isinstance(c, dict)]
            if k == "CaseStmt":
                cur_labels.append(const_eval(inner[0]))
                rest = inner[1:]
            else:
                cur_labels.append("default")
                rest = inner
            for r in rest:
                eat(r)
        else:
            cur_body.append(node)

    for st in comp.get("inner", []):
        if isinstance(st, dict):
            eat(st)
    flush()
    return groups, src_text(sw[nth])


# --------------------------------------------------------------------------- guard expressions -> Gallina

class GExpr:
    """Gallina text of a boolean/integer C++ expression plus its free variables (name -> 'Z'|'bool')."""

    def __init__(self):
        self.vars = {}

    def var(self, name, ty):
        name = name.rstrip("_")
        if name in ("fix", "if", "then", "else", "end", "match", "with", "fun", "let", "in", "at", "as", "return", "for", "by"):
            name += "'"
        old = self.vars.get(name)
        if old and old != ty:
            raise Untranslatable("variable %s used at %s and %s" % (name, old, ty))
        self.vars[name] = ty
        return name

    def tr(self, node, want):
        """want: 'bool' or 'Z'"""
        node = strip(node)
        k = node.get("kind")
        if k == "ImplicitCastExpr" or k == "CXXOperatorCallExpr" and False:
            pass
        if k == "ConstantExpr" and "value" in node:
            return "(%d)" % int(node["value"])
        if k == "IntegerLiteral":
            if want == "bool":
                return "true" if int(node["value"]) else "false"
            return "(%d)" % int(node["value"])
        if k == "CXXBoolLiteralExpr":
            return "true" if node["value"] else "false"
        if k == "BinaryOperator":
            op = node["opcode"]
            a, b = node["inner"][0], node["inner"][1]
            if op in ("&&", "||"):
                return "(%s %s %s)%%bool" % (self.tr(a, "bool"), op, self.tr(b, "bool"))
            cmpops = {"<": "Z.ltb", "<=": "Z.leb", ">": "Z.gtb", ">=": "Z.geb", "==": "Z.eqb"}
            if op in cmpops:
                r = "(%s %s %s)" % (cmpops[op], self.tr(a, "Z"), self.tr(b, "Z"))
                return r
            if op == "!=":
                return "(negb (Z.eqb %s %s))" % (self.tr(a, "Z"), self.tr(b, "Z"))
            arith = {"+": "Z.add", "-": "Z.sub", "*": "Z.mul", "/": "Z.quot", "%": "Z.rem"}
            if op in arith:
                return "(%s %s %s)" % (arith[op], self.tr(a, "Z"), self.tr(b, "Z"))
            raise Untranslatable("binary operator " + op)
        if k == "UnaryOperator":
            op = node["opcode"]
            inner = node["inner"][0]
            if op == "!":
                return "(negb %s)" % self.tr(inner, "bool")
            if op == "-":
                return "(Z.opp %s)" % self.tr(inner, "Z")
            if op == "*":
                # errno is (*__errno_location ())
                names = [n.get("referencedDecl", {}).get("name") for n in walk(inner) if n.get("kind") == "DeclRefExpr"]
                if "__errno_location" in names:
                    return self.var("errno", want)
            raise Untranslatable("unary operator " + op)
        if k == "DeclRefExpr":
            rd = node.get("referencedDecl", {})
            return self.var(rd.get("name", "?"), want)
        if k == "MemberExpr":
            return self.var(node.get("name", "?"), want)
        if k in ("CXXMemberCallExpr", "CallExpr", "CXXOperatorCallExpr"):
            callee = strip(node["inner"][0])
            args = [c for c in node["inner"][1:] if isinstance(c, dict) and c.get("kind") != "CXXDefaultArgExpr"]
            if callee.get("kind") == "MemberExpr":
                obj = strip(callee["inner"][0]) if callee.get("inner") else {}
                objname = ""
                while obj.get("kind") in ("MemberExpr", "CXXOperatorCallExpr", "ImplicitCastExpr"):
                    if obj.get("kind") == "MemberExpr":
                        objname = obj.get("name", "").rstrip("_")
                        break
                    inner = [c for c in obj.get("inner", []) if isinstance(c, dict)]
                    obj = strip(inner[-1]) if inner else {}
                m = callee.get("name", "?")
                if m == "operator bool":
                    return self.var("has_" + objname, "bool")
                if not args:
                    return self.var((objname + "_" if objname and objname != "channel" else "") + m, want)
            raise Untranslatable("call " + str(callee.get("name")))
        raise Untranslatable("expression kind %s" % k)


def if_conditions(relfile, qualname):
    """conditions of the IfStmts of a function, in source order"""
    fn = function_decl(relfile, qualname)
    res = []
    for n in walk(fn):
        if n.get("kind") == "IfStmt":
            inner = [c for c in n.get("inner", []) if isinstance(c, dict)]
            res.append(inner[0])
    return res


def gallina_guard(name, cond_node):
    """(text of a Definition, ordered variable list) for one condition; arguments sorted by name"""
    g = GExpr()
    body = g.tr(cond_node, "bool")
    vs = sorted(g.vars.items())
    args = " ".join("(%s : %s)" % (v, t) for v, t in vs)
    return "Definition %s %s : bool :=\n  %s." % (name, args, body), vs
