#!/usr/bin/env python3
"""Translator output for the owners model (C02), read off the clang AST of /repo's current
TcpServer.cc / TcpClient.cc / Socket.cc / Channel.cc / poller/EPollPoller.cc -> coq/Gen_C02.v.
Structure facts (booleans) that C02_Model builds in: which EventLoop entry point hands over each
life-cycle call (runInLoop vs queueInLoop vs a direct call), the order of the two reads in
~TcpClient, whether EPollPoller registers a channel whose interest is empty, that ~Socket closes,
that Channel::handleEvent locks the tie.  C02_GenTie.v proves each of them equal to what the model
does, so a changed hand-over in the source breaks a proof obligation directly (fail closed: a
function that cannot be analysed is reported as FALLBACK and its fact is omitted)."""
import os, sys
sys.path.insert(0, os.path.dirname(os.path.abspath(__file__)))
import cxxast

ROOT = cxxast.ROOT


def kids(n):
    return [c for c in n.get("inner", []) or [] if isinstance(c, dict)]


def callee_name(call):
    c = cxxast.strip(kids(call)[0])
    return c.get("name") or (c.get("referencedDecl", {}) or {}).get("name") or (c.get("referencedMemberDecl") and c.get("name"))


def calls(node):
    out = []
    for m in cxxast.walk(node):
        if m.get("kind") in ("CXXMemberCallExpr", "CallExpr", "CXXOperatorCallExpr"):
            try:
                out.append((callee_name(m), m))
            except Exception:
                pass
    return out


def off(n):
    b = n.get("range", {}).get("begin", {})
    return b.get("offset", (b.get("expansionLoc", {}) or {}).get("offset", -1))


def handover(relfile, fn, what):
    """name of the EventLoop entry point whose argument mentions `what` in function fn ('direct' when
    `what` is called without one)"""
    f = cxxast.function_decl(relfile, fn)
    found = []
    for nm, m in calls(f):
        if nm in ("runInLoop", "queueInLoop") and what in cxxast.src_text(m, relfile):
            found.append(nm)
    if len(found) == 1:
        return found[0]
    if not found and any(nm == what for nm, _ in calls(f)):
        return "direct"
    raise cxxast.Untranslatable("%s: %d hand-overs of %s" % (fn, len(found), what))


def epoll_adds_empty():
    f = cxxast.function_decl("muduo/net/poller/EPollPoller.cc", "EPollPoller::updateChannel")
    adds = [m for nm, m in calls(f) if nm == "update" and "EPOLL_CTL_ADD" in cxxast.src_text(m, "muduo/net/poller/EPollPoller.cc")]
    if len(adds) != 1:
        raise cxxast.Untranslatable("EPOLL_CTL_ADD calls: %d" % len(adds))
    add = adds[0]
    for i in cxxast.walk(f):
        if i.get("kind") == "IfStmt":
            ks = kids(i)
            cond = ks[0]
            if any(nm == "isNoneEvent" for nm, _ in calls(cond)) and len(ks) >= 3:
                if any(m is add or m.get("id") == add.get("id") for m in cxxast.walk(ks[2])):
                    neg = "!" in cxxast.src_text(cond, "muduo/net/poller/EPollPoller.cc")
                    if not neg:
                        return False       # ADD only in the else of `if (isNoneEvent())`
                if any(m.get("id") == add.get("id") for m in cxxast.walk(ks[1])):
                    if "!" in cxxast.src_text(cond, "muduo/net/poller/EPollPoller.cc"):
                        return False       # ADD only under `if (!isNoneEvent())`
    return True


def client_unique_first():
    rel = "muduo/net/TcpClient.cc"
    f = cxxast.function_decl(rel, "TcpClient::~TcpClient")
    uniq = [m for nm, m in calls(f) if nm == "unique"]
    copies = [m for m in cxxast.walk(f) if m.get("kind") == "CXXOperatorCallExpr" and cxxast.src_text(m, rel).replace(" ", "").startswith("conn=connection_")]
    if len(uniq) != 1 or len(copies) != 1:
        raise cxxast.Untranslatable("~TcpClient: %d unique(), %d copies" % (len(uniq), len(copies)))
    return off(uniq[0]) < off(copies[0])


def has_call(relfile, fn, name):
    f = cxxast.function_decl(relfile, fn)
    return any(nm == name for nm, _ in calls(f))


# ---- the pool's tear-down (finding server-destroyed-while-io-loop-draining) -------------------------------------------
def loop_shape():
    """EventLoop::loop(): (a doPendingFunctors() call after the while loop?, is doPendingFunctors() the last statement of
    the while body - so that `while (!quit_)` is evaluated right after a drain?)"""
    rel = "muduo/net/EventLoop.cc"
    f = cxxast.function_decl(rel, "EventLoop::loop")
    stmts = kids(cxxast.body(f))
    wh = [i for i, st in enumerate(stmts) if st.get("kind") == "WhileStmt"]
    if len(wh) != 1:
        raise cxxast.Untranslatable("EventLoop::loop: %d while loops" % len(wh))
    w = stmts[wh[0]]
    if "quit_" not in cxxast.src_text(kids(w)[0], rel):
        raise cxxast.Untranslatable("EventLoop::loop: the while condition does not read quit_")
    after = any(nm == "doPendingFunctors" for st in stmts[wh[0] + 1:] for nm, _ in calls(st))
    wbody = kids(w)[-1]
    last = kids(wbody)[-1] if wbody.get("kind") == "CompoundStmt" and kids(wbody) else wbody
    last_is_drain = [nm for nm, _ in calls(last)] == ["doPendingFunctors"]
    return after, last_is_drain


def dtor_quit_then_join():
    """~EventLoopThread: loop_->quit() and then thread_.join()"""
    rel = "muduo/net/EventLoopThread.cc"
    f = cxxast.function_decl(rel, "EventLoopThread::~EventLoopThread")
    q = [m for nm, m in calls(f) if nm == "quit"]
    j = [m for nm, m in calls(f) if nm == "join"]
    if len(q) != 1 or len(j) != 1:
        raise cxxast.Untranslatable("~EventLoopThread: %d quit(), %d join()" % (len(q), len(j)))
    return off(q[0]) < off(j[0])


def server_dtor_waits():
    """does ~TcpServer's body wait for its hand-offs (a loop other than the range-for over connections_, a join/wait/stop/quit)?"""
    rel = "muduo/net/TcpServer.cc"
    f = cxxast.function_decl(rel, "TcpServer::~TcpServer")
    if any(m.get("kind") in ("WhileStmt", "DoStmt") for m in cxxast.walk(f)):
        return True
    if len([m for m in cxxast.walk(f) if m.get("kind") in ("ForStmt", "CXXForRangeStmt")]) != 1:
        return True
    return any(nm in ("join", "wait", "stop", "quit", "doPendingFunctors") for nm, _ in calls(f))


def field_of(relhdr, cls, field):
    """type of a data member, from the class definition in a header"""
    for d in cxxast.dump(relhdr, cls):
        for n in cxxast.walk(d):
            if n.get("kind") == "CXXRecordDecl" and n.get("name") == cls.split("::")[-1] and n.get("completeDefinition"):
                for c in kids(n):
                    if c.get("kind") == "FieldDecl" and c.get("name") == field:
                        return c.get("type", {}).get("qualType", "")
    raise cxxast.Untranslatable("no field %s in %s" % (field, cls))


# ---- affinity: the loop a connection's channel is registered with is the loop its callbacks are handed to ------------------
def refs(node):
    return [(n.get("referencedDecl") or {}).get("name") for n in cxxast.walk(node) if n.get("kind") == "DeclRefExpr"]


def member_call_object(call):
    """name of the variable / member a member call is made on: x->f(...), x.f(...), x_->f(...)"""
    me = cxxast.strip(kids(call)[0])
    if me.get("kind") != "MemberExpr":
        return None
    base = cxxast.strip(kids(me)[0])
    while base.get("kind") in ("CXXOperatorCallExpr",):        # smart pointer ->
        base = cxxast.strip(kids(base)[-1])
    if base.get("kind") == "DeclRefExpr":
        return (base.get("referencedDecl") or {}).get("name")
    if base.get("kind") == "MemberExpr":
        return base.get("name")
    return None


def server_conn_on_next_loop():
    """TcpServer::newConnection: ioLoop = threadPool_->getNextLoop(); the connection is constructed with ioLoop and
    connectEstablished is handed to ioLoop"""
    rel = "muduo/net/TcpServer.cc"
    f = cxxast.function_decl(rel, "TcpServer::newConnection")
    var = None
    for n in cxxast.walk(f):
        if n.get("kind") == "VarDecl" and any(nm == "getNextLoop" for nm, _ in calls(n)):
            var = n.get("name")
    if var is None:
        raise cxxast.Untranslatable("newConnection: no variable initialised from getNextLoop()")
    news = [n for n in cxxast.walk(f) if n.get("kind") == "CXXNewExpr" and "TcpConnection" in n.get("type", {}).get("qualType", "")]
    if len(news) != 1:
        raise cxxast.Untranslatable("newConnection: %d new TcpConnection" % len(news))
    ctor = [n for n in cxxast.walk(news[0]) if n.get("kind") == "CXXConstructExpr"][0]
    first = kids(ctor)[0]
    hand = [m for nm, m in calls(f) if nm in ("runInLoop", "queueInLoop") and "connectEstablished" in cxxast.src_text(m, rel)]
    if len(hand) != 1:
        raise cxxast.Untranslatable("newConnection: %d hand-overs of connectEstablished" % len(hand))
    return refs(first) == [var] and member_call_object(hand[0]) == var


def conn_channel_on_conn_loop():
    """TcpConnection::TcpConnection(EventLoop* loop, ...): loop_(... loop ...), channel_(new Channel(loop, sockfd))"""
    rel = "muduo/net/TcpConnection.cc"
    f = cxxast.function_decl(rel, "TcpConnection::TcpConnection")
    parm = [c.get("name") for c in kids(f) if c.get("kind") == "ParmVarDecl"][0]
    inits = {(c.get("anyInit") or {}).get("name"): c for c in kids(f) if c.get("kind") == "CXXCtorInitializer"}
    if "loop_" not in inits or "channel_" not in inits:
        raise cxxast.Untranslatable("TcpConnection ctor: no initialiser for loop_ / channel_")
    chan = [n for n in cxxast.walk(inits["channel_"]) if n.get("kind") == "CXXConstructExpr" and n.get("type", {}).get("qualType", "").endswith("Channel")]
    if len(chan) != 1:
        raise cxxast.Untranslatable("TcpConnection ctor: %d Channel constructions" % len(chan))
    return parm in refs(inits["loop_"]) and refs(kids(chan[0])[0]) == [parm]


def channel_registers_with_its_loop():
    """Channel::Channel(loop, fd): loop_(loop); Channel::update(): loop_->updateChannel(this); Channel::remove(): loop_->removeChannel(this);
    EventLoop::updateChannel: assertInLoopThread(); poller_->updateChannel(channel)"""
    rel = "muduo/net/Channel.cc"
    f = cxxast.function_decl(rel, "Channel::Channel")
    parm = [c.get("name") for c in kids(f) if c.get("kind") == "ParmVarDecl"][0]
    inits = {(c.get("anyInit") or {}).get("name"): c for c in kids(f) if c.get("kind") == "CXXCtorInitializer"}
    ok = "loop_" in inits and refs(inits["loop_"]) == [parm]
    for fn, callee in (("Channel::update", "updateChannel"), ("Channel::remove", "removeChannel")):
        g = cxxast.function_decl(rel, fn)
        cs = [m for nm, m in calls(g) if nm == callee]
        ok = ok and len(cs) == 1 and member_call_object(cs[0]) == "loop_"
    e = "muduo/net/EventLoop.cc"
    g = cxxast.function_decl(e, "EventLoop::updateChannel")
    cs = [m for nm, m in calls(g) if nm == "updateChannel"]
    ok = ok and len(cs) == 1 and member_call_object(cs[0]) == "poller_" and any(nm == "assertInLoopThread" for nm, _ in calls(g))
    return ok


def loop_dispatches_own_poller():
    """EventLoop::loop(): assertInLoopThread(); the channels whose handleEvent it calls are the ones poller_->poll filled in"""
    rel = "muduo/net/EventLoop.cc"
    f = cxxast.function_decl(rel, "EventLoop::loop")
    polls = [m for nm, m in calls(f) if nm == "poll"]
    hs = [m for nm, m in calls(f) if nm == "handleEvent"]
    if len(polls) != 1 or len(hs) != 1:
        raise cxxast.Untranslatable("EventLoop::loop: %d poll(), %d handleEvent()" % (len(polls), len(hs)))
    fors = [n for n in cxxast.walk(f) if n.get("kind") == "CXXForRangeStmt" and any(m is hs[0] or m.get("id") == hs[0].get("id") for m in cxxast.walk(n))]
    return (member_call_object(polls[0]) == "poller_" and "activeChannels_" in cxxast.src_text(polls[0], rel)
            and len(fors) == 1 and "activeChannels_" in cxxast.src_text(fors[0], rel).split(")")[0]
            and any(nm == "assertInLoopThread" for nm, _ in calls(f)))


def main():
    out = ["(* GENERATED by lib/gen_C02.py from the current sources -- do not edit *)", "From Coq Require Import Bool.", ""]

    def fact(name, thunk, comment):
        try:
            v = thunk()
            out.append("(* %s *)" % comment)
            out.append("Definition %s : bool := %s." % (name, "true" if v else "false"))
        except Exception as e:
            print("FALLBACK %s: %s" % (name, e))
            out.append("(* FALLBACK %s: %s *)" % (name, str(e).replace("*)", "")))

    S, C = "muduo/net/TcpServer.cc", "muduo/net/TcpClient.cc"
    fact("epoll_registers_empty_interest", epoll_adds_empty,
         "EPollPoller::updateChannel, branch kNew/kDeleted: EPOLL_CTL_ADD is issued even when the interest is empty")
    fact("server_establish_runInLoop", lambda: handover(S, "TcpServer::newConnection", "connectEstablished") == "runInLoop",
         "TcpServer::newConnection hands connectEstablished to the io loop with runInLoop")
    fact("server_remove_hop_runInLoop", lambda: handover(S, "TcpServer::removeConnection", "removeConnectionInLoop") == "runInLoop",
         "TcpServer::removeConnection hands removeConnectionInLoop to the acceptor loop with runInLoop")
    fact("server_destroy_queueInLoop", lambda: handover(S, "TcpServer::removeConnectionInLoop", "connectDestroyed") == "queueInLoop",
         "TcpServer::removeConnectionInLoop hands connectDestroyed to the io loop with queueInLoop")
    fact("server_dtor_runInLoop", lambda: handover(S, "TcpServer::~TcpServer", "connectDestroyed") == "runInLoop",
         "~TcpServer hands connectDestroyed to each io loop with runInLoop")
    fact("client_remove_queueInLoop", lambda: handover(C, "TcpClient::removeConnection", "connectDestroyed") == "queueInLoop",
         "TcpClient::removeConnection hands connectDestroyed to its loop with queueInLoop")
    fact("detail_remove_queueInLoop", lambda: handover(C, "detail::removeConnection", "connectDestroyed") == "queueInLoop",
         "detail::removeConnection hands connectDestroyed to the loop with queueInLoop")
    fact("client_establish_direct", lambda: handover(C, "TcpClient::newConnection", "connectEstablished") == "direct",
         "TcpClient::newConnection calls connectEstablished directly (it runs on the loop thread)")
    fact("client_unique_before_copy", client_unique_first,
         "~TcpClient reads connection_.unique() before it copies connection_")
    fact("client_dtor_forceClose", lambda: has_call(C, "TcpClient::~TcpClient", "forceClose"),
         "~TcpClient calls forceClose() (when unique)")
    fact("socket_dtor_closes", lambda: has_call("muduo/net/Socket.cc", "Socket::~Socket", "close"),
         "~Socket closes the descriptor")
    fact("channel_event_locks_tie", lambda: has_call("muduo/net/Channel.cc", "Channel::handleEvent", "lock"),
         "Channel::handleEvent locks the tie before dispatching")
    E = "muduo/net/EventLoop.cc"
    fact("loop_drains_after_while", lambda: loop_shape()[0],
         "EventLoop::loop() calls doPendingFunctors() once more after its while (!quit_) loop")
    fact("loop_drain_ends_iteration", lambda: loop_shape()[1],
         "doPendingFunctors() is the last statement of the while body of EventLoop::loop(): `while (!quit_)` is evaluated right after a drain")
    fact("loopthread_dtor_quits_then_joins", dtor_quit_then_join,
         "~EventLoopThread calls loop_->quit() and then thread_.join()")
    fact("server_dtor_waits_for_handoffs", server_dtor_waits,
         "~TcpServer's body waits for the connectDestroyed hand-offs before its members (threadPool_) die")
    fact("server_owns_pool", lambda: "EventLoopThreadPool" in field_of("muduo/net/TcpServer.h", "muduo::net::TcpServer", "threadPool_")
         and "EventLoopThread" in field_of("muduo/net/EventLoopThreadPool.h", "muduo::net::EventLoopThreadPool", "threads_")
         and "Functor" in field_of("muduo/net/EventLoop.h", "muduo::net::EventLoop", "pendingFunctors_"),
         "TcpServer::threadPool_ holds the EventLoopThreadPool, whose threads_ hold the EventLoopThreads; pendingFunctors_ is a member of EventLoop (it dies with the loop)")
    fact("server_conn_on_next_loop", server_conn_on_next_loop,
         "TcpServer::newConnection: ioLoop = threadPool_->getNextLoop(); new TcpConnection(ioLoop, ...); ioLoop->runInLoop(connectEstablished)")
    fact("conn_channel_on_conn_loop", conn_channel_on_conn_loop,
         "TcpConnection::TcpConnection(loop, ...): loop_(loop), channel_(new Channel(loop, sockfd))")
    fact("channel_registers_with_its_loop", channel_registers_with_its_loop,
         "Channel: loop_(loop); update()/remove() go to loop_->updateChannel/removeChannel(this); EventLoop::updateChannel: assertInLoopThread(); poller_->updateChannel")
    fact("loop_dispatches_own_poller", loop_dispatches_own_poller,
         "EventLoop::loop(): handleEvent is called on the channels poller_->poll() put into activeChannels_, on the loop's own thread")
    txt = "\n".join(out) + "\n"
    path = os.path.join(ROOT, "coq", "Gen_C02.v")
    old = open(path).read() if os.path.exists(path) else None
    if old != txt:
        with open(path, "w") as f:
            f.write(txt)


if __name__ == "__main__":
    main()
