#!/usr/bin/env python3
"""Translator output for C12 (DESIGN 4.1): coq/Gen_C12.v, regenerated from /repo's current
sources on every check.
  Connector_connect_cases / Connector_connect_default : the switch of Connector::connect
      (muduo/net/Connector.cc) as a table errno -> action; the action of a group is read off the
      calls in its body: connecting(...) / retry(...) / only sockets::close(...)
  Connector_retry_next : the right-hand side of `retryDelayMs_ = <expr>` in Connector::retry as a
      function of the old delay (absent assignment = identity, which is what the code then does)
  Connector_retry_arms_before_update : runAfter(...) textually precedes the assignment
  E* : the platform's errno numbers (Python's errno module = <errno.h> of this machine)
What cannot be matched falls back to the committed twin and prints a FALLBACK line."""
import os, sys, errno
sys.path.insert(0, os.path.dirname(os.path.abspath(__file__)))
import cxxast

REL = "muduo/net/Connector.cc"
NAMES = ["EINPROGRESS", "EINTR", "EISCONN", "EAGAIN", "EADDRINUSE", "EADDRNOTAVAIL", "ECONNREFUSED",
         "ENETUNREACH", "EACCES", "EPERM", "EAFNOSUPPORT", "EALREADY", "EBADF", "EFAULT", "ENOTSOCK",
         "ETIMEDOUT", "EHOSTUNREACH", "ECONNRESET", "ENOBUFS"]


def clean(s):
    return " ".join(s.split()).replace("*)", "* )").replace("(*", "( *")


def callee_names(node):
    res = []
    for n in cxxast.walk(node):
        if n.get("kind") in ("CallExpr", "CXXMemberCallExpr"):
            inner = [c for c in n.get("inner", []) if isinstance(c, dict)]
            if not inner:
                continue
            for x in cxxast.walk(inner[0]):
                if x.get("kind") == "MemberExpr" and x.get("name"):
                    res.append(x["name"])
                    break
                if x.get("kind") == "DeclRefExpr":
                    res.append(x.get("referencedDecl", {}).get("name"))
                    break
    return res


def action_of(body):
    names = []
    for b in body:
        names += callee_names(b)
    if "connecting" in names:
        return "ActConnecting"
    if "retry" in names:
        return "ActRetry"
    if "close" in names:
        return "ActClose"
    return "ActLeak"     # neither watched, retried nor closed: the descriptor is dropped on the floor


def expr(node, var):
    """integer expression over the old value of retryDelayMs_ -> Gallina (Z)"""
    node = cxxast.strip(node)
    k = node.get("kind")
    if k == "IntegerLiteral":
        return "(%d)" % int(node["value"])
    if k == "MemberExpr" and node.get("name") == "retryDelayMs_":
        return var
    if k == "DeclRefExpr":
        nm = node.get("referencedDecl", {}).get("name")
        if nm in ("kMaxRetryDelayMs", "kInitRetryDelayMs"):
            return "Gen_Consts.Connector_" + nm
        raise cxxast.Untranslatable("name " + str(nm))
    if k == "BinaryOperator" and node.get("opcode") in ("+", "-", "*"):
        a, b = [c for c in node["inner"] if isinstance(c, dict)]
        return "(%s %s %s)" % (expr(a, var), node["opcode"], expr(b, var))
    if k == "CallExpr":
        inner = [c for c in node["inner"] if isinstance(c, dict)]
        f = cxxast.strip(inner[0])
        nm = f.get("referencedDecl", {}).get("name")
        if nm in ("min", "max") and len(inner) == 3:
            return "(Z.%s %s %s)" % (nm, expr(inner[1], var), expr(inner[2], var))
        raise cxxast.Untranslatable("call " + str(nm))
    raise cxxast.Untranslatable("expr kind " + str(k))


def retry_facts():
    fn = cxxast.function_decl(REL, "Connector::retry")
    assign, run_after = None, None
    for n in cxxast.walk(fn):
        if n.get("kind") in ("BinaryOperator", "CompoundAssignOperator") and n.get("opcode", "").endswith("="):
            if n.get("opcode") in ("==", "!=", "<=", ">="):
                continue
            lhs = cxxast.strip(n["inner"][0])
            if lhs.get("kind") == "MemberExpr" and lhs.get("name") == "retryDelayMs_":
                assign = n
        if n.get("kind") == "CXXMemberCallExpr" and "runAfter" in callee_names(n)[:1]:
            run_after = n
    if run_after is None:
        raise cxxast.Untranslatable("no runAfter call in Connector::retry")
    if assign is None:
        return "d", True, "(no assignment to retryDelayMs_ in Connector::retry)"
    if assign.get("opcode") != "=":
        op = assign["opcode"][:-1]
        if op not in ("+", "-", "*"):
            raise cxxast.Untranslatable("compound assignment " + assign["opcode"])
        e = "(d %s %s)" % (op, expr(assign["inner"][1], "d"))
    else:
        e = expr(assign["inner"][1], "d")
    before = run_after["range"]["begin"].get("offset", 0) < assign["range"]["begin"].get("offset", 1 << 60)
    return e, before, cxxast.src_text(assign, REL)


def then_calls(ifnode):
    inner = [c for c in ifnode.get("inner", []) if isinstance(c, dict)]
    names = []
    if len(inner) < 2:
        return names
    for x in cxxast.walk(inner[1]):
        if x.get("kind") in ("CallExpr", "CXXMemberCallExpr", "CXXOperatorCallExpr"):
            seen_m = seen_d = False
            for y in cxxast.walk(x):
                if y.get("kind") == "MemberExpr" and y.get("name") and not seen_m:
                    names.append(y["name"])
                    seen_m = True
                if y.get("kind") == "DeclRefExpr" and not seen_d:
                    names.append(y.get("referencedDecl", {}).get("name"))
                    seen_d = True
    return names


def guard(rel, qual, callee, gname, params):
    """the condition of THE if-statement of `qual` whose then-branch calls `callee`, as a Gallina function of `params`"""
    fn = cxxast.function_decl(rel, qual)
    hits = [n for n in cxxast.walk(fn) if n.get("kind") == "IfStmt" and callee in then_calls(n)]
    # nested ifs: the innermost one decides (an outer if whose then-branch merely contains it is not the guard)
    inner_hits = [h for h in hits if not any(o is not h and any(d is o for d in cxxast.walk(h)) for o in hits)]
    if len(inner_hits) != 1:
        raise cxxast.Untranslatable("%d if-statements of %s guard a call of %s" % (len(inner_hits), qual, callee))
    cond = [c for c in inner_hits[0].get("inner", []) if isinstance(c, dict)][0]
    g = cxxast.GExpr()
    body = g.tr(cond, "bool")
    extra = [v for v in g.vars if v not in params]
    if extra or any(t != "bool" for t in g.vars.values()):
        raise cxxast.Untranslatable("guard of %s in %s mentions %s" % (callee, qual, sorted(g.vars)))
    return "(* %s: if (%s) ... %s(...) *)\nDefinition %s %s : bool :=\n  %s." % (
        rel, clean(cxxast.src_text(cond, rel)), callee, gname, " ".join("(%s : bool)" % v for v in params), body)


GUARDS = [
    ("muduo/net/Connector.cc", "Connector::startInLoop", "connect", "Connector_start_guard", ["connect"], "connect"),
    ("muduo/net/Connector.cc", "Connector::retry", "runAfter", "Connector_retry_guard", ["connect"], "connect"),
    ("muduo/net/Connector.cc", "Connector::handleWrite", "newConnectionCallback_", "Connector_handover_guard", ["connect"], "connect"),
    ("muduo/net/TcpClient.cc", "TcpClient::removeConnection", "restart", "TcpClient_reconnect_guard", ["retry", "connect"],
     "(retry && connect)%bool"),
]


def main():
    out = ["(* GENERATED by lib/gen_C12.py from %s -- do not edit *)" % cxxast.REPO,
           "From Coq Require Import ZArith List Bool.", "From Muduo Require Gen_Consts.", "Import ListNotations.",
           "Local Open Scope Z_scope.", ""]
    msgs = []
    for n in NAMES:
        out.append("Definition %s : Z := (%d)." % (n, getattr(errno, n)))
    out.append("")
    out.append("Inductive Connector_action := ActConnecting | ActRetry | ActClose | ActLeak.")
    try:
        groups, src = cxxast.switch_table(REL, "Connector::connect")
        cases, default = [], "ActLeak"
        for labels, body in groups:
            act = action_of(body)
            for l in labels:
                if l == "default":
                    default = act
                else:
                    cases.append((int(l), act))
        out.append("(* %s: %s *)" % (REL, clean(src)[:1500]))
    except Exception as e:  # noqa
        msgs.append("FALLBACK Connector_connect_cases (%s)" % clean(str(e)))
        out.append("(* FALLBACK: switch of Connector::connect not found; committed twin used *)")
        A, R, C = "ActConnecting", "ActRetry", "ActClose"
        cases = [(0, A), (115, A), (4, A), (106, A), (11, R), (98, R), (99, R), (111, R), (101, R),
                 (13, C), (1, C), (97, C), (114, C), (9, C), (14, C), (88, C)]
        default = C
    out.append("Definition Connector_connect_cases : list (Z * Connector_action) :=")
    out.append("  [" + "; ".join("(%d, %s)" % c for c in cases) + "].")
    out.append("Definition Connector_connect_default : Connector_action := %s." % default)
    try:
        e, before, src = retry_facts()
        out.append("(* %s: %s *)" % (REL, clean(src)))
    except Exception as ex:  # noqa
        e, before = "(Z.min (d * (2)) Gen_Consts.Connector_kMaxRetryDelayMs)", True
        msgs.append("FALLBACK Connector_retry_next (%s)" % clean(str(ex)))
        out.append("(* FALLBACK: retry update not translated; committed twin used *)")
    out.append("Definition Connector_retry_next (d : Z) : Z := %s." % e)
    out.append("Definition Connector_retry_arms_before_update : bool := %s." % ("true" if before else "false"))
    out.append("")
    out.append("(* the guards of the anchored decisions (DESIGN 4.1); C12_Hyg.G_guards links them to the tests of the model *)")
    for rel, qual, callee, gname, params, twin in GUARDS:
        try:
            out.append(guard(rel, qual, callee, gname, params))
        except Exception as ex:  # noqa
            msgs.append("FALLBACK %s (%s)" % (gname, clean(str(ex))))
            out.append("(* FALLBACK: guard not translated; committed twin used *)")
            out.append("Definition %s %s : bool :=\n  %s." % (gname, " ".join("(%s : bool)" % v for v in params), twin))
    txt = "\n".join(out) + "\n"
    path = os.path.join(cxxast.ROOT, "coq/Gen_C12.v")
    old = open(path).read() if os.path.exists(path) else None
    if old != txt:
        open(path, "w").write(txt)
    for m in msgs:
        print(m)
    return 0


if __name__ == "__main__":
    sys.exit(main())
