#!/usr/bin/env python3
"""C08 translator: access summaries of every method of the classes named in the property's
file list, read from the clang JSON AST of VERIF_REPO's *current* sources, plus the committed
protection table lib/C08_table.txt  ->  coq/Gen_C08.v  (+ _work/C08/summary.json for the check).

Per method: member fields read/written through `this` (MemberExpr on CXXThisExpr; a non-const
member call / non-const reference / address-of on a member object counts as a write), the
MutexLockGuard scopes they sit in (by mutex member), whether they are dominated by
[loop_->]assertInLoopThread(), whether they sit in the then-branch of `if (isInLoopThread())` or in
the right operand of `!isInLoopThread() ||`, whether they occur only inside an assert(), the direct
calls to sibling methods, calls on member objects, and the methods bound into
runInLoop/queueInLoop/runAfter/runAt/runEvery (those run on the loop) or registered as callbacks.

Trusted base (DESIGN section 7): this file + clang 14's JSON AST.  Every entry echoes file:line.
Prints MISSING lines for table gaps.  Rewrites the outputs only when content changes; the
result is cached by the hash of the sources."""
import os, sys, re, json, glob, hashlib, subprocess
from concurrent.futures import ThreadPoolExecutor

ROOT = os.path.dirname(os.path.dirname(os.path.abspath(__file__)))
REPO = os.environ.get("VERIF_REPO", "/repo")
WORK = os.path.join(ROOT, "_work", "C08")
TABLE = os.path.join(ROOT, "lib", "C08_table.txt")
TEMPL = os.path.join(ROOT, "harness", "C08_templates.cc")
OUT_V = os.path.join(ROOT, "coq", "Gen_C08.v")

# class -> translation unit that is parsed for it (header-inline methods come with the class)
CLASSES = [
    ("EventLoop", "muduo/net/EventLoop.cc"),
    ("TimerQueue", "muduo/net/TimerQueue.cc"),
    ("TcpConnection", "muduo/net/TcpConnection.cc"),
    ("TcpServer", "muduo/net/TcpServer.cc"),
    ("TcpClient", "muduo/net/TcpClient.cc"),
    ("Connector", "muduo/net/Connector.cc"),
    ("EventLoopThread", "muduo/net/EventLoopThread.cc"),
    ("EventLoopThreadPool", "muduo/net/EventLoopThreadPool.cc"),
    ("Channel", "muduo/net/Channel.cc"),
    ("ThreadPool", "muduo/base/ThreadPool.cc"),
    ("AsyncLogging", "muduo/base/AsyncLogging.cc"),
    ("CountDownLatch", "muduo/base/CountDownLatch.cc"),
    ("BlockingQueue", TEMPL),
    ("BoundedBlockingQueue", TEMPL),
    ("Logging", "muduo/base/Logging.cc"),     # pseudo-class: namespace-scope variables + all functions of the TU
]
POSTERS = ("runInLoop", "queueInLoop", "runAfter", "runAt", "runEvery")
ATOMIC_TYPE = re.compile(r"std::atomic<|AtomicIntegerT<|\bAtomicInt32\b|\bAtomicInt64\b|\batomic_")
SYNC_TYPE = re.compile(r"\b(MutexLock|Condition|CountDownLatch|Thread|pthread_mutex_t|pthread_cond_t)\b")


# ------------------------------------------------------------------ clang
EXTRA_INC = []           # -I of the directory protoc generated rpc.pb.h into (protorpc translation units)


def parse_tu(path):
    p = path if os.path.isabs(path) else os.path.join(REPO, path)
    cmd = ["clang++", "-std=c++11", "-I" + REPO] + EXTRA_INC + ["-fsyntax-only", "-w", "-DCHECK_PTHREAD_RETURN_VALUE",
           "-Xclang", "-ast-dump=json", "-Xclang", "-ast-dump-filter=muduo", p]
    r = subprocess.run(cmd, stdout=subprocess.PIPE, stderr=subprocess.PIPE, timeout=300)
    txt = r.stdout.decode("utf-8", "replace")
    out, dec, i, n = [], json.JSONDecoder(), 0, len(txt)
    while i < n:
        while i < n and txt[i] != "{":
            i += 1
        if i >= n:
            break
        obj, j = dec.raw_decode(txt, i)
        out.append(obj)
        i = j
    resolve_locs(out)
    return out, r.stderr.decode("utf-8", "replace")


def resolve_locs(objs):
    """clang's JSON omits file/line in a location when unchanged since the previously printed one:
    replay the print order and store absolute _file/_line in every bare location."""
    cur = {"file": None, "line": None}

    def rec(x):
        if isinstance(x, dict):
            if "offset" in x:
                if "file" in x:
                    cur["file"] = x["file"]
                if "line" in x:
                    cur["line"] = x["line"]
                x["_file"], x["_line"] = cur["file"], cur["line"]
            for v in x.values():
                if isinstance(v, (dict, list)):
                    rec(v)
        elif isinstance(x, list):
            for v in x:
                rec(v)
    import sys as _s
    _s.setrecursionlimit(100000)
    rec(objs)


def loc_of(node):
    """(file, line) of the *expansion* point of a node's begin."""
    b = (node.get("range") or {}).get("begin") or {}
    if "expansionLoc" in b:
        b = b["expansionLoc"]
    if "_line" not in b:
        b = node.get("loc") or {}
        if "expansionLoc" in b:
            b = b["expansionLoc"]
    f = b.get("_file")
    if f:
        f = os.path.relpath(f, REPO) if f.startswith(REPO.rstrip("/") + "/") else (
            "harness/" + os.path.basename(f) if f.startswith(ROOT) else f)
    return f, b.get("_line")


def kids(n):
    return [c for c in (n.get("inner") or []) if isinstance(c, dict)]


def walk(n):
    yield n
    for c in kids(n):
        yield from walk(c)


TRANSPARENT = ("ImplicitCastExpr", "ParenExpr", "ExprWithCleanups", "MaterializeTemporaryExpr", "CXXBindTemporaryExpr",
               "ConstantExpr", "CXXStaticCastExpr", "CStyleCastExpr", "CXXFunctionalCastExpr", "CXXConstCastExpr")


def strip(n):
    while n.get("kind") in TRANSPARENT and len(kids(n)) == 1:
        n = kids(n)[0]
    return n


def qt(n):
    return (n.get("type") or {}).get("qualType", "")


def is_const_type(t):
    t = t.strip()
    if t.endswith("*") or t.endswith("&"):
        return False
    if t.endswith("*const") or t.endswith("* const"):
        return True
    return t.startswith("const ")


# ------------------------------------------------------------------ analysis of one function body
class Ctx:
    # guards: members read in the conditions of the enclosing if-statements; loop: index into Summary.accesses at which the
    # outermost enclosing loop statement starts (None outside loops)
    __slots__ = ("locks", "inloop", "dbg", "guards", "loop")

    def __init__(self, locks=frozenset(), inloop=False, dbg=False, guards=frozenset(), loop=None):
        self.locks, self.inloop, self.dbg, self.guards, self.loop = locks, inloop, dbg, guards, loop

    def but(self, **kw):
        c = Ctx(self.locks, self.inloop, self.dbg, self.guards, self.loop)
        for k, v in kw.items():
            setattr(c, k, v)
        return c


class Summary:
    def __init__(self, cls, name):
        self.cls, self.name = cls, name
        self.public, self.kind, self.const = False, "method", False
        self.check_first = None      # None = no body seen yet
        self.accesses = []           # (field, R|W, locks, inloop, dbg, file, line)
        self.calls = []              # (callee, locks, inloop, file, line)       direct calls on this
        self.xcalls = []             # (field, fieldclass, callee, locks, inloop, file, line)
        self.posts = []              # (targetclass, callee, file, line)
        self.registers = []          # (targetclass, callee, via, file, line)
        self.accloop = []            # parallel to accesses: start index of the outermost enclosing loop, or None
        self.lockuses = []           # (mutex member, file, line, position in accesses)   MutexLockGuard constructed on it
        self.destroys = []           # destructors: (sync member, file, line of the closing brace)  implicit member destruction
        self.joins = []              # (guard members, file, line)   a call of join() and the members its enclosing ifs read
        self.callguards = []         # (callee on this, guard members)
        self.callpos = []            # (callee on this, position in accesses, inloop)
        self.xcallpos = []           # (member, member's class, callee, position in accesses, inloop)  calls on member objects
        self.tailranges = []         # (g, start, end): the body's accesses [start, end) follow its last write of g
        self.rawposts = []           # (targetclass, callee, file, line)  posted functor bound to the raw `this`
        self.postargs = []           # (targetclass, callee, kind, type, inloop, file, line): every argument bound into a functor
                                     # handed to runInLoop/queueInLoop/runAfter/runAt/runEvery; kind = val (owned copy: string,
                                     # shared_ptr, weak_ptr, function, arithmetic, ...) | view (StringPiece) | ptr (raw pointer to
                                     # memory the caller owns) | ref (std::ref) | this | member (pointer to a member-owned
                                     # object) | transfer (pointer to an object allocated in this very function)
        self.tails = {}              # member g written here -> members used after the last write of g
        self.taillocks = {}          # member g written here -> locks held at the last write of g (released afterwards)
        self.body_nodes = []         # AST of the bodies (not serialised)
        self.uses = []               # every member the method uses off the loop thread, through its calls as well (locks included)
        self.paths = None            # destructors: [(joined, [guard members])] over the paths through the body
        self.regargs = []            # (target class, setter, calleeclass, callee, kind, type, file, line): arguments bound into a
                                     # callback registered on another object (x->setXxxCallback(bind(...)))
        self.bodies = 0
        self.decl_line = None
        self.file = None


class Analyzer:
    def __init__(self, cls, fields, methods, globalvars=None):
        self.cls, self.fields, self.methods = cls, fields, methods
        self.globalvars = globalvars or {}
        self.s = None
        self.localfp = {}
        self.localnew = set()        # ids of local variables initialised with a new-expression

    # ---- helpers
    def this_field(self, n):
        """n (stripped) is MemberExpr on `this` naming a data member -> field name."""
        if n.get("kind") != "MemberExpr":
            return None
        k = kids(n)
        if not k:
            return None
        b = strip(k[0])
        if b.get("kind") != "CXXThisExpr":
            return None
        if qt(n) == "<bound member function type>":
            return None
        nm = n.get("name")
        return nm if nm in self.fields else None

    def global_var(self, n):
        if n.get("kind") != "DeclRefExpr":
            return None
        rd = n.get("referencedDecl") or {}
        if rd.get("kind") == "VarDecl" and rd.get("id") in self.globalvars:
            return self.globalvars[rd["id"]]
        return None

    def root_field(self, n):
        """the member of `this` an object expression is rooted in (through ->, *, get_pointer, casts)."""
        n = strip(n)
        f = self.this_field(n)
        if f:
            return f
        if n.get("kind") == "CXXOperatorCallExpr" and len(kids(n)) >= 2:
            return self.root_field(kids(n)[1])
        if n.get("kind") == "UnaryOperator" and n.get("opcode") == "*":
            return self.root_field(kids(n)[0])
        if n.get("kind") == "CallExpr" and len(kids(n)) == 2:
            cal = strip(kids(n)[0])
            if (cal.get("referencedDecl") or {}).get("name") in ("get_pointer", "move", "forward"):
                return self.root_field(kids(n)[1])
        if n.get("kind") == "CXXMemberCallExpr":
            cal = kids(n)[0]
            if cal.get("kind") == "MemberExpr" and cal.get("name") in ("get",):
                return self.root_field(kids(cal)[0])
        return None

    def is_loop_query(self, n, which):
        """n is [this|field]->isInLoopThread()/assertInLoopThread()"""
        n = strip(n)
        if n.get("kind") != "CXXMemberCallExpr":
            return False
        cal = kids(n)[0]
        if cal.get("kind") != "MemberExpr" or cal.get("name") != which:
            return False
        b = strip(kids(cal)[0])
        if b.get("kind") == "CXXThisExpr":
            return self.cls == "EventLoop"
        return self.this_field(b) is not None

    def is_assert(self, n):
        """the expansion of assert(): cond ? void(0) : __assert_fail(...)"""
        n = strip(n)
        if n.get("kind") != "ConditionalOperator":
            return False
        k = kids(n)
        if len(k) != 3:
            return False
        for x in walk(k[2]):
            if x.get("kind") == "DeclRefExpr" and (x.get("referencedDecl") or {}).get("name") == "__assert_fail":
                return True
        return False

    def acc(self, field, kind, ctx, node):
        f, l = loc_of(node)
        for k in ("RW" if kind == "RW" else kind):
            self.s.accesses.append((field, k, tuple(sorted(ctx.locks)), ctx.inloop, ctx.dbg, f, l))
            self.s.accloop.append(ctx.loop)

    def method_refs(self, n):
        """[(class, method)] for every &Class::method (or local member-pointer variable) under n."""
        res = []
        for x in walk(n):
            if x.get("kind") == "DeclRefExpr":
                rd = x.get("referencedDecl") or {}
                if rd.get("kind") == "CXXMethodDecl":
                    m = re.search(r"\((?:muduo::(?:net::)?)?(\w+)::\*\)", qt(x)) or None
                    t = rd.get("type", {}).get("qualType", "")
                    res.append((self.owner_of_method(x, rd), rd.get("name")))
                elif rd.get("kind") == "VarDecl" and rd.get("id") in self.localfp:
                    res += self.localfp[rd["id"]]
        return [r for r in res if r[0]]

    def owner_of_method(self, declref, rd):
        # a DeclRefExpr to a method is only legal as &C::m ; the enclosing UnaryOperator's type names C, but the
        # DeclRefExpr itself does not.  We resolve by id against the known method ids of the analysed classes.
        return ALL_METHOD_IDS.get(rd.get("id"), (None, None))[0] or EXTERN_METHOD_OWNER.get(rd.get("id"))

    # ---- statements
    def stmt_seq(self, n, ctx):
        """visit statement n, return the context for the statements that follow it in the same block."""
        k = n.get("kind")
        if k == "DeclStmt":
            for v in kids(n):
                if v.get("kind") == "VarDecl" and re.search(r"\bMutexLockGuard\b", qt(v)):
                    m = None
                    for x in walk(v):
                        f = self.this_field(x)
                        if f:
                            m = f
                    if m is None:
                        for x in walk(v):
                            g = self.global_var(x)
                            if g:
                                m = g
                    if m:
                        f_, l_ = loc_of(v)
                        self.s.lockuses.append((m, f_, l_, len(self.s.accesses)))
                        ctx = ctx.but(locks=ctx.locks | {m})
                    continue
                if v.get("kind") == "VarDecl" and any(x.get("kind") == "CXXNewExpr" for x in walk(v)):
                    self.localnew.add(v.get("id"))
                if v.get("kind") == "VarDecl":
                    refs = []
                    for x in walk(v):
                        if x.get("kind") == "DeclRefExpr" and (x.get("referencedDecl") or {}).get("kind") == "CXXMethodDecl":
                            rd = x["referencedDecl"]
                            refs.append((self.owner_of_method(x, rd), rd.get("name")))
                    if refs and "::*" in qt(v):
                        self.localfp[v.get("id")] = refs
                        continue
                self.expr(v, ctx, "U")
            return ctx
        if self.is_loop_query(n, "assertInLoopThread"):
            return ctx.but(inloop=True)
        self.stmt(n, ctx)
        return ctx

    def cond_true_in(self, c):
        """the condition being TRUE implies the caller is on the loop thread."""
        c = strip(c)
        if self.is_loop_query(c, "isInLoopThread"):
            return True
        if c.get("kind") == "UnaryOperator" and c.get("opcode") == "!":
            return self.cond_false_in(kids(c)[0])
        if c.get("kind") == "BinaryOperator" and c.get("opcode") == "&&":
            a, b = kids(c)
            return self.cond_true_in(a) or self.cond_true_in(b)
        if c.get("kind") == "BinaryOperator" and c.get("opcode") == "||":
            a, b = kids(c)
            return self.cond_true_in(a) and self.cond_true_in(b)
        return False

    def cond_false_in(self, c):
        """the condition being FALSE implies the caller is on the loop thread (`!isInLoopThread() || x || y`: every
        operand is false, in particular the first)."""
        c = strip(c)
        if c.get("kind") == "UnaryOperator" and c.get("opcode") == "!":
            return self.cond_true_in(kids(c)[0])
        if c.get("kind") == "BinaryOperator" and c.get("opcode") == "||":
            a, b = kids(c)
            return self.cond_false_in(a) or self.cond_false_in(b)
        if c.get("kind") == "BinaryOperator" and c.get("opcode") == "&&":
            a, b = kids(c)
            return self.cond_false_in(a) and self.cond_false_in(b)
        return False

    def cond_info(self, c):
        """('in'|'out'|None) : the condition being true implies in-loop / being false implies in-loop."""
        if self.cond_true_in(c):
            return "in"
        if self.cond_false_in(c):
            return "out"
        return None

    def stmt(self, n, ctx):
        k = n.get("kind")
        if k == "CompoundStmt":
            c = ctx
            for ch in kids(n):
                c = self.stmt_seq(ch, c)
            return
        if k == "IfStmt":
            ks = kids(n)
            cond, rest = ks[0], ks[1:]
            if n.get("hasVar") or n.get("hasInit"):
                # if (T x = ...) : visit everything conservatively
                for ch in ks:
                    self.stmt(ch, ctx)
                return
            n0 = len(self.s.accesses)
            self.expr(cond, ctx, "U")
            info = self.cond_info(cond)
            ctx = ctx.but(guards=ctx.guards | frozenset(a[0] for a in self.s.accesses[n0:]))
            if rest:
                self.stmt(rest[0], ctx.but(inloop=True) if info == "in" else ctx)
            if len(rest) > 1:
                self.stmt(rest[1], ctx.but(inloop=True) if info == "out" else ctx)
            return
        if k in ("ReturnStmt", "WhileStmt", "ForStmt", "DoStmt", "CXXForRangeStmt", "SwitchStmt", "CaseStmt", "DefaultStmt",
                 "CXXTryStmt", "CXXCatchStmt", "LabelStmt", "AttributedStmt", "BreakStmt", "ContinueStmt", "NullStmt", "DeclStmt"):
            if k == "DeclStmt":
                self.stmt_seq(n, ctx)
                return
            if k in ("WhileStmt", "ForStmt", "DoStmt", "CXXForRangeStmt") and ctx.loop is None:
                ctx = ctx.but(loop=len(self.s.accesses))
            for ch in kids(n):
                self.stmt(ch, ctx)
            return
        self.expr(n, ctx, "U")

    # ---- expressions; use: R (value read), W (assigned), RW, U (unknown: decided by constness)
    def expr(self, n, ctx, use):
        k = n.get("kind")
        if k in ("CompoundStmt", "IfStmt", "ReturnStmt", "WhileStmt", "ForStmt", "DoStmt", "CXXForRangeStmt", "SwitchStmt",
                 "CXXTryStmt", "DeclStmt", "CaseStmt", "DefaultStmt", "CXXCatchStmt"):
            return self.stmt(n, ctx)
        if k == "VarDecl":
            for ch in kids(n):
                self.expr(ch, ctx, "U")
            return
        if self.is_assert(n):
            self.expr(kids(strip(n))[0], ctx.but(dbg=True), "R")
            return
        if k == "ImplicitCastExpr":
            ck = n.get("castKind")
            if ck == "LValueToRValue":
                return self.expr(kids(n)[0], ctx, "R")
            if ck in ("NoOp", "DerivedToBase", "UncheckedDerivedToBase") and use == "U" and is_const_type(qt(n)):
                return self.expr(kids(n)[0], ctx, "R")
            return self.expr(kids(n)[0], ctx, use)
        if k in TRANSPARENT:
            for ch in kids(n):
                self.expr(ch, ctx, use)
            return
        if k == "MemberExpr":
            f = self.this_field(n)
            if f:
                u = use
                if u == "U":
                    u = "R" if is_const_type(qt(n)) else "W"
                self.acc(f, u, ctx, n)
                return
            # member of something else: x.y / p->y
            b = kids(n)
            if b:
                if n.get("isArrow"):
                    self.expr(b[0], ctx, "U")       # pointer value is read (LValueToRValue below)
                else:
                    self.expr(b[0], ctx, use)      # sub-object of the base: same use
            return
        if k == "DeclRefExpr":
            g = self.global_var(n)
            if g:
                u = use
                if u == "U":
                    u = "R" if is_const_type(qt(n)) else "W"
                self.acc(g, u, ctx, n)
            return
        if k == "BinaryOperator":
            a, b = kids(n)
            op = n.get("opcode")
            if op == "=":
                self.expr(a, ctx, "W")
                self.expr(b, ctx, "U")
                return
            if op == "||" and self.cond_info(a) == "out":
                self.expr(a, ctx, "U")
                self.expr(b, ctx.but(inloop=True), "U")
                return
            if op == "&&" and self.cond_info(a) == "in":
                self.expr(a, ctx, "U")
                self.expr(b, ctx.but(inloop=True), "U")
                return
            self.expr(a, ctx, "U")
            self.expr(b, ctx, "U")
            return
        if k == "CompoundAssignOperator":
            a, b = kids(n)
            self.expr(a, ctx, "RW")
            self.expr(b, ctx, "U")
            return
        if k == "UnaryOperator":
            op = n.get("opcode")
            if op in ("++", "--"):
                return self.expr(kids(n)[0], ctx, "RW")
            if op == "&":
                # address taken: &Class::method is a method reference (handled by the enclosing call), else conservative
                inner = strip(kids(n)[0])
                if inner.get("kind") == "DeclRefExpr" and (inner.get("referencedDecl") or {}).get("kind") in ("CXXMethodDecl", "FunctionDecl"):
                    self.note_register(n, ctx, via="&")
                    return
                return self.expr(kids(n)[0], ctx, "U")
            return self.expr(kids(n)[0], ctx, "U")
        if k == "CXXOperatorCallExpr":
            ks = kids(n)
            callee = strip(ks[0])
            opname = (callee.get("referencedDecl") or {}).get("name", "")
            args = ks[1:]
            assign = opname in ("operator=", "operator+=", "operator-=", "operator++", "operator--", "operator|=", "operator&=")
            for i, a in enumerate(args):
                if i == 0 and assign:
                    self.expr(a, ctx, "W" if opname == "operator=" else "RW")
                else:
                    self.expr(a, ctx, "U")
            return
        if k == "CXXMemberCallExpr":
            return self.member_call(n, ctx)
        if k == "CallExpr":
            ks = kids(n)
            callee = strip(ks[0])
            cname = (callee.get("referencedDecl") or {}).get("name", "")
            if cname in ("bind", "makeWeakCallback", "make_shared", "make_pair"):
                # arguments are copied (decay-copy) into the result object: a member passed here is read
                for ch in ks[1:]:
                    self.expr(ch, ctx, "R" if self.this_field(strip(ch)) else "U")
                return
            for ch in ks:
                self.expr(ch, ctx, "U")
            return
        if k == "ConditionalOperator":
            for ch in kids(n):
                self.expr(ch, ctx, "U")
            return
        if k == "LambdaExpr":
            MISSING.append("MISSING lambda in %s::%s (not analysed)" % (self.cls, self.s.name))
            return
        for ch in kids(n):
            self.expr(ch, ctx, "U")

    def bound_kind(self, b):
        """classification of one argument bound into a posted functor -> (kind, type) ; (None, _) for the method
        reference itself and for placeholders."""
        sb = strip(b)
        t = (b.get("type") or {}).get("desugaredQualType") or qt(b)
        t0 = qt(b)
        if "::*)" in t or "::*)" in t0 or "_Placeholder" in t or "_Placeholder" in t0:
            return None, t0
        if sb.get("kind") == "UnaryOperator" and sb.get("opcode") == "&" and \
           (strip(kids(sb)[0]).get("referencedDecl") or {}).get("kind") in ("CXXMethodDecl", "FunctionDecl"):
            return None, t0
        if (sb.get("referencedDecl") or {}).get("kind") == "FunctionDecl" or re.search(r"\(\*\)\(|\)\s*\(\*", t):
            return None, t0                         # plain function (pointer)
        if sb.get("kind") == "CXXThisExpr":
            return "this", t0
        if "StringPiece" in t or "StringArg" in t or "string_view" in t:
            return "view", t0
        if "reference_wrapper" in t:
            return "ref", t0
        ts = t.strip()
        if ts.endswith("*") or ts.endswith("*const") or ts.endswith("* const"):
            if self.root_field(b):
                return "member", t0
            if sb.get("kind") == "DeclRefExpr" and (sb.get("referencedDecl") or {}).get("id") in self.localnew:
                return "transfer", t0
            return "ptr", t0
        return "val", t0

    def note_register(self, n, ctx, via):
        for (c, m) in self.method_refs(n):
            f, l = loc_of(n)
            self.s.registers.append((c, m, via, f, l))

    def member_call(self, n, ctx):
        ks = kids(n)
        cal = ks[0]
        args = ks[1:]
        if cal.get("kind") != "MemberExpr":
            for ch in ks:
                self.expr(ch, ctx, "U")
            return
        mname = cal.get("name")
        base = kids(cal)[0] if kids(cal) else None
        f, l = loc_of(n)
        sb = strip(base) if base else {}
        if mname in ("isInLoopThread", "assertInLoopThread") and self.is_loop_query(n, mname):
            # the owner-loop pointer itself is read
            if sb.get("kind") != "CXXThisExpr":
                self.expr(base, ctx, "U")
            return
        # --- posting onto a loop
        if mname in POSTERS and not (sb.get("kind") == "CXXThisExpr" and self.cls != "EventLoop"):
            posted = []
            for a in args:
                posted += self.method_refs(a)
            for (c, m) in posted:
                self.s.posts.append((c, m, f, l))
            # what the functor carries: std::bind / makeWeakCallback decay-copy every argument - a std::string, shared_ptr or
            # value is then OWNED by the functor, a StringPiece / raw pointer / std::ref / `this` is only BORROWED
            for a in args:
                for x in walk(a):
                    if x.get("kind") == "CallExpr" and len(kids(x)) >= 2 and \
                       (strip(kids(x)[0]).get("referencedDecl") or {}).get("name") in ("bind", "makeWeakCallback"):
                        bargs = kids(x)[1:]
                        tgt = []
                        for b in bargs:
                            tgt += self.method_refs(b)
                        if not tgt:
                            continue
                        (c, m) = tgt[0]
                        for b in bargs:
                            kind, ty = self.bound_kind(b)
                            if kind is None:
                                continue
                            self.s.postargs.append((c, m, kind, ty, ctx.inloop, f, l))
                            if kind == "this":
                                self.s.rawposts.append((c, m, f, l))
            # arguments other than the method references are evaluated here
            for a in args:
                self.expr_skip_method_refs(a, ctx)
            if sb.get("kind") == "CXXThisExpr":
                self.s.calls.append((mname, tuple(sorted(ctx.locks)), ctx.inloop, f, l))
                self.s.callpos.append((mname, len(self.s.accesses), ctx.inloop))
            else:
                self.expr(base, ctx, "U")
                rf = self.root_field(base)
                if rf:
                    self.s.xcalls.append((rf, self.fields[rf]["cls"], mname, tuple(sorted(ctx.locks)), ctx.inloop, f, l))
                    self.s.xcallpos.append((rf, self.fields[rf]["cls"], mname, len(self.s.accesses), ctx.inloop))
            return
        # --- call on this
        if sb.get("kind") == "CXXThisExpr":
            self.s.calls.append((mname, tuple(sorted(ctx.locks)), ctx.inloop, f, l))
            self.s.callguards.append((mname, tuple(sorted(ctx.guards))))
            self.s.callpos.append((mname, len(self.s.accesses), ctx.inloop))
            for a in args:
                self.expr(a, ctx, "U")
            return
        # --- call on something else
        if re.match(r"set\w*Callback$", mname or "") and base is not None:
            tcls = class_of_type((base.get("type") or {}).get("desugaredQualType") or qt(base)) or class_of_type(qt(base))
            if not tcls:                      # conn->... : std::__shared_ptr_access<muduo::net::TcpConnection, ...>::element_type *
                for K in KNOWN_CLASSES:
                    if re.search(r"\b%s\b" % K, qt(base)):
                        tcls = K
                        break
            for a in args:
                for x in walk(a):
                    if x.get("kind") == "CallExpr" and len(kids(x)) >= 2 and \
                       (strip(kids(x)[0]).get("referencedDecl") or {}).get("name") in ("bind", "makeWeakCallback"):
                        bargs = kids(x)[1:]
                        tgt = []
                        for b in bargs:
                            tgt += self.method_refs(b)
                        if not tgt or not tcls:
                            continue
                        for b in bargs:
                            kind, ty = self.bound_kind(b)
                            if kind is not None:
                                self.s.regargs.append((tcls, mname, tgt[0][0], tgt[0][1], kind, ty, f, l))
        if mname == "join":
            self.s.joins.append((tuple(sorted(ctx.guards)), f, l))
        if cal.get("isArrow"):
            self.expr(base, ctx, "U")
        else:
            # object.method(): const-qualified object => read, else write
            self.expr(base, ctx, "R" if is_const_type(qt(base)) else "U")
        rf = self.root_field(base)
        if rf:
            self.s.xcalls.append((rf, self.fields[rf]["cls"], mname, tuple(sorted(ctx.locks)), ctx.inloop, f, l))
            self.s.xcallpos.append((rf, self.fields[rf]["cls"], mname, len(self.s.accesses), ctx.inloop))
        for a in args:
            self.expr(a, ctx, "U")

    def expr_skip_method_refs(self, n, ctx):
        """visit a posted argument: &C::m inside is not a registration (already recorded as a post)."""
        saved = self.s.registers
        self.s.registers = []
        self.expr(n, ctx, "U")
        self.s.registers = saved

    # ---- whole function
    def function(self, s, fn):
        self.s = s
        self.localfp = {}
        self.localnew = set()
        body = None
        ctx = Ctx()
        for ch in kids(fn):
            if ch.get("kind") == "CXXCtorInitializer":
                ai = ch.get("anyInit") or {}
                if ai.get("name") in self.fields:
                    f, l = loc_of(ch)
                    if l is None:
                        f, l = loc_of(fn)
                    s.accesses.append((ai["name"], "W", (), False, False, f, l))
                    s.accloop.append(None)
                for x in kids(ch):
                    self.expr(x, ctx, "U")
            elif ch.get("kind") == "CompoundStmt":
                body = ch
        if body is None:
            return
        s.bodies += 1
        # first effective statement (debug asserts skipped) is the thread check?
        first = None
        for st in kids(body):
            if self.is_assert(st):
                continue
            first = st
            break
        cf = bool(first is not None and self.is_loop_query(first, "assertInLoopThread"))
        s.check_first = cf if s.check_first is None else (s.check_first and cf)
        base = len(s.accesses)
        s.body_nodes.append(body)
        self.stmt(body, ctx)
        # the tail of the body after its last write of each member g: what this method may still be doing once another
        # thread has seen that value of g (used for thread entry functions against the destructor's join condition)
        lastw = {}
        for i in range(base, len(s.accesses)):
            if s.accesses[i][1] == "W":
                lastw[s.accesses[i][0]] = i
        for g, i in lastw.items():
            start = s.accloop[i] if s.accloop[i] is not None else i + 1
            # (accesses proven to be on the loop thread - inloop - are the owner's own and do not count)
            t = set(a[0] for a in s.accesses[start:] if not a[3])
            t |= set(m for (m, _f, _l, pos) in s.lockuses if pos >= start and pos >= base)
            t.discard(g)
            s.tails[g] = sorted(set(s.tails.get(g, [])) | t)
            # the locks held at that write are released afterwards: still "in use" for whoever wants to DESTROY them, but
            # no hazard for a consumer that has to take the same lock first (kept apart: m_taillocks)
            s.taillocks[g] = sorted(set(s.taillocks.get(g, [])) | set(s.accesses[i][2]))
            s.tailranges.append((g, start, len(s.accesses)))
        if s.kind == "dtor":
            # implicit member destruction at the closing brace: the synchronisation members (~MutexLock, ~Condition, ...)
            e = (body.get("range") or {}).get("end") or {}
            if "expansionLoc" in e:
                e = e["expansionLoc"]
            ef, el = e.get("_file"), e.get("_line")
            if ef:
                ef = os.path.relpath(ef, REPO) if ef.startswith(REPO.rstrip("/") + "/") else ef
            for fname, d in self.fields.items():
                if d.get("sync"):
                    s.destroys.append((fname, ef, el))


MISSING = []
SHARED = {}              # class -> derives from enable_shared_from_this
SHARED_OUT = SHARED
ALL_METHOD_IDS = {}      # decl id -> (class, name)      (per TU; ids are only compared within one TU)
EXTERN_METHOD_OWNER = {}


# ------------------------------------------------------------------ per class
def find_records(objs, cname):
    """complete definitions of class cname (plain or template specialisation) inside namespace muduo."""
    res = []
    for o in objs:
        for n in walk(o):
            if n.get("name") == cname and n.get("completeDefinition") and \
               n.get("kind") in ("CXXRecordDecl", "ClassTemplateSpecializationDecl"):
                res.append(n)
    spec = [r for r in res if r["kind"] == "ClassTemplateSpecializationDecl"]
    return spec or res


def method_kind(n):
    return {"CXXConstructorDecl": "ctor", "CXXDestructorDecl": "dtor"}.get(n.get("kind"), "method")


KNOWN_CLASSES = ("EventLoopThreadPool", "EventLoopThread", "EventLoop", "TimerQueue", "TcpConnection", "TcpServer", "TcpClient",
                 "Connector", "Channel", "ThreadPool", "AsyncLogging", "CountDownLatch", "BoundedBlockingQueue", "BlockingQueue",
                 "Acceptor", "Poller", "Socket", "Thread")


def class_of_type(t):
    """T, T*, T&, unique_ptr<T>, shared_ptr<T> of one of the classes we know -> T  (containers of them: no)."""
    t = t.strip()
    t = re.sub(r"^const ", "", t)
    m = re.match(r"^std::(?:unique_ptr|shared_ptr|weak_ptr)<(.*?)(?:, std::default_delete<.*>)?>$", t)
    if m:
        t = m.group(1).strip()
    t = re.sub(r"\s*[*&]+\s*(const)?$", "", t).strip()
    t = re.sub(r"^(class |struct )", "", t)
    t = re.sub(r"^muduo::(net::)?", "", t)
    t = re.sub(r"<.*>$", "", t)
    return t if t in KNOWN_CLASSES else ""


def analyse_class(objs, cname, all_classes):
    recs = find_records(objs, cname)
    if not recs:
        MISSING.append("MISSING class %s" % cname)
        return None, []
    rec = recs[0]
    fields, methods = {}, {}
    access = "private" if rec.get("tagUsed") == "class" else "public"
    sums = {}
    order = []
    for ch in kids(rec):
        k = ch.get("kind")
        if k == "AccessSpecDecl":
            access = ch.get("access", access)
        elif k == "FieldDecl":
            t = qt(ch)
            dt = (ch.get("type") or {}).get("desugaredQualType", t)
            f, l = loc_of(ch)
            fields[ch["name"]] = {"type": t, "atomic": bool(ATOMIC_TYPE.search(t)), "sync": bool(SYNC_TYPE.search(t)) and "*" not in t and "<" not in t,
                                  "const": is_const_type(t), "file": f, "line": l, "cls": class_of_type(dt), "tls": False}
        elif k in ("CXXMethodDecl", "CXXConstructorDecl", "CXXDestructorDecl") and not ch.get("isImplicit"):
            if ch.get("explicitlyDeleted") or ch.get("explicitlyDefaulted") == "deleted":
                continue
            nm = ch["name"]
            if nm not in sums:
                sums[nm] = Summary(cname, nm)
                order.append(nm)
                sums[nm].kind = method_kind(ch)
                sums[nm].file, sums[nm].decl_line = loc_of(ch)
            sums[nm].public = sums[nm].public or access == "public"
            if ch.get("storageClass") == "static":
                sums[nm].kind = "static"
            methods[ch["id"]] = nm
            ALL_METHOD_IDS[ch["id"]] = (cname, nm)
    SHARED[cname] = any("enable_shared_from_this" in ((b.get("type") or {}).get("qualType", "")) for b in (rec.get("bases") or []))
    an = Analyzer(cname, fields, methods)
    # inline bodies
    for ch in kids(rec):
        if ch.get("id") in methods:
            an.function(sums[methods[ch["id"]]], ch)
    # out-of-line definitions
    for o in objs:
        for n in walk(o):
            if n.get("kind") in ("CXXMethodDecl", "CXXConstructorDecl", "CXXDestructorDecl") and n.get("previousDecl") in methods \
               and n.get("id") not in methods:
                ALL_METHOD_IDS[n["id"]] = (cname, methods[n["previousDecl"]])
                an.function(sums[methods[n["previousDecl"]]], n)
    def cond_members(c):
        res = set()
        for x in walk(c):
            f_ = an.this_field(strip(x)) if x.get("kind") == "MemberExpr" else None
            if f_:
                res.add(f_)
        return frozenset(res)

    def seq(ps, qs):
        out_ = set()
        for (j1, g1) in ps:
            for (j2, g2) in qs:
                out_.add((j1 or j2, g1 | g2))
        return sorted(out_, key=lambda p_: (p_[0], sorted(p_[1])))[:64]

    def paths_expr(n, depth):
        """paths contributed by the calls inside an expression: x.join() / x->join(); a call on `this` is inlined."""
        ps = [(False, frozenset())]
        for x in walk(n):
            if x.get("kind") != "CXXMemberCallExpr":
                continue
            cal = kids(x)[0] if kids(x) else {}
            if cal.get("kind") != "MemberExpr":
                continue
            b_ = strip(kids(cal)[0]) if kids(cal) else {}
            if cal.get("name") == "join" and b_.get("kind") != "CXXThisExpr":
                ps = seq(ps, [(True, frozenset())])
            elif b_.get("kind") == "CXXThisExpr" and cal.get("name") in sums and depth < 4:
                ps = seq(ps, paths_method(cal.get("name"), depth + 1))
        return ps

    def paths_stmt(n, depth):
        k = n.get("kind")
        if k == "CompoundStmt":
            ps = [(False, frozenset())]
            for ch in kids(n):
                ps = seq(ps, paths_stmt(ch, depth))
            return ps
        if k == "IfStmt" and not (n.get("hasVar") or n.get("hasInit")):
            ks = kids(n)
            cm = cond_members(ks[0])
            pre = paths_expr(ks[0], depth)
            th = paths_stmt(ks[1], depth) if len(ks) > 1 else [(False, frozenset())]
            el = paths_stmt(ks[2], depth) if len(ks) > 2 else [(False, frozenset())]
            both = [(j, g | cm) for (j, g) in th] + [(j, g | cm) for (j, g) in el]
            return seq(pre, both)
        if k in ("WhileStmt", "ForStmt", "DoStmt", "CXXForRangeStmt", "CXXTryStmt", "SwitchStmt", "CaseStmt", "DefaultStmt",
                 "LabelStmt", "AttributedStmt", "CXXCatchStmt"):
            ps = [(False, frozenset())]                # (a loop body is taken as executed: `for (thr : threads_) thr->join()`)
            for ch in kids(n):
                ps = seq(ps, paths_stmt(ch, depth))
            return ps
        return paths_expr(n, depth)

    def paths_method(nm, depth):
        s_ = sums.get(nm)
        if s_ is None or not s_.body_nodes:
            return [(False, frozenset())]
        return paths_stmt(s_.body_nodes[0], depth)

    def join_guards(nm, seen):
        """None: no join() on any path of nm (through its calls on this); else the members read by the enclosing conditions."""
        s = sums.get(nm)
        if s is None or nm in seen:
            return None
        res = None
        for (g, _f, _l) in s.joins:
            res = (res or set()) | set(g)
        for (callee, g) in s.callguards:
            r = join_guards(callee, seen | {nm})
            if r is not None:
                res = (res or set()) | set(g) | r
        return res
    out = []
    for nm in order:
        s = sums[nm]
        if s.bodies == 0:
            continue
        s.join = None
        if s.kind == "dtor":
            jg = join_guards(nm, frozenset())
            s.join = None if jg is None else sorted(jg)
            s.paths = [(j, sorted(g)) for (j, g) in paths_method(nm, 0)]
        out.append(s)
    return fields, out


def finish_tails(classes):
    """second pass over ALL classes: what a method still uses after its last write of a member g includes what the methods
    it calls afterwards use - on `this` (own members) and on member objects of other summarised classes (their members,
    qualified `Class::member`) - transitively, off the loop thread only."""
    allsums = dict(((c, s.name), s) for (c, _f, sums) in classes for s in sums)

    def uses(cls, nm, seen, qualify):
        s = allsums.get((cls, nm))
        if s is None or (cls, nm) in seen or len(seen) > 6:
            return set()
        q = (lambda x: "%s::%s" % (cls, x)) if qualify else (lambda x: x)
        r = set(q(a[0]) for a in s.accesses if not a[3]) | set(q(x) for a in s.accesses if not a[3] for x in a[2])
        for (callee, _pos, inloop) in s.callpos:
            if not inloop:
                r |= uses(cls, callee, seen | {(cls, nm)}, qualify)
        for (_fld, fcls, callee, _pos, inloop) in s.xcallpos:
            if not inloop and fcls:
                r |= uses(fcls, callee, seen | {(cls, nm)}, True)
        return r

    for (cname, _fields, sums) in classes:
        for s in sums:
            s.uses = sorted(uses(cname, s.name, frozenset(), False))
            for (g, start, end) in s.tailranges:
                t = set(s.tails.get(g, []))
                for (callee, pos, inloop) in s.callpos:
                    if start <= pos <= end and not inloop:
                        t |= uses(cname, callee, frozenset([(cname, s.name)]), False)
                for (_fld, fcls, callee, pos, inloop) in s.xcallpos:
                    if start <= pos <= end and not inloop and fcls:
                        t |= uses(fcls, callee, frozenset([(cname, s.name)]), True)
                t.discard(g)
                s.tails[g] = sorted(t)
    # a destructor destroys by-value members of summarised class types with THEIR synchronisation members
    fieldsof = dict((c, f) for (c, f, _s) in classes)
    for (cname, fields, sums) in classes:
        for s in sums:
            if s.kind != "dtor" or not s.destroys:
                continue
            ef, el = s.destroys[0][1], s.destroys[0][2]
            for fname, d in fields.items():
                k = d.get("cls")
                t = d.get("type", "")
                if k and k in fieldsof and "*" not in t and "&" not in t and "_ptr<" not in t:
                    for f2, d2 in fieldsof[k].items():
                        if d2.get("sync"):
                            s.destroys.append(("%s::%s" % (k, f2), ef, el))


# ------------------------------------------------------------------ static storage inventory
def all_tus():
    """every translation unit of the property-anchored directories (C18: http, protobuf; C19: the three hand-written
    protorpc files - not the protoc-generated *.pb.cc)."""
    fs = []
    for pat in ("muduo/base/*.cc", "muduo/net/*.cc", "muduo/net/poller/*.cc", "muduo/net/http/*.cc", "muduo/net/protobuf/*.cc"):
        fs += glob.glob(os.path.join(REPO, pat))
    for f in ("RpcChannel.cc", "RpcCodec.cc", "RpcServer.cc"):
        if os.path.exists(os.path.join(REPO, "muduo/net/protorpc", f)):
            fs.append(os.path.join(REPO, "muduo/net/protorpc", f))
    return sorted(os.path.relpath(f, REPO) for f in fs if not f.endswith(("_test.cc", "_unittest.cc", "boilerplate.cc")))


def protoc_rpc(outdir):
    """rpc.pb.h / rpcservice.pb.h for the protorpc translation units (as vlib.protoc_rpc does for C19's driver)."""
    dst = os.path.join(outdir, "muduo/net/protorpc")
    os.makedirs(dst, exist_ok=True)
    src = os.path.join(REPO, "muduo/net/protorpc")
    protos = [os.path.join(src, f) for f in ("rpc.proto", "rpcservice.proto") if os.path.exists(os.path.join(src, f))]
    if not protos:
        return False
    r = subprocess.run(["protoc", "--cpp_out=" + dst, "-I" + src] + protos, stdout=subprocess.PIPE, stderr=subprocess.PIPE, timeout=120)
    if r.returncode != 0:
        MISSING.append("MISSING static inventory: protoc failed (%s)" % r.stderr.decode("utf-8", "replace").strip()[:160])
    return r.returncode == 0


INVENTORY_FAILED = []


def norm_static_name(dem):
    """demangled symbol -> one token: parameter lists dropped, (anonymous namespace) -> {anon}."""
    n = dem.replace("(anonymous namespace)", "{anon}")
    prev = None
    while prev != n:
        prev = n
        n = re.sub(r"\([^()]*\)", "", n)
    n = re.sub(r"\s*\[clone[^\]]*\]", "", n)
    n = re.sub(r"\[abi:[^\]]*\]", "", n)
    return re.sub(r"\s+", "", n)


def elf_inventory(tus):
    """COMPLETE by construction: every object the compiler places in a writable data section (.data/.bss/.tdata/.tbss ...)
    of any translation unit of muduo/base, muduo/net, muduo/net/poller - static data members, function-local statics,
    namespace-scope and anonymous-namespace variables, __thread / thread_local variables - read from the ELF symbol tables
    of the objects compiled from the current sources (clang++ -O0).  Constants live in .rodata / .data.rel.ro and are skipped."""
    import tempfile, shutil
    tmp = tempfile.mkdtemp(prefix="obj_", dir=WORK)
    inv = {}
    try:
        def cc(tu):
            o = os.path.join(tmp, tu.replace("/", "_") + ".o")
            r = subprocess.run(["clang++", "-std=c++11", "-I" + REPO] + EXTRA_INC + ["-O0", "-w", "-DCHECK_PTHREAD_RETURN_VALUE", "-c",
                                os.path.join(REPO, tu), "-o", o], stdout=subprocess.PIPE, stderr=subprocess.PIPE, timeout=300)
            return tu, o, r.returncode, r.stderr.decode("utf-8", "replace")
        with ThreadPoolExecutor(max_workers=12) as ex:
            objs = list(ex.map(cc, tus))
        for (tu, o, rc, err) in objs:
            if rc != 0:
                MISSING.append("MISSING static inventory: %s does not compile (%s)" % (tu, err.strip()[:160]))
                INVENTORY_FAILED.append(tu)
                continue
            sec = {}
            for line in subprocess.run(["readelf", "-SW", o], stdout=subprocess.PIPE).stdout.decode().split("\n"):
                m = re.match(r"\s*\[\s*(\d+)\]\s+(\S+)\s+\S+\s+\S+\s+\S+\s+\S+\s+\S+\s+(\S*)", line)
                if m:
                    sec[m.group(1)] = (m.group(2), m.group(3))
            syms = []
            for line in subprocess.run(["readelf", "-sW", o], stdout=subprocess.PIPE).stdout.decode().split("\n"):
                w = line.split()
                if len(w) >= 8 and w[3] in ("OBJECT", "TLS") and w[6].isdigit():
                    nm, fl = sec.get(w[6], ("?", ""))
                    if "W" not in fl or nm.startswith(".data.rel.ro"):
                        continue
                    syms.append((w[7], w[3] == "TLS", w[2], nm))
            if not syms:
                continue
            dem = subprocess.run(["c++filt"], input="\n".join(x[0] for x in syms).encode(), stdout=subprocess.PIPE).stdout.decode().split("\n")
            for (sym, tls, size, secname), d in zip(syms, dem):
                d = d.strip()
                if d.startswith(("DW.ref.", "std::", "boost::", "google::", "__", "guard variable", "vtable", "typeinfo", "VTT")):
                    continue
                if re.search(r"_default_instance_|descriptor_table_|TableStruct_|_pb_|scc_info_", d):
                    continue                      # protoc-generated inline statics seen through rpc.pb.h: out of scope
                name = norm_static_name(d)
                e = inv.setdefault(name, {"name": name, "where": tu, "tls": tls, "size": size, "section": secname, "demangled": d,
                                          "atomic": False, "type": "?", "accs": []})
                e["tls"] = e["tls"] or tls
    finally:
        shutil.rmtree(tmp, ignore_errors=True)
    return inv


def static_accesses(parsed, inv):
    """type facts and accessors of the inventory entries from the clang AST of every translation unit."""
    short = {}
    for name in inv:
        short.setdefault(name.split("::")[-1], []).append(name)

    for tu, (objs, _err) in sorted(parsed.items()):
        statics = {}          # VarDecl id -> short name   (static storage only)

        def decls(n, infn):
            k = n.get("kind")
            if k == "VarDecl" and n.get("name") in short:
                if (not infn) or n.get("storageClass") == "static" or n.get("tls"):
                    statics[n.get("id")] = n.get("name")
                    for full in short[n["name"]]:
                        t = qt(n)
                        if inv[full]["type"] == "?":
                            inv[full]["type"] = t
                        inv[full]["atomic"] = inv[full]["atomic"] or bool(ATOMIC_TYPE.search(t))
            nin = infn or k in ("FunctionDecl", "CXXMethodDecl", "CXXConstructorDecl", "CXXDestructorDecl")
            for c in kids(n):
                decls(c, nin)

        def uses(n, fn, stack):
            k = n.get("kind")
            if k in ("FunctionDecl", "CXXMethodDecl", "CXXConstructorDecl", "CXXDestructorDecl"):
                fn = n.get("name")
            if k == "DeclRefExpr":
                rd = n.get("referencedDecl") or {}
                if rd.get("kind") == "VarDecl" and rd.get("id") in statics and fn:
                    par = stack[-1] if stack else {}
                    pk, kind = par.get("kind"), "W"
                    if pk == "UnaryExprOrTypeTraitExpr" or (pk == "CStyleCastExpr" and par.get("castKind") == "ToVoid"):
                        kind = None                     # sizeof x / (void) x : no access
                    elif pk == "ImplicitCastExpr" and par.get("castKind") == "LValueToRValue":
                        kind = "R"
                    elif pk == "ImplicitCastExpr" and par.get("castKind") == "NoOp" and is_const_type(qt(par)):
                        kind = "R"
                    elif pk == "ImplicitCastExpr" and par.get("castKind") == "ArrayToPointerDecay":
                        gp = stack[-2] if len(stack) > 1 else {}
                        ggp = stack[-3] if len(stack) > 2 else {}
                        if gp.get("kind") == "ArraySubscriptExpr" and not (ggp.get("kind") == "BinaryOperator" and ggp.get("opcode") == "="):
                            kind = "R"
                    elif is_const_type(qt(n)):
                        kind = "R"
                    if kind:
                        for full in short[statics[rd["id"]]]:
                            if (fn, kind) not in inv[full]["accs"]:
                                inv[full]["accs"].append((fn, kind))
            for c in kids(n):
                uses(c, fn, stack + [n])

        for o in objs:
            decls(o, False)
        if statics:
            for o in objs:
                uses(o, None, [])
    for e in inv.values():
        e["accs"].sort()


def analyse_logging(objs, relfile):
    """pseudo-class: namespace-scope variables of Logging.cc + every function defined in that file."""
    path = os.path.join(REPO, relfile)
    gv, fields = {}, {}
    fns = []
    for o in objs:
        for n in walk(o):
            f, l = loc_of(n)
            if f != relfile:
                continue
            if n.get("kind") == "VarDecl" and n.get("id") and not n.get("_local"):
                pass
    # namespace-scope VarDecls: direct children of NamespaceDecl / top-level objects located in the file
    def scan(n, depth_fn):
        k = n.get("kind")
        if k in ("FunctionDecl", "CXXMethodDecl", "CXXConstructorDecl", "CXXDestructorDecl"):
            f, l = loc_of(n)
            # + the inline accessors of the per-thread caches the Logger front-end reads (CurrentThread::tid() ...)
            if (f == relfile or (f or "").endswith("muduo/base/CurrentThread.h")) and \
               any(c.get("kind") == "CompoundStmt" for c in kids(n)):
                fns.append(n)
            return
        if k == "VarDecl":
            f, l = loc_of(n)
            if f == relfile or (f or "").endswith("Logging.h") or (f or "").endswith("muduo/base/CurrentThread.h"):
                t = qt(n)
                nm = n.get("name")
                gv[n["id"]] = nm
                fields.setdefault(nm, {"type": t, "atomic": bool(ATOMIC_TYPE.search(t)), "sync": False, "const": is_const_type(t),
                                       "file": f, "line": l, "cls": "", "tls": bool(n.get("tls"))})
            return
        for c in kids(n):
            scan(c, depth_fn)
    for o in objs:
        scan(o, 0)
    # redeclarations (extern in the header, definition in the .cc) share a name: map every id
    an = Analyzer("Logging", fields, {}, globalvars=gv)
    sums, order = {}, []
    for fn in fns:
        nm = fn.get("name")
        par = fn.get("parentDeclContextId")
        qual = nm
        if fn.get("kind") != "FunctionDecl":
            qual = LOGGER_OWNER.get(par, "Logger") + "_" + nm.replace("~", "dtor_")
        if qual not in sums:
            sums[qual] = Summary("Logging", qual)
            sums[qual].public = True
            sums[qual].file, sums[qual].decl_line = loc_of(fn)
            order.append(qual)
        an.fields = fields
        an.function(sums[qual], fn)
    # only the accesses to namespace-scope variables matter here (members of the stack-allocated Logger are thread-private)
    for q in order:
        sums[q].join = None
        sums[q].paths = None
        sums[q].destroys = []
        sums[q].tails = {}
    return fields, [sums[q] for q in order]


LOGGER_OWNER = {}


# ------------------------------------------------------------------ table
def read_table():
    t = {"fields": {}, "methods": {}, "waive": [], "exitflags": [], "lifetime_ok": [], "statics": {}, "loopref": {}, "lines": []}
    if not os.path.exists(TABLE):
        return t
    for ln, line in enumerate(open(TABLE), 1):
        line = line.split("#")[0].strip()
        if not line:
            continue
        w = line.split()
        if w[0] == "field":
            t["fields"][(w[1], w[2])] = w[3:]
        elif w[0] == "method":
            t["methods"][(w[1], w[2])] = w[3:]
        elif w[0] == "waive":
            t["waive"].append(tuple(w[1:5]))
        elif w[0] == "exitflag":
            t["exitflags"].append((w[1], w[2]))
        elif w[0] == "static":
            t["statics"][w[1]] = w[2:]
        elif w[0] == "lifetime-ok":
            t["lifetime_ok"].append((w[1], w[2], w[3]))
        else:
            print("MISSING table line %d not understood: %s" % (ln, line))
    return t


# ------------------------------------------------------------------ output
def cs(s):
    return '"' + s.replace('"', '""') + '"'


def clist(xs):
    return "[" + "; ".join(xs) + "]"


def emit_coq(classes, table, srchash):
    L = []
    L.append("(* GENERATED by lib/gen_C08.py from the clang JSON AST of the current sources and lib/C08_table.txt -- do not edit. *)")
    L.append("From Coq Require Import List String ZArith Bool.")
    L.append("From Muduo Require Import C08_Model.")
    L.append("Import ListNotations.")
    L.append("Open Scope string_scope.")
    L.append("")
    names = []
    for (cname, fields, sums) in classes:
        for s in sums:
            ident = "m_%s_%s" % (cname, re.sub(r"\W", "_", s.name.replace("~", "dtor_")))
            names.append(ident)
            L.append("(* %s::%s  %s:%s *)" % (cname, s.name, s.file, s.decl_line))
            acc = []
            seen = set()
            for (f, k, locks, inloop, dbg, fl, ln) in s.accesses:
                key = (f, k, locks, inloop, dbg)
                if key in seen:
                    continue
                seen.add(key)
                acc.append("mkAcc %s %s %s %s %s %d" % (cs(f), k, clist([cs(x) for x in locks]), str(inloop).lower(), str(dbg).lower(), ln or 0))
            calls = []
            seen = set()
            for (c, locks, inloop, fl, ln) in s.calls:
                key = (c, locks, inloop)
                if key in seen:
                    continue
                seen.add(key)
                calls.append("mkCall %s %s %s %d" % (cs(c), clist([cs(x) for x in locks]), str(inloop).lower(), ln or 0))
            xcalls = []
            seen = set()
            for (fld, fc, c, locks, inloop, fl, ln) in s.xcalls:
                key = (fld, fc, c, locks, inloop)
                if key in seen or not fc:
                    continue
                seen.add(key)
                xcalls.append("mkXCall %s %s %s %s %s %d" % (cs(fld), cs(fc), cs(c), clist([cs(x) for x in locks]), str(inloop).lower(), ln or 0))
            posts = sorted(set("(%s, %s)" % (cs(c), cs(m)) for (c, m, fl, ln) in s.posts))
            regs = sorted(set("(%s, %s)" % (cs(c), cs(m)) for (c, m, via, fl, ln) in s.registers))
            L.append("Definition %s : msummary := mkSummary %s %s %s %s %s" % (
                ident, cs(cname), cs(s.name), str(bool(s.public)).lower(),
                {"ctor": "KCtor", "dtor": "KDtor", "method": "KMethod", "static": "KMethod"}[s.kind], str(bool(s.check_first)).lower()))
            L.append("  %s" % clist(acc))
            L.append("  %s" % clist(calls))
            L.append("  %s" % clist(xcalls))
            L.append("  %s" % clist(posts))
            L.append("  %s" % clist(regs))
            tails = ["(%s, %s)" % (cs(g), clist([cs(x) for x in t])) for g, t in sorted(s.tails.items()) if t]
            L.append("  %s" % clist(tails))
            tl = ["(%s, %s)" % (cs(g), clist([cs(x) for x in t])) for g, t in sorted(s.taillocks.items()) if t]
            L.append("  %s" % clist(tl))
            L.append("  %s" % clist([cs(x) for x in s.uses]))
            pas, seen = [], set()
            for (c, m, kind, ty, inloop, fl, ln) in s.postargs:
                key = (c, m, kind, inloop)
                if key in seen:
                    continue
                seen.add(key)
                pas.append("mkPA %s %s %s %s %d" % (cs(c), cs(m), cs(kind), str(inloop).lower(), ln or 0))
            L.append("  %s" % clist(pas))
            ras, seen = [], set()
            for (tcls, setter, c, m, kind, ty, fl, ln) in s.regargs:
                key = (tcls, setter, m, kind)
                if key in seen:
                    continue
                seen.add(key)
                ras.append("mkRA %s %s %s %s %d" % (cs(tcls), cs(setter), cs(m), cs(kind), ln or 0))
            L.append("  %s" % clist(ras))
            if s.kind == "dtor":
                L.append("  (Some (mkDtor %s %s))." % (
                    clist(["(%s, %d%%Z)" % (cs(fn), ln or 0) for (fn, fl, ln) in s.destroys]),
                    clist(["(%s, %s)" % (str(bool(j)).lower(), clist([cs(x) for x in g])) for (j, g) in (s.paths or [])])))
            else:
                L.append("  None.")
    L.append("")
    L.append("Definition summaries : list msummary :=\n  %s." % clist(names))
    L.append("")
    # declared fields with their type facts
    fl = []
    for (cname, fields, sums) in classes:
        for f, d in fields.items():
            fl.append("mkFieldDecl %s %s %s %s %s (* %s *)" % (cs(cname), cs(f), str(d["atomic"]).lower(), str(d["sync"]).lower(),
                                                           str(d["tls"]).lower(), d["type"].replace("*)", "* )")))
    L.append("Definition declared_fields : list fielddecl :=\n  [ %s ]." % "\n  ; ".join(fl))
    L.append("")
    # the committed table
    tf = []
    for (c, f), w in table["fields"].items():
        k = w[0]
        if k == "guarded":
            pc = "PGuarded %s" % cs(w[1])
        elif k == "confined":
            pc = "PLoopConfined"
        else:
            pc = {"atomic": "PAtomic", "immutable": "PImmutable", "threadlocal": "PThreadLocal", "sync": "PSync"}.get(k)
        if pc is None:
            print("MISSING table: unknown class %s for %s::%s" % (k, c, f))
            continue
        tf.append("(%s, %s, %s)" % (cs(c), cs(f), pc))
    L.append("Definition table_fields : list (string * string * pclass) :=\n  [ %s ]." % "\n  ; ".join(tf))
    tm = []
    for (c, m), w in table["methods"].items():
        k = w[0]
        if k == "loop":
            ff = "FFNone"
            if len(w) > 1 and w[1] == "failfast":
                ff = "FFDirect"
            elif len(w) > 1 and w[1].startswith("failfast-via="):
                a, b = w[1][len("failfast-via="):].split("::")
                ff = "FFVia %s %s" % (cs(a), cs(b))
            ct = "CLoop (%s)" % ff
        else:
            ct = {"any": "CAny", "setup": "CSetup", "teardown": "CTeardown", "thread": "CThread"}.get(k)
        if ct is None:
            print("MISSING table: unknown contract %s for %s::%s" % (k, c, m))
            continue
        tm.append("(%s, %s, %s)" % (cs(c), cs(m), ct))
    L.append("Definition table_methods : list (string * string * contract) :=\n  [ %s ]." % "\n  ; ".join(tm))
    wv = ["mkViol %s %s %s %s" % (cs(a), cs(b), cs(c), cs(d)) for (a, b, c, d) in table["waive"]]
    L.append("Definition table_waivers : list violation :=\n  [ %s ]." % "\n  ; ".join(wv))
    L.append("")
    L.append("Definition table_exitflags : list (string * string) :=\n  [ %s ]." % "; ".join("(%s, %s)" % (cs(a), cs(b)) for (a, b) in table["exitflags"]))
    L.append("")
    L.append("Definition shared_classes : list string :=\n  %s." % clist([cs(c) for (c, _f, _s) in classes if SHARED_OUT.get(c)]))
    L.append("Definition table_lifetime_ok : list (string * string * string) :=\n  [ %s ]." %
             "; ".join("(%s, %s, %s)" % (cs(a), cs(b), cs(c)) for (a, b, c) in table["lifetime_ok"]))
    L.append("")
    sv = []
    for name, e in sorted(STATIC_INV.items()):
        sv.append("mkSV %s %s %s %s %s (* %s, %s bytes in %s *)" % (
            cs(name), cs(e["where"]), str(bool(e["tls"])).lower(), str(bool(e["atomic"])).lower(),
            clist(["(%s, %s)" % (cs(f), k) for (f, k) in e["accs"]]), e["type"].replace("*)", "* )"), e["size"], e["section"]))
    L.append("Definition static_inventory : list staticvar :=\n  [ %s ]." % "\n  ; ".join(sv))
    sc = []
    for name, w in table["statics"].items():
        k = w[0] if w else "?"
        if k == "atomic":
            c = "SAtomic"
        elif k == "threadlocal":
            c = "SThreadLocal"
        elif k == "const-after-init":
            c = "SConstAfterInit"
        elif k == "init-once":
            ws = []
            for x in w[1:]:
                if x.startswith("writers="):
                    ws = [y for y in x[len("writers="):].split(",") if y]
            c = "SInitOnce %s" % clist([cs(y) for y in ws])
        elif k == "guarded" and len(w) > 1:
            c = "SGuarded %s" % cs(w[1])
        else:
            print("MISSING table: unknown static class %s for %s" % (k, name))
            continue
        sc.append("(%s, %s)" % (cs(name), c))
    L.append("Definition table_static_classes : list (string * sclass) :=\n  [ %s ]." % "\n  ; ".join(sc))
    L.append("")
    L.append("Definition table : ptable := mkTable table_fields table_methods declared_fields table_exitflags shared_classes static_inventory table_static_classes table_lifetime_ok.")
    L.append("")
    return "\n".join(L) + "\n"


def sources_hash():
    files = [TABLE, TEMPL, os.path.abspath(__file__)]
    for pat in ("muduo/base/*", "muduo/net/*", "muduo/net/*/*"):
        files += [f for f in glob.glob(os.path.join(REPO, pat)) if os.path.isfile(f) and f.endswith((".h", ".cc"))]
    h = hashlib.sha1()
    for p in sorted(files):
        h.update(p.encode())
        try:
            h.update(open(p, "rb").read())
        except OSError:
            h.update(b"<missing>")
    return h.hexdigest()[:16]


def write_if_changed(path, text):
    try:
        if open(path).read() == text:
            return False
    except OSError:
        pass
    tmp = path + ".tmp%d" % os.getpid()
    with open(tmp, "w") as f:
        f.write(text)
    os.replace(tmp, path)
    return True


STATIC_INV = {}


def extract():
    import tempfile, shutil
    gen = tempfile.mkdtemp(prefix="gen_", dir=WORK)
    try:
        if protoc_rpc(gen):
            EXTRA_INC[:] = ["-I" + gen]
        return extract_with_includes()
    finally:
        EXTRA_INC[:] = []
        shutil.rmtree(gen, ignore_errors=True)


def extract_with_includes():
    del INVENTORY_FAILED[:]
    tus = sorted(set(tu for (_, tu) in CLASSES) | set(all_tus()))
    with ThreadPoolExecutor(max_workers=12) as ex:
        parsed = dict(zip(tus, ex.map(parse_tu, tus)))
    inv = elf_inventory(all_tus())
    static_accesses(dict((t, parsed[t]) for t in all_tus()), inv)
    STATIC_INV.clear()
    STATIC_INV.update(inv)
    classes = []
    for (cname, tu) in CLASSES:
        objs, err = parsed[tu]
        ALL_METHOD_IDS.clear()
        # make the ids of every analysed class in this TU known first (for &Other::method references)
        for (c2, _) in CLASSES:
            for rec in find_records(objs, c2)[:1]:
                for ch in kids(rec):
                    if ch.get("kind") in ("CXXMethodDecl", "CXXConstructorDecl", "CXXDestructorDecl") and ch.get("name"):
                        ALL_METHOD_IDS[ch["id"]] = (c2, ch["name"])
        if not objs:
            MISSING.append("MISSING translation unit %s produced no AST (%s)" % (tu, err.strip()[:200]))
            continue
        if cname == "Logging":
            fields, sums = analyse_logging(objs, tu)
        else:
            fields, sums = analyse_class(objs, cname, CLASSES)
        if fields is None:
            continue
        classes.append((cname, fields, sums))
    finish_tails(classes)
    return classes


def main():
    os.makedirs(WORK, exist_ok=True)
    key = sources_hash()
    cache = os.path.join(WORK, "gen_%s_%s.json" % (hashlib.sha1(REPO.encode()).hexdigest()[:6], key))
    if os.path.exists(cache):
        d = json.load(open(cache))
    else:
        classes = extract()
        table = read_table()
        # table gaps
        for (cname, fields, sums) in classes:
            for f in fields:
                if (cname, f) not in table["fields"]:
                    MISSING.append("MISSING table: no protection class for field %s::%s (%s)" % (cname, f, fields[f]["type"]))
            for s in sums:
                if s.public and (cname, s.name) not in table["methods"]:
                    MISSING.append("MISSING table: no contract for public method %s::%s" % (cname, s.name))
        import io, contextlib
        buf = io.StringIO()
        with contextlib.redirect_stdout(buf):
            v = emit_coq(classes, table, key)
        summ = {"repo": REPO, "key": key, "classes": {}, "statics": STATIC_INV, "static_tus": all_tus(),
                "static_tus_failed": list(INVENTORY_FAILED)}
        for name in STATIC_INV:
            if name not in table["statics"]:
                MISSING.append("MISSING table: no protection class for static-storage variable %s (%s, %s)" % (name, STATIC_INV[name]["where"], STATIC_INV[name]["type"]))
        for (cname, fields, sums) in classes:
            summ["classes"][cname] = {
                "fields": fields, "shared": bool(SHARED.get(cname)),
                "methods": {s.name: {"public": s.public, "kind": s.kind, "check_first": bool(s.check_first), "file": s.file,
                                     "line": s.decl_line, "accesses": s.accesses, "calls": s.calls, "xcalls": s.xcalls,
                                     "posts": s.posts, "registers": s.registers, "lockuses": s.lockuses,
                                     "destroys": s.destroys, "joins": s.joins, "join": s.join, "rawposts": s.rawposts, "postargs": s.postargs,
                                     "tails": s.tails, "taillocks": s.taillocks, "paths": s.paths, "uses": s.uses,
                                     "regargs": s.regargs, "bodies": s.bodies} for s in sums}}
        d = {"v": v, "summary": summ, "missing": MISSING + [l for l in buf.getvalue().splitlines() if l]}
        for old in glob.glob(os.path.join(WORK, "gen_%s_*.json" % hashlib.sha1(REPO.encode()).hexdigest()[:6])):
            try:
                os.remove(old)
            except OSError:
                pass
        with open(cache + ".tmp%d" % os.getpid(), "w") as f:
            json.dump(d, f)
        os.replace(cache + ".tmp%d" % os.getpid(), cache)
    outdir = os.environ.get("C08_OUT_DIR")       # the check evaluates the report in a private directory (no global Coq lock)
    if outdir:
        os.makedirs(outdir, exist_ok=True)
        write_if_changed(os.path.join(outdir, "Gen_C08.v"), d["v"])
        write_if_changed(os.path.join(outdir, "summary.json"), json.dumps(d["summary"], indent=1, sort_keys=True))
    else:
        write_if_changed(OUT_V, d["v"])
        write_if_changed(os.path.join(WORK, "summary.json"), json.dumps(d["summary"], indent=1, sort_keys=True))
    for m in d["missing"]:
        print(m)
    return 0


if __name__ == "__main__":
    sys.exit(main())
