#!/usr/bin/env python3
"""Translator output for the connection model, read off the clang AST of /repo's current
muduo/net/TcpConnection.cc -> coq/Gen_Conn.v:
  * the guard expression of every if-statement / assert of the functions Conn_Model mirrors
    (sendInLoop, handleWrite, shutdownInLoop, send (StringPiece and Buffer* overloads), shutdown,
    forceClose, forceCloseWithDelay, forceCloseInLoop, handleRead, handleClose, connectEstablished,
    connectDestroyed, startReadInLoop, stopReadInLoop);
  * the integer argument expressions the streams depend on (retrieve(n), append(data+nwrote,
    remaining), remaining = len - nwrote, the size handed to the high-water callback);
  * a few structure facts (booleans): which branch copies the payload, which reference a queued
    forced close holds, the order of disableWriting / shutdownInLoop in the drain path, ...
coq/Conn_GenTie*.v prove each of them equal to what Conn_Model does; a flipped comparison, a dropped
conjunct, another state constant or a changed argument in the source breaks those lemmas directly.
Guards are selected by CONTENT, not by position: the if-statements of a function are walked in source
order; each expected guard is matched to the next if whose condition translates and has exactly the
expected free variables (= the signature the tie lemma applies it to); an if in between is tolerated
only when its branches do nothing but log (LOG_* streams, getters): an added logging `if` does not
disturb the tie, a flipped operator or constant keeps the variables and breaks the link lemma, and
anything else - a guard with other variables, a missing guard, an extra if that assigns, returns or
calls non-logging code - is reported as FALLBACK and the function's definitions are omitted, so the
tie lemmas about it stop compiling (fail closed).
Added 2026-10-02 (finding F-27, findings/C11.md): a single-assignment local copy of errno (`int savedErrno = errno;`,
only read afterwards) is replaced by its initialiser before a guard is matched and translated (lib/errno_order.py), so
`savedErrno == EPIPE || savedErrno == ECONNRESET` and `errno == EPIPE || errno == ECONNRESET` give the same
`sendInLoop_fatal_test (errno : Z)`; WHEN the tested value is taken is the separate generated fact
`sendInLoop_tests_saved_errno` (true iff no log statement lies on the path between sockets::write and the point where
the value tested by an errno guard is captured; link: Properties_C11.C11_errno_captured_before_log)."""
import os, sys, json
sys.path.insert(0, os.path.dirname(os.path.abspath(__file__)))
import cxxast
import errno_order

SRC = "muduo/net/TcpConnection.cc"

# function -> its protocol guards in source order: (name, free variables of the translated condition)
WANT = {
    "TcpConnection::sendInLoop": [("state_test", {"kDisconnected", "state"}),
                                  ("direct_test", {"isWriting", "outputBuffer_readableBytes"}),
                                  ("write_ok_test", {"nwrote"}),
                                  ("wc_test", {"has_writeCompleteCallback", "remaining"}),
                                  ("not_wouldblock_test", {"errno"}),
                                  ("fatal_test", {"errno"}),
                                  ("queue_test", {"faultError", "remaining"}),
                                  ("hwm_test", {"has_highWaterMarkCallback", "highWaterMark", "oldLen", "remaining"}),
                                  ("enable_test", {"isWriting"})],
    "TcpConnection::handleWrite": [("writing_test", {"isWriting"}), ("progress_test", {"n"}),
                                   ("emptied_test", {"outputBuffer_readableBytes"}),
                                   ("wc2_test", {"has_writeCompleteCallback"}),
                                   ("disconnecting_test", {"kDisconnecting", "state"})],
    "TcpConnection::shutdownInLoop": [("notwriting_test", {"isWriting"})],
    "TcpConnection::connectDestroyed": [("destroy_state_test", {"kConnected", "kDisconnecting", "state"})],
    "TcpConnection::forceCloseInLoop": [("forceclose_state_test", {"kConnected", "kDisconnecting", "state"})],
    "TcpConnection::startReadInLoop": [("startread_test", {"isReading", "kDisconnected", "reading", "state"})],
    "TcpConnection::stopReadInLoop": [("stopread_test", {"isReading", "kDisconnected", "reading", "state"})],
    "TcpConnection::shutdown": [("state_test", {"kConnected", "state"})],
    "TcpConnection::forceClose": [("state_test", {"kConnected", "kDisconnecting", "state"})],
    "TcpConnection::forceCloseWithDelay": [("state_test", {"kConnected", "kDisconnecting", "state"})],
    "TcpConnection::handleRead": [("data_test", {"n"}), ("eof_test", {"n"})],
}
# the two guards of the send() overloads that test the state
SEND_GUARDS = [("state_test", {"kConnected", "state"}), ("inloop_test", {"loop_isInLoopThread"})]
# overloads of send() that carry the state test, selected by parameter type
SEND_OVERLOADS = [("send_sp", "StringPiece"), ("send_buf", "Buffer")]
# asserts (ConditionalOperator of the assert macro) : function -> name
ASSERTS = {"TcpConnection::handleClose": "assert_test", "TcpConnection::connectEstablished": "assert_test"}


def kids(n):
    return [c for c in n.get("inner", []) or [] if isinstance(c, dict)]


def methods(qualname):
    """all CXXMethodDecls with a body for the name (every overload)"""
    short = qualname.split("::")[-1]
    res, seen = [], set()
    for d in cxxast.dump(SRC, qualname):
        for n in cxxast.walk(d):
            if n.get("kind") == "CXXMethodDecl" and n.get("name") == short and n.get("id") not in seen \
               and any(c.get("kind") == "CompoundStmt" for c in kids(n)):
                seen.add(n.get("id"))
                res.append(n)
    return res


def ifs(fn):
    return [n for n in cxxast.walk(fn) if n.get("kind") == "IfStmt"]


LOG_CALLS = {"operator<<", "stream", "logLevel", "Logger", "~Logger", "fd", "name", "stateToString", "c_str", "data", "size",
             "readableBytes", "strerror_tl", "getSocketError", "get", "operator->", "operator*", "toIpPort", "toString", None}


def logging_only(ifnode):
    """both branches of the if do nothing but build a log line: no assignment, no ++/--, no return/break/continue/goto,
    no call outside the logging vocabulary"""
    for br in kids(ifnode)[1:]:
        for m in cxxast.walk(br):
            k = m.get("kind")
            if k in ("ReturnStmt", "BreakStmt", "ContinueStmt", "GotoStmt", "CompoundAssignOperator", "CXXThrowExpr", "CXXNewExpr", "CXXDeleteExpr"):
                return False
            if k == "BinaryOperator" and m.get("opcode") in ("=", "+=", "-=", "*=", "/=", "|=", "&=", "^=", "<<=", ">>="):
                return False
            if k == "UnaryOperator" and m.get("opcode") in ("++", "--"):
                return False
            if k in ("CXXMemberCallExpr", "CallExpr", "CXXOperatorCallExpr") and callee_name(m) not in LOG_CALLS:
                return False
    return True


def cond_vars(cond):
    g = cxxast.GExpr()
    try:
        g.tr(cond, "bool")
    except cxxast.Untranslatable:
        return None
    return set(g.vars)


def select(fn, expected):
    """match the expected guards (name, varset) to the ifs of fn in source order; returns ([(name, if-node)], notes) or
    raises Untranslatable (fail closed)"""
    todo = list(expected)
    sel, notes = [], []
    copies = errno_order.errno_copies(fn)
    for n in ifs(fn):
        vs = cond_vars(errno_order.canon(kids(n)[0], copies))
        if todo and vs is not None and vs == todo[0][1]:
            sel.append((todo.pop(0)[0], n))
        elif logging_only(n):
            notes.append("if at line %s only logs: ignored" % n.get("range", {}).get("begin", {}).get("line", "?"))
        else:
            raise cxxast.Untranslatable("unexpected if (variables %s) that is neither the next protocol guard%s nor logging-only"
                                        % (sorted(vs) if vs is not None else "untranslatable",
                                           " (%s %s)" % (todo[0][0], sorted(todo[0][1])) if todo else ""))
    if todo:
        raise cxxast.Untranslatable("guard(s) not found: %s" % ", ".join(nm for nm, _ in todo))
    return sel, notes


def callee_name(call):
    c = cxxast.strip(call["inner"][0])
    return c.get("name") or (c.get("referencedDecl", {}) or {}).get("name")


def calls(node):
    """(callee name, source offset) of every call below node, in AST (= source) order"""
    out = []
    for m in cxxast.walk(node):
        if m.get("kind") in ("CXXMemberCallExpr", "CallExpr", "CXXOperatorCallExpr"):
            out.append((callee_name(m), m))
    return out


def call_named(node, name, nth=0):
    cs = [m for (nm, m) in calls(node) if nm == name]
    if nth >= len(cs):
        raise cxxast.Untranslatable("no call #%d to %s" % (nth, name))
    return cs[nth]


def args_of(call):
    return [c for c in kids(call)[1:] if c.get("kind") != "CXXDefaultArgExpr"]


def zexpr(name, node):
    g = cxxast.GExpr()
    body = g.tr(node, "Z")
    vs = sorted(g.vars.items())
    args = " ".join("(%s : %s)" % (v, t) for v, t in vs)
    return "Definition %s %s : Z :=\n  %s." % (name, args, body)


def has_call(node, name):
    return any(nm == name for (nm, _) in calls(node))


def main():
    out = ["(* GENERATED by lib/gen_Conn.py from muduo/net/TcpConnection.cc of the current sources -- do not edit *)",
           "From Coq Require Import ZArith Bool.", "Local Open Scope Z_scope.", ""]

    def emit_guard(name, cond):
        try:
            txt, _ = cxxast.gallina_guard(name, cond)
            out.append(txt)
        except cxxast.Untranslatable as e:
            print("FALLBACK %s: %s" % (name, e))
            out.append("(* FALLBACK %s: %s *)" % (name, str(e).replace("*)", "")))

    def fact(name, thunk, comment):
        try:
            v = thunk()
            out.append("(* %s *)" % comment.replace("*)", "* )"))
            out.append("Definition %s : bool := %s." % (name, "true" if v else "false"))
        except Exception as e:
            print("FALLBACK %s: %s" % (name, e))
            out.append("(* FALLBACK %s: %s *)" % (name, str(e).replace("*)", "")))

    def expr(name, thunk, comment):
        try:
            txt = zexpr(name, thunk())
            out.append("(* %s *)" % comment.replace("*)", "* )"))
            out.append(txt)
        except Exception as e:
            print("FALLBACK %s: %s" % (name, e))
            out.append("(* FALLBACK %s: %s *)" % (name, str(e).replace("*)", "")))

    # one clang run per function name: do them concurrently (fills cxxast's cache)
    from concurrent.futures import ThreadPoolExecutor
    names_all = list(WANT) + ["TcpConnection::send"] + list(ASSERTS)
    with ThreadPoolExecutor(max_workers=8) as ex:
        list(ex.map(lambda q: cxxast.dump(SRC, q), names_all))

    fns = {}
    sel_ifs = {}
    for fn, expected in WANT.items():
        short = fn.split("::")[1]
        try:
            f = cxxast.function_decl(SRC, fn)
        except Exception as e:
            print("MISSING %s: %s" % (fn, e))
            continue
        try:
            sel, notes = select(f, expected)
        except cxxast.Untranslatable as e:
            print("FALLBACK %s: %s; guards of this function not tied" % (fn, e))
            out.append("(* FALLBACK %s: %s *)" % (fn, str(e).replace("*)", "* )")))
            continue
        for nt in notes:
            out.append("(* NOTE %s: %s *)" % (fn, nt))
        fns[short] = f
        sel_ifs[short] = dict(sel)
        for nm, n in sel:
            emit_guard("%s_%s" % (short, nm), errno_order.canon(kids(n)[0], errno_order.errno_copies(f)))

    # ---- send(): the overloads that test the state
    try:
        ms = methods("TcpConnection::send")
        for prefix, ty in SEND_OVERLOADS:
            cand = [m for m in ms if ty in m.get("type", {}).get("qualType", "")]
            if len(cand) != 1:
                print("FALLBACK TcpConnection::send(%s): overload not found" % ty)
                out.append("(* FALLBACK send(%s) *)" % ty)
                continue
            try:
                sel, notes = select(cand[0], SEND_GUARDS)
            except cxxast.Untranslatable as e:
                print("FALLBACK TcpConnection::send(%s): %s" % (ty, e))
                out.append("(* FALLBACK send(%s): %s *)" % (ty, str(e).replace("*)", "* )")))
                continue
            fns[prefix] = cand[0]
            sel_ifs[prefix] = dict(sel)
            for nm, n in sel:
                emit_guard("%s_%s" % (prefix, nm), kids(n)[0])
        ptr = [m for m in ms if "const void" in m.get("type", {}).get("qualType", "")]
        fact("send_ptr_delegates_to_send", lambda: len(ptr) == 1 and has_call(ptr[0], "send") and not ifs(ptr[0]),
             "send(const void*, int) only forwards to send(StringPiece)")
    except Exception as e:
        print("MISSING TcpConnection::send: %s" % e)

    # ---- asserts
    for fn, nm in ASSERTS.items():
        short = fn.split("::")[1]
        try:
            f = cxxast.function_decl(SRC, fn)
            cos = [n for n in cxxast.walk(f) if n.get("kind") == "ConditionalOperator"]
            tr = []
            for c in cos:
                try:
                    tr.append(cxxast.gallina_guard("%s_%s" % (short, nm), kids(c)[0])[0])
                except cxxast.Untranslatable:
                    pass
            if len(tr) != 1:
                raise cxxast.Untranslatable("%d translatable asserts" % len(tr))
            out.append(tr[0])
        except Exception as e:
            print("FALLBACK %s assert: %s" % (fn, e))
            out.append("(* FALLBACK %s assert: %s *)" % (fn, str(e).replace("*)", "")))

    # ---- argument expressions the byte streams depend on
    out.append("")
    if "sendInLoop" in fns:
        f = fns["sendInLoop"]

        def remaining_rhs():
            for n in cxxast.walk(f):
                if n.get("kind") == "BinaryOperator" and n.get("opcode") == "=":
                    l, r = kids(n)
                    if cxxast.strip(l).get("referencedDecl", {}).get("name") == "remaining":
                        return r
            raise cxxast.Untranslatable("no assignment to remaining")
        expr("sendInLoop_remaining_expr", remaining_rhs, "remaining = <this> after a successful direct write")
        expr("sendInLoop_append_from", lambda: args_of(call_named(f, "append"))[0], "outputBuffer_.append(<this>, ...): `data` stands for the start of the block")
        expr("sendInLoop_append_len", lambda: args_of(call_named(f, "append"))[1], "outputBuffer_.append(..., <this>)")

        def hw_arg():
            for nm, m in calls(f):
                if nm == "bind" and "highWaterMarkCallback_" in json.dumps(kids(m)[1]):
                    return args_of(m)[-1]
            raise cxxast.Untranslatable("no bind(highWaterMarkCallback_, ...)")
        expr("sendInLoop_hwm_arg", hw_arg, "the size handed to the high-water-mark callback")

        def resets():
            i = sel_ifs["sendInLoop"]["write_ok_test"]
            if not i.get("hasElse"):
                raise cxxast.Untranslatable("no else branch of `nwrote >= 0`")
            first = kids(kids(i)[2])[0]
            l, r = kids(first)
            return first.get("kind") == "BinaryOperator" and first.get("opcode") == "=" and \
                cxxast.strip(l).get("referencedDecl", {}).get("name") == "nwrote" and cxxast.const_eval(r) == 0
        fact("sendInLoop_error_resets_nwrote", resets, "the nwrote < 0 branch starts with `nwrote = 0;` for every errno")

        def write_len():
            return args_of(call_named(f, "write"))[2]
        expr("sendInLoop_write_len", write_len, "sockets::write(fd, data, <this>)")
        fact("sendInLoop_tests_saved_errno",
             lambda: errno_order.tests_saved_errno(f, "write", [kids(sel_ifs["sendInLoop"][g])[0] for g in ("not_wouldblock_test", "fatal_test")]),
             "no log statement (muduo::Logger temporary -> user-replaceable output function) lies on the path between sockets::write and the point where "
             "the errno value tested by `!= EWOULDBLOCK` / `== EPIPE || == ECONNRESET` is captured (F-27: the logger's sink may change errno)")
    if "handleWrite" in fns:
        f = fns["handleWrite"]
        expr("handleWrite_retrieve_arg", lambda: args_of(call_named(f, "retrieve"))[0], "outputBuffer_.retrieve(<this>)")

        def order():
            names = [nm for (nm, _) in calls(f)]
            return names.index("retrieve") < names.index("disableWriting") < names.index("shutdownInLoop")
        fact("handleWrite_disables_before_shutdown", order, "drain path: retrieve, then disableWriting, then (if disconnecting) shutdownInLoop")
    if "shutdownInLoop" in fns:
        fact("shutdownInLoop_shuts_write", lambda: has_call(fns["shutdownInLoop"], "shutdownWrite"), "shutdownInLoop calls socket_->shutdownWrite()")
    for prefix, copy_call in (("send_sp", "as_string"), ("send_buf", "retrieveAllAsString")):
        if prefix in fns:
            i1 = sel_ifs[prefix]["inloop_test"]
            then_b, else_b = kids(i1)[1], kids(i1)[2]
            fact("%s_inloop_sends_inline" % prefix, lambda t=then_b: has_call(t, "sendInLoop"), "loop thread: sendInLoop is called inline")
            fact("%s_foreign_copies_payload" % prefix, lambda e=else_b, c=copy_call: has_call(e, c) and has_call(e, "runInLoop") and has_call(e, "bind"),
                 "foreign thread: the functor handed to runInLoop owns a copy of the payload (%s)" % copy_call)
    if "send_buf" in fns:
        i1 = sel_ifs["send_buf"]["inloop_test"]
        fact("send_buf_inloop_empties_caller_buffer", lambda: has_call(kids(i1)[1], "retrieveAll"), "send(Buffer*) on the loop thread empties the caller's buffer")
    if "shutdown" in fns:
        fact("shutdown_runs_in_loop", lambda: has_call(fns["shutdown"], "runInLoop") and has_call(fns["shutdown"], "setState"), "shutdown(): setState + runInLoop(shutdownInLoop)")
    if "forceClose" in fns:
        # strong = the queued functor owns a shared_ptr: bind(..., shared_from_this()) and NOT a weak callback
        # (makeWeakCallback(shared_from_this(), ...) also mentions shared_from_this but holds only a weak_ptr)
        fact("forceClose_queues_strong_ref", lambda: has_call(fns["forceClose"], "queueInLoop") and has_call(fns["forceClose"], "shared_from_this")
             and has_call(fns["forceClose"], "bind") and not has_call(fns["forceClose"], "makeWeakCallback")
             and has_call(fns["forceClose"], "setState"), "forceClose(): setState + queueInLoop(bind(forceCloseInLoop, shared_from_this())), no weak callback")
    if "forceCloseWithDelay" in fns:
        fact("forceCloseWithDelay_holds_weak_ref", lambda: has_call(fns["forceCloseWithDelay"], "makeWeakCallback") and has_call(fns["forceCloseWithDelay"], "runAfter")
             and not has_call(fns["forceCloseWithDelay"], "bind") and has_call(fns["forceCloseWithDelay"], "setState"), "forceCloseWithDelay(): setState + runAfter(makeWeakCallback(shared_from_this(), forceClose))")
    if "handleRead" in fns:
        i0, i1 = sel_ifs["handleRead"]["data_test"], sel_ifs["handleRead"]["eof_test"]
        fact("handleRead_dispatch", lambda: has_call(kids(i0)[1], "operator()") and has_call(kids(i1)[1], "handleClose") and not has_call(kids(i1)[1], "handleError")
             and has_call(kids(i1)[2], "handleError") and not has_call(kids(i1)[2], "handleClose"),
             "handleRead: n > 0 -> message callback; n == 0 -> handleClose; else -> handleError only")

    txt = "\n".join(out) + "\n"
    path = os.path.join(cxxast.ROOT, "coq/Gen_Conn.v")
    if not os.path.exists(path) or open(path).read() != txt:
        open(path, "w").write(txt)


if __name__ == "__main__":
    main()
