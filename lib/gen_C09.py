#!/usr/bin/env python3
"""C09 translator facts -> coq/Gen_C09.v (regenerated from /repo's current sources on every check).

PollPoller_remove_resets_index : bool
    true iff PollPoller::removeChannel unconditionally calls channel->set_index(<negative constant>)
    on its parameter (a direct statement of the function body).  Selects which poll back-end model
    (C09_Model.pp_step ri) describes the tree and therefore which theorem applies (finding F-1).
EPollPoller_add_skips_empty_interest : bool
    true iff every update(EPOLL_CTL_ADD, ..) in EPollPoller::updateChannel sits in the else-branch of an
    `if (channel->isNoneEvent())` whose then-branch only records the channel (set_index(kDeleted), no
    epoll_ctl): a channel with an empty interest is never put into the epoll set (finding F-14).
PollPoller_new_entry_negates_empty : bool
    true iff the new-entry branch of PollPoller::updateChannel stores pfd.fd = -channel->fd()-1 under
    `if (channel->isNoneEvent())` before the push_back and keys channels_ by channel->fd() (F-14).
EPollPoller_grow_factor : Z
    k if EPollPoller::poll contains  if (<numEvents> == events_.size()) events_.resize(events_.size()*k),
    1 if the result array is never grown.  C09_epoll_bounded needs 2 <= k (closed by computation).
EPollPoller_poll_grow_guard (numEvents size : Z) : bool,  EPollPoller_poll_new_size (size : Z) : Z
    the conjunction of the if-conditions on the path to events_.resize(..) in EPollPoller::poll and the
    resize argument, translated term by term (link lemma: C09_Proofs.ep_grow_link).
Channel_has, Channel_handleEventWithGuard_calls (revents : N) : list N
    Channel::handleEventWithGuard: for every invocation of a *Callback_ member, in source order, the
    conjunction of the if-conditions on the path to it, translated from the AST (revents_ & mask tests;
    the macros are already expanded to their integer values); codes close=0 error=1 read=2 write=3.
    Link lemma: C09_Proofs.dispatch_link (generated function = C09_Model.dispatch): editing a mask in
    Channel.cc breaks that obligation.
Channel_handleEvent_runs (tied guard : bool) : bool,  Channel_handleEvent_guard_is_tie_lock : bool
    Channel::handleEvent: the condition under which handleEventWithGuard is called, and whether `guard`
    is assigned from tie_.lock() (link lemma: C09_Proofs.tie_link).
EventLoop_loop_dispatches_snapshot : bool
    EventLoop::loop: the while body clears activeChannels_, fills it by poller_->poll(.., &activeChannels_)
    and then calls handleEvent on EVERY element of it, with no test in the range-for body.
Poller_newDefaultPoller_uses_poll (MUDUO_USE_POLL_set : bool) : bool
    Poller::newDefaultPoller: which class each branch of `if (::getenv("MUDUO_USE_POLL"))` constructs
    (true = PollPoller, false = EPollPoller); link lemma C09_ProofsLoop.default_backend_link.
Poller_hasChannel_is_map_lookup, Poller_entry_points_assert_thread : bool
    Poller::hasChannel returns `it != channels_.end() && it->second == channel` for it = channels_.find(channel->fd());
    updateChannel / removeChannel of both back-ends and hasChannel start with assertInLoopThread().
EventLoop_queueInLoop_wake_guard (isInLoopThread callingPendingFunctors looping : bool) : bool
    the condition under which queueInLoop calls wakeup(), translated from its if-statement
    (link lemma C09_ProofsLoop.queue_wake_link).
EventLoop_loop_pending_after_dispatch, EventLoop_doPendingFunctors_swaps : bool
    the while body of loop() calls doPendingFunctors() after the dispatch loop; doPendingFunctors sets
    callingPendingFunctors_, swaps pendingFunctors_ into a local vector and runs every element of it.
EventLoop_handleRead_reads_wakeupfd / EventLoop_handleRead_read_size / EventLoop_eventfd_semaphore,
TimerQueue_handleRead_reads_timerfd / TimerQueue_readTimerfd_read_size
    the wake-up eventfd and the timerfd are read (8 bytes, unconditionally) by the read callbacks of
    their channels; the eventfd is not created with EFD_SEMAPHORE."""
import os, sys
sys.path.insert(0, os.path.dirname(os.path.abspath(__file__)))
import cxxast


def member_name(call):
    for c in call.get("inner", []):
        if isinstance(c, dict) and c.get("kind") == "MemberExpr":
            return c.get("name"), c
    return None, None


def object_of(member):
    inner = [c for c in member.get("inner", []) if isinstance(c, dict)]
    return cxxast.strip(inner[0]) if inner else {}


def args_of(call):
    inner = [c for c in call.get("inner", []) if isinstance(c, dict)]
    return inner[1:]


def remove_resets_index():
    fn = cxxast.function_decl("muduo/net/poller/PollPoller.cc", "PollPoller::removeChannel")
    params = [c.get("name") for c in fn.get("inner", []) if isinstance(c, dict) and c.get("kind") == "ParmVarDecl"]
    body = cxxast.body(fn)
    note = []
    found = False
    for st in body.get("inner", []):
        if not isinstance(st, dict):
            continue
        node = cxxast.strip(st)
        if node.get("kind") != "CXXMemberCallExpr":
            continue
        name, mem = member_name(node)
        if name != "set_index":
            continue
        obj = object_of(mem)
        if obj.get("kind") == "DeclRefExpr" and obj.get("referencedDecl", {}).get("name") in params:
            try:
                v = cxxast.const_eval(args_of(node)[0])
            except Exception as e:  # noqa
                note.append("set_index on the parameter with a non-constant argument (%s)" % e)
                continue
            if v < 0:
                found = True
                note.append("channel->set_index(%d) is a direct statement of the body" % v)
            else:
                note.append("channel->set_index(%d): not negative" % v)
    if not found:
        # a conditional / nested reset is not accepted as "resets": say so
        for n in cxxast.walk(body):
            if n.get("kind") == "CXXMemberCallExpr":
                name, mem = member_name(n)
                obj = object_of(mem) if mem else {}
                if name == "set_index" and obj.get("kind") == "DeclRefExpr" and obj.get("referencedDecl", {}).get("name") in params:
                    if not any("direct statement" in x or "not negative" in x or "non-constant" in x for x in note):
                        note.append("a set_index on the parameter exists but not as an unconditional statement")
                        print("FALLBACK PollPoller_remove_resets_index: nested set_index on the parameter treated as 'does not reset'")
        if not note:
            note.append("no set_index on the parameter `channel` (only on the moved channel)")
    return found, note


def grow_factor():
    fn = cxxast.function_decl("muduo/net/poller/EPollPoller.cc", "EPollPoller::poll")
    note = []
    for ifs in cxxast.walk(fn):
        if ifs.get("kind") != "IfStmt":
            continue
        inner = [c for c in ifs.get("inner", []) if isinstance(c, dict)]
        if not inner:
            continue
        cond = cxxast.strip(inner[0])
        if not (cond.get("kind") == "BinaryOperator" and cond.get("opcode") == "=="):
            continue
        for n in cxxast.walk(ifs):
            if n.get("kind") != "CXXMemberCallExpr":
                continue
            name, mem = member_name(n)
            if name != "resize":
                continue
            a = args_of(n)
            if not a:
                continue
            e = cxxast.strip(a[0])
            if e.get("kind") == "BinaryOperator" and e.get("opcode") == "*":
                l, r = [cxxast.strip(x) for x in e["inner"]]
                for lit, other in ((l, r), (r, l)):
                    if lit.get("kind") == "IntegerLiteral":
                        sz = [m for m in cxxast.walk(other) if m.get("kind") == "CXXMemberCallExpr" and member_name(m)[0] == "size"]
                        if sz:
                            note.append("if (.. == ..) events_.resize(events_.size()*%s)" % lit["value"])
                            return int(lit["value"]), note
    note.append("no `if (numEvents == events_.size()) events_.resize(events_.size()*k)` found: array never grown")
    return 1, note


def is_call_on_param(node, method, params):
    node = cxxast.strip(node)
    if node.get("kind") != "CXXMemberCallExpr":
        return False
    name, mem = member_name(node)
    if name != method:
        return False
    obj = object_of(mem)
    return obj.get("kind") == "DeclRefExpr" and obj.get("referencedDecl", {}).get("name") in params


def add_skips_empty():
    fn = cxxast.function_decl("muduo/net/poller/EPollPoller.cc", "EPollPoller::updateChannel")
    params = [c.get("name") for c in fn.get("inner", []) if isinstance(c, dict) and c.get("kind") == "ParmVarDecl"]
    note = []

    def is_add(n):
        if n.get("kind") != "CXXMemberCallExpr" or member_name(n)[0] != "update":
            return False
        a = args_of(n)
        try:
            return bool(a) and cxxast.const_eval(a[0]) == 1        # EPOLL_CTL_ADD
        except Exception:  # noqa
            return False
    adds = list(paths_to(cxxast.body(fn), is_add))
    if not adds:
        return False, ["no update(EPOLL_CTL_ADD, ..) in updateChannel"]
    for node, path in adds:
        guards = [(c, pol) for c, pol in path if is_call_on_param(c, "isNoneEvent", params)]
        if not any(pol is False for _, pol in guards):
            return False, ["update(EPOLL_CTL_ADD, channel) is reached whatever channel->isNoneEvent() says"]
    # the then-branch of that test records the channel as kDeleted and does not touch the epoll set
    ok = False
    for n in cxxast.walk(cxxast.body(fn)):
        if n.get("kind") == "IfStmt":
            inner = [c for c in n.get("inner", []) if isinstance(c, dict)]
            if is_call_on_param(inner[0], "isNoneEvent", params) and len(inner) == 3 and any(is_add(m) for m in cxxast.walk(inner[2])):
                then = inner[1]
                has_update = any(m.get("kind") == "CXXMemberCallExpr" and member_name(m)[0] == "update" for m in cxxast.walk(then))
                sets = [m for m in cxxast.walk(then) if m.get("kind") == "CXXMemberCallExpr" and member_name(m)[0] == "set_index"]
                names = [d.get("referencedDecl", {}).get("name") for m in sets for d in cxxast.walk(m) if d.get("kind") == "DeclRefExpr"]
                if not has_update and "kDeleted" in names:
                    ok = True
    if not ok:
        return False, ["the isNoneEvent() branch does not just set_index(kDeleted)"]
    return True, ["if (channel->isNoneEvent()) set_index(kDeleted); else { set_index(kAdded); update(EPOLL_CTL_ADD, channel); }"]


def new_entry_negates():
    fn = cxxast.function_decl("muduo/net/poller/PollPoller.cc", "PollPoller::updateChannel")
    params = [c.get("name") for c in fn.get("inner", []) if isinstance(c, dict) and c.get("kind") == "ParmVarDecl"]
    for st in [c for c in cxxast.body(fn).get("inner", []) if isinstance(c, dict)]:
        if st.get("kind") != "IfStmt":
            continue
        inner = [c for c in st.get("inner", []) if isinstance(c, dict)]
        cond = cxxast.strip(inner[0])
        if not (cond.get("kind") == "BinaryOperator" and cond.get("opcode") == "<" and
                any(is_call_on_param(m, "index", params) for m in cxxast.walk(cond))):
            continue
        negated_before_push, pushed, key_ok = False, False, False
        for x in [c for c in inner[1].get("inner", []) if isinstance(c, dict)]:
            if x.get("kind") == "IfStmt" and not pushed:
                xi = [c for c in x.get("inner", []) if isinstance(c, dict)]
                if is_call_on_param(xi[0], "isNoneEvent", params):
                    for m in cxxast.walk(xi[1]):
                        if m.get("kind") == "BinaryOperator" and m.get("opcode") == "=":
                            lhs, rhs = cxxast.strip(m["inner"][0]), cxxast.strip(m["inner"][1])
                            if lhs.get("kind") == "MemberExpr" and lhs.get("name") == "fd" and object_of(lhs).get("referencedDecl", {}).get("name") == "pfd":
                                # -channel->fd() - 1
                                if rhs.get("kind") == "BinaryOperator" and rhs.get("opcode") == "-":
                                    a, b = cxxast.strip(rhs["inner"][0]), cxxast.strip(rhs["inner"][1])
                                    if a.get("kind") == "UnaryOperator" and a.get("opcode") == "-" and is_call_on_param(a["inner"][0], "fd", params) \
                                       and b.get("kind") == "IntegerLiteral" and int(b["value"]) == 1:
                                        negated_before_push = True
            if any(m.get("kind") == "CXXMemberCallExpr" and member_name(m)[0] == "push_back" for m in cxxast.walk(x)):
                pushed = True
            for m in cxxast.walk(x):
                if m.get("kind") == "CXXOperatorCallExpr":
                    mi = [c for c in m.get("inner", []) if isinstance(c, dict)]
                    if mi and cxxast.strip(mi[0]).get("referencedDecl", {}).get("name") == "operator[]" and len(mi) == 3 \
                       and cxxast.strip(mi[1]).get("name") == "channels_":
                        key_ok = is_call_on_param(mi[2], "fd", params)
        if negated_before_push and pushed and key_ok:
            return True, ["new entry: if (channel->isNoneEvent()) pfd.fd = -channel->fd()-1; before push_back; channels_[channel->fd()] = channel"]
        if negated_before_push and pushed and not key_ok:
            print("FALLBACK PollPoller_new_entry_negates_empty: the entry is negated but channels_ is not keyed by channel->fd(): treated as 'does not negate'")
        return False, ["new entry pushed with pfd.fd = channel->fd() whatever the interest (negated=%s key=%s)" % (negated_before_push, key_ok)]
    return False, ["no `if (channel->index() < 0)` branch found"]


# --------------------------------------------------------------------------- small translators
class Untr(Exception):
    pass


def kids(n):
    return [c for c in n.get("inner", []) or [] if isinstance(c, dict)]


def paths_to(stmt, is_target, path=()):
    """(target node, path) for every target inside stmt, in source order; path = tuple of
    (condition node, polarity) of the enclosing IfStmts.  Loops / switches on the way are refused."""
    k = stmt.get("kind")
    if k == "IfStmt":
        inner = kids(stmt)
        cond = inner[0]
        for t in cxxast.walk(cond):
            if is_target(t):
                raise Untr("target inside an if-condition")
        if len(inner) > 1:
            yield from paths_to(inner[1], is_target, path + ((cond, True),))
        if len(inner) > 2:
            yield from paths_to(inner[2], is_target, path + ((cond, False),))
        return
    if k in ("WhileStmt", "ForStmt", "DoStmt", "CXXForRangeStmt", "SwitchStmt", "ConditionalOperator", "LambdaExpr"):
        if any(is_target(t) for t in cxxast.walk(stmt)):
            raise Untr("target under a %s" % k)
        return
    if is_target(stmt):
        yield stmt, path
        return
    if k == "BinaryOperator" and stmt.get("opcode") in ("&&", "||") and any(is_target(t) for t in cxxast.walk(stmt)):
        raise Untr("target under a short-circuit operator")
    for c in kids(stmt):
        yield from paths_to(c, is_target, path)


def conj(parts):
    parts = [p for p in parts if p != "true"]
    if "false" in parts:
        return "false"
    if not parts:
        return "true"
    r = parts[-1]
    for p in reversed(parts[:-1]):
        r = "(andb %s %s)" % (p, r)
    return r


def disj(parts):
    parts = [p for p in parts if p != "false"]
    if "true" in parts:
        return "true"
    if not parts:
        return "false"
    r = parts[-1]
    for p in reversed(parts[:-1]):
        r = "(orb %s %s)" % (p, r)
    return r


def neg(t):
    if t == "true":
        return "false"
    if t == "false":
        return "true"
    return "(negb %s)" % t


# ---- Channel::handleEventWithGuard: tests on revents_ ------------------------------------------
CB_CODE = {"closeCallback_": 0, "errorCallback_": 1, "readCallback_": 2, "writeCallback_": 3}


def callback_member(node):
    """name of the *Callback_ member a node invokes (std::function::operator()), else None"""
    if node.get("kind") != "CXXOperatorCallExpr":
        return None
    inner = kids(node)
    if len(inner) < 2:
        return None
    callee = cxxast.strip(inner[0])
    if callee.get("kind") != "DeclRefExpr" or callee.get("referencedDecl", {}).get("name") != "operator()":
        return None
    obj = cxxast.strip(inner[1])
    if obj.get("kind") == "MemberExpr" and obj.get("name", "").endswith("Callback_"):
        return obj["name"]
    return None


def rev_int(node):
    """integer expression over revents_: ('const', v) | ('rev', mask or None)"""
    node = cxxast.strip(node)
    try:
        return ("const", cxxast.const_eval(node))
    except Exception:  # noqa
        pass
    k = node.get("kind")
    if k == "MemberExpr" and node.get("name") == "revents_":
        return ("rev", None)
    if k == "BinaryOperator" and node.get("opcode") == "&":
        a, b = rev_int(node["inner"][0]), rev_int(node["inner"][1])
        for x, y in ((a, b), (b, a)):
            if x[0] == "rev" and y[0] == "const":
                m = y[1] if x[1] is None else (x[1] & y[1])
                if m < 0:
                    raise Untr("negative mask")
                return ("rev", m)
    raise Untr("integer expression %s" % k)


def rev_truth(v):
    if v[0] == "const":
        return "true" if v[1] else "false"
    if v[1] is None:
        return "(negb (N.eqb revents 0%N))"
    return "(Channel_has revents %d%%N)" % v[1]


def rev_bool(node):
    node = cxxast.strip(node)
    k = node.get("kind")
    if k == "BinaryOperator":
        op = node["opcode"]
        if op == "&&":
            return conj([rev_bool(node["inner"][0]), rev_bool(node["inner"][1])])
        if op == "||":
            return disj([rev_bool(node["inner"][0]), rev_bool(node["inner"][1])])
        if op in ("==", "!="):
            a, b = rev_int(node["inner"][0]), rev_int(node["inner"][1])
            for x, y in ((a, b), (b, a)):
                if y == ("const", 0):
                    t = rev_truth(x)
                    return t if op == "!=" else neg(t)
            raise Untr("comparison with a non-zero constant")
    if k == "UnaryOperator" and node.get("opcode") == "!":
        return neg(rev_bool(node["inner"][0]))
    if k == "CXXMemberCallExpr":
        callee = cxxast.strip(kids(node)[0])
        if callee.get("kind") == "MemberExpr" and callee.get("name") == "operator bool":
            obj = cxxast.strip(kids(callee)[0]) if kids(callee) else {}
            if obj.get("kind") == "MemberExpr" and obj.get("name", "").endswith("Callback_"):
                return "true"      # "if (xCallback_) xCallback_()": the callback is invoked when set
        raise Untr("call %s" % callee.get("name"))
    return rev_truth(rev_int(node))


# ---- fail closed (review B-4): the path-condition translation below only looks at the IfStmts that enclose a
# target; anything else in the function that can change which targets run -- an early return, a jump, a loop, a
# store to revents_/events_ (or any member other than the ones named), a call of another member function on
# `this` -- is REFUSED: the fact is not emitted and the generator prints FALLBACK, which breaks the obligation.
JUMP_KINDS = ("ReturnStmt", "GotoStmt", "IndirectGotoStmt", "BreakStmt", "ContinueStmt", "WhileStmt", "ForStmt", "DoStmt",
              "CXXForRangeStmt", "SwitchStmt", "CXXThrowExpr", "CXXTryStmt", "LabelStmt", "GCCAsmStmt", "LambdaExpr",
              "CoreturnStmt", "CoawaitExpr")
ASSIGN_OPS = ("=", "+=", "-=", "*=", "/=", "%=", "&=", "|=", "^=", "<<=", ">>=")


class Refused(Exception):
    pass


def refuse_unknown(body, where, stores_ok=(), this_calls_ok=()):
    for n in cxxast.walk(body):
        k = n.get("kind")
        if k in JUMP_KINDS:
            raise Refused("%s: a %s (the translation does not model control flow other than if/else)" % (where, k))
        if k in ("BinaryOperator", "CompoundAssignOperator") and n.get("opcode") in ASSIGN_OPS:
            lhs = cxxast.strip(kids(n)[0])
            if lhs.get("kind") != "DeclRefExpr" and not (lhs.get("kind") == "MemberExpr" and lhs.get("name") in stores_ok):
                raise Refused("%s: a store to %s (%s)" % (where, lhs.get("name") or lhs.get("kind"), n.get("opcode")))
            if lhs.get("kind") == "DeclRefExpr" and lhs.get("referencedDecl", {}).get("kind") not in ("VarDecl",):
                raise Refused("%s: a store to %s" % (where, lhs.get("referencedDecl", {}).get("name")))
        if k == "UnaryOperator" and n.get("opcode") in ("++", "--"):
            x = cxxast.strip(kids(n)[0])
            if x.get("kind") != "DeclRefExpr":
                raise Refused("%s: %s on %s" % (where, n.get("opcode"), x.get("name") or x.get("kind")))
        if k == "CXXMemberCallExpr":
            callee = cxxast.strip(kids(n)[0]) if kids(n) else {}
            if callee.get("kind") == "MemberExpr":
                obj = kids(callee)[0] if kids(callee) else {}
                while obj.get("kind") in ("ImplicitCastExpr", "ParenExpr") and kids(obj):
                    obj = kids(obj)[0]
                if obj.get("kind") == "CXXThisExpr" and callee.get("name") not in this_calls_ok:
                    raise Refused("%s: a call of the member function %s on this object" % (where, callee.get("name")))


def dispatch_calls():
    fn = cxxast.function_decl("muduo/net/Channel.cc", "Channel::handleEventWithGuard")
    refuse_unknown(cxxast.body(fn), "Channel::handleEventWithGuard", stores_ok=("eventHandling_",), this_calls_ok=("reventsToString",))
    rows = []
    for node, path in paths_to(cxxast.body(fn), lambda n: callback_member(n) is not None):
        name = callback_member(node)
        if name not in CB_CODE:
            raise Untr("unknown callback member %s" % name)
        cond = conj([rev_bool(c) if pol else neg(rev_bool(c)) for c, pol in path])
        rows.append((name, CB_CODE[name], cond))
    if not rows:
        raise Untr("no callback invocation found")
    return rows


# ---- Channel::handleEvent: the tie_ guard -------------------------------------------------------
def tie_bool(node):
    node = cxxast.strip(node)
    k = node.get("kind")
    if k == "MemberExpr" and node.get("name") == "tied_":
        return "tied"
    if k == "CXXMemberCallExpr":
        callee = cxxast.strip(kids(node)[0])
        if callee.get("kind") == "MemberExpr" and callee.get("name") == "operator bool":
            obj = cxxast.strip(kids(callee)[0]) if kids(callee) else {}
            if obj.get("kind") == "DeclRefExpr" and obj.get("referencedDecl", {}).get("name") == "guard":
                return "guard"
        raise Untr("call %s" % callee.get("name"))
    if k == "UnaryOperator" and node.get("opcode") == "!":
        return neg(tie_bool(node["inner"][0]))
    if k == "BinaryOperator" and node.get("opcode") in ("&&", "||"):
        f = conj if node["opcode"] == "&&" else disj
        return f([tie_bool(node["inner"][0]), tie_bool(node["inner"][1])])
    raise Untr("condition %s" % k)


def tie_guard():
    fn = cxxast.function_decl("muduo/net/Channel.cc", "Channel::handleEvent")
    refuse_unknown(cxxast.body(fn), "Channel::handleEvent", stores_ok=(), this_calls_ok=("handleEventWithGuard",))

    def is_call(n):
        if n.get("kind") != "CXXMemberCallExpr":
            return False
        name, _ = member_name(n)
        return name == "handleEventWithGuard"
    alts = []
    for node, path in paths_to(cxxast.body(fn), is_call):
        alts.append(conj([tie_bool(c) if pol else neg(tie_bool(c)) for c, pol in path]))
    if not alts:
        raise Untr("handleEventWithGuard is never called")
    from_lock = False
    for n in cxxast.walk(cxxast.body(fn)):
        if n.get("kind") == "CXXOperatorCallExpr":
            inner = kids(n)
            callee = cxxast.strip(inner[0]) if inner else {}
            if callee.get("referencedDecl", {}).get("name") == "operator=" and len(inner) >= 3:
                lhs = cxxast.strip(inner[1])
                if lhs.get("kind") == "DeclRefExpr" and lhs.get("referencedDecl", {}).get("name") == "guard":
                    for m in cxxast.walk(inner[2]):
                        if m.get("kind") == "CXXMemberCallExpr":
                            nm, mem = member_name(m)
                            if nm == "lock" and object_of(mem).get("name") == "tie_":
                                from_lock = True
    return disj(alts), from_lock


# ---- EPollPoller::poll: the growth guard ----------------------------------------------------------
def grow_int(node):
    node = cxxast.strip(node)
    k = node.get("kind")
    if k == "IntegerLiteral":
        return "(%d)" % int(node["value"])
    if k == "DeclRefExpr" and node.get("referencedDecl", {}).get("name") == "numEvents":
        return "numEvents"
    if k == "CallExpr":
        inner = kids(node)
        callee = cxxast.strip(inner[0])
        if callee.get("referencedDecl", {}).get("name") == "implicit_cast" and len(inner) == 2:
            return grow_int(inner[1])
        raise Untr("call %s" % callee.get("referencedDecl", {}).get("name"))
    if k == "CXXMemberCallExpr":
        name, mem = member_name(node)
        if name == "size" and object_of(mem).get("name") == "events_":
            return "size"
        raise Untr("member call %s" % name)
    if k == "BinaryOperator" and node.get("opcode") in ("+", "-", "*"):
        f = {"+": "Z.add", "-": "Z.sub", "*": "Z.mul"}[node["opcode"]]
        return "(%s %s %s)" % (f, grow_int(node["inner"][0]), grow_int(node["inner"][1]))
    raise Untr("integer expression %s" % k)


def grow_bool(node):
    node = cxxast.strip(node)
    k = node.get("kind")
    if k == "BinaryOperator":
        op = node["opcode"]
        if op in ("&&", "||"):
            f = conj if op == "&&" else disj
            return f([grow_bool(node["inner"][0]), grow_bool(node["inner"][1])])
        cmpops = {"<": "Z.ltb", "<=": "Z.leb", ">": "Z.gtb", ">=": "Z.geb", "==": "Z.eqb"}
        if op in cmpops:
            return "(%s %s %s)" % (cmpops[op], grow_int(node["inner"][0]), grow_int(node["inner"][1]))
        if op == "!=":
            return "(negb (Z.eqb %s %s))" % (grow_int(node["inner"][0]), grow_int(node["inner"][1]))
    if k == "UnaryOperator" and node.get("opcode") == "!":
        return neg(grow_bool(node["inner"][0]))
    raise Untr("condition %s" % k)


def grow_guard():
    fn = cxxast.function_decl("muduo/net/poller/EPollPoller.cc", "EPollPoller::poll")

    def is_resize(n):
        if n.get("kind") != "CXXMemberCallExpr":
            return False
        name, mem = member_name(n)
        return name == "resize" and object_of(mem).get("name") == "events_"
    found = list(paths_to(cxxast.body(fn), is_resize))
    if not found:
        return None
    if len(found) > 1:
        raise Untr("more than one events_.resize")
    node, path = found[0]
    guard = conj([grow_bool(c) if pol else neg(grow_bool(c)) for c, pol in path])
    return guard, grow_int(args_of(node)[0])


# ---- EventLoop::loop: dispatch from the activeChannels_ snapshot ------------------------------------
def loop_snapshot():
    fn = cxxast.function_decl("muduo/net/EventLoop.cc", "EventLoop::loop")
    note = []
    wh = [n for n in cxxast.walk(fn) if n.get("kind") == "WhileStmt"]
    if len(wh) != 1:
        return False, ["%d while statements in EventLoop::loop" % len(wh)]
    body = kids(wh[0])[1]
    stage = 0       # 0: expect clear, 1: expect poll(.., &activeChannels_), 2: expect range-for, 3: done
    for st in kids(body):
        node = cxxast.strip(st)
        names = [m.get("name") for m in cxxast.walk(st) if m.get("kind") == "MemberExpr"]
        if stage == 0 and node.get("kind") == "CXXMemberCallExpr" and "clear" in names and "activeChannels_" in names:
            stage = 1
            continue
        if stage == 1 and "poll" in names and "poller_" in names and "activeChannels_" in names:
            stage = 2
            continue
        if stage == 2 and st.get("kind") == "CXXForRangeStmt":
            inner = kids(st)
            rng = []
            for d in inner[:-1]:
                for v in cxxast.walk(d):
                    if v.get("kind") == "VarDecl" and str(v.get("name", "")).startswith("__range"):
                        rng += [m.get("name") for m in cxxast.walk(v) if m.get("kind") == "MemberExpr"]
            if "activeChannels_" not in rng:
                return False, ["the range-for does not iterate over activeChannels_"]
            fbody = inner[-1]
            calls = 0
            for n in cxxast.walk(fbody):
                if n.get("kind") in ("IfStmt", "ContinueStmt", "BreakStmt", "ReturnStmt", "ConditionalOperator", "GotoStmt",
                                     "WhileStmt", "ForStmt", "SwitchStmt"):
                    return False, ["the dispatch loop body contains a %s: not every element of the snapshot is dispatched" % n.get("kind")]
                if n.get("kind") == "CXXMemberCallExpr" and member_name(n)[0] == "handleEvent":
                    calls += 1
            if calls != 1:
                return False, ["%d handleEvent calls in the dispatch loop body" % calls]
            stage = 3
            continue
        if stage in (1, 2) and "activeChannels_" in names and st.get("kind") != "IfStmt":
            return False, ["activeChannels_ is touched between poll and the dispatch loop"]
    if stage != 3:
        return False, ["pattern clear(); poll(.., &activeChannels_); for (channel : activeChannels_) handleEvent not found (stage %d)" % stage]
    return True, ["activeChannels_.clear(); poller_->poll(.., &activeChannels_); for (Channel* channel : activeChannels_) "
                  "{ .. handleEvent(..) } with no test in the loop body"]


# ---- wake-up eventfd / timerfd drained ---------------------------------------------------------------
def direct_read(fn, first_arg_ok):
    """size of an unconditional read(<first arg>, .., size) that is a direct statement of the body"""
    for st in kids(cxxast.body(fn)):
        if st.get("kind") in ("IfStmt", "WhileStmt", "ForStmt", "DoStmt", "SwitchStmt", "CXXForRangeStmt"):
            continue
        for n in cxxast.walk(st):
            if n.get("kind") != "CallExpr":
                continue
            inner = kids(n)
            callee = cxxast.strip(inner[0])
            if callee.get("referencedDecl", {}).get("name") != "read" or len(inner) != 4:
                continue
            if not first_arg_ok(cxxast.strip(inner[1])):
                continue
            return cxxast.const_eval(inner[3])
    return None


def wake_facts():
    out = {}
    fn = cxxast.function_decl("muduo/net/EventLoop.cc", "EventLoop::handleRead")
    sz = direct_read(fn, lambda a: a.get("kind") == "MemberExpr" and a.get("name") == "wakeupFd_")
    out["EventLoop_handleRead_reads_wakeupfd"] = sz is not None
    out["EventLoop_handleRead_read_size"] = sz or 0
    fn = cxxast.function_decl("muduo/net/EventLoop.cc", "createEventfd")
    sem = None
    for n in cxxast.walk(fn):
        if n.get("kind") == "CallExpr":
            inner = kids(n)
            callee = cxxast.strip(inner[0])
            if callee.get("referencedDecl", {}).get("name") == "eventfd" and len(inner) == 3:
                names = [m.get("referencedDecl", {}).get("name") for m in cxxast.walk(inner[2]) if m.get("kind") == "DeclRefExpr"]
                lits = [int(m["value"]) for m in cxxast.walk(inner[2]) if m.get("kind") == "IntegerLiteral"]
                sem = ("EFD_SEMAPHORE" in names) or any(v & 1 for v in lits)
    if sem is None:
        raise Untr("no eventfd(..) call in createEventfd")
    out["EventLoop_eventfd_semaphore"] = sem
    # TimerQueue::handleRead calls readTimerfd(timerfd_, ..) as a direct statement; readTimerfd reads its first parameter
    fn = cxxast.function_decl("muduo/net/TimerQueue.cc", "TimerQueue::handleRead")
    calls = False
    for st in kids(cxxast.body(fn)):
        node = cxxast.strip(st)
        if node.get("kind") == "CallExpr":
            inner = kids(node)
            callee = cxxast.strip(inner[0])
            if callee.get("referencedDecl", {}).get("name") == "readTimerfd" and len(inner) >= 2:
                a = cxxast.strip(inner[1])
                if a.get("kind") == "MemberExpr" and a.get("name") == "timerfd_":
                    calls = True
    fn = cxxast.function_decl("muduo/net/TimerQueue.cc", "readTimerfd")
    params = [c.get("name") for c in kids(fn) if c.get("kind") == "ParmVarDecl"]
    sz = direct_read(fn, lambda a: a.get("kind") == "DeclRefExpr" and params and a.get("referencedDecl", {}).get("name") == params[0])
    out["TimerQueue_handleRead_reads_timerfd"] = bool(calls and sz is not None)
    out["TimerQueue_readTimerfd_read_size"] = sz or 0
    return out


# ---- EventLoop::queueInLoop / doPendingFunctors -----------------------------------------------------
def q_bool(node):
    node = cxxast.strip(node)
    k = node.get("kind")
    if k == "MemberExpr" and node.get("name") in ("callingPendingFunctors_", "looping_"):
        return node["name"].rstrip("_")
    if k == "CXXMemberCallExpr" and member_name(node)[0] == "isInLoopThread":
        return "isInLoopThread"
    if k == "UnaryOperator" and node.get("opcode") == "!":
        return neg(q_bool(node["inner"][0]))
    if k == "BinaryOperator" and node.get("opcode") in ("&&", "||"):
        f = conj if node["opcode"] == "&&" else disj
        return f([q_bool(node["inner"][0]), q_bool(node["inner"][1])])
    raise Untr("condition %s" % k)


def queue_facts():
    fn = cxxast.function_decl("muduo/net/EventLoop.cc", "EventLoop::queueInLoop")

    def is_wakeup(n):
        return n.get("kind") == "CXXMemberCallExpr" and member_name(n)[0] == "wakeup"
    alts = [conj([q_bool(c) if pol else neg(q_bool(c)) for c, pol in path]) for _, path in paths_to(cxxast.body(fn), is_wakeup)]
    guard = disj(alts) if alts else "false"
    # loop(): doPendingFunctors() is a direct statement of the while body, after the dispatch loop
    fn = cxxast.function_decl("muduo/net/EventLoop.cc", "EventLoop::loop")
    wh = [n for n in cxxast.walk(fn) if n.get("kind") == "WhileStmt"]
    after = False
    if len(wh) == 1:
        seen_for = False
        for st in kids(kids(wh[0])[1]):
            if st.get("kind") == "CXXForRangeStmt":
                seen_for = True
            node = cxxast.strip(st)
            if node.get("kind") == "CXXMemberCallExpr" and member_name(node)[0] == "doPendingFunctors":
                after = seen_for
    # doPendingFunctors: callingPendingFunctors_ = true; functors.swap(pendingFunctors_); for (f : functors) f();
    fn = cxxast.function_decl("muduo/net/EventLoop.cc", "EventLoop::doPendingFunctors")
    stage, local = 0, None
    for n in cxxast.walk(cxxast.body(fn)):
        k = n.get("kind")
        if stage == 0 and k == "BinaryOperator" and n.get("opcode") == "=":
            lhs = cxxast.strip(n["inner"][0])
            if lhs.get("name") == "callingPendingFunctors_":
                try:
                    if cxxast.const_eval(n["inner"][1]) == 1:
                        stage = 1
                except Exception:  # noqa
                    pass
        elif stage == 1 and k == "CXXMemberCallExpr" and member_name(n)[0] == "swap":
            names = [m.get("name") for m in cxxast.walk(n) if m.get("kind") == "MemberExpr"]
            refs = [m.get("referencedDecl", {}).get("name") for m in cxxast.walk(n) if m.get("kind") == "DeclRefExpr"]
            if "pendingFunctors_" in names and refs:
                local = [r for r in refs if r and not r.startswith("operator")][0]
                stage = 2
        elif stage == 2 and k == "CXXForRangeStmt":
            rng = []
            for d in kids(n)[:-1]:
                for v in cxxast.walk(d):
                    if v.get("kind") == "VarDecl" and str(v.get("name", "")).startswith("__range"):
                        rng += [m.get("referencedDecl", {}).get("name") for m in cxxast.walk(v) if m.get("kind") == "DeclRefExpr"]
            body = kids(n)[-1]
            bad = [m.get("kind") for m in cxxast.walk(body) if m.get("kind") in ("IfStmt", "ContinueStmt", "BreakStmt", "ReturnStmt")]
            if local in rng and not bad:
                stage = 3
    return guard, after, stage == 3


# ---- Poller::newDefaultPoller, Poller::hasChannel, assertInLoopThread -------------------------------
def new_class(stmt):
    names = [n.get("type", {}).get("qualType", "") for n in cxxast.walk(stmt) if n.get("kind") == "CXXNewExpr"]
    if len(names) != 1:
        raise Untr("%d new-expressions in a branch of newDefaultPoller" % len(names))
    t = names[0]
    if "EPollPoller" in t:
        return "false"
    if "PollPoller" in t:
        return "true"
    raise Untr("unknown poller class %s" % t)


def default_poller():
    fn = cxxast.function_decl("muduo/net/poller/DefaultPoller.cc", "Poller::newDefaultPoller")
    ifs = [st for st in kids(cxxast.body(fn)) if st.get("kind") == "IfStmt"]
    if len(ifs) != 1:
        raise Untr("%d if statements" % len(ifs))
    inner = kids(ifs[0])
    cond = inner[0]
    calls = [n for n in cxxast.walk(cond) if n.get("kind") == "CallExpr"]
    lits = [n.get("value") for n in cxxast.walk(cond) if n.get("kind") == "StringLiteral"]
    refs = [n.get("referencedDecl", {}).get("name") for n in cxxast.walk(cond) if n.get("kind") == "DeclRefExpr"]
    if len(calls) != 1 or "getenv" not in refs or lits != ['"MUDUO_USE_POLL"']:
        raise Untr("condition is not ::getenv(\"MUDUO_USE_POLL\") (calls=%d refs=%s lits=%s)" % (len(calls), refs, lits))
    negated = cxxast.strip(cond).get("kind") == "UnaryOperator" and cxxast.strip(cond).get("opcode") == "!"
    if len(inner) < 3:
        raise Untr("no else branch")
    t, e = new_class(inner[1]), new_class(inner[2])
    if negated:
        t, e = e, t
    return "(if MUDUO_USE_POLL_set then %s else %s)" % (t, e)


def first_is_thread_assert(relfile, qual):
    fn = cxxast.function_decl(relfile, qual)
    st = [c for c in kids(cxxast.body(fn))]
    if not st:
        return False
    node = cxxast.strip(st[0])
    return node.get("kind") == "CXXMemberCallExpr" and member_name(node)[0] == "assertInLoopThread"


def poller_facts():
    asserts = all(first_is_thread_assert(f, q) for f, q in (
        ("muduo/net/poller/EPollPoller.cc", "EPollPoller::updateChannel"), ("muduo/net/poller/EPollPoller.cc", "EPollPoller::removeChannel"),
        ("muduo/net/poller/PollPoller.cc", "PollPoller::updateChannel"), ("muduo/net/poller/PollPoller.cc", "PollPoller::removeChannel"),
        ("muduo/net/Poller.cc", "Poller::hasChannel")))
    fn = cxxast.function_decl("muduo/net/Poller.cc", "Poller::hasChannel")
    params = [c.get("name") for c in kids(fn) if c.get("kind") == "ParmVarDecl"]
    body = cxxast.body(fn)
    finds = [n for n in cxxast.walk(body) if n.get("kind") == "CXXMemberCallExpr" and member_name(n)[0] == "find"]
    find_ok = len(finds) == 1 and object_of(member_name(finds[0])[1]).get("name") == "channels_" and \
        any(is_call_on_param(m, "fd", params) for m in cxxast.walk(finds[0]))
    rets = [n for n in cxxast.walk(body) if n.get("kind") == "ReturnStmt"]
    ret_ok = False
    if len(rets) == 1:
        e = cxxast.strip(kids(rets[0])[0])
        if e.get("kind") == "BinaryOperator" and e.get("opcode") == "&&":
            l, r = e["inner"][0], e["inner"][1]
            lnames = [n.get("referencedDecl", {}).get("name") for n in cxxast.walk(l) if n.get("kind") == "DeclRefExpr"]
            lends = [n for n in cxxast.walk(l) if n.get("kind") == "CXXMemberCallExpr" and member_name(n)[0] == "end"]
            rsecond = [n for n in cxxast.walk(r) if n.get("kind") == "MemberExpr" and n.get("name") == "second"]
            rparam = [n for n in cxxast.walk(r) if n.get("kind") == "DeclRefExpr" and n.get("referencedDecl", {}).get("name") in params]
            rcmp = cxxast.strip(r)
            ret_ok = "operator!=" in lnames and bool(lends) and bool(rsecond) and bool(rparam) and \
                rcmp.get("kind") == "BinaryOperator" and rcmp.get("opcode") == "=="
    return find_ok and ret_ok, asserts


def cmt(s):
    return s.replace("(*", "( *").replace("*)", "* )")


def main():
    out = ["(* GENERATED by lib/gen_C09.py from %s -- do not edit *)" % cxxast.REPO,
           "From Coq Require Import ZArith NArith Bool List.", "Import ListNotations.", ""]
    try:
        ri, note = remove_resets_index()
        for x in note:
            out.append("(* muduo/net/poller/PollPoller.cc removeChannel: %s *)" % x.replace("*)", "* )"))
        out.append("Definition PollPoller_remove_resets_index : bool := %s." % ("true" if ri else "false"))
    except Exception as e:  # noqa
        print("MISSING PollPoller_remove_resets_index (%s)" % e)
        out.append("(* MISSING PollPoller_remove_resets_index: %s *)" % str(e).replace("*)", ""))
    for nm, f, src in (("EPollPoller_add_skips_empty_interest", add_skips_empty, "muduo/net/poller/EPollPoller.cc updateChannel"),
                       ("PollPoller_new_entry_negates_empty", new_entry_negates, "muduo/net/poller/PollPoller.cc updateChannel")):
        try:
            v, note = f()
            for x in note:
                out.append("(* %s: %s *)" % (src, cmt(x)))
            out.append("Definition %s : bool := %s." % (nm, "true" if v else "false"))
        except Exception as e:  # noqa
            print("MISSING %s (%s)" % (nm, e))
            out.append("(* MISSING %s: %s *)" % (nm, cmt(str(e))))
    try:
        k, note = grow_factor()
        for x in note:
            out.append("(* muduo/net/poller/EPollPoller.cc poll: %s *)" % x.replace("*)", "* )"))
        out.append("Definition EPollPoller_grow_factor : Z := (%d)%%Z." % k)
    except Exception as e:  # noqa
        print("MISSING EPollPoller_grow_factor (%s)" % e)
        out.append("(* MISSING EPollPoller_grow_factor: %s *)" % str(e).replace("*)", ""))
    try:
        g = grow_guard()
        if g is None:
            print("FALLBACK EPollPoller_poll_grow_guard: no events_.resize(..) in EPollPoller::poll; guard = false")
            out.append("(* muduo/net/poller/EPollPoller.cc poll: events_ is never resized *)")
            g = ("false", "size")
        else:
            out.append("(* muduo/net/poller/EPollPoller.cc poll: path conditions to events_.resize(..) and its argument *)")
        out.append("Definition EPollPoller_poll_grow_guard (numEvents size : Z) : bool :=\n  %s." % g[0])
        out.append("Definition EPollPoller_poll_new_size (size : Z) : Z :=\n  %s." % g[1])
    except Exception as e:  # noqa
        print("MISSING EPollPoller_poll_grow_guard (%s)" % e)
        out.append("(* MISSING EPollPoller_poll_grow_guard: %s *)" % cmt(str(e)))
    out.append("")
    out.append("Definition Channel_has (r m : N) : bool := negb (N.eqb (N.land r m) 0).")
    try:
        rows = dispatch_calls()
        out.append("(* muduo/net/Channel.cc handleEventWithGuard: callback invocations in source order, each under the")
        out.append("   conjunction of the if-conditions on its path; 0 = closeCallback_, 1 = errorCallback_, 2 = readCallback_, 3 = writeCallback_ *)")
        out.append("Definition Channel_handleEventWithGuard_calls (revents : N) : list N :=\n  (" +
                   ") ++\n  (".join("if %s then [%d%%N] else []" % (cond, code) for _, code, cond in rows) + ").")
    except Refused as e:
        print("FALLBACK Channel_handleEventWithGuard_calls: %s" % e)
        out.append("(* FALLBACK Channel_handleEventWithGuard_calls not emitted: %s *)" % cmt(str(e)))
    except Exception as e:  # noqa
        print("MISSING Channel_handleEventWithGuard_calls (%s)" % e)
        out.append("(* MISSING Channel_handleEventWithGuard_calls: %s *)" % cmt(str(e)))
    try:
        runs, from_lock = tie_guard()
        out.append("(* muduo/net/Channel.cc handleEvent: handleEventWithGuard is called iff .. ; guard = tie_.lock() *)")
        out.append("Definition Channel_handleEvent_runs (tied guard : bool) : bool :=\n  %s." % runs)
        out.append("Definition Channel_handleEvent_guard_is_tie_lock : bool := %s." % ("true" if from_lock else "false"))
    except Refused as e:
        print("FALLBACK Channel_handleEvent_runs: %s" % e)
        out.append("(* FALLBACK Channel_handleEvent_runs not emitted: %s *)" % cmt(str(e)))
    except Exception as e:  # noqa
        print("MISSING Channel_handleEvent_runs (%s)" % e)
        out.append("(* MISSING Channel_handleEvent_runs: %s *)" % cmt(str(e)))
    out.append("")
    try:
        ok, note = loop_snapshot()
        for x in note:
            out.append("(* muduo/net/EventLoop.cc loop: %s *)" % cmt(x))
        out.append("Definition EventLoop_loop_dispatches_snapshot : bool := %s." % ("true" if ok else "false"))
    except Exception as e:  # noqa
        print("MISSING EventLoop_loop_dispatches_snapshot (%s)" % e)
        out.append("(* MISSING EventLoop_loop_dispatches_snapshot: %s *)" % cmt(str(e)))
    try:
        out.append("(* muduo/net/poller/DefaultPoller.cc newDefaultPoller: which poller each branch of if (::getenv(\"MUDUO_USE_POLL\")) constructs *)")
        out.append("Definition Poller_newDefaultPoller_uses_poll (MUDUO_USE_POLL_set : bool) : bool :=\n  %s." % default_poller())
    except Exception as e:  # noqa
        print("MISSING Poller_newDefaultPoller_uses_poll (%s)" % e)
        out.append("(* MISSING Poller_newDefaultPoller_uses_poll: %s *)" % cmt(str(e)))
    try:
        lookup, asserts = poller_facts()
        out.append("(* muduo/net/Poller.cc hasChannel; assertInLoopThread() first in updateChannel/removeChannel (both back-ends) and hasChannel *)")
        out.append("Definition Poller_hasChannel_is_map_lookup : bool := %s." % ("true" if lookup else "false"))
        out.append("Definition Poller_entry_points_assert_thread : bool := %s." % ("true" if asserts else "false"))
    except Exception as e:  # noqa
        print("MISSING Poller_hasChannel_is_map_lookup (%s)" % e)
        out.append("(* MISSING Poller_hasChannel_is_map_lookup: %s *)" % cmt(str(e)))
    try:
        guard, after, swaps = queue_facts()
        out.append("(* muduo/net/EventLoop.cc queueInLoop: wakeup() is called iff ..; loop(): doPendingFunctors() after the dispatch loop; doPendingFunctors *)")
        out.append("Definition EventLoop_queueInLoop_wake_guard (isInLoopThread callingPendingFunctors looping : bool) : bool :=\n  %s." % guard)
        out.append("Definition EventLoop_loop_pending_after_dispatch : bool := %s." % ("true" if after else "false"))
        out.append("Definition EventLoop_doPendingFunctors_swaps : bool := %s." % ("true" if swaps else "false"))
    except Exception as e:  # noqa
        print("MISSING EventLoop_queueInLoop_wake_guard (%s)" % e)
        out.append("(* MISSING EventLoop_queueInLoop_wake_guard: %s *)" % cmt(str(e)))
    try:
        wf = wake_facts()
        out.append("(* muduo/net/EventLoop.cc handleRead / createEventfd, muduo/net/TimerQueue.cc handleRead / readTimerfd *)")
        for k in ("EventLoop_handleRead_reads_wakeupfd", "EventLoop_eventfd_semaphore", "TimerQueue_handleRead_reads_timerfd"):
            out.append("Definition %s : bool := %s." % (k, "true" if wf[k] else "false"))
        for k in ("EventLoop_handleRead_read_size", "TimerQueue_readTimerfd_read_size"):
            out.append("Definition %s : Z := (%d)%%Z." % (k, wf[k]))
    except Exception as e:  # noqa
        print("MISSING EventLoop_handleRead_reads_wakeupfd (%s)" % e)
        out.append("(* MISSING wake-up facts: %s *)" % cmt(str(e)))
    txt = "\n".join(out) + "\n"
    path = os.path.join(cxxast.ROOT, "coq/Gen_C09.v")
    old = open(path).read() if os.path.exists(path) else None
    if old != txt:
        open(path, "w").write(txt)
    return 0


if __name__ == "__main__":
    sys.exit(main())
