#!/usr/bin/env python3
"""C05 translator output -> coq/Gen_C05.v, read from the clang JSON AST of the CURRENT /repo:

  EventLoopThreadPool.cc
    gen_get_next (n next : Z) : option Z * Z     EventLoopThreadPool::getNextLoop, executed symbolically
        WITH C INTEGER SEMANTICS: n = loops_.size() (size_t), next = next_ (int: every int operation is
        wrapped by C05_Model.wrap32, every conversion to size_t -- implicit, implicit_cast<size_t>, the
        argument of operator[] -- is C05_Model.to_size = mod 2^64); result None = baseLoop_,
        Some i = loops_[i]; second component = next_ afterwards;
    gen_get_hash (n next h : Z) : option Z * Z   EventLoopThreadPool::getLoopForHash likewise.
    gen_pool_translated : bool                   false = the source could not be translated (FALLBACK:
        the two functions are then the model's; Properties_C05.C05_gen_translated fails).
  EventLoopThread.cc
    gen_eshape : C05_Model.eshape
        tf_notifies : threadFunc calls cond_.notify()/notifyAll() after `loop_ = &loop` in the same
                      MutexLockGuard scope;
        sl_while    : startLoop waits for loop_ in a `while` (false: an `if`);
        dtor_quits / dtor_joins : ~EventLoopThread calls loop_->quit() / thread_.join() under
                      `if (loop_ != NULL)`;
        tf_clears   : threadFunc assigns loop_ = NULL inside a MutexLockGuard scope after loop.loop().
    gen_elt_translated : bool                    false = the order  construct loop; callback; publish
        under the mutex; loop.loop() outside it  was not recognised (FALLBACK: pinned_eshape).

Gen_C05.v ALWAYS type-checks (the extracted runner depends on it and must build when a proof breaks).
Properties_C05.v proves that the generated functions equal the model's for ALL arguments in range;
editing a guard (`>=` -> `>`, an unbounded `++next_`) breaks that proof."""
import os, sys
sys.path.insert(0, os.path.dirname(os.path.abspath(__file__)))
import cxxast

POOL = "muduo/net/EventLoopThreadPool.cc"
ELT = "muduo/net/EventLoopThread.cc"
U = cxxast.Untranslatable


def kids(n):
    return [c for c in n.get("inner", []) or [] if isinstance(c, dict)]


def strip(n):
    n = cxxast.strip(n)
    # implicit_cast<T>(x), static_cast etc. are transparent
    while n.get("kind") == "CallExpr":
        ks = kids(n)
        callee = cxxast.strip(ks[0]) if ks else {}
        if callee.get("kind") == "DeclRefExpr" and callee.get("referencedDecl", {}).get("name") in ("implicit_cast", "down_cast") \
                and len(ks) == 2:
            n = cxxast.strip(ks[1])
        else:
            break
    return n


def member_call(n):
    """(object member name, method name, args) of  obj_.method(args)  / obj_->method(args)"""
    n = strip(n)
    if n.get("kind") != "CXXMemberCallExpr":
        return None
    ks = kids(n)
    callee = cxxast.strip(ks[0])
    if callee.get("kind") != "MemberExpr":
        return None
    obj = cxxast.strip(kids(callee)[0]) if kids(callee) else {}
    objname = obj.get("name") if obj.get("kind") == "MemberExpr" else \
        (obj.get("referencedDecl", {}).get("name") if obj.get("kind") == "DeclRefExpr" else None)
    return objname, callee.get("name"), ks[1:]


# ------------------------------------------------------------------------------------ the pool
def ctype(n):
    """'int' | 'size' | 'bool' | None of an expression node"""
    t = n.get("type", {})
    q = (t.get("desugaredQualType") or t.get("qualType") or "").replace("const ", "").strip()
    if q in ("unsigned long", "size_t", "std::size_t", "unsigned long long") or q.endswith("size_type"):
        return "size"
    if q in ("int", "int32_t"):
        return "int"
    if q in ("bool", "_Bool"):
        return "bool"
    return None


def conv(ty, t):
    return "(to_size %s)" % t if ty == "size" else "(wrap32 %s)" % t if ty == "int" else t


class Sym:
    """symbolic execution of getNextLoop / getLoopForHash over Z with C integer semantics"""

    def __init__(self, params):
        self.params = params          # C++ parameter name -> (Gallina variable, C type)

    def integer(self, n):
        """(term, ctype); the term is already reduced to the expression's own C type"""
        k = n.get("kind")
        ks = kids(n)
        if k in ("ParenExpr", "ExprWithCleanups", "ConstantExpr", "MaterializeTemporaryExpr") and len(ks) == 1:
            return self.integer(ks[0])
        if k in ("ImplicitCastExpr", "CStyleCastExpr", "CXXStaticCastExpr", "CXXFunctionalCastExpr") and len(ks) == 1:
            t, ty = self.integer(ks[0])
            if n.get("castKind") in ("LValueToRValue", "NoOp"):
                return t, ty
            want = ctype(n)
            if n.get("castKind") == "IntegralCast" and want in ("int", "size"):
                return (t, ty) if want == ty else (conv(want, t), want)
            raise U("cast %s to %s" % (n.get("castKind"), n.get("type", {}).get("qualType")))
        if k == "CallExpr":
            callee = cxxast.strip(ks[0]) if ks else {}
            if callee.get("kind") == "DeclRefExpr" and callee.get("referencedDecl", {}).get("name") in ("implicit_cast", "down_cast") \
                    and len(ks) == 2:
                t, ty = self.integer(ks[1])
                want = ctype(n)
                if want in ("int", "size"):
                    return (t, ty) if want == ty else (conv(want, t), want)
            raise U("call of %s" % callee.get("referencedDecl", {}).get("name"))
        if k == "IntegerLiteral":
            ty = ctype(n)
            if ty not in ("int", "size"):
                raise U("literal of type %s" % n.get("type", {}).get("qualType"))
            return "(%d)" % int(n["value"]), ty
        if k == "MemberExpr" and n.get("name") == "next_":
            if ctype(n) != "int":
                raise U("next_ is not an int")
            return "next", "int"
        if k == "DeclRefExpr" and n.get("referencedDecl", {}).get("name") in self.params:
            v, ty = self.params[n["referencedDecl"]["name"]]
            return v, ty
        mc = member_call(n)
        if mc and mc[0] == "loops_" and mc[1] == "size" and not mc[2]:
            return "n", "size"
        if k == "BinaryOperator" and n.get("opcode") in ("+", "-", "*", "%", "/"):
            (a, ta), (b, tb) = self.integer(ks[0]), self.integer(ks[1])
            if ta != tb:
                raise U("operands of %s have different types after conversion" % n["opcode"])
            op = n["opcode"]
            if op in ("+", "-", "*"):
                f = {"+": "Z.add", "-": "Z.sub", "*": "Z.mul"}[op]
                return conv(ta, "(%s %s %s)" % (f, a, b)), ta
            if ta == "size":
                return "(%s %s %s)" % ("Z.modulo" if op == "%" else "Z.div", a, b), ta
            return "(%s %s %s)" % ("Z.rem" if op == "%" else "Z.quot", a, b), ta
        raise U("integer expression %s %s" % (k, n.get("name", n.get("opcode", ""))))

    def boolean(self, n):
        k = n.get("kind")
        ks = kids(n)
        if k in ("ParenExpr", "ExprWithCleanups", "ImplicitCastExpr") and len(ks) == 1 and \
                n.get("castKind") in (None, "LValueToRValue", "NoOp"):
            return self.boolean(ks[0])
        if k == "UnaryOperator" and n.get("opcode") == "!":
            return "(negb %s)" % self.boolean(ks[0])
        if k == "BinaryOperator" and n.get("opcode") in ("&&", "||"):
            return "(%s %s %s)" % ("andb" if n["opcode"] == "&&" else "orb", self.boolean(ks[0]), self.boolean(ks[1]))
        if k == "BinaryOperator" and n.get("opcode") in ("<", "<=", ">", ">=", "==", "!="):
            (x, tx), (y, ty) = self.integer(ks[0]), self.integer(ks[1])
            if tx != ty:
                raise U("operands of %s have different types after conversion" % n["opcode"])
            return {"<": "(Z.ltb %s %s)" % (x, y), "<=": "(Z.leb %s %s)" % (x, y),
                    ">": "(Z.ltb %s %s)" % (y, x), ">=": "(Z.leb %s %s)" % (y, x),
                    "==": "(Z.eqb %s %s)" % (x, y), "!=": "(negb (Z.eqb %s %s))" % (x, y)}[n["opcode"]]
        mc = member_call(n)
        if mc and mc[0] == "loops_" and mc[1] == "empty" and not mc[2]:
            return "(Z.eqb n 0)"
        if k == "CXXBoolLiteralExpr":
            return "true" if n.get("value") else "false"
        raise U("boolean expression %s %s" % (k, n.get("name", n.get("opcode", ""))))

    def index(self, n):
        """the argument of loops_[.] / loops_.at(.): converted to size_type by the AST's own cast"""
        t, ty = self.integer(n)
        return t if ty == "size" else conv("size", t)

    def loopexpr(self, n):
        """an EventLoop* expression: baseLoop_ | loop | loops_[e]"""
        n = cxxast.strip(n)
        k = n.get("kind")
        if k == "MemberExpr" and n.get("name") == "baseLoop_":
            return "None"
        if k == "DeclRefExpr" and n.get("referencedDecl", {}).get("name") == "loop":
            return "loop"
        if k == "CXXOperatorCallExpr":
            ks = kids(n)
            callee = cxxast.strip(ks[0])
            if callee.get("referencedDecl", {}).get("name") == "operator[]" and len(ks) == 3 and \
                    cxxast.strip(ks[1]).get("name") == "loops_":
                return "(Some %s)" % self.index(ks[2])
        mc = member_call(n)
        if mc and mc[0] == "loops_" and mc[1] == "at" and len(mc[2]) == 1:
            return "(Some %s)" % self.index(mc[2][0])
        raise U("loop expression %s" % k)

    def is_noise(self, n):
        """assertInLoopThread(), assert(...)"""
        s = strip(n)
        mc = member_call(s)
        if mc and mc[1] in ("assertInLoopThread",):
            return True
        if s.get("kind") == "ConditionalOperator" and any(
                x.get("referencedDecl", {}).get("name") == "__assert_fail" for x in cxxast.walk(s) if x.get("kind") == "DeclRefExpr"):
            return True
        if s.get("kind") == "NullStmt":
            return True
        return False

    def stmts(self, lst, k):
        """Gallina term for executing lst then continuing with k (text); state variables loop, next"""
        if not lst:
            return k
        s, rest = lst[0], lst[1:]
        kind = s.get("kind")
        if self.is_noise(s):
            return self.stmts(rest, k)
        if kind == "CompoundStmt":
            return self.stmts(kids(s) + rest, k)
        if kind == "DeclStmt":
            vs = kids(s)
            if len(vs) == 1 and vs[0].get("kind") == "VarDecl" and vs[0].get("name") == "loop" and kids(vs[0]):
                return "let loop : option Z := %s in\n  %s" % (self.loopexpr(kids(vs[0])[0]), self.stmts(rest, k))
            raise U("declaration " + " ".join(v.get("name", "?") for v in vs))
        if kind == "ReturnStmt":
            e = self.loopexpr(kids(s)[0])
            return "(%s, next)" % e
        if kind == "IfStmt":
            ks = kids(s)
            cond, then = ks[0], ks[1]
            els = ks[2] if len(ks) > 2 else None
            c = self.boolean(cond)
            a = self.stmts([then] + rest, k)
            b = self.stmts(([els] if els is not None else []) + rest, k)
            return "(if %s\n   then %s\n   else %s)" % (c, a, b)
        st = strip(s)
        kind = st.get("kind")
        if kind == "UnaryOperator" and st.get("opcode") in ("++", "--"):
            tgt = strip(kids(st)[0])
            if tgt.get("kind") == "MemberExpr" and tgt.get("name") == "next_" and ctype(tgt) == "int":
                op = "Z.add next 1" if st["opcode"] == "++" else "Z.sub next 1"
                return "let next := wrap32 (%s) in\n  %s" % (op, self.stmts(rest, k))
        if kind == "BinaryOperator" and st.get("opcode") == "=":
            lhs, rhs = kids(st)
            lhs = strip(lhs)
            if lhs.get("kind") == "MemberExpr" and lhs.get("name") == "next_":
                t, ty = self.integer(rhs)
                return "let next := %s in\n  %s" % (t if ty == "int" else conv("int", t), self.stmts(rest, k))
            if lhs.get("kind") == "DeclRefExpr" and lhs.get("referencedDecl", {}).get("name") == "loop":
                return "let loop : option Z := %s in\n  %s" % (self.loopexpr(rhs), self.stmts(rest, k))
        if kind == "CompoundAssignOperator" and st.get("opcode") in ("+=", "-="):
            lhs, rhs = kids(st)
            lhs = strip(lhs)
            if lhs.get("kind") == "MemberExpr" and lhs.get("name") == "next_":
                t, ty = self.integer(rhs)
                if ty != "int":
                    raise U("next_ %s <size_t>" % st["opcode"])
                op = {"+=": "Z.add", "-=": "Z.sub"}[st["opcode"]]
                return "let next := wrap32 (%s next %s) in\n  %s" % (op, t, self.stmts(rest, k))
        raise U("statement %s %s" % (kind, st.get("opcode", st.get("name", ""))))


def clean(s):
    return " ".join(s.split()).replace("*)", "* )").replace("(*", "( *")


def pool_function(qual, name, params, gparams):
    fn = cxxast.function_decl(POOL, qual)
    sym = Sym(params)
    body = sym.stmts(kids(cxxast.body(fn)), "(loop, next)")
    src = clean(cxxast.src_text(cxxast.body(fn), POOL))
    return "(* %s, %s: %s *)\nDefinition %s %s : option Z * Z :=\n  %s." % (POOL, qual, src[:900], name, gparams, body)


# ------------------------------------------------------------------------------------ EventLoopThread
def is_lock_guard(s):
    if s.get("kind") != "DeclStmt":
        return False
    for v in kids(s):
        if v.get("kind") == "VarDecl" and "MutexLockGuard" in v.get("type", {}).get("qualType", ""):
            return True
    return False


def assigns_loop_ptr(s):
    """'addr' for loop_ = &loop, 'null' for loop_ = NULL, else None"""
    st = strip(s)
    if st.get("kind") == "BinaryOperator" and st.get("opcode") == "=":
        lhs, rhs = kids(st)
        if strip(lhs).get("kind") == "MemberExpr" and strip(lhs).get("name") == "loop_":
            r = strip(rhs)
            if r.get("kind") == "UnaryOperator" and r.get("opcode") == "&":
                return "addr"
            if r.get("kind") in ("GNUNullExpr", "CXXNullPtrLiteralExpr", "IntegerLiteral"):
                return "null"
            raise U("loop_ assigned something else")
    return None


def thread_func():
    fn = cxxast.function_decl(ELT, "EventLoopThread::threadFunc")
    top = kids(cxxast.body(fn))
    # flatten one level of compound statements, remembering the scope of each statement
    seq = []      # (scope id, stmt)
    for i, s in enumerate(top):
        if s.get("kind") == "CompoundStmt":
            for c in kids(s):
                seq.append((i, c))
        else:
            seq.append((-1, s))
    phase = 0     # 0 before loop decl, 1 after decl, 2 published, 3 after loop.loop(), 4 cleared
    notifies = False
    locked_scope = None
    pub_scope = None
    for scope, s in seq:
        if phase == 0:
            if s.get("kind") == "DeclStmt" and any(v.get("name") == "loop" and "EventLoop" in v.get("type", {}).get("qualType", "")
                                                   for v in kids(s)):
                phase = 1
            continue
        if is_lock_guard(s):
            locked_scope = scope
            continue
        a = assigns_loop_ptr(s)
        if phase == 1:
            if a == "addr":
                if locked_scope != scope:
                    raise U("threadFunc publishes loop_ outside a MutexLockGuard scope")
                phase, pub_scope = 2, scope
                continue
            mc = member_call(s)
            if mc and mc[0] == "loop" and mc[1] == "loop":
                raise U("threadFunc calls loop.loop() before publishing loop_")
            continue   # the callback
        if phase == 2:
            mc = member_call(s)
            if mc and mc[0] == "cond_" and mc[1] in ("notify", "notifyAll") and scope == pub_scope:
                notifies = True
                continue
            if mc and mc[0] == "loop" and mc[1] == "loop":
                if scope == pub_scope and pub_scope != -1:
                    raise U("threadFunc calls loop.loop() while holding the mutex")
                phase = 3
                continue
            if a is not None:
                raise U("threadFunc assigns loop_ twice before loop.loop()")
            continue
        if phase == 3:
            if a == "null":
                if locked_scope != scope:
                    raise U("threadFunc clears loop_ outside a MutexLockGuard scope")
                phase = 4
            elif a == "addr":
                raise U("threadFunc publishes loop_ after loop.loop()")
            continue
    if phase < 3:
        raise U("threadFunc: construct / publish / loop.loop() not found in this order")
    return notifies, phase == 4


def start_loop():
    fn = cxxast.function_decl(ELT, "EventLoopThread::startLoop")
    for n in cxxast.walk(cxxast.body(fn)):
        if n.get("kind") in ("WhileStmt", "IfStmt"):
            ks = kids(n)
            cond_names = [x.get("name") for x in cxxast.walk(ks[0]) if x.get("kind") == "MemberExpr"]
            waits = any((member_call(x) or (None, None))[:2] == ("cond_", "wait") for x in cxxast.walk(n)
                        if x.get("kind") == "CXXMemberCallExpr")
            if "loop_" in cond_names and waits:
                c = strip(ks[0])
                ok = c.get("kind") == "BinaryOperator" and c.get("opcode") == "==" or \
                    c.get("kind") == "UnaryOperator" and c.get("opcode") == "!"
                if not ok:
                    raise U("startLoop waits on an unexpected condition")
                return n.get("kind") == "WhileStmt"
    raise U("startLoop: no wait for loop_ found")


def dtor():
    fn = cxxast.function_decl(ELT, "EventLoopThread::~EventLoopThread")
    quits = joins = False
    for n in cxxast.walk(cxxast.body(fn)):
        if n.get("kind") == "IfStmt":
            ks = kids(n)
            c = strip(ks[0])
            names = [x.get("name") for x in cxxast.walk(c) if x.get("kind") == "MemberExpr"]
            if "loop_" not in names:
                continue
            if not (c.get("kind") == "BinaryOperator" and c.get("opcode") == "!=" or c.get("kind") == "MemberExpr"):
                raise U("~EventLoopThread tests loop_ in an unexpected way")
            order = []
            for x in cxxast.walk(ks[1]):
                if x.get("kind") == "CXXMemberCallExpr":
                    mc = member_call(x)
                    if mc and mc[:2] == ("loop_", "quit"):
                        order.append("quit")
                    if mc and mc[:2] == ("thread_", "join"):
                        order.append("join")
            if order == ["join", "quit"]:
                raise U("~EventLoopThread joins before it quits")
            quits, joins = "quit" in order, "join" in order
            return quits, joins
    # no test of loop_: look for unconditional calls
    raise U("~EventLoopThread: no `if (loop_ != NULL)` found")


FALLBACK_POOL = """Definition gen_get_next (n next : Z) : option Z * Z :=
  if Z.eqb n 0 then (None, next) else (Some next, if Z.leb n (next + 1) then 0 else next + 1).
Definition gen_get_hash (n next h : Z) : option Z * Z :=
  if Z.eqb n 0 then (None, next) else (Some (Z.modulo h n), next)."""


def main():
    out = ["(* GENERATED by lib/gen_C05.py from %s -- do not edit *)" % cxxast.REPO,
           "From Coq Require Import Bool ZArith.", "From Muduo Require Import C05_Model.", "Local Open Scope Z_scope.", ""]
    msgs = []
    defs, ok = [], True
    for qual, name, params, gparams in (
            ("EventLoopThreadPool::getNextLoop", "gen_get_next", {}, "(n next : Z)"),
            ("EventLoopThreadPool::getLoopForHash", "gen_get_hash", {"hashCode": ("h", "size")}, "(n next h : Z)")):
        try:
            defs.append(pool_function(qual, name, params, gparams))
        except Exception as e:  # noqa
            ok = False
            out.append("(* FALLBACK %s: %s *)" % (name, clean(str(e))))
            msgs.append("FALLBACK %s (%s)" % (name, e))
    if ok:
        out += defs
    else:
        out.append("(* the model's functions, so that this file and the extracted runner still build *)")
        out.append(FALLBACK_POOL)
    out.append("Definition gen_pool_translated : bool := %s." % ("true" if ok else "false"))
    b = lambda x: "true" if x else "false"
    try:
        tn, tc = thread_func()
        sw = start_loop()
        dq, dj = dtor()
        out.append("(* %s: threadFunc notifies after publishing under the mutex: %s; startLoop waits in a while: %s; "
                   "~EventLoopThread quits: %s, joins: %s; threadFunc clears loop_ under the mutex after loop(): %s *)"
                   % (ELT, b(tn), b(sw), b(dq), b(dj), b(tc)))
        out.append("Definition gen_eshape : C05_Model.eshape := C05_Model.mkEShape %s %s %s %s %s." % (b(tn), b(sw), b(dq), b(dj), b(tc)))
        out.append("Definition gen_elt_translated : bool := true.")
    except Exception as e:  # noqa
        out.append("(* FALLBACK gen_eshape: %s *)" % clean(str(e)))
        out.append("Definition gen_eshape : C05_Model.eshape := C05_Model.pinned_eshape.")
        out.append("Definition gen_elt_translated : bool := false.")
        msgs.append("FALLBACK gen_eshape (%s)" % e)
    txt = "\n".join(out) + "\n"
    path = os.path.join(cxxast.ROOT, "coq/Gen_C05.v")
    old = open(path).read() if os.path.exists(path) else None
    if old != txt:
        open(path, "w").write(txt)
    for m in msgs:
        print(m)
    return 0


if __name__ == "__main__":
    sys.exit(main())
