#!/usr/bin/env python3
"""Assemble MANIFEST.json from lib/manifest/*.json fragments (one per property) + header."""
import json, os, glob, sys
ROOT = os.path.dirname(os.path.dirname(os.path.abspath(__file__)))
hdr = json.load(open(os.path.join(ROOT, "lib/manifest/_header.json")))
checks, na = [], []
props = [json.loads(l)["id"] for l in open(os.path.join(ROOT, "properties.jsonl"))]
for p in props:
    f = os.path.join(ROOT, "lib/manifest/%s.json" % p)
    if os.path.exists(f):
        d = json.load(open(f))
        if "reason" in d and "quick_cmd" not in d:
            na.append({"property_id": p, "reason": d["reason"]})
            continue
        d.setdefault("property_id", p)
        d.setdefault("quick_cmd", "bin/check %s --tier quick" % p)
        d.setdefault("thorough_cmd", "bin/check %s --tier thorough" % p)
        d.setdefault("evidence_file", "/verif/evidence/%s.json" % p)
        d.setdefault("replay_cmd_template", "bin/check %s --replay {path}" % p)
        checks.append(d)
    else:
        na.append({"property_id": p, "reason": "check not built yet (work in progress; see DESIGN.md section 5 for the plan)"})
hdr["checks"] = checks
hdr["not_applicable"] = na
json.dump(hdr, open(os.path.join(ROOT, "MANIFEST.json"), "w"), indent=1)
print("MANIFEST.json: %d checks, %d not claimed" % (len(checks), len(na)))
